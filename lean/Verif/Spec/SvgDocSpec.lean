import Verif.Spec.SvgDocTok
import Verif.Spec.Xml
import Verif.Spec.SvgPath
import Verif.Spec.CssUnits
/-!
# C05B — specification side: the structural clause of property C05 as a decidable relation on token streams

"The element tree and all functional attributes (no-namespace, `xml:` and `xlink:`) are kept; only comments,
editor metadata (`metadata` elements, foreign-namespace elements/attributes) and default-valued root attributes
disappear; every length, number, viewBox, colour and style value keeps its value."

Independent of the model of the implementation (`Model/SvgDoc.lean`): nothing here mentions what `svg.go` does.
Reused specifications (read-only): `Verif.Spec.Xml` (XML 1.0 §3.3.3 attribute-value normalisation, references;
C06), `Verif.Spec.SvgPath.lexNumber` / `numVal` (SVG 1.1 number grammar and exact value; C05),
`Verif.Spec.CssUnits.color` (keyword / `#rgb` / `#rrggbb` ↦ sRGB triple over the independent colour table; C17).

Layers:
* XML layer — `aval`: the value of an attribute token: references decoded, literal white space ↦ space, runs of
  spaces collapsed, leading/trailing spaces dropped (the normalisation XML 1.0 prescribes for tokenised types;
  SVG presentation attributes and lists do not distinguish runs of white space).
* typed layer — `valRel`: dimensions by exact numeric value and canonical unit, viewBox number-wise, colours as
  sRGB triples, identifiers / references / `version` literally, `style` and `d` opaque (their values are the
  subject of C04/C11 and of the path half of C05), everything else literally unless it is a dimension.
* structure — `essIn`: the element events of the input the property speaks about, each marked *optional* when
  the property allows it to disappear; `evsOut`: all element events of the output; `structRel`: the expected
  events occur in the output in order with related values, and nothing else occurs.
-/
namespace Verif.Spec.SvgDocSpec
open Verif.SvgDoc (STok)
open Verif.Spec.Xml (DCh normAttr unquote)

/-! ## XML layer -/

def isSp (d : DCh) : Bool := d == DCh.c 32

/-- runs of spaces collapsed to one space; `p` = the previous item was a space (start with `true`: leading
spaces vanish) -/
def collapseSp : Bool → List DCh → List DCh
  | _, [] => []
  | p, d :: r =>
    if isSp d then (if p then collapseSp true r else d :: collapseSp true r)
    else d :: collapseSp false r

def dropLastSp (l : List DCh) : List DCh :=
  match l.getLast? with
  | some d => if isSp d then l.dropLast else l
  | none => l

/-- normalised value of a list of decoded characters -/
def normSp (l : List DCh) : List DCh := dropLastSp (collapseSp true l)

/-- value of an attribute token (`none`: no value / not a quoted literal — not well-formed XML) -/
def aval (v : Option (List Char)) : Option (List DCh) :=
  match v with
  | none => none
  | some raw =>
    match unquote raw with
    | some (_, body) => some (normSp (normAttr body))
    | none => none

/-- the value as plain ASCII text, when it consists of ASCII characters only -/
def plain : List DCh → Option (List Char)
  | [] => some []
  | DCh.c n :: r => if n < 128 then (plain r).map (Char.ofNat n :: ·) else none
  | _ :: _ => none

/-! ## typed layer -/

def isLetter (c : Char) : Bool := ('a' ≤ c && c ≤ 'z') || ('A' ≤ c && c ≤ 'Z')
def lowerC (c : Char) : Char := if 'A' ≤ c && c ≤ 'Z' then Char.ofNat (c.toNat + 32) else c

/-- unit of a dimension: nothing, `%`, or ASCII letters -/
def isUnit (u : List Char) : Bool := u == [] || u == ['%'] || u.all isLetter

/-- user units: `px` is the unit of a unit-less length; units are compared case-insensitively -/
def canonUnit (u : List Char) : List Char :=
  let l := u.map lowerC
  if l == ['p', 'x'] then [] else l

/-- number (SVG 1.1 grammar) followed by a unit: exact value and unit -/
def dimOf (s : List Char) : Option (Rat × List Char) :=
  match Verif.Spec.SvgPath.lexNumber s with
  | some (lexeme, rest) => if isUnit rest then some (Verif.Spec.SvgPath.numVal lexeme, rest) else none
  | none => none

/-- same dimension: same value; same unit up to case and `px`; a zero may lose its unit -/
def dimRel (a b : List Char) : Bool :=
  match dimOf a, dimOf b with
  | some (x, u), some (y, w) => x == y && (canonUnit u == canonUnit w || (x == 0 && w == []))
  | _, _ => false

/-- split at single separators (space or comma) -/
def splitSep : List Char → List Char → List (List Char)
  | acc, [] => [acc.reverse]
  | acc, c :: r => if c == ' ' || c == ',' then acc.reverse :: splitSep [] r else splitSep (c :: acc) r

/-- the four numbers of a viewBox value (`none`: not four numbers separated by single separators) -/
def viewBoxOf (s : List Char) : Option (List Rat) :=
  let fs := splitSep [] s
  if fs.length == 4 then
    fs.mapM fun f => match dimOf f with
      | some (x, []) => some x
      | _ => none
  else none

def colorAttrs : List (List Char) :=
  [['f', 'i', 'l', 'l'], ['s', 't', 'r', 'o', 'k', 'e'], ['c', 'o', 'l', 'o', 'r'], ['s', 't', 'o', 'p', '-', 'c', 'o', 'l', 'o', 'r'], ['f', 'l', 'o', 'o', 'd', '-', 'c', 'o', 'l', 'o', 'r'], ['l', 'i', 'g', 'h', 't', 'i', 'n', 'g', '-', 'c', 'o', 'l', 'o', 'r']]

/-- attributes whose value is an identifier, a reference, a version string or text — never a length -/
def isLiteralAttr (n : List Char) : Bool :=
  n == ['i', 'd'] || n == ['c', 'l', 'a', 's', 's'] || n == ['h', 'r', 'e', 'f'] ||
  n == ['f', 'o', 'n', 't', '-', 'f', 'a', 'm', 'i', 'l', 'y'] || n == ['v', 'e', 'r', 's', 'i', 'o', 'n'] ||
  n.contains ':' ||
  n == ['u', 'n', 'i', 'c', 'o', 'd', 'e'] || n == ['g', 'l', 'y', 'p', 'h', '-', 'n', 'a', 'm', 'e'] ||
  n == ['r', 'e', 's', 'u', 'l', 't'] || n == ['i', 'n'] || n == ['i', 'n', '2'] || n == ['n', 'a', 'm', 'e'] ||
  n == ['s', 'y', 's', 't', 'e', 'm', 'L', 'a', 'n', 'g', 'u', 'a', 'g', 'e'] || n == ['l', 'a', 'n', 'g'] ||
  n == ['t', 'i', 't', 'l', 'e'] || n.take 5 == ['d', 'a', 't', 'a', '-'] || n.take 5 == ['a', 'r', 'i', 'a', '-']

/-- attributes whose value belongs to another property (C04/C11: style; C05 path half: d; C18: media types) -/
def isOpaqueAttr (n : List Char) : Bool :=
  n == ['s', 't', 'y', 'l', 'e'] || n == ['d'] || n == ['c', 'o', 'n', 't', 'e', 'n', 't', 'S', 't', 'y', 'l', 'e', 'T', 'y', 'p', 'e']

/-- `#xxyyzz` written `#xyz`: the same colour when the six characters are hexadecimal digits, otherwise neither
is a colour -/
def compactRel (a b : List Char) : Bool :=
  match a with
  | ['#', x1, x2, y1, y2, z1, z2] => x1 == x2 && y1 == y2 && z1 == z2 && b == ['#', x1, y1, z1]
  | _ => false

/-- value relation on plain values of an attribute named `n` -/
def plainRel (n : List Char) (a b : List Char) : Bool :=
  a == b ||
  (if isLiteralAttr n then false
   else if n == ['v', 'i', 'e', 'w', 'B', 'o', 'x'] then
     (match viewBoxOf a with
      | some xs => viewBoxOf b == some xs
      | none => true)          -- not a viewBox value: nothing to preserve
   else
     (colorAttrs.contains n &&
        (match Verif.Spec.CssUnits.color a with
         | some c => Verif.Spec.CssUnits.color b == some c
         | none => compactRel a b)) ||
     dimRel a b)

/-- **value relation** between the raw attribute values of input and output -/
def valRel (n : List Char) (vin vout : Option (List Char)) : Bool :=
  isOpaqueAttr n ||
  (match aval vin, aval vout with
   | some a, some b =>
     a == b ||
     -- a viewBox value that is not four plain numbers: nothing to preserve
     (n == ['v', 'i', 'e', 'w', 'B', 'o', 'x'] &&
        (match plain a with
         | some pa => (viewBoxOf pa).isNone
         | none => true)) ||
     (match plain a, plain b with
      | some pa, some pb => plainRel n pa pb
      | _, _ => false)
   | _, _ => false)

/-! ## structure -/

inductive Ev
  | open (name : List Char)
  | attr (name : List Char) (val : Option (List Char))
  | close
  | pi (target : List Char)
  deriving DecidableEq, Repr

structure InEv where
  ev : Ev
  optional : Bool
  deriving DecidableEq, Repr

def prefixOf (n : List Char) : Option (List Char) :=
  if n.contains ':' then some (n.takeWhile (· != ':')) else none

def svgP : List Char := ['s', 'v', 'g']

/-- element name without the `svg:` prefix (the prefix conventionally bound to the SVG namespace) -/
def localName (n : List Char) : List Char := if prefixOf n == some svgP then n.drop 4 else n

/-- editor metadata: `metadata` elements and elements in a foreign namespace -/
def removableElem (n : List Char) : Bool :=
  n == ['m', 'e', 't', 'a', 'd', 'a', 't', 'a'] ||
  (match prefixOf n with
   | some p => p != svgP
   | none => false)

/-- attributes in a foreign namespace (prefix other than `xml`, `xlink`; `xmlns:xlink` declares the latter) -/
def foreignAttr (n : List Char) : Bool :=
  match prefixOf n with
  | some p => p != ['x', 'l', 'i', 'n', 'k'] && p != ['x', 'm', 'l'] && n != ['x', 'm', 'l', 'n', 's', ':', 'x', 'l', 'i', 'n', 'k']
  | none => false

/-- the attributes of an `svg` element that have a default (and `xmlns` when embedded in HTML), `type` on `style` -/
def defaultable (inl : Bool) (elem n : List Char) : Bool :=
  (elem == svgP &&
    ((inl && n == ['x', 'm', 'l', 'n', 's']) || n == ['v', 'e', 'r', 's', 'i', 'o', 'n'] || n == ['x'] || n == ['y'] ||
      n == ['p', 'r', 'e', 's', 'e', 'r', 'v', 'e', 'A', 's', 'p', 'e', 'c', 't', 'R', 'a', 't', 'i', 'o'] || n == ['b', 'a', 's', 'e', 'P', 'r', 'o', 'f', 'i', 'l', 'e'] || n == ['c', 'o', 'n', 't', 'e', 'n', 't', 'S', 'c', 'r', 'i', 'p', 't', 'T', 'y', 'p', 'e'] ||
      n == ['c', 'o', 'n', 't', 'e', 'n', 't', 'S', 't', 'y', 'l', 'e', 'T', 'y', 'p', 'e'])) ||
  (elem == ['s', 't', 'y', 'l', 'e'] && n == ['t', 'y', 'p', 'e'])

/-- the default value: is the (plain, normalised) value `p` of attribute `n` the default? -/
def isDefaultValue (inl : Bool) (elem n p : List Char) : Bool :=
  if elem == svgP then
    (inl && n == ['x', 'm', 'l', 'n', 's']) ||
    (n == ['v', 'e', 'r', 's', 'i', 'o', 'n'] && p == ['1', '.', '1']) ||
    ((n == ['x'] || n == ['y']) && (match dimOf p with | some (x, _) => x == 0 | none => false)) ||
    (n == ['p', 'r', 'e', 's', 'e', 'r', 'v', 'e', 'A', 's', 'p', 'e', 'c', 't', 'R', 'a', 't', 'i', 'o'] && p == ['x', 'M', 'i', 'd', 'Y', 'M', 'i', 'd', ' ', 'm', 'e', 'e', 't']) ||
    (n == ['b', 'a', 's', 'e', 'P', 'r', 'o', 'f', 'i', 'l', 'e'] && p == ['n', 'o', 'n', 'e']) ||
    (n == ['c', 'o', 'n', 't', 'e', 'n', 't', 'S', 'c', 'r', 'i', 'p', 't', 'T', 'y', 'p', 'e'] && p == ['a', 'p', 'p', 'l', 'i', 'c', 'a', 't', 'i', 'o', 'n', '/', 'e', 'c', 'm', 'a', 's', 'c', 'r', 'i', 'p', 't']) ||
    (n == ['c', 'o', 'n', 't', 'e', 'n', 't', 'S', 't', 'y', 'l', 'e', 'T', 'y', 'p', 'e'] && p == ['t', 'e', 'x', 't', '/', 'c', 's', 's'])
  else elem == ['s', 't', 'y', 'l', 'e'] && n == ['t', 'y', 'p', 'e'] && p == ['t', 'e', 'x', 't', '/', 'c', 's', 's']

inductive Mode
  | elem (name : List Char)   -- outside / inside the start tag of element `name`
  | skip (depth : Nat)        -- inside a removable subtree
  | pi (name : List Char)     -- inside a processing instruction (which may stand inside the start tag of `name`)
  deriving DecidableEq, Repr

/-- The element events of the input the property speaks about.  Removable subtrees, comments, DOCTYPE and
character data produce no event; a processing instruction gives one event (optional for the XML declaration), its data
none; a removable attribute produces an *optional* event. -/
def essIn (inl : Bool) : Mode → List STok → List InEv
  | _, [] => []
  | .skip d, t :: r =>
    match t with
    | .startTag _ => essIn inl (.skip (d + 1)) r
    | .endTag _ _ => if d == 0 then essIn inl (.elem []) r else essIn inl (.skip (d - 1)) r
    | .startTagCloseVoid => if d == 0 then essIn inl (.elem []) r else essIn inl (.skip (d - 1)) r
    | _ => essIn inl (.skip d) r
  | .pi e, t :: r =>
    match t with
    | .startTagClosePI => essIn inl (.elem e) r
    | .startTagClose => essIn inl (.elem e) r          -- a `>` in the data ends the instruction for the lexer
    | .startTagCloseVoid => essIn inl (.elem e) r
    | _ => essIn inl (.pi e) r
  | .elem e, t :: r =>
    match t with
    | .startTag n =>
      if removableElem n then essIn inl (.skip 0) r else ⟨.open (localName n), false⟩ :: essIn inl (.elem n) r
    | .startTagPI n => ⟨.pi n, n == ['x', 'm', 'l']⟩ :: essIn inl (.pi e) r
    | .attr _ n v => ⟨.attr n v, foreignAttr n || defaultable inl e n⟩ :: essIn inl (.elem e) r
    | .startTagCloseVoid => ⟨.close, false⟩ :: essIn inl (.elem []) r
    | .endTag _ _ => ⟨.close, false⟩ :: essIn inl (.elem []) r
    | _ => essIn inl (.elem e) r

/-- all element and processing-instruction events of the output (argument: inside a processing instruction) -/
def evsOut : Bool → List STok → List Ev
  | _, [] => []
  | true, .startTagClosePI :: r => evsOut false r
  | true, .startTagClose :: r => evsOut false r
  | true, .startTagCloseVoid :: r => evsOut false r
  | true, _ :: r => evsOut true r
  | false, .startTagPI n :: r => .pi n :: evsOut true r
  | false, .startTag n :: r => .open n :: evsOut false r
  | false, .attr _ n v :: r => .attr n v :: evsOut false r
  | false, .startTagCloseVoid :: r => .close :: evsOut false r
  | false, .endTag _ _ :: r => .close :: evsOut false r
  | false, _ :: r => evsOut false r

/-- one expected event against one output event (`R` relates attribute values) -/
def matchEv (R : List Char → Option (List Char) → Option (List Char) → Bool) : Ev → Ev → Bool
  | .open a, .open b => a == b
  | .close, .close => true
  | .pi a, .pi b => a == b
  | .attr n v, .attr m w => n == m && R n v w
  | _, _ => false

/-- the expected events occur in the output, in order, with related values; optional ones may be missing;
nothing else occurs in the output -/
def structRel (R : List Char → Option (List Char) → Option (List Char) → Bool) : List InEv → List Ev → Bool
  | [], [] => true
  | [], _ :: _ => false
  | i :: is, [] => i.optional && structRel R is []
  | i :: is, o :: os => (matchEv R i.ev o && structRel R is os) || (i.optional && structRel R is (o :: os))

/-- **the structural clause** for input tokens `i` and output tokens `o` -/
def structEquiv (inl : Bool) (i o : List STok) : Bool :=
  structRel valRel (essIn inl (.elem []) i) (evsOut false o)

/-- the same without looking at attribute values (element tree and attribute names) -/
def skeletonEquiv (inl : Bool) (i o : List STok) : Bool :=
  structRel (fun _ _ _ => true) (essIn inl (.elem []) i) (evsOut false o)

/-! ## hypotheses of the theorems -/

/-- contract of the dependency lexer on the shape of the stream: an attribute token directly follows a start
tag (`<a`, `<?a`) or another attribute token (argument: "inside a start tag") -/
def attrShape : Bool → List STok → Bool
  | _, [] => true
  | _, .startTag _ :: r => attrShape true r
  | _, .startTagPI _ :: r => attrShape true r
  | tg, .attr _ _ _ :: r => tg && attrShape tg r
  | _, _ :: r => attrShape false r

/-- trigger of K-C05-7: a `defs` start tag whose second following token is `/>` -/
def hasDefs1 : List STok → Bool
  | [] => false
  | .startTag n :: r => (n == ['d', 'e', 'f', 's'] && r[1]? == some .startTagCloseVoid) || hasDefs1 r
  | _ :: r => hasDefs1 r

/-- the document contains a `foreignObject` element (its content is copied verbatim: the theorems about the
rewritten part do not speak about it) -/
def hasForeignObject : List STok → Bool
  | [] => false
  | .startTag n :: r => n == ['f', 'o', 'r', 'e', 'i', 'g', 'n', 'O', 'b', 'j', 'e', 'c', 't'] || hasForeignObject r
  | _ :: r => hasForeignObject r

/-! ## failing clauses for the harness -/

/-- failing clauses of the structural clause for input tokens `i` and output tokens `o` (empty = holds):
`skeleton` (element tree / attribute names), `values` -/
def holds (inl : Bool) (i o : List STok) : List String :=
  if !skeletonEquiv inl i o then ["skeleton"]
  else if !structEquiv inl i o then ["values"] else []

end Verif.Spec.SvgDocSpec

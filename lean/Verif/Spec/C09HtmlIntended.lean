import Verif.Spec.C09HtmlShape
/-!
# C09 / HTML — what a reader should see for a document that was written piece by piece

A writer (the minifier) emits, for each token of its input, a *piece* of output.  The reader's token stream that the writer
intends is the concatenation of what each piece is when it is read ON ITS OWN: a piece of ordinary markup in the data state
of the tokenizer, the content of a raw-text element together with the element's end tag in the state the standard
prescribes after that element's start tag (scripting disabled: `noscript` content is markup).  `intended` is that
concatenation — a function of the pieces only.  The property "the output re-tokenises to the intended token stream" then says
that no token of the reader spans two pieces, no piece changes how its neighbours are read, raw-text elements end where the
writer ended them, and nothing is left over at the end of the document.

`goodComment` is the decidable description of the bytes of one well-formed comment (or nothing).
Independent of the model.
-/
namespace Verif.Spec.C09HtmlIntended
open Verif.Spec.C09HtmlTok Verif.Spec.C09HtmlShape

inductive Piece where
  | data (bytes : List Char)                        -- read in the data state
  | rawBody (tag : List Char) (bytes : List Char)   -- content of the raw-text element `tag` + its end tag
  deriving DecidableEq, Repr

def Piece.bytes : Piece → List Char
  | .data b => b
  | .rawBody _ b => b

/-- the tokenizer state in which the content of the element `tag` is read -/
def rawM (tag : List Char) : M := { mode := contentMode false tag, last := tag }

/-- the tokens of the piece read on its own -/
def Piece.alone : Piece → List Tok
  | .data b => runO {} b
  | .rawBody tag b => runO (rawM tag) b

def intended (ps : List Piece) : List Tok := (ps.map Piece.alone).flatten

def opener : List Char := ['<', '!', '-', '-']
def closeNormal : List Char := ['-', '-', '>']
def closeBang : List Char := ['-', '-', '!', '>']

/-- body and closer of `<!--` body (`-->` | `--!>`) -/
def commentBody (out : List Char) : Option (List Char × List Char) :=
  if opener.isPrefixOf out then
    let r := out.drop 4
    if closeBang.isSuffixOf r then some (r.take (r.length - 4), closeBang)
    else if closeNormal.isSuffixOf r then some (r.take (r.length - 3), closeNormal)
    else none
  else none

/-- nothing, or the bytes of exactly one comment: `<!--`, a body that neither closes the comment abruptly (`>`, `->`) nor
    contains `-->` / `--!>`, and a closer -/
def goodComment (out : List Char) : Bool :=
  out.isEmpty ||
    (match commentBody out with
     | some (b, _) => !abruptStart b && !hasClose b
     | none => false)

end Verif.Spec.C09HtmlIntended

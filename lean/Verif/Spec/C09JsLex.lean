/-!
# C09 (JS) — lexical grammar of ECMAScript (ECMA-262 §12, Annex B.1.1), independent of the printer

`lex cs` splits a script into its tokens (`CommonToken`s, template pieces and regular-expression literals) by
maximal munch.  Bytes are embedded as `Char`s < 256 (Latin-1 embedding of the UTF-8 bytes); bytes ≥ 0x80 count as
identifier bytes (as the writer under verification does), except the UTF-8 encodings of U+00A0, U+FEFF (white space)
and U+2028/U+2029 (line terminators) where a token may start.

The lexical grammar of ECMA-262 has several goal symbols: whether a `/` starts a `RegularExpressionLiteral` and whether
a `}` continues a template is decided by the syntactic grammar.  A stand-alone lexer has to reconstruct that decision:
`step` tracks, with a small pushdown state written down from the syntactic grammar (which tokens end an operand, which
brackets open a statement block / an object literal / a control head / a template substitution), whether the next
token is in *operand position* (`InputElementRegExp`) or in *operator position* (`InputElementDiv`).  `scan1` is the
pure maximal-munch scanner for one token given that goal.

Annex B.1.1: `<!--` anywhere and `-->` at the start of a line are single-line comments (script goal) — the reason why
a printer must never write these character sequences for the tokens `<` `!` `--` and `--` `>`.
-/
namespace Verif.Spec.C09JsLex

inductive Kind where
  | name    -- IdentifierName (identifiers, reserved words, contextual keywords)
  | priv    -- PrivateIdentifier `#x`
  | num     -- NumericLiteral
  | str     -- StringLiteral
  | tmpl    -- NoSubstitutionTemplate / TemplateHead / TemplateMiddle / TemplateTail (by its first and last characters)
  | regex   -- RegularExpressionLiteral
  | punct   -- Punctuator, DivPunctuator, RightBracePunctuator
deriving DecidableEq, Repr, Inhabited

structure Token where
  kind : Kind
  text : List Char
  /-- a LineTerminator (or a comment containing one) stands between the previous token and this one -/
  nl : Bool
deriving DecidableEq, Repr, Inhabited

/-! ## character classes -/

def isIdStart (c : Char) : Bool := c.isAlpha || c == '_' || c == '$' || c == '\\' || c.toNat ≥ 128
def isIdPart (c : Char) : Bool := c.isAlphanum || c == '_' || c == '$' || c == '\\' || c.toNat ≥ 128
def isHexDigit (c : Char) : Bool := c.isDigit || ('a' ≤ c && c ≤ 'f') || ('A' ≤ c && c ≤ 'F')
def isOctDigit (c : Char) : Bool := '0' ≤ c && c ≤ '7'
def isBinDigit (c : Char) : Bool := c == '0' || c == '1'
def isLT (c : Char) : Bool := c == '\n' || c == '\r'

/-- UTF-8 of U+2028 / U+2029 -/
def startsLS (cs : List Char) : Bool :=
  match cs with
  | a :: b :: c :: _ => a.toNat == 0xE2 && b.toNat == 0x80 && (c.toNat == 0xA8 || c.toNat == 0xA9)
  | _ => false

/-- reserved words (ECMA-262 §12.7.2) plus `yield`, `await`, `let`, `static` excluded: those are lexed as names and
    classified by `step` -/
def reserved : List String :=
  ["break", "case", "catch", "class", "const", "continue", "debugger", "default", "delete", "do", "else", "enum",
   "export", "extends", "false", "finally", "for", "function", "if", "import", "in", "instanceof", "new", "null",
   "return", "super", "switch", "this", "throw", "true", "try", "typeof", "var", "void", "while", "with"]

/-! ## punctuators -/

def puncts : List (List Char) :=
  [">>>=",
   "...", "===", "!==", "**=", "<<=", ">>=", ">>>", "&&=", "||=", "??=",
   "=>", "==", "!=", "<=", ">=", "&&", "||", "??", "?.", "++", "--", "+=", "-=", "*=", "/=", "%=", "&=", "|=", "^=",
   "<<", ">>", "**",
   "{", "}", "(", ")", "[", "]", ";", ",", "<", ">", "+", "-", "*", "/", "%", "&", "|", "^", "!", "~", "?", ":", "=",
   ".", "@"].map String.toList

/-- longest punctuator that is a prefix of `cs`; `?.` is not a punctuator in front of a decimal digit (`a?.5:1`) -/
def scanPunct (cs : List Char) : Option (List Char × List Char) :=
  if (cs.take 4).length == 4 && puncts.contains (cs.take 4) then some (cs.take 4, cs.drop 4)
  else if (cs.take 3).length == 3 && puncts.contains (cs.take 3) then some (cs.take 3, cs.drop 3)
  else if (cs.take 2).length == 2 && puncts.contains (cs.take 2)
      && !(cs.take 2 == ['?', '.'] && ((cs.drop 2).head?.any Char.isDigit)) then some (cs.take 2, cs.drop 2)
  else if (cs.take 1).length == 1 && puncts.contains (cs.take 1) then some (cs.take 1, cs.drop 1)
  else none

/-! ## names -/

/-- every `\\` of an identifier name starts a unicode escape `\\u…` -/
def escOk : List Char → Bool
  | [] => true
  | [c] => c != '\\'
  | c :: d :: r => (c != '\\' || d == 'u') && escOk (d :: r)

def scanName (cs : List Char) : Option (List Char × List Char) :=
  let w := cs.takeWhile isIdPart
  if escOk w then some (w, cs.dropWhile isIdPart) else none

/-! ## numeric literals -/

/-- digits with numeric separators: no `_` at either end, no `__` -/
def sepOk (p : Char → Bool) : List Char → Bool
  | [] => false
  | [c] => p c
  | a :: b :: r => (p a || (a == '_' && p b)) && !(a == '_' && !p b) && sepOk p (b :: r)

def digitsOk (p : Char → Bool) (ds : List Char) : Bool :=
  sepOk p ds && ds.head?.any p

def isDigitSep (c : Char) : Bool := c.isDigit || c == '_'

/-- the character after a NumericLiteral must not be an IdentifierStart or a DecimalDigit -/
def numEndOk (rest : List Char) : Bool :=
  match rest with
  | [] => true
  | d :: _ => !(isIdStart d || d.isDigit)

def radixLit (pre : List Char) (p : Char → Bool) (r : List Char) : Option (List Char × List Char) :=
  let ds := r.takeWhile (fun c => p c || c == '_')
  let r1 := r.dropWhile (fun c => p c || c == '_')
  if !digitsOk p ds then none else
  match r1 with
  | 'n' :: r2 => if numEndOk r2 then some (pre ++ ds ++ ['n'], r2) else none
  | _ => if numEndOk r1 then some (pre ++ ds, r1) else none

/-- optional ExponentPart: `none` when an `e` is not followed by a (signed) digit -/
def scanExp (r : List Char) : Option (List Char × List Char) :=
  match r with
  | e :: r1 =>
    if e == 'e' || e == 'E' then
      match r1 with
      | s :: r2 =>
        if s == '+' || s == '-' then
          let ds := r2.takeWhile isDigitSep
          if digitsOk Char.isDigit ds then some (e :: s :: ds, r2.dropWhile isDigitSep) else none
        else
          let ds := r1.takeWhile isDigitSep
          if digitsOk Char.isDigit ds then some (e :: ds, r1.dropWhile isDigitSep) else none
      | [] => none
    else some ([], r)
  | [] => some ([], [])

/-- DecimalLiteral / DecimalBigIntegerLiteral starting at a digit or at `.digit` -/
def scanDecimal (cs : List Char) : Option (List Char × List Char) :=
  let int := cs.takeWhile isDigitSep
  let r1 := cs.dropWhile isDigitSep
  if !int.isEmpty && !digitsOk Char.isDigit int then none else
  match r1 with
  | 'n' :: r2 =>
    if !int.isEmpty && (int.head? != some '0' || int.length == 1) && numEndOk r2 then some (int ++ ['n'], r2) else none
  | _ =>
    let fr : List Char × List Char := match r1 with
      | '.' :: r => ('.' :: r.takeWhile isDigitSep, r.dropWhile isDigitSep)
      | _ => ([], r1)
    if int.isEmpty && fr.1.length < 2 then none else
    if 1 < fr.1.length && !digitsOk Char.isDigit (fr.1.drop 1) then none else
    match scanExp fr.2 with
    | none => none
    | some (ex, r3) => if numEndOk r3 then some (int ++ fr.1 ++ ex, r3) else none

def scanNumber (cs : List Char) : Option (List Char × List Char) :=
  match cs with
  | c :: x :: r =>
    if c == '0' && (x == 'x' || x == 'X') then radixLit ['0', x] isHexDigit r
    else if c == '0' && (x == 'o' || x == 'O') then radixLit ['0', x] isOctDigit r
    else if c == '0' && (x == 'b' || x == 'B') then radixLit ['0', x] isBinDigit r
    else if c == '0' && x.isDigit then
      -- LegacyOctalIntegerLiteral / NonOctalDecimalIntegerLiteral (Annex B.1.1), no separators
      let ds := (x :: r).takeWhile Char.isDigit
      if ds.all isOctDigit then
        (if numEndOk ((x :: r).dropWhile Char.isDigit) then some ('0' :: ds, (x :: r).dropWhile Char.isDigit) else none)
      else scanDecimal cs
    else scanDecimal cs
  | _ => scanDecimal cs

/-! ## string literals, templates, regular expressions -/

/-- body of a string literal after the opening quote `q`; `acc` is the reversed text so far -/
def scanStr (q : Char) : List Char → List Char → Option (List Char × List Char)
  | [], _ => none
  | c :: r, acc =>
    if c == q then some ((q :: acc).reverse, r)
    else if isLT c then none
    else if c == '\\' then
      match r with
      | [] => none
      | '\r' :: '\n' :: r2 => scanStr q r2 ('\n' :: '\r' :: '\\' :: acc)
      | d :: r2 => scanStr q r2 (d :: '\\' :: acc)
    else scanStr q r (c :: acc)

/-- template characters up to the closing backquote or the next `${` -/
def scanTmpl : List Char → List Char → Option (List Char × List Char)
  | [], _ => none
  | c :: r, acc =>
    if c == '`' then some (('`' :: acc).reverse, r)
    else if c == '$' && r.head? == some '{' then some (('{' :: '$' :: acc).reverse, r.drop 1)
    else if c == '\\' then
      match r with
      | [] => none
      | d :: r2 => scanTmpl r2 (d :: '\\' :: acc)
    else scanTmpl r (c :: acc)

/-- RegularExpressionBody after the opening `/`, up to and including the closing `/` -/
def scanReBody : Bool → List Char → List Char → Option (List Char × List Char)
  | _, [], _ => none
  | inClass, c :: r, acc =>
    if isLT c || startsLS (c :: r) then none
    else if c == '\\' then
      match r with
      | [] => none
      | d :: r2 => if isLT d || startsLS (d :: r2) then none else scanReBody inClass r2 (d :: '\\' :: acc)
    else if c == '/' && !inClass then some (('/' :: acc).reverse, r)
    else if c == '[' then scanReBody true r (c :: acc)
    else if c == ']' then scanReBody false r (c :: acc)
    else scanReBody inClass r (c :: acc)

def scanRegex (r : List Char) : Option (List Char × List Char) :=
  match r with
  | '*' :: _ => none
  | '/' :: _ => none
  | _ =>
    match scanReBody false r ['/'] with
    | none => none
    | some (w, r1) => some (w ++ r1.takeWhile isIdPart, r1.dropWhile isIdPart)

/-! ## one token -/

/-- maximal-munch scan of the token at the head of `cs` (no leading trivia); `regexOk`: the goal symbol allows a
    regular expression here (operand position); `tmplClose`: a `}` here ends a template substitution -/
def scan1 (regexOk tmplClose : Bool) (cs : List Char) : Option (Kind × List Char × List Char) :=
  match cs with
  | [] => none
  | c :: r =>
    if isIdStart c then (scanName cs).map (fun x => (.name, x.1, x.2))
    else if c.isDigit || (c == '.' && r.head?.any Char.isDigit) then (scanNumber cs).map (fun x => (.num, x.1, x.2))
    else if c == '"' || c == '\'' then (scanStr c r [c]).map (fun x => (.str, x.1, x.2))
    else if c == '`' then (scanTmpl r ['`']).map (fun x => (.tmpl, x.1, x.2))
    else if c == '}' && tmplClose then (scanTmpl r ['}']).map (fun x => (.tmpl, x.1, x.2))
    else if c == '#' then
      (if r.head?.any isIdStart then (scanName r).map (fun x => (.priv, '#' :: x.1, x.2)) else none)
    else if c == '/' && regexOk then (scanRegex r).map (fun x => (.regex, x.1, x.2))
    else (scanPunct cs).map (fun x => (.punct, x.1, x.2))

/-! ## white space and comments -/

/-- drop the rest of a single-line comment (the line terminator stays) -/
def dropLine : List Char → List Char
  | [] => []
  | c :: r => if isLT c || startsLS (c :: r) then c :: r else dropLine r

/-- skip to the end of a `/* … */` comment; the flag reports a line terminator inside -/
def skipBlock : List Char → Bool → Option (Bool × List Char)
  | [], _ => none
  | [_], _ => none
  | a :: b :: r, nl =>
    if a == '*' && b == '/' then some (nl, r)
    else skipBlock (b :: r) (nl || isLT a || startsLS (a :: b :: r))

/-- `cs` starts with white space, a line terminator or a comment; `nl`: nothing but trivia since the line start -/
def isTriviaStart (nl : Bool) (cs : List Char) : Bool :=
  match cs with
  | [] => false
  | c :: r =>
    c == ' ' || c == '\t' || c.toNat == 11 || c.toNat == 12 || isLT c
      || (c == '/' && (r.head? == some '/' || r.head? == some '*'))
      || (c == '<' && r.take 3 == ['!', '-', '-'])
      || (c == '-' && nl && r.take 2 == ['-', '>'])
      || (c.toNat == 0xC2 && (r.head?.map Char.toNat) == some 0xA0)
      || (c.toNat == 0xEF && (r.take 2).map Char.toNat == [0xBB, 0xBF])
      || startsLS cs

/-- skip white space, line terminators and comments (`//`, `/* */`, `<!--`, and `-->` at the start of a line);
    result: was a line terminator skipped, and the rest -/
def skipTrivia : Nat → Bool → List Char → Option (Bool × List Char)
  | 0, _, _ => none
  | fuel + 1, nl, cs =>
    if !isTriviaStart nl cs then some (nl, cs) else
    match cs with
    | [] => some (nl, [])
    | c :: r =>
      if isLT c then skipTrivia fuel true r
      else if startsLS cs then skipTrivia fuel true (r.drop 2)
      else if c == '/' && r.head? == some '/' then skipTrivia fuel nl (dropLine r)
      else if c == '/' then
        match skipBlock (r.drop 1) false with
        | none => none
        | some (nl', r') => skipTrivia fuel (nl || nl') r'
      else if c == '<' then skipTrivia fuel nl (dropLine r)
      else if c == '-' then skipTrivia fuel nl (dropLine r)
      else if c.toNat == 0xEF then skipTrivia fuel nl (r.drop 2)
      else if c.toNat == 0xC2 then skipTrivia fuel nl (r.drop 1)
      else skipTrivia fuel nl r

/-! ## the goal tracker -/

/-- an open bracket: what the matching closer means -/
inductive Frame where
  | paren (ctl : Bool) (fn : Option Bool)   -- `(`; `ctl`: head of if/while/for/with/switch/catch; `fn`: parameters of a
                                            --   function (`some true`: function expression)
  | brack                                   -- `[`
  | brace (stmts : Bool) (expr : Bool)      -- `{`; `stmts`: statements inside (block, function body, class body) rather
                                            --   than properties; `expr`: the closing `}` ends an operand
  | subst                                   -- `${`
deriving DecidableEq, Repr, Inhabited

structure St where
  /-- the previous token ends an operand: a `/` is a division, `++`/`--` are postfix -/
  exprEnd : Bool := false
  /-- a statement (or class member) may start here -/
  stmtStart : Bool := true
  /-- open brackets, each with the count of pending `?` of the level it interrupted -/
  stack : List (Frame × Nat) := []
  /-- `?` of conditional expressions at this bracket level still waiting for their `:` -/
  tern : Nat := 0
  /-- after `function` (`some true`: in operand position), waiting for the parameter list -/
  fnHead : Option Bool := none
  /-- after the `)` of a function's parameter list, waiting for the body -/
  fnBody : Option Bool := none
  /-- after `class` (`some true`: in operand position) with the bracket depth, waiting for the class body -/
  clsHead : Option (Bool × Nat) := none
  /-- the previous token is `.` or `?.`: the next name is a property name, not a keyword -/
  afterDot : Bool := false
  /-- the previous token is one of `if while for with switch catch` (or `await` after `for`) -/
  ctlKw : Bool := false
  /-- the previous token is `=>` -/
  afterArrow : Bool := false
  /-- the previous token is the keyword `class` -/
  afterClassKw : Bool := false
deriving Repr, Inhabited

def topFrame (σ : St) : Option Frame := σ.stack.head?.map (·.1)

/-- statements (not properties, not a bracketed expression) are being read at the current bracket level -/
def inStmts (σ : St) : Bool :=
  match topFrame σ with
  | none => true
  | some (.brace stmts _) => stmts
  | some _ => false

def regexAllowed (σ : St) : Bool := !σ.exprEnd
def tmplClose (σ : St) : Bool := topFrame σ == some .subst

/-- state after an operand-ending token -/
def operandEnd (σ : St) : St :=
  { σ with exprEnd := true, stmtStart := false, afterDot := false, ctlKw := false, afterArrow := false,
           afterClassKw := false, fnBody := none }

/-- state after a token that must be followed by an operand (operators, `(`, `,`, most keywords) -/
def operandPos (σ : St) : St :=
  { σ with exprEnd := false, stmtStart := false, afterDot := false, ctlKw := false, afterArrow := false,
           afterClassKw := false, fnBody := none }

/-- state at the start of a statement -/
def stmtPos (σ : St) : St :=
  { σ with exprEnd := false, stmtStart := true, afterDot := false, ctlKw := false, afterArrow := false,
           afterClassKw := false, fnHead := none, fnBody := none }

def push (σ : St) (f : Frame) : St := { σ with stack := (f, σ.tern) :: σ.stack, tern := 0 }

def pop (σ : St) : St :=
  match σ.stack with
  | [] => σ
  | (_, t) :: rest => { σ with stack := rest, tern := t }

def stepName (σ : St) (w : String) : St :=
  if σ.afterDot then operandEnd σ
  else if w == "this" || w == "super" || w == "null" || w == "true" || w == "false" then operandEnd σ
  else if w == "if" || w == "while" || w == "for" || w == "with" || w == "switch" || w == "catch" then
    { operandPos σ with ctlKw := true }
  else if w == "await" && σ.ctlKw then { operandPos σ with ctlKw := true }
  else if w == "else" || w == "do" || w == "try" || w == "finally" || w == "default" || w == "export" then stmtPos σ
  else if w == "function" then { operandPos σ with fnHead := some (!σ.stmtStart) }
  else if w == "class" then
    { operandPos σ with clsHead := some (!σ.stmtStart, σ.stack.length), afterClassKw := true }
  else if reserved.contains w || w == "yield" || w == "await" then operandPos σ
  else if w == "of" && σ.exprEnd && (match topFrame σ with | some (.paren true _) => true | _ => false) then
    operandPos σ
  else if w == "async" && σ.stmtStart then { operandEnd σ with stmtStart := true }
  else operandEnd σ

def stepPunct (σ : St) (p : String) (nl : Bool) : St :=
  if p == "(" then
    { operandPos (push σ (.paren σ.ctlKw σ.fnHead)) with fnHead := none }
  else if p == ")" then
    match topFrame σ with
    | some (.paren true _) => stmtPos (pop σ)
    | some (.paren false (some e)) => { operandEnd (pop σ) with fnBody := some e }
    | _ => operandEnd (pop σ)
  else if p == "[" then operandPos (push σ .brack)
  else if p == "]" then operandEnd (pop σ)
  else if p == "{" then
    let clsBody : Option Bool := match σ.clsHead with
      | some (e, d) => if d == σ.stack.length && (σ.afterClassKw || σ.exprEnd) then some e else none
      | none => none
    match clsBody with
    | some e => { stmtPos (push σ (.brace true e)) with clsHead := none }
    | none =>
      if σ.stmtStart || σ.ctlKw then stmtPos (push σ (.brace true false))   -- `catch {`
      else match σ.fnBody with
        | some e => stmtPos (push σ (.brace true e))
        | none =>
          if σ.afterArrow || σ.exprEnd then stmtPos (push σ (.brace true false))
          else operandPos (push σ (.brace false true))
  else if p == "}" then
    match topFrame σ with
    | some (.brace _ true) => operandEnd (pop σ)
    | _ => stmtPos (pop σ)
  else if p == ";" then
    (match topFrame σ with
     | some (.paren _ _) => operandPos σ
     | _ => stmtPos σ)
  else if p == "++" || p == "--" then
    (if σ.exprEnd && !nl then operandEnd σ else operandPos σ)
  else if p == "=>" then { operandPos σ with afterArrow := true, fnBody := none }
  else if p == "?" then { operandPos σ with tern := σ.tern + 1 }
  else if p == ":" then
    (if 0 < σ.tern then { operandPos σ with tern := σ.tern - 1 }
     else if inStmts σ then stmtPos σ
     else operandPos σ)
  else if p == "." || p == "?." then { operandPos σ with afterDot := true }
  else operandPos σ

/-- the tracker: state after token `t` -/
def step (σ : St) (t : Token) : St :=
  match t.kind with
  | .name => stepName σ (String.ofList t.text)
  | .priv => operandEnd σ
  | .num => operandEnd σ
  | .str => operandEnd σ
  | .regex => operandEnd σ
  | .tmpl =>
    let σ1 := if t.text.head? == some '}' then pop σ else σ
    if t.text.getLast? == some '`' then operandEnd σ1 else operandPos (push σ1 .subst)
  | .punct => stepPunct σ (String.ofList t.text) t.nl

/-! ## the lexer -/

def lexLoop : Nat → St → Bool → List Char → List Token → Option (List Token)
  | 0, _, _, _, _ => none
  | fuel + 1, σ, nl0, cs, acc =>
    match skipTrivia (fuel + 1) nl0 cs with
    | none => none
    | some (_, []) => some acc.reverse
    | some (nl, c :: r) =>
      match scan1 (regexAllowed σ) (tmplClose σ) (c :: r) with
      | none => none
      | some (k, w, rest) =>
        let t : Token := ⟨k, w, nl⟩
        lexLoop fuel (step σ t) false rest (t :: acc)

/-- the tokens of a script; `none`: not lexable.  The fuel (one more than the number of characters) bounds both the
    number of tokens and the trivia skipped in front of each of them. -/
def lex (cs : List Char) : Option (List Token) := lexLoop (cs.length + 1) {} true cs []

/-- the same with the position of the failure: number of tokens read and the unread rest -/
def lexDiag : Nat → St → Bool → List Char → Nat → Except (Nat × List Char) Nat
  | 0, _, _, cs, n => .error (n, cs)
  | fuel + 1, σ, nl0, cs, n =>
    match skipTrivia (fuel + 1) nl0 cs with
    | none => .error (n, cs)
    | some (_, []) => .ok n
    | some (nl, c :: r) =>
      match scan1 (regexAllowed σ) (tmplClose σ) (c :: r) with
      | none => .error (n, c :: r)
      | some (k, w, rest) => lexDiag fuel (step σ ⟨k, w, nl⟩) false rest (n + 1)

end Verif.Spec.C09JsLex

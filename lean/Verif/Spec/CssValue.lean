import Verif.Gen.C04Tables
/-!
# CSS value tokens and their denotations (specification side of C04)

Independent of the model of the minifier (`Verif.Model.Css`): this file only says what CSS values *mean*.

* `TT`, `Tok` — the token vocabulary of CSS Syntax 3 (a function token carries its argument tokens).
* `numVal` — the rational value of a number lexeme (CSS Syntax 3 §4.3.12 "convert a string to a number").
* `fourSides` — CSS 2.1 §8.3/§8.4: expansion of 1–4 values to (top, right, bottom, left).
* `rgba` — CSS Color 3/4: `#rgb`, `#rgba`, `#rrggbb`, `#rrggbbaa`, colour keywords (table generated from
  `golang.org/x/image/colornames` + `rebeccapurple`, `transparent`), `rgb()/rgba()/hsl()/hsla()`.
* `zeroEquiv` — CSS Values 3 §5: a zero `<length>` may be written without unit.
* `position` — CSS Backgrounds 3 §3.6 `<bg-position>`.
* `codePointMem` — CSS Fonts 3 §4.5 / CSS Syntax 3 §7 `<urange>`.
* `fontWeightVal`, `fontFamilies`, `flexTriple`, `bgSize`, `bgRepeat`, `shadow`, `lineShorthand`.
-/
set_option maxRecDepth 100000
namespace Verif.Spec.CssValue
open Verif.Gen

/-! ## tokens -/

/-- token classes, in the order of the dependency's `css.TokenType` (`error` = 0) -/
inductive TT where
  | error | ident | function | atKeyword | hash | string | badString | url | badUrl | delim
  | number | percentage | dimension | unicodeRange | includeMatch | dashMatch | prefixMatch
  | suffixMatch | substringMatch | column | whitespace | cdo | cdc | colon | semicolon | comma
  | leftBracket | rightBracket | leftParen | rightParen | leftBrace | rightBrace | comment | empty
  | customPropertyName | customPropertyValue
  deriving DecidableEq, Repr, Inhabited

def TT.all : List TT :=
  [.error, .ident, .function, .atKeyword, .hash, .string, .badString, .url, .badUrl, .delim,
   .number, .percentage, .dimension, .unicodeRange, .includeMatch, .dashMatch, .prefixMatch,
   .suffixMatch, .substringMatch, .column, .whitespace, .cdo, .cdc, .colon, .semicolon, .comma,
   .leftBracket, .rightBracket, .leftParen, .rightParen, .leftBrace, .rightBrace, .comment, .empty,
   .customPropertyName, .customPropertyValue]

def TT.ofCode (n : Nat) : TT := TT.all.getD n .error
def TT.code (t : TT) : Nat := TT.all.idxOf t

/-- a CSS component value: class, lexeme, and (for a function token, lexeme `name(`) its arguments up to
    but excluding the closing parenthesis -/
inductive Tok where
  | mk (tt : TT) (data : List Char) (args : List Tok)
  deriving Repr, Inhabited

namespace Tok
def tt : Tok → TT | mk t _ _ => t
def data : Tok → List Char | mk _ d _ => d
def args : Tok → List Tok | mk _ _ a => a

mutual
def beq : Tok → Tok → Bool
  | mk t d a, mk t' d' a' => t == t' && d == d' && beqList a a'
def beqList : List Tok → List Tok → Bool
  | [], [] => true
  | x :: xs, y :: ys => beq x y && beqList xs ys
  | _, _ => false
end

instance : BEq Tok := ⟨beq⟩

mutual
theorem eq_of_beq : ∀ a b : Tok, beq a b = true → a = b
  | mk t d a, mk t' d' a' => by
    intro h
    simp only [beq, Bool.and_eq_true, beq_iff_eq] at h
    obtain ⟨⟨h1, h2⟩, h3⟩ := h
    rw [h1, h2, eq_of_beqList a a' h3]
theorem eq_of_beqList : ∀ a b : List Tok, beqList a b = true → a = b
  | [], [] => fun _ => rfl
  | x :: xs, y :: ys => by
    intro h
    simp only [beqList, Bool.and_eq_true] at h
    rw [eq_of_beq x y h.1, eq_of_beqList xs ys h.2]
  | [], _ :: _ => by intro h; simp [beqList] at h
  | _ :: _, [] => by intro h; simp [beqList] at h
end

mutual
theorem beq_refl : ∀ a : Tok, beq a a = true
  | mk t d a => by simp [beq, beqList_refl a]
theorem beqList_refl : ∀ a : List Tok, beqList a a = true
  | [] => rfl
  | x :: xs => by simp [beqList, beq_refl x, beqList_refl xs]
end

theorem beq_iff (a b : Tok) : (a == b) = true ↔ a = b :=
  ⟨eq_of_beq a b, fun h => h ▸ beq_refl a⟩

instance : LawfulBEq Tok where
  eq_of_beq := fun {a b} h => eq_of_beq a b h
  rfl := fun {a} => beq_refl a

instance : DecidableEq Tok := fun a b =>
  if h : beq a b = true then isTrue (eq_of_beq a b h)
  else isFalse (fun e => h (e ▸ beq_refl a))
end Tok

/-! ## characters -/

def isDigit (c : Char) : Bool := '0' ≤ c && c ≤ '9'
def isUpper (c : Char) : Bool := 'A' ≤ c && c ≤ 'Z'

/-- ASCII lower-casing of one character (table form: every case is a literal, which keeps proofs by cases easy) -/
def lowerChar (c : Char) : Char :=
  match c with
  | 'A' => 'a' | 'B' => 'b' | 'C' => 'c' | 'D' => 'd' | 'E' => 'e' | 'F' => 'f' | 'G' => 'g' | 'H' => 'h'
  | 'I' => 'i' | 'J' => 'j' | 'K' => 'k' | 'L' => 'l' | 'M' => 'm' | 'N' => 'n' | 'O' => 'o' | 'P' => 'p'
  | 'Q' => 'q' | 'R' => 'r' | 'S' => 's' | 'T' => 't' | 'U' => 'u' | 'V' => 'v' | 'W' => 'w' | 'X' => 'x'
  | 'Y' => 'y' | 'Z' => 'z' | c => c

/-- ASCII lower-casing (CSS keywords, units, hex digits and function names are ASCII case-insensitive) -/
def lower (s : List Char) : List Char := s.map lowerChar

/-- value of a hexadecimal digit, `none` for any other character -/
def hexDigit? (c : Char) : Option Nat :=
  match c with
  | '0' => some 0 | '1' => some 1 | '2' => some 2 | '3' => some 3 | '4' => some 4
  | '5' => some 5 | '6' => some 6 | '7' => some 7 | '8' => some 8 | '9' => some 9
  | 'a' => some 10 | 'b' => some 11 | 'c' => some 12 | 'd' => some 13 | 'e' => some 14 | 'f' => some 15
  | 'A' => some 10 | 'B' => some 11 | 'C' => some 12 | 'D' => some 13 | 'E' => some 14 | 'F' => some 15
  | _ => none

def isHexDigit (c : Char) : Bool := (hexDigit? c).isSome
def hexDigitVal (c : Char) : Nat := (hexDigit? c).getD 0

def hexVal (s : List Char) : Nat := s.foldl (fun a c => a * 16 + hexDigitVal c) 0

def isWs (c : Char) : Bool := c == ' ' || c == '\t' || c == '\n' || c == '\r' || c == Char.ofNat 12

/-! ## numbers -/

def digitsVal (ds : List Char) : Nat := ds.foldl (fun a c => a * 10 + (c.toNat - 48)) 0

def pow10 (e : Int) : Rat := if 0 ≤ e then (10 : Rat) ^ e.toNat else 1 / (10 : Rat) ^ (-e).toNat

/-- longest prefix of digits, and the rest -/
def spanD (l : List Char) : List Char × List Char := (l.takeWhile isDigit, l.dropWhile isDigit)

structure NumParts where
  neg : Bool
  ip : List Char
  fp : List Char
  exp : Int
  deriving Repr, DecidableEq

/-- an optional sign: (negative?, sign text, rest) -/
def stripSign : List Char → Bool × List Char × List Char
  | '-' :: r => (true, ['-'], r)
  | '+' :: r => (false, ['+'], r)
  | s => (false, [], s)

/-- an optional fraction `. d+`: (fraction digits, rest, well-formed?) — a `.` not followed by a digit is not
    part of the number -/
def fracPart (s : List Char) : List Char × List Char × Bool :=
  match s with
  | '.' :: r => if (spanD r).1.isEmpty then ([], s, false) else ((spanD r).1, (spanD r).2, true)
  | _ => ([], s, true)

/-- an optional exponent `[eE] [+-]? d+`: (exponent text, its value, rest); `e` not followed by digits is not
    part of the number -/
def expPart (s : List Char) : List Char × Int × List Char :=
  match s with
  | e :: r =>
    if e == 'e' || e == 'E' then
      let sg := stripSign r
      let ed := (spanD sg.2.2).1
      if ed.isEmpty then ([], 0, s)
      else (e :: sg.2.1 ++ ed, (if sg.1 then -(digitsVal ed : Int) else (digitsVal ed : Int)), (spanD sg.2.2).2)
    else ([], 0, s)
  | [] => ([], 0, s)

/-- the whole lexeme as a CSS number: `[+-]? (d+ | d* . d+) ([eE] [+-]? d+)?` -/
def splitNumber (s : List Char) : Option NumParts :=
  let sg := stripSign s
  let ip := (spanD sg.2.2).1
  let fr := fracPart (spanD sg.2.2).2
  let ex := expPart fr.2.1
  if ip.isEmpty && fr.1.isEmpty then none
  else if !ex.2.2.isEmpty then none
  else some ⟨sg.1, ip, fr.1, ex.2.1⟩

def NumParts.val (p : NumParts) : Rat :=
  (if p.neg then -1 else 1) * (digitsVal (p.ip ++ p.fp) : Rat) * pow10 (p.exp - p.fp.length)

/-- value of a number lexeme; lexemes with an exponent beyond ±1000 are not
    evaluated (user agents clamp such values; nothing here depends on them) -/
def numVal (s : List Char) : Option Rat :=
  (splitNumber s).bind fun p =>
    if p.exp.natAbs ≤ 1000 then some p.val else none

def stripZeros : List Char → List Char
  | '0' :: r => stripZeros r
  | l => l

def intChars (i : Int) : List Char := (if i < 0 then ['-'] else []) ++ Nat.toDigits 10 i.natAbs

/-- canonical spelling of the value of a number lexeme: `0`, or sign, significant digits `D` and the
    exponent `E` with value = 0.D × 10^E — two number lexemes have equal keys iff they have equal values
    (no power of ten is computed, so any exponent is fine) -/
def numKey (s : List Char) : Option (List Char) :=
  (splitNumber s).map fun p =>
    let ds := p.ip ++ p.fp
    let lead := stripZeros ds
    let sig := (stripZeros lead.reverse).reverse
    if sig.isEmpty then ['0']
    else (if p.neg then ['-'] else []) ++ sig ++ 'e' :: intChars (p.exp + p.ip.length - (ds.length - lead.length))

/-- longest prefix that is a CSS number (CSS Syntax 3 §4.3.12 "consume a number"), and the rest -/
def spanNumber (s : List Char) : List Char × List Char :=
  let sg := stripSign s
  let ip := (spanD sg.2.2).1
  let fr := fracPart (spanD sg.2.2).2
  let frText : List Char := if fr.1.isEmpty then [] else '.' :: fr.1
  let ex := expPart fr.2.1
  (sg.2.1 ++ ip ++ frText ++ ex.1, ex.2.2)

/-- the numeric meaning of a single numeric token -/
inductive Num where
  | number (q : Rat)
  | percentage (q : Rat)
  | dimension (q : Rat) (unit : List Char)   -- unit lower-cased: units are ASCII case-insensitive
  deriving DecidableEq, Repr

/-- the numeric meaning of a lexeme `number unit?` as the tokenizer classifies it: no unit = number,
    `%` = percentage, anything else = dimension -/
def numOfLexeme (s : List Char) : Option Num :=
  let (n, u) := spanNumber s
  if u.isEmpty then (numVal n).map .number
  else if u == ['%'] then (numVal n).map .percentage
  else (numVal n).map (fun q => .dimension q (lower u))

def numOf (t : Tok) : Option Num :=
  match t.tt with
  | .number | .percentage | .dimension => numOfLexeme t.data
  | _ => none

/-! ## zero lengths

CSS Values and Units 3 §5: "for zero lengths the unit identifier is optional".  §6.1 (angles): a bare `0`
is *not* a valid `<angle>` in general (only some legacy contexts accept it); times, frequencies,
resolutions, flex fractions and percentages always need their unit. -/

def lengthUnits : List (List Char) :=
  ["em", "ex", "ch", "rem", "vw", "vh", "vmin", "vmax", "cm", "mm", "q", "in", "pt", "pc", "px"].map String.toList

def angleUnits : List (List Char) := ["deg", "grad", "rad", "turn"].map String.toList

/-- every unit of CSS Values and Units 4 (lengths incl. viewport/container/font-relative variants, angles,
    times, frequencies, resolutions, flex) -/
def cssUnits : List (List Char) :=
  ["em", "rem", "ex", "rex", "cap", "rcap", "ch", "rch", "ic", "ric", "lh", "rlh",
   "vw", "svw", "lvw", "dvw", "vh", "svh", "lvh", "dvh", "vi", "svi", "lvi", "dvi", "vb", "svb", "lvb", "dvb",
   "vmin", "svmin", "lvmin", "dvmin", "vmax", "svmax", "lvmax", "dvmax",
   "cqw", "cqh", "cqi", "cqb", "cqmin", "cqmax",
   "cm", "mm", "q", "in", "pt", "pc", "px",
   "deg", "grad", "rad", "turn", "s", "ms", "hz", "khz", "dpi", "dpcm", "dppx", "x", "fr"].map String.toList

def Num.isZero : Num → Bool
  | .number q => q == 0
  | .percentage q => q == 0
  | .dimension q _ => q == 0

/-- two numeric values denote the same quantity when a length is expected: equal, or both are zero and
    each is a bare `0` or a zero `<length>` -/
def lengthEquiv (a b : Num) : Bool :=
  a == b ||
  (a.isZero && b.isZero &&
    (match a with | .number _ => true | .dimension _ u => lengthUnits.contains u | _ => false) &&
    (match b with | .number _ => true | .dimension _ u => lengthUnits.contains u | _ => false))

/-- the same when the context accepts `<length>` or (legacy) a bare-zero `<angle>` -/
def lengthOrLegacyAngleEquiv (a b : Num) : Bool :=
  a == b ||
  (a.isZero && b.isZero &&
    (match a with | .number _ => true | .dimension _ u => lengthUnits.contains u || angleUnits.contains u | _ => false) &&
    (match b with | .number _ => true | .dimension _ u => lengthUnits.contains u || angleUnits.contains u | _ => false))

/-- functions whose `<angle>` arguments may be written as a bare `0` (CSS Transforms 1 §12, Filter Effects 1
    `hue-rotate()`, CSS Images 3/4 gradients) -/
def legacyAngleFns : List (List Char) :=
  ["rotate", "rotatex", "rotatey", "rotatez", "rotate3d", "skew", "skewx", "skewy", "hue-rotate",
   "linear-gradient", "repeating-linear-gradient", "conic-gradient", "repeating-conic-gradient",
   "-webkit-linear-gradient", "-moz-linear-gradient", "-o-linear-gradient"].map String.toList

/-- math functions whose arguments are typed: a bare `0` is a `<number>`, not a `<length>` (CSS Values 4 §10) -/
def typedMathFns : List (List Char) :=
  ["abs", "sign", "hypot", "atan2", "pow", "sqrt", "mod", "rem", "sin", "cos", "tan", "asin", "acos", "atan",
   "exp", "log"].map String.toList

/-- do two numeric values denote the same quantity as an argument of function `name` (`[]` = top level of a
    declaration)?  Equal, or both zero where the unit of a zero may be dropped: a `<length>` anywhere except in
    the typed math functions, an `<angle>` only in the legacy contexts. -/
def ctxEquiv (name : List Char) (a b : Num) : Bool :=
  a == b ||
  (a.isZero && b.isZero && !typedMathFns.contains (lower name) &&
    (match a with
     | .number _ => true
     | .dimension _ u => lengthUnits.contains u || (angleUnits.contains u && legacyAngleFns.contains (lower name))
     | _ => false) &&
    (match b with
     | .number _ => true
     | .dimension _ u => lengthUnits.contains u || (angleUnits.contains u && legacyAngleFns.contains (lower name))
     | _ => false))

/-! ## 1–4 values → four sides (CSS 2.1 §8.3 margin, §8.4 padding, §8.5.1 border-width) -/

def fourSides : List Tok → Option (Tok × Tok × Tok × Tok)
  | [a] => some (a, a, a, a)
  | [a, b] => some (a, b, a, b)
  | [a, b, c] => some (a, b, c, b)
  | [a, b, c, d] => some (a, b, c, d)
  | _ => none

/-! ## colours -/

/-- sRGB colour: channels 0–255, alpha as a rational in [0, 1] -/
structure Color where
  r : Nat
  g : Nat
  b : Nat
  a : Rat
  deriving DecidableEq, Repr

/-- hex notation (CSS Color 4 §5.2): the digits after `#` -/
def hexColor (ds : List Char) : Option Color :=
  if !ds.all isHexDigit then none else
  match ds.map hexDigitVal with
  | [r, g, b] => some ⟨17 * r, 17 * g, 17 * b, 1⟩
  | [r, g, b, a] => some ⟨17 * r, 17 * g, 17 * b, ((17 * a : Nat) : Rat) / 255⟩
  | [r1, r2, g1, g2, b1, b2] => some ⟨16 * r1 + r2, 16 * g1 + g2, 16 * b1 + b2, 1⟩
  | [r1, r2, g1, g2, b1, b2, a1, a2] =>
    some ⟨16 * r1 + r2, 16 * g1 + g2, 16 * b1 + b2, ((16 * a1 + a2 : Nat) : Rat) / 255⟩
  | _ => none

/-- trigger of known finding K-C04-11: an 8-digit hex colour `#rrggbb00` whose colour digits are not all `0` -/
def hexAlpha00 (data : List Char) : Bool :=
  match data with
  | [_, a, b, c, d, e, f, x, y] => x == '0' && y == '0' && !([a, b, c, d, e, f].all (· == '0'))
  | _ => false

/-- colour keywords (ASCII case-insensitive) -/
def namedColor (s : List Char) : Option Color :=
  (C04Tables.cssColors.lookup (lower s)).map fun (r, g, b, a) => ⟨r, g, b, (a : Rat) / 255⟩

def roundHalfUp (q : Rat) : Int := (q + 1 / 2).floor

def clampRat (lo hi q : Rat) : Rat := if q < lo then lo else if hi < q then hi else q

/-- an sRGB channel given as a number (0–255) or a percentage -/
def channel (t : Tok) : Option Nat :=
  match numOf t with
  | some (.number q) => some (roundHalfUp (clampRat 0 255 q)).toNat
  | some (.percentage q) => some (roundHalfUp (clampRat 0 100 q * 255 / 100)).toNat
  | _ => none

def alphaOf (t : Tok) : Option Rat :=
  match numOf t with
  | some (.number q) => some (clampRat 0 1 q)
  | some (.percentage q) => some (clampRat 0 1 (q / 100))
  | _ => none

/-- CSS Color 3 §4.2.4, the HSL → RGB algorithm, on rationals -/
def hue2rgb (m1 m2 h : Rat) : Rat :=
  let h := if h < 0 then h + 1 else h
  let h := if 1 < h then h - 1 else h
  if h * 6 < 1 then m1 + (m2 - m1) * h * 6
  else if h * 2 < 1 then m2
  else if h * 3 < 2 then m1 + (m2 - m1) * (2 / 3 - h) * 6
  else m1

def hsl2rgb (h s l : Rat) : Rat × Rat × Rat :=
  let m2 := if l ≤ 1 / 2 then l * (s + 1) else l + s - l * s
  let m1 := l * 2 - m2
  (hue2rgb m1 m2 (h + 1 / 3), hue2rgb m1 m2 h, hue2rgb m1 m2 (h - 1 / 3))

/-- hue in degrees normalised to [0, 1) turns -/
def hueTurns (deg : Rat) : Rat :=
  let t := deg / 360
  t - (t.floor : Rat)

def isSlash (t : Tok) : Bool := t.tt == .delim && t.data == ['/']

/-- arguments of a colour function without white space; separators are commas (legacy syntax, flag `true`)
    or nothing with `/` before alpha (modern syntax) -/
def colorArgs (args : List Tok) : Option (Bool × List Tok) :=
  let plain (l : List Tok) : Bool := l.all (fun t => t.tt != .comma && !isSlash t)
  match args.filter (fun t => t.tt != .whitespace) with
  | [a, b, c] => if plain [a, b, c] then some (false, [a, b, c]) else none
  | [a, x, b, y, c] =>
    if x.tt == .comma && y.tt == .comma && plain [a, b, c] then some (true, [a, b, c])
    else if plain [a, x, b, c] && isSlash y then some (false, [a, x, b, c])
    else none
  | [a, x, b, y, c, z, d] =>
    if x.tt == .comma && y.tt == .comma && z.tt == .comma && plain [a, b, c, d] then some (true, [a, b, c, d]) else none
  | _ => none

def funcName (t : Tok) : List Char := lower t.data.dropLast

def funcColor (t : Tok) : Option Color :=
  match colorArgs t.args with
  | none => none
  | some (legacy, l) =>
    let alpha : Option Rat := match l with
      | [_, _, _] => some 1
      | [_, _, _, d] => alphaOf d
      | _ => none
    let name := funcName t
    if name == "rgb".toList || name == "rgba".toList then
      match l with
      | a :: b :: c :: _ =>
        -- CSS Color 4 §5.1: the legacy (comma) syntax takes three numbers or three percentages; the modern one may mix
        if !legacy || (a.tt == b.tt && b.tt == c.tt) then
          match channel a, channel b, channel c, alpha with
          | some r, some g, some b, some al => some ⟨r, g, b, al⟩
          | _, _, _, _ => none
        else none
      | _ => none
    else if name == "hsl".toList || name == "hsla".toList then
      match l with
      | h :: s :: li :: _ =>
        match numOf h, numOf s, numOf li, alpha with
        | some (.number hd), some (.percentage sp), some (.percentage lp), some al =>
          let (r, g, b) := hsl2rgb (hueTurns hd) (clampRat 0 1 (sp / 100)) (clampRat 0 1 (lp / 100))
          some ⟨(roundHalfUp (r * 255)).toNat, (roundHalfUp (g * 255)).toNat, (roundHalfUp (b * 255)).toNat, al⟩
        | _, _, _, _ => none
      | _ => none
    else none

/-- `hsl()` whose exact conversion puts a channel exactly half-way between two 8-bit levels: CSS does not
    say which neighbour is meant, and a floating-point implementation may produce either -/
def hslTie (t : Tok) : Bool :=
  let name := funcName t
  if !(t.tt == .function && (name == "hsl".toList || name == "hsla".toList)) then false else
  match colorArgs t.args with
  | some (_, h :: s :: li :: _) =>
    match numOf h, numOf s, numOf li with
    | some (.number hd), some (.percentage sp), some (.percentage lp) =>
      let (r, g, b) := hsl2rgb (hueTurns hd) (clampRat 0 1 (sp / 100)) (clampRat 0 1 (lp / 100))
      [r, g, b].any fun x => x * 255 + 1 / 2 == ((x * 255 + 1 / 2).floor : Rat)
    | _, _, _ => false
  | _ => false

/-- the sRGB colour and alpha a token denotes, if it is a colour in one of the notations above -/
def rgba (t : Tok) : Option Color :=
  match t.tt with
  | .hash => hexColor (t.data.drop 1)      -- the lexeme of a hash token starts with `#`
  | .ident => namedColor t.data
  | .function => funcColor t
  | _ => none

/-- CSS Syntax 3 §4.3.5: inside a string a backslash followed by a newline is dropped -/
def dropEscNl : List Char → List Char
  | '\\' :: '\r' :: '\n' :: r => dropEscNl r
  | '\\' :: '\n' :: r => dropEscNl r
  | '\\' :: '\r' :: r => dropEscNl r
  | '\\' :: c :: r => if c == Char.ofNat 12 then dropEscNl r else '\\' :: c :: dropEscNl r
  | c :: r => c :: dropEscNl r
  | [] => []

/-- CSS Syntax 3 §4.3.5/§4.3.7: the value of a string token from the text between its quotes.  `\` + 1–6
    hexadecimal digits + one optional white-space character is that code point (0, surrogates and values beyond
    U+10FFFF: U+FFFD); `\` + newline is nothing; `\` + any other character is that character.  In particular
    `\31` + `\`newline + `2` is "12" (the escape ends at the backslash), as is `\31 2`, while `\312` is U+312. -/
def strValueGo : Nat → List Char → List Char
  | 0, s => s
  | _ + 1, [] => []
  | fuel + 1, '\\' :: r =>
    match r with
    | [] => [Char.ofNat 0xFFFD]
    | c :: r' =>
      if isHexDigit c then
        let hs := c :: (r'.takeWhile isHexDigit).take 5
        let rest := r'.drop (hs.length - 1)
        let rest := match rest with
          | '\r' :: '\n' :: x => x
          | w :: x => if isWs w then x else rest
          | [] => []
        let v := hexVal hs
        (if v == 0 || v > 0x10FFFF || (0xD800 ≤ v && v ≤ 0xDFFF) then Char.ofNat 0xFFFD else Char.ofNat v) ::
          strValueGo fuel rest
      else if c == '\r' then
        match r' with
        | '\n' :: r'' => strValueGo fuel r''
        | _ => strValueGo fuel r'
      else if c == '\n' || c == Char.ofNat 12 then strValueGo fuel r'
      else c :: strValueGo fuel r'
  | fuel + 1, c :: r => c :: strValueGo fuel r

def strValue (s : List Char) : List Char := strValueGo (s.length + 1) s


/-! ## keywords -/

/-- identifier keyword, ASCII case-insensitive -/
def kwOf (t : Tok) : Option (List Char) := if t.tt == .ident then some (lower t.data) else none

def isKw (t : Tok) (s : String) : Bool := kwOf t == some s.toList

/-! ## font-weight (CSS Fonts 3 §3.2: `normal` = 400, `bold` = 700) -/

inductive Weight where
  | abs (q : Rat)
  | kw (s : List Char)
  deriving DecidableEq, Repr

def fontWeightVal (t : Tok) : Option Weight :=
  match t.tt with
  | .ident =>
    let k := lower t.data
    if k == "normal".toList then some (.abs 400)
    else if k == "bold".toList then some (.abs 700)
    else some (.kw k)
  | .number => (numVal t.data).map .abs
  | _ => none

/-! ## font-family (CSS Fonts 3 §3.1)

A family is a string, or a sequence of identifiers joined by single spaces.  Unquoted generic-family and
CSS-wide keywords are keywords, not names; `<custom-ident>` excludes the CSS-wide keywords and `default`
(CSS Values 3 §3.2), so an unquoted sequence containing one of them is invalid.  Names match ASCII
case-insensitively (CSS Fonts 3 §5.1), hence lower-casing. -/

def genericFamilies : List (List Char) :=
  ["serif", "sans-serif", "cursive", "fantasy", "monospace", "system-ui", "ui-serif", "ui-sans-serif",
   "ui-monospace", "ui-rounded", "emoji", "math", "fangsong"].map String.toList

def cssWideKeywords : List (List Char) := ["inherit", "initial", "unset", "revert", "default"].map String.toList

inductive Family where
  | name (s : List Char)
  | keyword (s : List Char)
  | other (ts : List Tok)       -- var(), env(), … (opaque)
  deriving DecidableEq, Repr

def splitOn (c : Char) : List Char → List (List Char)
  | [] => [[]]
  | x :: r =>
    match splitOn c r with
    | [] => [[]]
    | h :: t => if x == c then [] :: h :: t else (x :: h) :: t

def joinSpace : List (List Char) → List Char
  | [] => []
  | [a] => a
  | a :: r => a ++ ' ' :: joinSpace r

/-- one comma-separated item of `font-family` -/
def familyOf (item : List Tok) : Option Family :=
  match item with
  | [t] =>
    if t.tt == .string then
      let body := dropEscNl (t.data.drop 1).dropLast
      if body.contains '\\' then none else some (.name (lower body))
    else if t.tt == .function then some (.other [t])
    else if t.tt == .ident then
      let k := lower t.data
      if genericFamilies.contains k || cssWideKeywords.contains k then some (.keyword k) else some (.name k)
    else none
  | _ =>
    if item.isEmpty then none
    else if item.all (fun t => t.tt == .ident && !cssWideKeywords.contains (lower t.data)) then
      some (.name (joinSpace (item.map fun t => lower t.data)))
    else none

/-- trigger of known finding K-C04-6, on the lower-cased content of a family string: a single word that is
    a generic-family or CSS-wide keyword, or several words one of which is a CSS-wide keyword -/
def familyKeywordString (lb : List Char) : Bool :=
  match splitOn ' ' lb with
  | [w] => genericFamilies.contains w || cssWideKeywords.contains w
  | ws => ws.any cssWideKeywords.contains

/-- the tokens a user agent reads from the bytes written for a `font-family` item: a quoted string stays
    one string token; bytes that were unquoted are a sequence of identifiers separated by single spaces (the
    model unquotes only when every word is an identifier — lexer contract) -/
def asWritten (t : Tok) : List Tok :=
  if t.tt == .string && !(t.data.head? == some '"' || t.data.head? == some '\'') then
    (splitOn ' ' t.data).map fun w => Tok.mk .ident w []
  else [t]

/-- a string token as the lexer delivers it: quote, content, the same quote -/
def strTok (q : Char) (body : List Char) (args : List Tok) : Tok := .mk .string (q :: body ++ [q]) args

def splitCommas : List Tok → List (List Tok)
  | [] => [[]]
  | t :: r =>
    match splitCommas r with
    | [] => [[]]
    | h :: tl => if t.tt == .comma then [] :: h :: tl else (t :: h) :: tl

def fontFamilies (vs : List Tok) : Option (List Family) := (splitCommas vs).mapM familyOf

/-! ## unicode-range (CSS Syntax 3 §7.1 `<urange>`; CSS Fonts 3 §4.5: initial value U+0-10FFFF) -/

/-- `[start, end]` of one `<urange>` lexeme `U+…`; `none` when malformed or `start > end` -/
def urangeBounds (data : List Char) : Option (Nat × Nat) :=
  match data with
  | u :: '+' :: r =>
    if !(u == 'u' || u == 'U') then none else
    let hex := r.takeWhile isHexDigit
    let rest := r.dropWhile isHexDigit
    let qs := rest.takeWhile (· == '?')
    let rest2 := rest.dropWhile (· == '?')
    if !qs.isEmpty then
      if !rest2.isEmpty || 6 < hex.length + qs.length then none
      else some (hexVal hex * 16 ^ qs.length, hexVal hex * 16 ^ qs.length + (16 ^ qs.length - 1))
    else match rest with
      | [] => if hex.isEmpty || 6 < hex.length then none else some (hexVal hex, hexVal hex)
      | '-' :: e =>
        if hex.isEmpty || 6 < hex.length || e.isEmpty || 6 < e.length || !e.all isHexDigit then none
        else if hexVal e < hexVal hex then none else some (hexVal hex, hexVal e)
      | _ => none
  | _ => none

/-- the ranges a `unicode-range` value lists; `initial` is U+0-10FFFF -/
def urangeList (vs : List Tok) : Option (List (Nat × Nat)) :=
  match vs with
  | [t] => if isKw t "initial" then some [(0, 0x10FFFF)] else
           if t.tt == .unicodeRange then (urangeBounds t.data).map ([·]) else none
  | _ =>
    (vs.filter (fun t => t.tt != .comma)).mapM fun t =>
      if t.tt == .unicodeRange then urangeBounds t.data else none

/-- is code point `c` in the set the value denotes? -/
def codePointMem (c : Nat) (rs : List (Nat × Nat)) : Bool := rs.any fun r => r.1 ≤ c && c ≤ r.2

/-- decision procedure for equality of two range unions: compare membership at every boundary point -/
def sameCodePoints (a b : List (Nat × Nat)) : Bool :=
  let pts := (a ++ b).flatMap fun r => [r.1, r.2, r.1 - 1, r.2 + 1]
  pts.all fun c => codePointMem c a == codePointMem c b

/-! ## background-position (CSS Backgrounds 3 §3.6) -/

/-- the length part of an offset -/
inductive LenPart where
  | zero
  | dim (q : Rat) (u : List Char)
  | tok (neg : Bool) (t : Tok)      -- calc(), var(), … (opaque)
  deriving DecidableEq, Repr

/-- an offset from the left/top edge: `pct`% of (box − image) plus a length -/
structure Off where
  pct : Rat
  len : LenPart
  deriving DecidableEq, Repr

def LenPart.neg : LenPart → LenPart
  | .zero => .zero
  | .dim q u => .dim (-q) u
  | .tok n t => .tok (!n) t

/-- `<length-percentage>` as an offset -/
def offOf (t : Tok) : Option Off :=
  match t.tt with
  | .function => some ⟨0, .tok false t⟩
  | _ =>
    match numOf t with
    | some (.number q) => if q == 0 then some ⟨0, .zero⟩ else none
    | some (.percentage q) => some ⟨q, .zero⟩
    | some (.dimension q u) => if q == 0 then some ⟨0, .zero⟩ else some ⟨0, .dim q u⟩
    | none => none

inductive PKw where | left | right | top | bottom | center
  deriving DecidableEq, Repr

def pkwOf (t : Tok) : Option PKw :=
  match kwOf t with
  | some k =>
    if k == "left".toList then some .left else if k == "right".toList then some .right
    else if k == "top".toList then some .top else if k == "bottom".toList then some .bottom
    else if k == "center".toList then some .center else none
  | none => none

/-- distance from the far edge: `100% − o` -/
def Off.flip (o : Off) : Off := ⟨100 - o.pct, o.len.neg⟩

def pct (q : Rat) : Off := ⟨q, .zero⟩

def horiz (k : PKw) (o : Option Off) : Option Off :=
  match k, o with
  | .left, none => some (pct 0)
  | .left, some o => some o
  | .right, none => some (pct 100)
  | .right, some o => some o.flip
  | .center, none => some (pct 50)
  | _, _ => none

def vert (k : PKw) (o : Option Off) : Option Off :=
  match k, o with
  | .top, none => some (pct 0)
  | .top, some o => some o
  | .bottom, none => some (pct 100)
  | .bottom, some o => some o.flip
  | .center, none => some (pct 50)
  | _, _ => none

def both (x y : Option Off) : Option (Off × Off) :=
  match x, y with | some a, some b => some (a, b) | _, _ => none

/-- first alternative if defined, else the second -/
def orElse' (a b : Option (Off × Off)) : Option (Off × Off) := match a with | some x => some x | none => b

/-- a keyword with an optional offset token read as the horizontal / vertical component -/
def axisH (k : PKw) (o : Option Tok) : Option Off :=
  match o with
  | none => horiz k none
  | some t => (offOf t).bind fun x => horiz k (some x)

def axisV (k : PKw) (o : Option Tok) : Option Off :=
  match o with
  | none => vert k none
  | some t => (offOf t).bind fun x => vert k (some x)

/-- two keyword groups in either order: `[ center | [left|right] <lp>? ] && [ center | [top|bottom] <lp>? ]` -/
def groups2 (k1 : PKw) (o1 : Option Tok) (k2 : PKw) (o2 : Option Tok) : Option (Off × Off) :=
  orElse' (both (axisH k1 o1) (axisV k2 o2)) (both (axisH k2 o2) (axisV k1 o1))

/-- `<bg-position>`: (horizontal, vertical) offsets from the top-left corner -/
def position (vs : List Tok) : Option (Off × Off) :=
  match vs with
  | [a] =>
    match pkwOf a with
    | some .left => some (pct 0, pct 50)
    | some .right => some (pct 100, pct 50)
    | some .center => some (pct 50, pct 50)
    | some .top => some (pct 50, pct 0)
    | some .bottom => some (pct 50, pct 100)
    | none => (offOf a).map fun o => (o, pct 50)
  | [a, b] =>
    match pkwOf a, pkwOf b with
    | some ka, some kb => groups2 ka none kb none
    | some ka, none => both (horiz ka none) (offOf b)
    | none, some kb => both (offOf a) (vert kb none)
    | none, none => both (offOf a) (offOf b)
  | [a, b, c] =>
    match pkwOf a, pkwOf b, pkwOf c with
    | some ka, none, some kc => groups2 ka (some b) kc none
    | some ka, some kb, none => groups2 ka none kb (some c)
    | _, _, _ => none
  | [a, b, c, d] =>
    match pkwOf a, pkwOf b, pkwOf c, pkwOf d with
    | some ka, none, some kc, none => groups2 ka (some b) kc (some d)
    | _, _, _, _ => none
  | _ => none

/-! ## flex (CSS Flexbox 1 §7.1) -/

inductive Basis where
  | auto | content | zero
  | len (q : Rat) (u : List Char)
  | pct (q : Rat)
  | tok (t : Tok)
  deriving DecidableEq, Repr

def basisOf (t : Tok) : Option Basis :=
  if isKw t "auto" then some .auto
  else if isKw t "content" then some .content
  else if t.tt == .function then some (.tok t)
  else match numOf t with
    | some (.number q) => if q == 0 then some .zero else none
    | some (.percentage q) => if q == 0 then some .zero else some (.pct q)
    | some (.dimension q u) => if q == 0 then some .zero else some (.len q u)
    | none => none

def flexNum (t : Tok) : Option Rat := if t.tt == .number then numVal t.data else none

/-- (flex-grow, flex-shrink, flex-basis); a zero basis is `zero` whatever its unit -/
def flexTriple (vs : List Tok) : Option (Rat × Rat × Basis) :=
  match vs with
  | [a] =>
    if isKw a "none" then some (0, 0, .auto)
    else if isKw a "auto" then some (1, 1, .auto)
    else if isKw a "initial" then some (0, 1, .auto)
    else match flexNum a with
      | some g => some (g, 1, .zero)
      | none => (basisOf a).map fun b => (1, 1, b)
  | [a, b] =>
    match flexNum a, flexNum b with
    | some g, some s => some (g, s, .zero)
    | some g, none => (basisOf b).map fun bs => (g, 1, bs)
    | _, _ => none
  | [a, b, c] =>
    match flexNum a, flexNum b, basisOf c with
    | some g, some s, some bs => some (g, s, bs)
    | _, _, _ => none
  | _ => none

/-! ## normal form of a value list, for the generic comparison

Numbers are compared by value, units and function names ASCII case-insensitively, a zero `<length>` equals
`0`, colours by sRGB value and alpha; white space is insignificant except inside functions (where it is kept
unless adjacent to a comma, a slash or the parentheses). -/

def natChars (n : Nat) : List Char := Nat.toDigits 10 n

def ratChars (q : Rat) : List Char :=
  (if q.num < 0 then ['-'] else []) ++ natChars q.num.natAbs ++ (if q.den == 1 then [] else '/' :: natChars q.den)

def colorTok (c : Color) : Tok :=
  .mk .hash ('#' :: natChars c.r ++ ',' :: natChars c.g ++ ',' :: natChars c.b ++ ',' :: ratChars c.a) []

def isPlusMinus (t : Tok) : Bool := t.tt == .delim && (t.data == ['+'] || t.data == ['-'])

/-- white space between the component values of a function is not significant except around a `+` or `-`
delimiter (CSS Values 4 §10.1: an operator of `calc()` needs it on *both* sides): all white space is dropped, and a
`+`/`-` that has it on both sides is marked (`" + "`).  A minifier may thus add a space between two tokens that stood
next to each other (`8.24E3-255` → `8240 -255`, a933f35) but not make or unmake an operator.
`prevWs` = the previous token was white space. -/
def trimArgWsGo (prevWs : Bool) : List Tok → List Tok
  | [] => []
  | t :: r =>
    if t.tt == .whitespace then trimArgWsGo true r
    else if isPlusMinus t && prevWs && (match r with | n :: _ => n.tt == .whitespace | [] => false) then
      .mk .delim (' ' :: t.data ++ [' ']) [] :: trimArgWsGo false r
    else t :: trimArgWsGo false r

/-- drop the insignificant white space of a function's arguments -/
def trimArgWs (ts : List Tok) : List Tok := trimArgWsGo false ts

def dropLeadingWs : List Tok → List Tok
  | t :: r => if t.tt == .whitespace then dropLeadingWs r else t :: r
  | [] => []

def trimWsChars (b : List Char) : List Char := ((b.dropWhile isWs).reverse.dropWhile isWs).reverse

/-- the resource a `url(…)` token names: white space and quotes stripped (escapes other than escaped
    newlines are kept verbatim); `data:` URIs are the subject of C18 and compared only by their scheme -/
def urlContent (data : List Char) : List Char :=
  let inner := trimWsChars ((data.drop 4).reverse.dropWhile (· == ')')).reverse
  let inner := match inner with
    | q :: r => if (q == '"' || q == '\'') && r.getLast? == some q then dropEscNl r.dropLast else inner
    | [] => []
  if lower (inner.take 5) == "data:".toList then "data:".toList else inner

mutual
/-- normal form of one token (`fn` = lower-cased name of the enclosing function, `[]` at top level) -/
def normTok (fn : List Char) : Tok → Tok
  | .mk tt data args =>
    let t := Tok.mk tt data args
    match tt with
    | .number => match numKey data with | some k => .mk .number k [] | none => t
    | .percentage =>
      match data.reverse with
      | '%' :: r => match numKey r.reverse with | some k => .mk .percentage (k ++ ['%']) [] | none => t
      | _ => t
    | .dimension =>
      let (n, u) := spanNumber data
      match numKey n with
      | some k =>
        let u := lower u
        if u.isEmpty then t
        else if k == ['0'] && !typedMathFns.contains fn &&
            (lengthUnits.contains u || (angleUnits.contains u && legacyAngleFns.contains fn)) then .mk .number ['0'] []
        else .mk .dimension (k ++ ' ' :: u) []
      | none => t
    | .hash => match rgba t with | some c => colorTok c | none => .mk .hash "#<not a hex colour>".toList []
    | .ident => match namedColor data with | some c => colorTok c | none => t
    | .whitespace => .mk .whitespace [' '] []
    | .string =>
      -- a string denotes its value: escapes resolved, the quote character is not significant
      .mk .string ('"' :: strValue (data.drop 1).dropLast ++ ['"']) []
    | .url => .mk .url (urlContent data) []
    | .function =>
      match funcColor t with
      | some c => colorTok c
      | none => .mk .function (lower data) (trimArgWs (dropLeadingWs (normToks (lower data.dropLast) args)))
    | .leftParen => .mk .leftParen data (trimArgWs (dropLeadingWs (normToks fn args)))
    | _ => t
def normToks (fn : List Char) : List Tok → List Tok
  | [] => []
  | t :: r => normTok fn t :: normToks fn r
end

/-- top-level normal form: white space dropped -/
def normList (vs : List Tok) : List Tok := (normToks [] vs).filter fun t => t.tt != .whitespace

/-! ## background-size / background-repeat layers (CSS Backgrounds 3 §3.9, §3.4) -/

def autoTok : Tok := .mk .ident "auto".toList []

/-- (width, height): a missing height is `auto` (tokens compared as they are: `verdict` normalises first) -/
def bgSize (layer : List Tok) : Option (Tok × Tok) :=
  match layer.map (fun t => if t.tt == .ident then Tok.mk .ident (lower t.data) [] else t) with
  | [a] => some (a, autoTok)
  | [a, b] => some (a, b)
  | _ => none

def repeatKeywords : List (List Char) := ["repeat", "space", "round", "no-repeat"].map String.toList

def bgRepeat (layer : List Tok) : Option (List Char × List Char) :=
  match layer with
  | [a] =>
    match kwOf a with
    | some k =>
      if k == "repeat-x".toList then some ("repeat".toList, "no-repeat".toList)
      else if k == "repeat-y".toList then some ("no-repeat".toList, "repeat".toList)
      else if repeatKeywords.contains k then some (k, k) else none
    | none => none
  | [a, b] =>
    match kwOf a, kwOf b with
    | some x, some y => if repeatKeywords.contains x && repeatKeywords.contains y then some (x, y) else none
    | _, _ => none
  | _ => none

/-! ## box-shadow layer (CSS Backgrounds 3 §6.1): 2–4 lengths (blur and spread default to 0) -/

def isLengthTok (t : Tok) : Bool :=
  match numOf t with
  | some (.dimension _ _) => true
  | some (.number q) => q == 0
  | _ => t.tt == .function && ["calc", "min", "max", "clamp", "var", "env", "attr"].contains (String.ofList (funcName t))

def zeroTok : Tok := .mk .number ['0'] []

/-- (lengths padded to four, the other tokens in order) -/
def shadow (layer : List Tok) : Option (List Tok × List Tok) :=
  let n := layer
  match n with
  | [_] => none
  | _ =>
    let ls := n.filter isLengthTok
    let os := n.filter (fun t => !isLengthTok t)
    if 2 ≤ ls.length && ls.length ≤ 4 then some (ls ++ List.replicate (4 - ls.length) zeroTok, os) else none

/-! ## line shorthands: `border*`, `outline`, `column-rule` (width, style, colour) and
`text-decoration` (line, style, colour), `text-emphasis` (style, colour): omitted components take their
initial values (CSS Backgrounds 3 §4.4, CSS UI 3 §4.1, CSS Multicol §4.5, CSS Text Decoration 3 §2.5, §3.4) -/

def lineStyles : List (List Char) :=
  ["none", "hidden", "dotted", "dashed", "solid", "double", "groove", "ridge", "inset", "outset", "auto"].map String.toList
def lineWidths : List (List Char) := ["thin", "medium", "thick"].map String.toList
def decoLines : List (List Char) := ["none", "underline", "overline", "line-through", "blink"].map String.toList
def decoStyles : List (List Char) := ["solid", "double", "dotted", "dashed", "wavy"].map String.toList

inductive Slot where | width | style | color | line
  deriving DecidableEq, Repr

/-- which component of the shorthand a token sets -/
def slotOf (prop : List Char) (t : Tok) : Slot :=
  match kwOf t with
  | some k =>
    if prop == "text-decoration".toList then
      if decoLines.contains k then .line else if decoStyles.contains k then .style else .color
    else if prop == "text-emphasis".toList then
      if k == "currentcolor".toList || (namedColor k).isSome then .color else .style
    else if lineStyles.contains k then .style
    else if lineWidths.contains k then .width
    else .color
  | none =>
    if prop == "text-emphasis".toList && t.tt == .string then .style
    else match numOf t with | some _ => .width | none => .color

/-- initial value of a component, as a normal-form token -/
def slotInitial (prop : List Char) (s : Slot) : Tok :=
  match s with
  | .width => .mk .ident "medium".toList []
  | .style => if prop == "text-decoration".toList then .mk .ident "solid".toList [] else .mk .ident "none".toList []
  | .color => if prop == "outline".toList then .mk .ident "invert".toList [] else .mk .ident "currentcolor".toList []
  | .line => .mk .ident "none".toList []

def lowerIdent (t : Tok) : Tok := if t.tt == .ident then .mk .ident (lower t.data) [] else t

/-- value of component `s`: the tokens given for it (normal form, keywords lower-cased), or its initial value -/
def slotVal (prop : List Char) (vs : List Tok) (s : Slot) : List Tok :=
  match (vs.map lowerIdent).filter (fun t => slotOf prop t == s && t != slotInitial prop s) with
  | [] => [slotInitial prop s]
  | l => l

def lineShorthand (prop : List Char) (vs : List Tok) : List (List Tok) :=
  [Slot.width, .style, .color, .line].map (slotVal prop vs)

/-! ## the judgement `holds`: do two value lists of property `prop` mean the same? -/

def sidesProps : List (List Char) := ["margin", "padding", "border-width", "border-color", "border-style", "border-radius"].map String.toList
def lineProps : List (List Char) :=
  ["border", "border-top", "border-right", "border-bottom", "border-left", "outline", "column-rule",
   "text-decoration", "text-emphasis"].map String.toList
def currentColorInitialProps : List (List Char) :=
  ["border-color", "border-left-color", "border-right-color", "border-top-color", "border-bottom-color",
   "text-decoration-color", "text-emphasis-color"].map String.toList

/-- replace keyword `a` by keyword `b` -/
def substKw (a b : String) (vs : List Tok) : List Tok :=
  vs.map fun t => if isKw t a then .mk .ident b.toList [] else t

/-- 1 = same, 0 = different, 2 = the input has no denotation (outside the grammar of the property) -/
def cmpDen {α : Type} [BEq α] (x y : Option α) : Nat :=
  match x, y with
  | some u, some v => if u == v then 1 else 0
  | some _, none => 0
  | none, _ => 2

def layersCmp {α : Type} [BEq α] (f : List Tok → Option α) (a b : List Tok) : Nat :=
  let la := splitCommas a
  let lb := splitCommas b
  if la.any (fun x => (f x).isNone) then 2
  else if la.length != lb.length then 0
  else if (la.zip lb).all (fun (x, y) => cmpDen (f x) (f y) == 1) then 1 else 0

def boolV (b : Bool) : Nat := if b then 1 else 0

mutual
def anyTok (p : Tok → Bool) : Tok → Bool
  | .mk tt data args => p (.mk tt data args) || anyToks p args
def anyToks (p : Tok → Bool) : List Tok → Bool
  | [] => false
  | t :: r => anyTok p t || anyToks p r
end

/-- an `rgb()/rgba()/hsl()/hsla()` function whose arguments do not fit the colour grammar: not a value -/
def badColorFn (t : Tok) : Bool :=
  t.tt == .function && ["rgb", "rgba", "hsl", "hsla"].contains (String.ofList (funcName t)) && (funcColor t).isNone

def isProgid (t : Tok) : Bool := t.tt == .ident && lower t.data == "progid".toList
def isProgidString (t : Tok) : Bool := t.tt == .string && lower ((t.data.drop 1).take 7) == "progid:".toList

/-- do the value lists `a` (input) and `b` (output) of property `prop` denote the same value?
    1 = same, 0 = different, 2 = not judged: the input is outside the grammar of the property, contains an
    `hsl()` tie (float territory), an invalid colour function or an IE `progid:` filter -/
def verdict (prop : List Char) (a b : List Tok) : Nat :=
  let a := a.filter fun t => t.tt != .whitespace
  let b := b.filter fun t => t.tt != .whitespace
  let na := normList a
  let nb := normList b
  if na == nb then 1
  else if anyToks hslTie a || anyToks isProgid a || anyToks isProgidString a || anyToks badColorFn a then 2
  else if prop == "margin".toList || prop == "padding".toList || prop == "border-width".toList then
    cmpDen (fourSides na) (fourSides nb)
  else if prop == "border-color".toList then
    cmpDen (fourSides (substKw "currentcolor" "initial" (na.map lowerIdent))) (fourSides (substKw "currentcolor" "initial" (nb.map lowerIdent)))
  else if currentColorInitialProps.contains prop then
    boolV (substKw "currentcolor" "initial" (na.map lowerIdent) == substKw "currentcolor" "initial" (nb.map lowerIdent))
  else if prop == "background-color".toList then
    -- `transparent` is the initial value
    boolV (normList (substKw "initial" "transparent" (a.map lowerIdent)) == normList (substKw "initial" "transparent" (b.map lowerIdent)))
  else if prop == "font-weight".toList then
    if (a.map fontWeightVal).any Option.isNone then 2
    else boolV (a.map fontWeightVal == b.map fontWeightVal)
  else if prop == "font-family".toList then cmpDen (fontFamilies a) (fontFamilies b)
  else if prop == "unicode-range".toList then
    match urangeList a, urangeList b with
    | some x, some y => boolV (sameCodePoints x y)
    | some _, none => 0
    | none, _ => 2
  else if prop == "background-position".toList then
    -- an offset that is a function is compared in normal form (its arguments are minified like any other value)
    let nf := fun (t : Tok) => if t.tt == .function then normTok [] t else t
    layersCmp position (a.map nf) (b.map nf)
  else if prop == "background-size".toList then layersCmp bgSize na nb
  else if prop == "background-repeat".toList then layersCmp bgRepeat a b
  else if prop == "box-shadow".toList then
    -- `none` (= the initial value) is only valid as the whole value
    match a, b with
    | [x], [y] => if isKw x "none" || isKw x "initial" then boolV (isKw y "none" || isKw y "initial") else 2
    | _, _ => layersCmp shadow na nb
  else if prop == "font".toList || prop == "background".toList then 2   -- shorthands without a denotation here
  else if prop == "flex".toList then cmpDen (flexTriple a) (flexTriple b)
  else if prop == "flex-basis".toList then
    match substKw "initial" "auto" a, substKw "initial" "auto" b with
    | [x], [y] => cmpDen (basisOf x) (basisOf y)
    | _, _ => 0
  else if prop == "order".toList || prop == "flex-grow".toList then
    boolV (normList (a.map fun t => if isKw t "initial" then zeroTok else t) ==
           normList (b.map fun t => if isKw t "initial" then zeroTok else t))
  else if prop == "flex-shrink".toList then
    boolV (normList (a.map fun t => if isKw t "initial" then Tok.mk .number ['1'] [] else t) ==
           normList (b.map fun t => if isKw t "initial" then Tok.mk .number ['1'] [] else t))
  else if lineProps.contains prop then boolV (lineShorthand prop na == lineShorthand prop nb)
  else 0

def holds (prop : List Char) (a b : List Tok) : Bool := verdict prop a b == 1

/-! ## nesting the flat token stream of a value (function token … `)`) -/

/-- build function tokens (and parenthesised groups, as a `leftParen` token with arguments) from a flat
    lexer stream; returns the nested list and the unconsumed rest -/
def nestAux : Nat → List Tok → List Tok → List Tok × List Tok
  | 0, ts, acc => (acc.reverse, ts)
  | _ + 1, [], acc => (acc.reverse, [])
  | fuel + 1, t :: r, acc =>
    if t.tt == .rightParen then (acc.reverse, r)
    else if t.tt == .function || t.tt == .leftParen then
      let (args, r') := nestAux fuel r []
      nestAux fuel r' (.mk t.tt t.data args :: acc)
    else nestAux fuel r (t :: acc)

def nest (ts : List Tok) : List Tok := (nestAux (ts.length + 1) ts []).1

/-! ## what the declaration writer must guarantee -/

/-- two lexemes may be written back to back: one side is a `,`, a `/` or a `)` — always tokens of their own
    (CSS Syntax 3 §4.3.1) — and no `/*` arises -/
def safeBoundary (l r : List Char) : Bool :=
  (l.getLast? == some ',' || l.getLast? == some ')' || l.getLast? == some '/' ||
   r.head? == some ',' || r.head? == some '/') &&
  !(l.getLast? == some '/' && r.head? == some '*')

def isHexRange (c : Char) : Bool := ('0' ≤ c && c ≤ '9') || ('a' ≤ c && c ≤ 'f') || ('A' ≤ c && c ≤ 'F')

/-- the lexeme ends in a hexadecimal escape — an unescaped backslash and one to six hexadecimal digits (CSS Syntax 3
§4.3.7): a single white-space character behind it belongs to the escape and separates nothing -/
def endsHexEsc (b : List Char) : Bool :=
  let hs := (b.reverse.takeWhile isHexRange).take 6
  if hs.isEmpty then false else
  match b.reverse.drop hs.length with
  | '\\' :: r => (r.takeWhile (· == '\\')).length % 2 == 0
  | _ => false

/-- `out` is the lexemes `ps` in order, each pair separated by one space — two behind a lexeme that ends in a
hexadecimal escape, the first of which only terminates the escape — or, at a safe boundary, by nothing -/
inductive Joined : List (List Char) → List Char → Prop
  | nil : Joined [] []
  | single (p : List Char) : Joined [p] p
  | space (p q : List Char) (rest : List (List Char)) (out : List Char) :
      endsHexEsc p = false → Joined (q :: rest) out → Joined (p :: q :: rest) (p ++ ' ' :: out)
  | space2 (p q : List Char) (rest : List (List Char)) (out : List Char) :
      endsHexEsc p = true → Joined (q :: rest) out → Joined (p :: q :: rest) (p ++ ' ' :: ' ' :: out)
  | tight (p q : List Char) (rest : List (List Char)) (out : List Char) :
      safeBoundary p q = true → Joined (q :: rest) out → Joined (p :: q :: rest) (p ++ out)

/-- lexer contract on the shapes the writer relies on -/
def TokShape (t : Tok) : Prop :=
  (t.tt = .comma → t.data = [',']) ∧ (t.tt = .delim → t.data.length = 1) ∧
  (t.tt = .url → t.data.getLast? = some ')') ∧ t.data ≠ []

/-- lexer contract: only an identifier, a hash or a dimension ends in a hexadecimal escape (at-keywords and custom
property names, which also can, do not occur as values of the properties the theorems speak about) -/
def EscShape (t : Tok) : Prop :=
  endsHexEsc t.data = true → (t.tt = .ident ∨ t.tt = .hash ∨ t.tt = .dimension)


end Verif.Spec.CssValue

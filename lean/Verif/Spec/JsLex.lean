/-!
# C01 — lexical grammar of the fragment (ECMA-262 §12, maximal munch), independent of the printer

`lexTexts cs` splits source characters into lexemes: identifier names / keywords, numeric literals
(`DecimalDigits [. DecimalDigits?] [e [+-] DecimalDigits]`), double-quoted string literals without escapes,
punctuators (longest match first); blanks separate tokens.  `none` = not lexable.
Used by the harness to check on every output that the written tokens are the tokens read back
(token separation: `+ +`, `- -`, `a in b`, `typeof x`, `1..a`, `a-- >b`, `<! --`).
-/
namespace Verif.Spec.JsLex

def isIdStart (c : Char) : Bool := c.isAlpha || c == '_' || c == '$'
def isIdPart (c : Char) : Bool := c.isAlphanum || c == '_' || c == '$'

/-- punctuators, longest first -/
def puncts : List String :=
  [">>>=", "...", "===", "!==", "**=", "<<=", ">>=", ">>>", "&&=", "||=", "??=",
   "=>", "==", "!=", "<=", ">=", "&&", "||", "??", "?.", "++", "--", "+=", "-=", "*=", "/=", "%=", "&=", "|=", "^=",
   "<<", ">>", "**",
   "{", "}", "(", ")", "[", "]", ";", ",", "<", ">", "+", "-", "*", "/", "%", "&", "|", "^", "!", "~", "?", ":", "=", "."]

def takeWhileL (p : Char → Bool) : List Char → List Char × List Char
  | [] => ([], [])
  | c :: r => if p c then let (a, b) := takeWhileL p r; (c :: a, b) else ([], c :: r)

def matchPunct (cs : List Char) : Option (List Char × List Char) :=
  (puncts.find? (fun p => p.toList.isPrefixOf cs)).map (fun p => (p.toList, cs.drop p.length))

/-- a numeric literal starting with a digit -/
def lexNumber (cs : List Char) : List Char × List Char :=
  let (ds, r1) := takeWhileL Char.isDigit cs
  let (frac, r2) : List Char × List Char := match r1 with
    | '.' :: r => let (fs, r') := takeWhileL Char.isDigit r; ('.' :: fs, r')
    | _ => ([], r1)
  let (ex, r3) : List Char × List Char := match r2 with
    | e :: r =>
      if e == 'e' || e == 'E' then
        match r with
        | s :: d :: r' =>
          if (s == '+' || s == '-') && d.isDigit then
            let (es, r'') := takeWhileL Char.isDigit (d :: r'); (e :: s :: es, r'')
          else if s.isDigit then let (es, r'') := takeWhileL Char.isDigit (s :: d :: r'); (e :: es, r'')
          else ([], r2)
        | [d] => if d.isDigit then ([e, d], []) else ([], r2)
        | [] => ([], r2)
      else ([], r2)
    | [] => ([], r2)
  (ds ++ frac ++ ex, r3)

def lexTextsAux : Nat → List Char → Option (List (List Char))
  | 0, [] => some []
  | 0, _ :: _ => none
  | fuel + 1, cs =>
    match cs with
    | [] => some []
    | c :: r =>
      if c == ' ' || c == '\n' || c == '\t' then lexTextsAux fuel r
      else if isIdStart c then
        let (w, r') := takeWhileL isIdPart cs
        (lexTextsAux fuel r').map (w :: ·)
      else if c.isDigit then
        let (w, r') := lexNumber cs
        -- a numeric literal must not be followed directly by an identifier start or a digit
        match r' with
        | d :: _ => if isIdStart d || d.isDigit then none else (lexTextsAux fuel r').map (w :: ·)
        | [] => some [w]
      else if c == '"' then
        let (body, r') := takeWhileL (· != '"') r
        match r' with
        | '"' :: r'' => (lexTextsAux fuel r'').map (('"' :: body ++ ['"']) :: ·)
        | _ => none
      else
        match matchPunct cs with
        | some (w, r') => (lexTextsAux fuel r').map (w :: ·)
        | none => none

/-- the lexemes of a source text -/
def lexTexts (cs : List Char) : Option (List (List Char)) := lexTextsAux (cs.length + 1) cs

end Verif.Spec.JsLex

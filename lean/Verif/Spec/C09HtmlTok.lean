import Verif.Spec.HtmlAttr
/-!
# C09 / HTML — the tokenizer of the HTML standard (specification side)

Hand transcription of WHATWG HTML §13.2.5 (*Tokenization*) as a character-level state machine on bytes
(`List Char`, Latin-1 embedding).  One call of `step` consumes exactly one input character; the standard's
"reconsume in the X state" is written as a direct call of the step function of X on the same character, so the
machine is a structural recursion over the input (`run`), total and executable.  Written from the standard; it
does not mention the minifier, its lexer (`parse/v2/html`) or the model.

Covered: data, RCDATA, RAWTEXT, script data (incl. the *escaped* and *double escaped* families), PLAINTEXT;
tag open / end tag open / tag name; before/after attribute name, attribute name, before attribute value, the three
attribute value states, after attribute value (quoted), self-closing start tag; markup declaration open, the
comment states (`<!-->`, `<!--->`, `--!>`; the four *comment less-than sign* states only report the
nested-comment parse error and are transparent for tokenisation, so they are folded into the comment state),
bogus comment, DOCTYPE (every DOCTYPE sub-state ends at the first `>`: the token carries the raw bytes), CDATA
sections (foreign content only); "appropriate end tag token" detection (case-insensitive name equal to the last
start tag, followed by whitespace, `/` or `>`); dropping of duplicate attributes; EOF in every state.

What the tree-construction stage decides is folded in as follows (and said so wherever it matters):
* the content-model switch after a start tag: `title`/`textarea` → RCDATA; `style`/`xmp`/`iframe`/`noembed`/
  `noframes` → RAWTEXT; `script` → script data; `plaintext` → PLAINTEXT; `noscript` → RAWTEXT iff the
  *scripting flag* (a parameter) is set.  The minifier reads `noscript` content as markup, i.e. scripting
  disabled; the harness evaluates both readings;
* foreign content is approximated by a depth counter: between `<svg>`/`<math>` and the matching end tag no
  content-model switch happens and `<![CDATA[ … ]]>` is character data (HTML integration points and the
  "breakout" start tags are not tracked).

Not transcribed: input-stream preprocessing (CR LF → LF) and the replacement of NUL by U+FFFD — both act
uniformly on every document compared below; character references are *not* decoded here: character tokens carry
the raw bytes and a flag whether references are recognised in that state (`decodeRefs` of `Spec/HtmlAttr.lean`
gives the value).
-/
namespace Verif.Spec.C09HtmlTok
open Verif.Spec.HtmlAttr

/-- how an attribute value was written -/
inductive QForm where
  | missing    -- no `=value`
  | unquoted
  | single
  | double
  deriving DecidableEq, Repr

structure SAttr where
  name : List Char
  raw : List Char          -- the raw value (references not decoded)
  q : QForm
  deriving DecidableEq, Repr

inductive Tok where
  | char (c : Char) (refs : Bool)   -- a character token; `refs`: character references are recognised here (data, RCDATA)
  | startTag (name : List Char) (attrs : List SAttr) (selfClosing : Bool)
  | endTag (name : List Char)
  | comment (data : List Char)
  | doctype (raw : List Char)       -- the bytes between `<!DOCTYPE` and `>`
  deriving DecidableEq, Repr

def lower (c : Char) : Char := if 65 ≤ c.toNat ∧ c.toNat ≤ 90 then Char.ofNat (c.toNat + 32) else c

inductive Mode where
  | data | rcdata | rawtext | script | plaintext
  deriving DecidableEq, Repr

/-- the tag token under construction -/
structure Tag where
  isEnd : Bool
  name : List Char
  attrs : List SAttr := []
  deriving DecidableEq, Repr

def Tag.push (t : Tag) (n raw : List Char) (q : QForm) : Tag := { t with attrs := t.attrs ++ [⟨n, raw, q⟩] }

inductive S where
  | text                                   -- data / RCDATA / RAWTEXT / script data / PLAINTEXT (by `mode`)
  | tagOpen | endTagOpen
  | tagName (t : Tag)
  | rLt | rEndOpen | rEndName (buf : List Char)          -- RCDATA / RAWTEXT / script data: `<`, `</`, `</name`
  | sEscStart | sEscStartDash | sEsc | sEscDash | sEscDashDash
  | sEscLt | sEscEndOpen | sEscEndName (buf : List Char)
  | sDblStart (buf : List Char) | sDbl | sDblDash | sDblDashDash | sDblLt | sDblEnd (buf : List Char)
  | beforeAttrName (t : Tag) | attrName (t : Tag) (n : List Char) | afterAttrName (t : Tag) (n : List Char)
  | beforeAttrValue (t : Tag) (n : List Char)
  | attrValueQ (t : Tag) (n : List Char) (q : Char) (v : List Char)
  | attrValueU (t : Tag) (n : List Char) (v : List Char)
  | afterAttrValueQ (t : Tag) | selfClosingStart (t : Tag)
  | mdo (buf : List Char)                  -- markup declaration open: the characters after `<!`
  | bogus (d : List Char)
  | commentStart | commentStartDash | comment (d : List Char) | commentEndDash (d : List Char)
  | commentEnd (d : List Char) | commentEndBang (d : List Char)
  | doctype (d : List Char)
  | cdata | cdataBracket | cdataEnd
  deriving DecidableEq, Repr

structure M where
  scripting : Bool := false
  mode : Mode := .data
  last : List Char := []      -- name of the last start tag emitted
  foreign : Nat := 0          -- depth of open `svg` / `math` elements
  s : S := .text
  deriving DecidableEq, Repr

def str (x : String) : List Char := x.toList

def isForeignRoot (n : List Char) : Bool := n == str "svg" || n == str "math"

/-- §13.2.6.4 (tree construction): the tokenizer state after a start tag in HTML content -/
def contentMode (scripting : Bool) (n : List Char) : Mode :=
  if n == str "title" || n == str "textarea" then .rcdata
  else if n == str "style" || n == str "xmp" || n == str "iframe" || n == str "noembed" || n == str "noframes" then .rawtext
  else if n == str "noscript" then (if scripting then .rawtext else .data)
  else if n == str "script" then .script
  else if n == str "plaintext" then .plaintext
  else .data

/-- "if there is already an attribute on the token with the exact same name … the new attribute must be removed" -/
def dedup : List SAttr → List SAttr → List SAttr
  | _, [] => []
  | seen, a :: r => if seen.any (fun b => b.name == a.name) then dedup seen r else a :: dedup (a :: seen) r

/-- emit the current tag token -/
def emitTag (m : M) (t : Tag) (selfClosing : Bool) : M × List Tok :=
  if t.isEnd then
    ({ m with mode := .data, s := .text, foreign := if isForeignRoot t.name then m.foreign - 1 else m.foreign },
     [.endTag t.name])
  else
    let f := if isForeignRoot t.name && !selfClosing then m.foreign + 1 else m.foreign
    ({ m with mode := if f = 0 then contentMode m.scripting t.name else .data, s := .text, last := t.name, foreign := f },
     [.startTag t.name (dedup [] t.attrs) selfClosing])

def chars (refs : Bool) (l : List Char) : List Tok := l.map (fun c => .char c refs)

/-- are character references recognised in the text of this mode? -/
def Mode.refs : Mode → Bool
  | .data | .rcdata => true
  | _ => false

/-- data / RCDATA / RAWTEXT / script data / PLAINTEXT state -/
def textStep (m : M) (c : Char) : M × List Tok :=
  match m.mode with
  | .plaintext => ({ m with s := .text }, [.char c false])
  | .data => if c = '<' then ({ m with s := .tagOpen }, []) else ({ m with s := .text }, [.char c true])
  | md => if c = '<' then ({ m with s := .rLt }, []) else ({ m with s := .text }, [.char c md.refs])

def bogusStep (m : M) (d : List Char) (c : Char) : M × List Tok :=
  if c = '>' then ({ m with s := .text }, [.comment d]) else ({ m with s := .bogus (d ++ [c]) }, [])

def beforeAttrNameStep (m : M) (t : Tag) (c : Char) : M × List Tok :=
  if isWs c then ({ m with s := .beforeAttrName t }, [])
  else if c = '/' then ({ m with s := .selfClosingStart t }, [])
  else if c = '>' then emitTag m t false
  else ({ m with s := .attrName t [lower c] }, [])     -- incl. `=` (unexpected-equals-sign-before-attribute-name)

def afterAttrNameStep (m : M) (t : Tag) (n : List Char) (c : Char) : M × List Tok :=
  if isWs c then ({ m with s := .afterAttrName t n }, [])
  else if c = '/' then ({ m with s := .selfClosingStart (t.push n [] .missing) }, [])
  else if c = '=' then ({ m with s := .beforeAttrValue t n }, [])
  else if c = '>' then emitTag m (t.push n [] .missing) false
  else ({ m with s := .attrName (t.push n [] .missing) [lower c] }, [])

def commentStep (m : M) (d : List Char) (c : Char) : M × List Tok :=
  if c = '-' then ({ m with s := .commentEndDash d }, []) else ({ m with s := .comment (d ++ [c]) }, [])

/-- script data escaped state -/
def escStep (m : M) (c : Char) : M × List Tok :=
  if c = '-' then ({ m with s := .sEscDash }, [.char c false])
  else if c = '<' then ({ m with s := .sEscLt }, [])
  else ({ m with s := .sEsc }, [.char c false])

/-- script data double escaped state -/
def dblStep (m : M) (c : Char) : M × List Tok :=
  if c = '-' then ({ m with s := .sDblDash }, [.char c false])
  else if c = '<' then ({ m with s := .sDblLt }, [.char c false])
  else ({ m with s := .sDbl }, [.char c false])

def cdataStep (m : M) (c : Char) : M × List Tok :=
  if c = ']' then ({ m with s := .cdataBracket }, []) else ({ m with s := .cdata }, [.char c false])

/-- the end-tag-name states of RCDATA / RAWTEXT / script data (`esc = false`) and script data escaped
    (`esc = true`): "appropriate end tag token" = same name as the last start tag -/
def endNameStep (m : M) (esc : Bool) (buf : List Char) (c : Char) : M × List Tok :=
  let t : Tag := { isEnd := true, name := buf.map lower }
  let appropriate := t.name == m.last
  let fallback : M × List Tok :=
    let r := if esc then escStep m c else textStep m c
    (r.1, chars m.mode.refs ('<' :: '/' :: buf) ++ r.2)
  if isAlpha c then ({ m with s := if esc then .sEscEndName (buf ++ [c]) else .rEndName (buf ++ [c]) }, [])
  else if appropriate && isWs c then ({ m with s := .beforeAttrName t }, [])
  else if appropriate && c = '/' then ({ m with s := .selfClosingStart t }, [])
  else if appropriate && c = '>' then emitTag m t false
  else fallback

def prefixFold (buf : List Char) (kw : String) : Bool := (buf.map lower).isPrefixOf (str kw)

/-- one character of input -/
def step (m : M) (c : Char) : M × List Tok :=
  match m.s with
  | .text => textStep m c
  | .tagOpen =>
    if c = '!' then ({ m with s := .mdo [] }, [])
    else if c = '/' then ({ m with s := .endTagOpen }, [])
    else if isAlpha c then ({ m with s := .tagName { isEnd := false, name := [lower c] } }, [])
    else if c = '?' then ({ m with s := .bogus [c] }, [])
    else let r := textStep m c; (r.1, .char '<' true :: r.2)
  | .endTagOpen =>
    if isAlpha c then ({ m with s := .tagName { isEnd := true, name := [lower c] } }, [])
    else if c = '>' then ({ m with s := .text }, [])
    else bogusStep m [] c
  | .tagName t =>
    if isWs c then ({ m with s := .beforeAttrName t }, [])
    else if c = '/' then ({ m with s := .selfClosingStart t }, [])
    else if c = '>' then emitTag m t false
    else ({ m with s := .tagName { t with name := t.name ++ [lower c] } }, [])
  | .beforeAttrName t => beforeAttrNameStep m t c
  | .attrName t n =>
    if isWs c || c = '/' || c = '>' then afterAttrNameStep m t n c
    else if c = '=' then ({ m with s := .beforeAttrValue t n }, [])
    else ({ m with s := .attrName t (n ++ [lower c]) }, [])
  | .afterAttrName t n => afterAttrNameStep m t n c
  | .beforeAttrValue t n =>
    if isWs c then (m, [])
    else if c = '"' || c = '\'' then ({ m with s := .attrValueQ t n c [] }, [])
    else if c = '>' then emitTag m (t.push n [] .unquoted) false      -- missing-attribute-value: empty value
    else ({ m with s := .attrValueU t n [c] }, [])
  | .attrValueQ t n q v =>
    if c = q then ({ m with s := .afterAttrValueQ (t.push n v (if q = '"' then .double else .single)) }, [])
    else ({ m with s := .attrValueQ t n q (v ++ [c]) }, [])
  | .attrValueU t n v =>
    if isWs c then ({ m with s := .beforeAttrName (t.push n v .unquoted) }, [])
    else if c = '>' then emitTag m (t.push n v .unquoted) false
    else ({ m with s := .attrValueU t n (v ++ [c]) }, [])   -- `/` too: `<a href=x/>` is not self-closing
  | .afterAttrValueQ t =>
    if isWs c then ({ m with s := .beforeAttrName t }, [])
    else if c = '/' then ({ m with s := .selfClosingStart t }, [])
    else if c = '>' then emitTag m t false
    else beforeAttrNameStep m t c                            -- missing-whitespace-between-attributes
  | .selfClosingStart t =>
    if c = '>' then emitTag m t true else beforeAttrNameStep m t c
  /- RCDATA / RAWTEXT / script data -/
  | .rLt =>
    if c = '/' then ({ m with s := .rEndOpen }, [])
    else if c = '!' && m.mode == .script then ({ m with s := .sEscStart }, [.char '<' false, .char '!' false])
    else let r := textStep m c; (r.1, .char '<' m.mode.refs :: r.2)
  | .rEndOpen =>
    if isAlpha c then ({ m with s := .rEndName [c] }, [])
    else let r := textStep m c; (r.1, chars m.mode.refs ['<', '/'] ++ r.2)
  | .rEndName buf => endNameStep m false buf c
  | .sEscStart =>
    if c = '-' then ({ m with s := .sEscStartDash }, [.char c false]) else textStep m c
  | .sEscStartDash =>
    if c = '-' then ({ m with s := .sEscDashDash }, [.char c false]) else textStep m c
  | .sEsc => escStep m c
  | .sEscDash =>
    if c = '-' then ({ m with s := .sEscDashDash }, [.char c false])
    else if c = '<' then ({ m with s := .sEscLt }, [])
    else ({ m with s := .sEsc }, [.char c false])
  | .sEscDashDash =>
    if c = '-' then (m, [.char c false])
    else if c = '<' then ({ m with s := .sEscLt }, [])
    else if c = '>' then ({ m with s := .text }, [.char c false])
    else ({ m with s := .sEsc }, [.char c false])
  | .sEscLt =>
    if c = '/' then ({ m with s := .sEscEndOpen }, [])
    else if isAlpha c then ({ m with s := .sDblStart [lower c] }, [.char '<' false, .char c false])
    else let r := escStep m c; (r.1, .char '<' false :: r.2)
  | .sEscEndOpen =>
    if isAlpha c then ({ m with s := .sEscEndName [c] }, [])
    else let r := escStep m c; (r.1, chars false ['<', '/'] ++ r.2)
  | .sEscEndName buf => endNameStep m true buf c
  | .sDblStart buf =>
    if isWs c || c = '/' || c = '>' then
      ({ m with s := if buf == str "script" then .sDbl else .sEsc }, [.char c false])
    else if isAlpha c then ({ m with s := .sDblStart (buf ++ [lower c]) }, [.char c false])
    else escStep m c
  | .sDbl => dblStep m c
  | .sDblDash =>
    if c = '-' then ({ m with s := .sDblDashDash }, [.char c false])
    else if c = '<' then ({ m with s := .sDblLt }, [.char c false])
    else ({ m with s := .sDbl }, [.char c false])
  | .sDblDashDash =>
    if c = '-' then (m, [.char c false])
    else if c = '<' then ({ m with s := .sDblLt }, [.char c false])
    else if c = '>' then ({ m with s := .text }, [.char c false])
    else ({ m with s := .sDbl }, [.char c false])
  | .sDblLt =>
    if c = '/' then ({ m with s := .sDblEnd [] }, [.char c false]) else dblStep m c
  | .sDblEnd buf =>
    if isWs c || c = '/' || c = '>' then
      ({ m with s := if buf == str "script" then .sEsc else .sDbl }, [.char c false])
    else if isAlpha c then ({ m with s := .sDblEnd (buf ++ [lower c]) }, [.char c false])
    else dblStep m c
  /- markup declarations -/
  | .mdo buf =>
    let b := buf ++ [c]
    if b == str "--" then ({ m with s := .commentStart }, [])
    else if (b.map lower) == str "doctype" then ({ m with s := .doctype [] }, [])
    else if b == str "[CDATA[" then
      (if 0 < m.foreign then ({ m with s := .cdata }, []) else ({ m with s := .bogus b }, []))
    else if b.isPrefixOf (str "--") || prefixFold b "doctype" || b.isPrefixOf (str "[CDATA[") then
      ({ m with s := .mdo b }, [])
    else bogusStep m buf c                                   -- incorrectly-opened-comment
  | .bogus d => bogusStep m d c
  | .commentStart =>
    if c = '-' then ({ m with s := .commentStartDash }, [])
    else if c = '>' then ({ m with s := .text }, [.comment []])        -- `<!-->`
    else commentStep m [] c
  | .commentStartDash =>
    if c = '-' then ({ m with s := .commentEnd [] }, [])
    else if c = '>' then ({ m with s := .text }, [.comment []])        -- `<!--->`
    else commentStep m ['-'] c
  | .comment d => commentStep m d c
  | .commentEndDash d =>
    if c = '-' then ({ m with s := .commentEnd d }, []) else commentStep m (d ++ ['-']) c
  | .commentEnd d =>
    if c = '>' then ({ m with s := .text }, [.comment d])
    else if c = '!' then ({ m with s := .commentEndBang d }, [])
    else if c = '-' then ({ m with s := .commentEnd (d ++ ['-']) }, [])
    else commentStep m (d ++ ['-', '-']) c
  | .commentEndBang d =>
    if c = '-' then ({ m with s := .commentEndDash (d ++ ['-', '-', '!']) }, [])
    else if c = '>' then ({ m with s := .text }, [.comment d])         -- `--!>` closes (incorrectly-closed-comment)
    else commentStep m (d ++ ['-', '-', '!']) c
  | .doctype d =>
    if c = '>' then ({ m with s := .text }, [.doctype d]) else ({ m with s := .doctype (d ++ [c]) }, [])
  | .cdata => cdataStep m c
  | .cdataBracket =>
    if c = ']' then ({ m with s := .cdataEnd }, []) else let r := cdataStep m c; (r.1, .char ']' false :: r.2)
  | .cdataEnd =>
    if c = ']' then (m, [.char ']' false])
    else if c = '>' then ({ m with s := .text }, [])
    else let r := cdataStep m c; (r.1, chars false [']', ']'] ++ r.2)

/-- end of input: what the state still emits (an unfinished tag is dropped: eof-in-tag) -/
def finish (m : M) : List Tok :=
  match m.s with
  | .tagOpen => [.char '<' true]
  | .endTagOpen => chars true ['<', '/']
  | .rLt => [.char '<' m.mode.refs]
  | .rEndOpen => chars m.mode.refs ['<', '/']
  | .rEndName buf => chars m.mode.refs ('<' :: '/' :: buf)
  | .sEscLt => [.char '<' false]
  | .sEscEndOpen => chars false ['<', '/']
  | .sEscEndName buf => chars false ('<' :: '/' :: buf)
  | .mdo buf => [.comment buf]
  | .bogus d => [.comment d]
  | .commentStart | .commentStartDash => [.comment []]
  | .comment d | .commentEndDash d | .commentEnd d | .commentEndBang d => [.comment d]
  | .doctype d => [.doctype d]
  | .cdataBracket => [.char ']' false]
  | .cdataEnd => chars false [']', ']']
  | _ => []

/-- run the machine: tokens emitted for `s` from state `m`, then end of input -/
def run (m : M) : List Char → List Tok
  | [] => finish m
  | c :: s => (step m c).2 ++ run (step m c).1 s

/-- the state reached after `s` -/
def runS (m : M) : List Char → M
  | [] => m
  | c :: s => runS (step m c).1 s

/-- the tokens emitted while reading `s` (without the end-of-input action) -/
def runO (m : M) : List Char → List Tok
  | [] => []
  | c :: s => (step m c).2 ++ runO (step m c).1 s

/-- the token stream of a document (`scripting`: the scripting flag, decides how `noscript` is read) -/
def tokens (scripting : Bool) (doc : List Char) : List Tok := run { scripting := scripting } doc

/-! ## reader's view: adjacent character tokens form one text -/

inductive Item where
  | text (data : List Char) (refs : Bool)
  | startTag (name : List Char) (attrs : List SAttr) (selfClosing : Bool)
  | endTag (name : List Char)
  | comment (data : List Char)
  | doctype (raw : List Char)
  deriving DecidableEq, Repr

def coalesce : List Tok → List Item
  | [] => []
  | .char c r :: rest =>
    match coalesce rest with
    | .text d r' :: more => if r = r' then .text (c :: d) r :: more else .text [c] r :: .text d r' :: more
    | more => .text [c] r :: more
  | .startTag n a sc :: rest => .startTag n a sc :: coalesce rest
  | .endTag n :: rest => .endTag n :: coalesce rest
  | .comment d :: rest => .comment d :: coalesce rest
  | .doctype d :: rest => .doctype d :: coalesce rest

def items (scripting : Bool) (doc : List Char) : List Item := coalesce (tokens scripting doc)

/-! ## tail-recursive evaluation (for documents of real-world size; equal to the above: `Proofs/C09HtmlTok.lean`) -/

/-- `runRev m acc s = (run m s).reverse ++ acc` -/
def runRev (m : M) (acc : List Tok) : List Char → List Tok
  | [] => (finish m).reverse ++ acc
  | c :: s => runRev (step m c).1 ((step m c).2.reverse ++ acc) s

/-- `coalesceRev (coalesce t) l = coalesce (l.reverse ++ t)` -/
def coalesceRev (acc : List Item) : List Tok → List Item
  | [] => acc
  | .char c r :: rest =>
    match acc with
    | .text d r' :: more =>
      if r = r' then coalesceRev (.text (c :: d) r :: more) rest else coalesceRev (.text [c] r :: acc) rest
    | _ => coalesceRev (.text [c] r :: acc) rest
  | .startTag n a sc :: rest => coalesceRev (.startTag n a sc :: acc) rest
  | .endTag n :: rest => coalesceRev (.endTag n :: acc) rest
  | .comment d :: rest => coalesceRev (.comment d :: acc) rest
  | .doctype d :: rest => coalesceRev (.doctype d :: acc) rest

def itemsFast (scripting : Bool) (doc : List Char) : List Item :=
  coalesceRev [] (runRev { scripting := scripting } [] doc)

end Verif.Spec.C09HtmlTok

import Verif.Base.Bytes
/-!
# Specification side of C18 — RFC 2397 `data:` URLs, RFC 4648 base64, media type normal form,
# and the reference behaviour of the media type helper

Hand transcription, independent of `Verif.Model.DataURI` (nothing is imported from the model).

* `dataurl := "data:" [ mediatype ] [ ";base64" ] "," data` (RFC 2397 §3).  The media type text is returned
  raw; `mtNorm` is the equivalence the property allows ("up to case, whitespace and dropping the default
  `text/plain` and `charset=us-ascii`").  Transcription decisions: the marker is the **last** `;`-separated
  item of the header and is matched as the lower-case word `base64` with surrounding whitespace ignored (the
  property compares headers up to whitespace); a header without `;` has no marker.
* non-base64 data: percent-decoding only (`pctDecode`; `+` is an ordinary character; a `%` that does not start
  an escape is an ordinary character).
* base64 data: RFC 4648 §4, canonical alphabet, padding required, characters outside the alphabet rejected
  (§3.3); non-zero pad bits are tolerated (§3.5 leaves that to the decoder).
-/
namespace Verif.Spec.Rfc2397
open Verif

def ws (c : Char) : Bool := c = ' ' || c = '\t' || c = '\n' || c = '\x0c' || c = '\r'

def lower (c : Char) : Char := if 'A' ≤ c ∧ c ≤ 'Z' then Char.ofNat (c.toNat + 32) else c

def stripWs (l : List Char) : List Char := l.filter (fun c => !ws c)

/-! ## percent decoding -/

def hexv (c : Char) : Option Nat :=
  if '0' ≤ c ∧ c ≤ '9' then some (c.toNat - 48)
  else if 'A' ≤ c ∧ c ≤ 'F' then some (c.toNat - 55)
  else if 'a' ≤ c ∧ c ≤ 'f' then some (c.toNat - 87)
  else none

/-- RFC 3986 §2.1 percent-decoding; nothing else is translated -/
def pctDecode : List Char → List Char
  | [] => []
  | c :: a :: b :: r =>
    if c = '%' then
      match hexv a, hexv b with
      | some x, some y => Char.ofNat (16 * x + y) :: pctDecode r
      | _, _ => c :: pctDecode (a :: b :: r)
    else c :: pctDecode (a :: b :: r)
  | c :: r => c :: pctDecode r

/-! ## base64 (RFC 4648 §4) -/

def b64Alphabet : List Char :=
  "ABCDEFGHIJKLMNOPQRSTUVWXYZabcdefghijklmnopqrstuvwxyz0123456789+/".toList

def sextet (c : Char) : Option Nat :=
  let i := b64Alphabet.idxOf c
  if i < 64 then some i else none

def b64Decode : List Char → Option (List Char)
  | [] => some []
  | [a, b, '=', '='] =>
    match sextet a, sextet b with
    | some x, some y => some [Char.ofNat ((x * 64 + y) / 16)]
    | _, _ => none
  | [a, b, c, '='] =>
    match sextet a, sextet b, sextet c with
    | some x, some y, some z =>
      let n := (x * 64 + y) * 64 + z
      some [Char.ofNat (n / 1024), Char.ofNat (n / 4 % 256)]
    | _, _, _ => none
  | a :: b :: c :: d :: r =>
    match sextet a, sextet b, sextet c, sextet d, b64Decode r with
    | some x, some y, some z, some w, some t =>
      let n := ((x * 64 + y) * 64 + z) * 64 + w
      some (Char.ofNat (n / 65536) :: Char.ofNat (n / 256 % 256) :: Char.ofNat (n % 256) :: t)
    | _, _, _, _, _ => none
  | _ => none

/-! ## the data URL reading -/

def trim (l : List Char) : List Char := ((l.dropWhile ws).reverse.dropWhile ws).reverse

/-- split at the last `;`: `some (before, after)` -/
def splitLastSemi (l : List Char) : Option (List Char × List Char) :=
  let after := (l.reverse.takeWhile (· ≠ ';')).reverse
  if after.length < l.length then some (l.take (l.length - after.length - 1), after) else none

/-- header (the text between `data:` and the first comma) ↦ (media type text, base64?) -/
def splitMarker (head : List Char) : List Char × Bool :=
  match splitLastSemi head with
  | some (mt, last) => if trim last = "base64".toList then (mt, true) else (head, false)
  | none => (head, false)

/-- header and raw data of a `data:` URL -/
def splitURL (u : List Char) : Option (List Char × List Char) :=
  if u.take 5 = "data:".toList then
    let rest := u.drop 5
    match rest.dropWhile (· ≠ ',') with
    | [] => none
    | _ :: p => some (rest.takeWhile (· ≠ ','), p)
  else none

/-- RFC 2397 reading: (media type text as written — possibly empty —, decoded data) -/
def rfcParse (u : List Char) : Option (List Char × List Char) :=
  match splitURL u with
  | none => none
  | some (head, p) =>
    match splitMarker head with
    | (mt, true) => (b64Decode p).map (fun d => (mt, d))
    | (mt, false) => some (mt, pctDecode p)

/-- a percent-encoded payload that is *validly encoded* for the table `t`: every `%` starts an escape and every
    byte `t` wants escaped is escaped -/
def pctValid (t : Char → Bool) : List Char → Bool
  | [] => true
  | c :: a :: b :: r =>
    if c = '%' then (hexv a).isSome && (hexv b).isSome && pctValid t r
    else !t c && pctValid t (a :: b :: r)
  | c :: r => c ≠ '%' && !t c && pctValid t r

/-- "input whose payload was already validly encoded": base64 (then `rfcParse` succeeding says it decodes) or
    percent-encoded with everything escaped that `t` wants escaped -/
def validlyEncoded (t : Char → Bool) (u : List Char) : Bool :=
  match splitURL u with
  | none => false
  | some (head, p) => (splitMarker head).2 || pctValid t p

/-! ## media type normal form -/

/-- split at every `;` -/
def splitSemi : List Char → List (List Char)
  | [] => [[]]
  | c :: r =>
    if c = ';' then [] :: splitSemi r
    else match splitSemi r with
      | [] => [[c]]
      | s :: t => (c :: s) :: t

/-- normal form of a media type text: whitespace deleted, lower case, an omitted type is `text/plain`
    (RFC 2397: "text/plain can be omitted but the charset parameter supplied"); the default type
    `text/plain` and every parameter `charset=us-ascii` are dropped.  Result: type (`[]` = default) and the
    remaining parameters in order. -/
def mtNorm (mt : List Char) : List Char × List (List Char) :=
  match splitSemi ((stripWs mt).map lower) with
  | [] => ([], [])
  | ty :: ps =>
    (if ty = "text/plain".toList then [] else ty, ps.filter (fun p => p ≠ "charset=us-ascii".toList))

/-! ## the property evaluated on an (input, output) pair of the data URI helper -/

/-- what the helper may return for input `u` when the (sub-)minifier maps the decoded payload `d` to `d'`
    (`d' = d` when none is registered): either `u` itself, or a data URL that reads — per RFC 2397 — as an
    equivalent media type and the payload `d'`. -/
def holdsDataURI (u out : List Char) (d' : List Char) : Bool :=
  match rfcParse u with
  | none => true
  | some (mt, _) =>
    out = u ||
    (match rfcParse out with
     | none => false
     | some (mt', p) => mtNorm mt' = mtNorm mt && p = d')

/-! ## the media type helper: "only lowercases and strips whitespace outside quoted strings"

A quoted string runs from `"` to the next `"` that is not preceded by a backslash escape (RFC 2045/7230
`quoted-pair`). -/

/-- reference result: outside quoted strings whitespace is deleted and letters are lower-cased; quoted strings
    are copied.  `st`: 0 outside, 1 inside a string, 2 inside a string after a backslash. -/
def specMediatypeAux : Nat → List Char → List Char
  | _, [] => []
  | st, c :: r =>
    if st = 0 then
      if ws c then specMediatypeAux 0 r
      else if c = '"' then c :: specMediatypeAux 1 r
      else lower c :: specMediatypeAux 0 r
    else if st = 1 then
      if c = '"' then c :: specMediatypeAux 0 r
      else if c = '\\' then c :: specMediatypeAux 2 r
      else c :: specMediatypeAux 1 r
    else c :: specMediatypeAux 1 r

def specMediatype (b : List Char) : List Char := specMediatypeAux 0 b

/-- relational form (the helper may skip lower-casing of long inputs): `out` is `b` with the whitespace
    outside quoted strings deleted and each letter outside quoted strings either kept or lower-cased -/
def specMediatypeOK : Nat → List Char → List Char → Bool
  | _, [], out => out = []
  | st, c :: r, out =>
    if st = 0 then
      if ws c then specMediatypeOK 0 r out
      else match out with
        | [] => false
        | d :: o => if c = '"' then d = c && specMediatypeOK 1 r o
                    else (d = c || d = lower c) && specMediatypeOK 0 r o
    else match out with
      | [] => false
      | d :: o =>
        d = c && (if st = 1 then
                    (if c = '"' then specMediatypeOK 0 r o
                     else if c = '\\' then specMediatypeOK 2 r o else specMediatypeOK 1 r o)
                  else specMediatypeOK 1 r o)

/-- every quoted string is closed (state at the end of the input is "outside") -/
def quotesClosedAux : Nat → List Char → Bool
  | st, [] => st = 0
  | st, c :: r =>
    if st = 0 then quotesClosedAux (if c = '"' then 1 else 0) r
    else if st = 1 then quotesClosedAux (if c = '"' then 0 else if c = '\\' then 2 else 1) r
    else quotesClosedAux 1 r

def quotesClosed (b : List Char) : Bool := quotesClosedAux 0 b

/-! ## narrow triggers of the known findings (syntactic predicates on the input; also the guards of the
`_partial` theorems) -/

/-- K-C18-1: a `+` in a payload that is not base64 (dependency `DecodeURL` turns it into a space) -/
def trigPlus (u : List Char) : Bool :=
  match splitURL u with
  | none => false
  | some (head, p) => !(splitMarker head).2 && p.contains '+'

/-- K-C18-2: the type is omitted but parameters other than the default follow
    (dependency `DataURI` replaces the whole media type by `text/plain`) -/
def trigParamNoType (u : List Char) : Bool :=
  match splitURL u with
  | none => false
  | some (head, _) =>
    let mt := (splitMarker head).1
    (stripWs mt).head? = some ';' && mtNorm mt ≠ ([], [])

/-- items of the header as the dependency cuts them (at `=` and `;`), each with the delimiter that
    precedes it (`none` for the first) and the one that follows it (`,` for the last) -/
def headItems (prev : Option Char) (cur : List Char) : List Char → List (Option Char × List Char × Char)
  | [] => [(prev, cur.reverse, ',')]
  | c :: r =>
    if c = '=' ∨ c = ';' then (prev, cur.reverse, c) :: headItems (some c) [] r
    else headItems prev (c :: cur) r

/-- K-C18-3: an item `base64` that the dependency takes for the encoding marker (it is not followed by `=`)
    but that is not the RFC marker (last item, preceded by `;`) -/
def trigB64Item (u : List Char) : Bool :=
  match splitURL u with
  | none => false
  | some (head, _) =>
    (headItems none [] head).any (fun (pre, it, nxt) =>
      trim it = "base64".toList && nxt ≠ '=' && !(nxt = ',' && pre = some ';'))

def trigDataURI (u : List Char) : Bool :=
  trigPlus u || trigParamNoType u || trigB64Item u

end Verif.Spec.Rfc2397

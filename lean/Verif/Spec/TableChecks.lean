import Verif.Base.Pack
import Verif.Spec.HtmlRefs
import Verif.Spec.HtmlTraits
import Verif.Spec.CssUnits
/-!
# C17 — per-row checkers: "this table row is justified by the specification"

One Boolean function per table (those for the HTML trait tables are in `Spec/TraitChecks.lean`), built from `Spec/HtmlRefs`, `Spec/HtmlTraits`, `Spec/CssUnits` only.
`Props/C17.lean` proves `table.all check = true` for the regenerated tables (`decide +kernel`) and unfolds that into
the quantified statements; the driver (`Driver/C17.lean`, ops `bad.*`) evaluates the same functions to list the
offending rows when a proof no longer checks, and the harness turns those rows into minifier inputs.
Rows are packed strings (`Base/Pack.lean`).  Core only.
-/
namespace Verif.Spec.TableChecks
open Verif Verif.Spec.HtmlRefs Verif.Spec.HtmlTraits Verif.Spec.CssUnits

/-! ## character references -/

/-- source of the reference `&name;` -/
def refOf (name : Nat) : List Nat := cAmp :: (unpack name ++ [cSemi])

/-- `(& [#0-9A-Za-z]+ ;)+` — a sequence of `;`-terminated references (first argument: "at a boundary") -/
def refSeqShape : Bool → List Nat → Bool
  | atBoundary, [] => atBoundary
  | atBoundary, c :: r =>
    if c = cAmp then atBoundary && refSeqShape false r
    else if c = cSemi then !atBoundary && refSeqShape true r
    else !atBoundary && (c = cHash || isAlnum c) && refSeqShape false r

/-- a replacement is *self-contained*: a single character (the lone `&` is only written by
    `parse.replaceEntities` when the next character cannot continue a reference; `<` is covered by
    `textrev_html_covers_lt`), or a sequence of `;`-terminated references that the decoder consumes completely
    (nothing of it is left as a literal `&`).  Such a string decodes the same whatever follows it. -/
def selfContained (repl : List Nat) : Bool :=
  match repl with
  | [_] => true
  | _ => refSeqShape true repl && !(decodeCps .text repl).contains cAmp && !(decodeCps .attr repl).contains cAmp

/-- row `(name, repl)` of `html.EntitiesMap` -/
def entityRowOk (row : Nat × Nat) : Bool :=
  let ref := refOf row.1
  let repl := unpack row.2
  decodeCps .text repl == decodeCps .text ref && decodeCps .attr repl == decodeCps .attr ref &&
  decide (repl.length ≤ ref.length) && selfContained repl

/-- printable ASCII other than `<`: bytes the input-stream preprocessing and the tokenizer leave alone -/
def plainByte (b : Nat) : Bool := 32 ≤ b && b < 127 && b != 60

/-- row `(c, esc)` of `html.TextRevEntitiesMap` (`ctx = .text`) / `html.AttrRevEntitiesMap` (`ctx = .attr`):
    `esc` is written when a reference decoded to the byte `c`; it must decode to what a reference to `c` decodes to
    (`numericFix c`: U+FFFD for NUL, `c` itself for the other ASCII bytes) and consist of plain bytes -/
def htmlRevRowOk (ctx : Ctx) (row : Nat × Nat) : Bool :=
  decide (row.1 < 128) && decodeCps ctx (unpack row.2) == [numericFix row.1] && (unpack row.2).all plainByte

/-- … and the row is needed: the literal byte would *not* be read back as that text -/
def htmlRevRowNeeded (ctx : Ctx) (row : Nat × Nat) : Bool :=
  literalCps ctx row.1 != some [numericFix row.1]

/-- row `(name, repl)` of `xml.EntitiesMap` -/
def xmlEntityRowOk (row : Nat × Nat) : Bool :=
  decodeXmlCps (unpack row.2) == decodeXmlCps (refOf row.1) && (decodeXmlCps (refOf row.1)).isSome &&
  decide ((unpack row.2).length ≤ (refOf row.1).length)

/-- row `(c, esc)` of `xml.TextRevEntitiesMap` / `xml.AttrRevEntitiesMap`: `esc` is a well-formed reference to
    exactly the character `c` and consists of plain bytes -/
def xmlRevRowOk (row : Nat × Nat) : Bool :=
  decide (row.1 < 128) && xmlChar row.1 && decodeXmlCps (unpack row.2) == some [row.1] &&
  (unpack row.2).all plainByte

/-- … and the row is needed: the literal byte would not be read back as `c` (`attr`: in an attribute value) -/
def xmlRevRowNeeded (attr : Bool) (row : Nat × Nat) : Bool :=
  xmlLiteralCps attr row.1 != some [row.1]

/-! ## colours -/

/-- row `(hex, keyword)` of `css.ShortenColorHex` -/
def colorHexRowOk (row : Nat × Nat) : Bool :=
  hexColorCps (unpack row.1) == namedColorCps (unpack row.2) && (namedColorCps (unpack row.2)).isSome &&
  decide ((unpack row.2).length ≤ (unpack row.1).length)

/-- row `(keyword, hex)` of `css.ShortenColorName` -/
def colorNameRowOk (row : Nat × Nat) : Bool :=
  namedColorCps (unpack row.1) == hexColorCps (unpack row.2) && (namedColorCps (unpack row.1)).isSome &&
  decide ((unpack row.2).length ≤ (unpack row.1).length)

/-! ## hash name tables -/

/-- the constant identifier spells the name it stands for: same length, letters/digits equal up to case,
    `_` for every other character -/
def identMatches : List Nat → List Nat → Bool
  | [], [] => true
  | c :: cs, n :: ns =>
    (if isAlnum n then lowerCp c == lowerCp n else c == 95) && identMatches cs ns
  | _, _ => false

/-- row `(identifier, Hash.String())` of a `*/hash.go`
    (a leading `-` of a name — vendor prefixes such as `-ms-filter` ↔ `Ms_Filter` — has no counterpart) -/
def hashRowOk (row : Nat × Nat) : Bool :=
  identMatches (unpack row.1) ((unpack row.2).dropWhile (fun c => !isAlnum c)) && row.2 != 0

/-! ## the independent HTML5 table -/

/-- `[0-9A-Za-z]+ ;?` -/
def nameShape : List Nat → Bool
  | [] => false
  | [c] => isAlnum c
  | [c, d] => isAlnum c && (isAlnum d || d == cSemi)
  | c :: r => isAlnum c && nameShape r

/-- a non-empty list of Unicode scalar values other than NUL -/
def cpsOk : List Nat → Bool
  | [] => false
  | [c] => 0 < c && c ≤ 0x10FFFF && !(0xD800 ≤ c && c ≤ 0xDFFF)
  | c :: r => 0 < c && c ≤ 0x10FFFF && !(0xD800 ≤ c && c ≤ 0xDFFF) && cpsOk r

def html5NameOk (first : Nat) (e : Nat × List Nat) : Bool :=
  match unpack e.1 with
  | [] => false
  | c :: r => c == first && nameShape (c :: r) && cpsOk e.2

end Verif.Spec.TableChecks

import Verif.Spec.JsSyntax
/-!
# C01 — the ECMAScript expression grammar (ECMA-262 §13) on the fragment, independent of the printer

Levels are the nonterminals of the expression grammar, numbered so that a higher level is contained in a lower one
(`Expression` 0 ⊇ `AssignmentExpression` 1 ⊇ `ShortCircuitExpression` 2 … ⊇ `PrimaryExpression` 20); the numbers are
written out here by hand and are *not* taken from the code under verification.

A derivation tree of the grammar is an `E` (every production of the fragment corresponds to one constructor,
`group` being `ParenthesizedExpression`); `gwf e` says that every node of `e` is an instance of a production
(each child is derivable from the nonterminal the production demands at that position), `yield e` is the terminal
string of the derivation.  `Derives p ts e` — "`ts` is derivable from the nonterminal of level `p` with tree `e`" —
is `gwf e ∧ p ≤ lvl e ∧ yield e = ts`.  Both sides are executable.
-/
namespace Verif.Spec.JsGrammar
open Verif.Spec.JsSyntax

/-! ## levels -/
def lvExpr : Nat := 0       -- Expression
def lvAssign : Nat := 1     -- AssignmentExpression (incl. ConditionalExpression)
def lvShort : Nat := 2      -- ShortCircuitExpression (LogicalORExpression | CoalesceExpression)
def lvOr : Nat := 3
def lvAnd : Nat := 4
def lvBitOr : Nat := 5
def lvBitXor : Nat := 6
def lvBitAnd : Nat := 7
def lvEquality : Nat := 8
def lvRelational : Nat := 9
def lvShift : Nat := 10
def lvAdditive : Nat := 11
def lvMultiplicative : Nat := 12
def lvExponent : Nat := 13
def lvUnary : Nat := 14
def lvUpdate : Nat := 15
def lvLHS : Nat := 16       -- LeftHandSideExpression
def lvCall : Nat := 17      -- CallExpression
def lvNew : Nat := 18
def lvMember : Nat := 19    -- MemberExpression
def lvPrimary : Nat := 20   -- PrimaryExpression

def isAssignOp : BOp → Bool
  | .assign | .mulEq | .divEq | .modEq | .expEq | .addEq | .subEq | .shlEq | .shrEq | .ushrEq | .andEq | .xorEq
  | .orEq | .landEq | .lorEq | .nullishEq => true
  | _ => false

/-- the nonterminal whose production introduces the operator -/
def opLevel : BOp → Nat
  | .exp => lvExponent
  | .mul | .div | .mod => lvMultiplicative
  | .add | .sub => lvAdditive
  | .shl | .shr | .ushr => lvShift
  | .lt | .le | .gt | .ge | .inOp | .instOf => lvRelational
  | .eq | .ne | .seq | .sne => lvEquality
  | .band => lvBitAnd
  | .bxor => lvBitXor
  | .bor => lvBitOr
  | .land => lvAnd
  | .lor => lvOr
  | .nullish => lvShort
  | _ => lvAssign

/-- nonterminal of the left operand in the production (`a ** b` : UpdateExpression; `a ?? b`: see `leftOk`) -/
def opLeft : BOp → Nat
  | .exp => lvUpdate
  | .nullish => lvBitOr
  | o => if isAssignOp o then lvLHS else opLevel o

/-- nonterminal of the right operand in the production -/
def opRight : BOp → Nat
  | .exp => lvExponent
  | .mul | .div | .mod => lvExponent
  | .add | .sub => lvMultiplicative
  | .shl | .shr | .ushr => lvAdditive
  | .lt | .le | .gt | .ge | .inOp | .instOf => lvShift
  | .eq | .ne | .seq | .sne => lvRelational
  | .band => lvEquality
  | .bxor => lvBitAnd
  | .bor => lvBitXor
  | .land => lvBitOr
  | .lor => lvAnd
  | .nullish => lvBitOr
  | _ => lvAssign

def isUpdateOp : UOp → Bool
  | .preinc | .predec | .postinc | .postdec => true
  | _ => false

/-- level of a member/call chain: `MemberExpression` unless a call occurs in the chain (then `CallExpression`) -/
def chainLvl : E → Nat
  | .var _ => lvMember
  | .lit _ => lvMember
  | .group _ => lvMember
  | .dot x _ => chainLvl x
  | .index x _ => chainLvl x
  | .opt _ e => chainLvl e   -- (no link is derivable on top of an optional chain, see `gwf`)
  | _ => lvCall

/-- the most specific nonterminal that derives the tree (its root production) -/
def lvl : E → Nat
  | .var _ => lvPrimary
  | .lit _ => lvPrimary
  | .group _ => lvPrimary
  | .unary op _ => if isUpdateOp op then lvUpdate else lvUnary
  | .bin op _ _ => opLevel op
  | .cond _ _ _ => lvAssign
  | .comma _ => lvExpr
  | .call _ _ => lvCall
  | .dot x _ => chainLvl x
  | .index x _ => chainLvl x
  | .opt _ _ => lvLHS   -- OptionalExpression is a LeftHandSideExpression (not a Member/CallExpression: no further links, no `new`)

/-- `CoalesceExpressionHead : CoalesceExpression | BitwiseORExpression` -/
def leftOk (op : BOp) (x : E) : Bool :=
  match op with
  | .nullish => lvBitOr ≤ lvl x || (match x with | .bin .nullish _ _ => true | _ => false)
  | _ => opLeft op ≤ lvl x

/-- simple assignment targets of the fragment -/
def isTarget : E → Bool
  | .var _ => true
  | .dot _ _ => true
  | .index _ _ => true
  | .group x => isTarget x
  | _ => false

mutual
/-- every node is an instance of a production of the expression grammar -/
def gwf : E → Bool
  | .var _ => true
  | .lit _ => true
  | .group x => gwf x
  | .unary op x =>
    (if isUpdateOp op then isTarget x && (op == .preinc || op == .predec || lvLHS ≤ lvl x) else true)
      && lvUnary ≤ lvl x && gwf x
  | .bin op x y =>
    leftOk op x && opRight op ≤ lvl y && (if isAssignOp op then isTarget x else true) && gwf x && gwf y
  | .cond c x y => lvShort ≤ lvl c && lvAssign ≤ lvl x && lvAssign ≤ lvl y && gwf c && gwf x && gwf y
  | .comma l => decide (2 ≤ l.length) && gwfItems l
  | .call f args => lvCall ≤ lvl f && gwf f && gwfItems args
  | .dot x _ => lvCall ≤ lvl x && gwf x
  | .index x y => lvCall ≤ lvl x && gwf x && gwf y
  | .opt a e => (e.chainVar? == some a) && gwf e   -- `MemberExpression OptionalChain`: a non-empty chain of links on the variable
/-- items of a comma list / of an argument list: `AssignmentExpression`s -/
def gwfItems : List E → Bool
  | [] => true
  | a :: t => lvAssign ≤ lvl a && gwf a && gwfItems t
end

/-! ## the same grammar with `&&`, `||`, `??` read as associative operators

`a && b && c` is derivable from `LogicalANDExpression : LogicalANDExpression && BitwiseORExpression` only as
`(a && b) && c`.  A printer that writes the tree `a && (b && c)` without parentheses produces the same terminals; the
two trees have the same meaning (`Props.C01.assoc_*`).  `gwfA` is `gwf` with the right operand of these three operators
also allowed to be an application of the same operator. -/

def isAssocOp : BOp → Bool
  | .land | .lor | .nullish => true
  | _ => false

def sameOpNode (op : BOp) (y : E) : Bool :=
  match y with
  | .bin o _ _ => o == op
  | _ => false

def rightOkA (op : BOp) (y : E) : Bool := opRight op ≤ lvl y || (isAssocOp op && sameOpNode op y)

mutual
def gwfA : E → Bool
  | .var _ => true
  | .lit _ => true
  | .group x => gwfA x
  | .unary op x =>
    (if isUpdateOp op then isTarget x && (op == .preinc || op == .predec || lvLHS ≤ lvl x) else true)
      && lvUnary ≤ lvl x && gwfA x
  | .bin op x y =>
    leftOk op x && rightOkA op y && (if isAssignOp op then isTarget x else true) && gwfA x && gwfA y
  | .cond c x y => lvShort ≤ lvl c && lvAssign ≤ lvl x && lvAssign ≤ lvl y && gwfA c && gwfA x && gwfA y
  | .comma l => decide (2 ≤ l.length) && gwfAItems l
  | .call f args => lvCall ≤ lvl f && gwfA f && gwfAItems args
  | .dot x _ => lvCall ≤ lvl x && gwfA x
  | .index x y => lvCall ≤ lvl x && gwfA x && gwfA y
  | .opt a e => (e.chainVar? == some a) && gwfA e
def gwfAItems : List E → Bool
  | [] => true
  | a :: t => lvAssign ≤ lvl a && gwfA a && gwfAItems t
end

/-! ## terminals -/

inductive Tok where
  | ident (s : String)
  | kw (s : String)
  | num (n : Nat) (beforeDot : Bool)   -- a numeric literal of value n; `beforeDot`: directly followed by a member `.`
  | str (s : String)
  | p (s : String)
deriving DecidableEq, Repr, Inhabited

def opTok (word : Bool) (s : String) : Tok := if word then .kw s else .p s

mutual
/-- the terminal string of a derivation tree -/
def yield : E → List Tok
  | .var n => [.ident n]
  | .lit (.num n) => [.num n false]
  | .lit (.str s) => [.str s]
  | .lit .true => [.kw "true"]
  | .lit .false => [.kw "false"]
  | .lit .null => [.kw "null"]
  | .unary op x =>
    if op == .postinc || op == .postdec then yield x ++ [.p op.text]
    else [opTok op.isWord op.text] ++ yield x
  | .bin op x y => yield x ++ [opTok op.isWord op.text] ++ yield y
  | .cond c x y => yield c ++ [.p "?"] ++ yield x ++ [.p ":"] ++ yield y
  | .comma l => yieldSep l
  | .call f args => yield f ++ [.p "("] ++ yieldSep args ++ [.p ")"]
  | .dot x name =>
    (match x with
     | .lit (.num n) => [Tok.num n true]
     | _ => yield x) ++ [.p ".", .ident name]
  | .index x y => yield x ++ [.p "["] ++ yield y ++ [.p "]"]
  | .group x => [.p "("] ++ yield x ++ [.p ")"]
  | .opt _ e => yieldOpt e
/-- the terminals of a chain whose innermost link is written with `?.` -/
def yieldOpt : E → List Tok
  | .call f args => (if f.isLink then yieldOpt f else yield f ++ [.p "?."]) ++ [.p "("] ++ yieldSep args ++ [.p ")"]
  | .dot x name => if x.isLink then yieldOpt x ++ [.p ".", .ident name] else yield x ++ [.p "?.", .ident name]
  | .index x y => (if x.isLink then yieldOpt x else yield x ++ [.p "?."]) ++ [.p "["] ++ yield y ++ [.p "]"]
  | _ => []
def yieldSep : List E → List Tok
  | [] => []
  | [x] => yield x
  | x :: y :: t => yield x ++ [.p ","] ++ yieldSep (y :: t)
end

/-- `ts` is derivable from the nonterminal of level `p`, with derivation tree `e` -/
def Derives (p : Nat) (ts : List Tok) (e : E) : Prop := gwf e = true ∧ p ≤ lvl e ∧ yield e = ts

instance (p : Nat) (ts : List Tok) (e : E) : Decidable (Derives p ts e) := by unfold Derives; infer_instance

/-- the level test of a derivation in a context that demands level `p`: the operands of `??` (`p = lvBitOr`) may be
    `??` expressions themselves (`CoalesceExpressionHead`) -/
def levelOk (p : Nat) (e : E) : Bool := p ≤ lvl e || (p == lvBitOr && sameOpNode .nullish e)

/-- derivation in the grammar with associative `&&`, `||`, `??` -/
def DerivesA (p : Nat) (ts : List Tok) (e : E) : Prop := gwfA e = true ∧ levelOk p e = true ∧ yield e = ts

instance (p : Nat) (ts : List Tok) (e : E) : Decidable (DerivesA p ts e) := by unfold DerivesA; infer_instance

end Verif.Spec.JsGrammar

import Verif.Spec.CssValue
/-!
# Selectors: normal form and specificity (specification side of C04B)

Independent of the model of the minifier.  Input: the selector tokens of one qualified rule as the dependency parser
delivers them (flat lexer tokens; one white-space token = descendant combinator; inside `[…]` the parser drops
white space).

* `selNorm cfg` — normal form under the case rules of Selectors 4 §3.4: pseudo-class / pseudo-element / function
  names, the `i`/`s` attribute flags, `An+B` keywords, `:lang()`/`:dir()` arguments are ASCII case-insensitive;
  class names, ids, attribute names and values, namespace prefixes and the custom identifiers of `::part()`,
  `:state()`, `::highlight()` … are case-sensitive; element names are case-insensitive iff `cfg.htmlTypes`
  (HTML documents; in XML/SVG documents they are not).  An attribute value is the same whether written as an
  identifier or as a string (escapes resolved, CSS Syntax 3 §4.3.7); white space inside `[…]` is insignificant.
* `specificity` — Selectors 4 §17 on the case-erased skeleton (`skel`): (ids, classes + attributes +
  pseudo-classes, types + pseudo-elements); `:is()/:not()/:has()` count their most specific argument, `:where()`
  nothing, `:nth-child(… of S)` one pseudo-class plus the most specific `S`; a comma-separated list yields the maximum.
-/
namespace Verif.Spec.CssSel
open Verif.Spec.CssValue

structure Cfg where
  /-- element names are ASCII case-insensitive (the style sheet is applied to an HTML document) -/
  htmlTypes : Bool
  deriving Repr, DecidableEq

def htmlCfg : Cfg := ⟨true⟩
def xmlCfg : Cfg := ⟨false⟩

/-! ## escapes -/

def isNl (c : Char) : Bool := c == '\n' || c == '\r' || c == Char.ofNat 12

/-- CSS Syntax 3 §4.3.7 on the content of an identifier or string: `\` + 1–6 hex digits + optional white space is
that code point (0, surrogates and values beyond U+10FFFF: U+FFFD), `\` + newline is nothing (strings), `\` +
anything else is that character -/
def unescape : Nat → List Char → List Char
  | 0, s => s
  | _ + 1, [] => []
  | fuel + 1, '\\' :: r =>
    match r with
    | [] => [Char.ofNat 0xFFFD]
    | c :: r' =>
      if isHexDigit c then
        let hs := c :: (r'.takeWhile isHexDigit).take 5
        let rest := r'.drop (hs.length - 1)
        let rest := match rest with | w :: x => if isWs w then x else rest | [] => []
        let v := hexVal hs
        (if v == 0 || v > 0x10FFFF || (0xD800 ≤ v && v ≤ 0xDFFF) then Char.ofNat 0xFFFD else Char.ofNat v) ::
          unescape fuel rest
      else if c == '\r' then
        match r' with
        | '\n' :: r'' => unescape fuel r''
        | _ => unescape fuel r'
      else if isNl c then unescape fuel r'
      else c :: unescape fuel r'
  | fuel + 1, c :: r => c :: unescape fuel r

def unesc (s : List Char) : List Char := unescape (s.length + 1) s

/-! ## normal form -/

/-- how identifiers in the arguments of a functional pseudo-class are read -/
inductive Ctx where
  | sel      -- a selector list
  | nth      -- An+B, then `of` + selector list
  | fold     -- case-insensitive keywords (`:lang()`, `:dir()`)
  | keep     -- case-sensitive custom identifiers (`::part()`, `:state()`, …) and anything unknown
  deriving DecidableEq, Repr

def selListFns : List (List Char) :=
  ["not", "is", "where", "matches", "has", "any", "-webkit-any", "-moz-any", "host", "host-context", "slotted",
   "cue", "cue-region", "current"].map String.toList
def nthFns : List (List Char) :=
  ["nth-child", "nth-last-child", "nth-of-type", "nth-last-of-type", "nth-col", "nth-last-col"].map String.toList
def foldFns : List (List Char) := ["lang", "dir"].map String.toList

def ctxOfFn (name : List Char) : Ctx :=
  if selListFns.contains name then .sel else if nthFns.contains name then .nth
  else if foldFns.contains name then .fold else .keep

inductive Prev where | none | dot | colon
  deriving DecidableEq, Repr

def isMatcher (t : Tok) : Bool :=
  (t.tt == .delim && t.data == ['=']) || t.tt == .includeMatch || t.tt == .dashMatch || t.tt == .prefixMatch ||
  t.tt == .suffixMatch || t.tt == .substringMatch

def isBar (t : Tok) : Bool := t.tt == .delim && t.data == ['|']

/-- an attribute value in one spelling: the string token of its content -/
def valueTok (content : List Char) : Tok := .mk .string ('"' :: content ++ ['"']) []

def wsTok : Tok := .mk .whitespace [' '] []

/-- inside `[…]`: `phase` 0 = name, 1 = behind the matcher, 2 = behind the value (flags) -/
def attrNorm (phase : Nat) (t : Tok) : Option Tok × Nat :=
  if t.tt == .whitespace then (none, phase)
  else if isMatcher t then (some t, 1)
  else if phase == 1 && t.tt == .string then (some (valueTok (unesc ((t.data.drop 1).dropLast))), 2)
  else if phase == 1 && t.tt == .ident then (some (valueTok (unesc t.data)), 2)
  else if phase == 2 && t.tt == .ident then (some (.mk .ident (lower t.data) []), 2)
  else (some t, phase)

/-- tag of an An+B fragment in the intermediate normal form (no lexer token has this class in a selector) -/
def anbTT : TT := .empty

/-- normal form before An+B fragments are merged; `stack` = contexts of the enclosing parentheses (innermost first,
`[]` = a selector list), `attr` = `some phase` inside `[…]` -/
def normGo (cfg : Cfg) : List Ctx → Prev → Option Nat → List Tok → List Tok
  | _, _, _, [] => []
  | stack, _, some phase, t :: r =>
    if t.tt == .rightBracket then t :: normGo cfg stack .none none r
    else
      match attrNorm phase t with
      | (some t', ph) => t' :: normGo cfg stack .none (some ph) r
      | (none, ph) => normGo cfg stack .none (some ph) r
  | stack, prev, none, t :: r =>
    let ctx := stack.headD .sel
    match t.tt with
    | .whitespace => if ctx == .nth then normGo cfg stack .none none r else wsTok :: normGo cfg stack .none none r
    | .function =>
      let name := lower t.data.dropLast
      .mk .function (lower t.data) [] ::
        normGo cfg ((if prev == .colon && ctx != .keep then ctxOfFn name else ctx) :: stack) .none none r
    | .leftParen => t :: normGo cfg (ctx :: stack) .none none r
    | .rightParen => t :: normGo cfg (stack.drop 1) .none none r
    | .leftBracket => t :: normGo cfg stack .none (some 0) r
    | .colon => t :: normGo cfg stack .colon none r
    | .delim =>
      if t.data == ['.'] then t :: normGo cfg stack .dot none r
      else if ctx == .nth then .mk anbTT t.data [] :: normGo cfg stack .none none r
      else t :: normGo cfg stack .none none r
    | .ident =>
      -- a class name; a namespace prefix (directly in front of `|`)
      if prev == .dot || (match r with | n :: _ => isBar n | [] => false) then t :: normGo cfg stack .none none r else
      match ctx with
      | .sel =>
        let d :=
          if prev == .colon then lower t.data
          else if cfg.htmlTypes then lower t.data else t.data
        .mk .ident d [] :: normGo cfg stack .none none r
      | .nth =>
        let d := lower t.data
        if d == "of".toList then .mk .ident d [] :: normGo cfg (.sel :: stack.drop 1) .none none r
        else .mk anbTT d [] :: normGo cfg stack .none none r
      | .fold => .mk .ident (lower t.data) [] :: normGo cfg stack .none none r
      | .keep => t :: normGo cfg stack .none none r
    | .number | .dimension | .percentage =>
      if ctx == .nth then .mk anbTT (lower t.data) [] :: normGo cfg stack .none none r
      else t :: normGo cfg stack .none none r
    | _ => t :: normGo cfg stack .none none r

/-- An+B: the formula is its text without white space whatever the token boundaries (`2N + 1`, `2n+1`): adjacent
fragments are joined -/
def mergeAnb : List Tok → List Tok
  | [] => []
  | t :: r =>
    match mergeAnb r with
    | n :: r' => if t.tt == anbTT && n.tt == anbTT then .mk anbTT (t.data ++ n.data) [] :: r' else t :: n :: r'
    | [] => [t]

def selNorm (cfg : Cfg) (ts : List Tok) : List Tok := mergeAnb (normGo cfg [] .none none ts)

def selEquiv (cfg : Cfg) (a b : List Tok) : Bool := selNorm cfg a == selNorm cfg b

/-- shape of the selector tokens the parser delivers for a valid selector (lexer / grammar contract): a delimiter is
one byte, a `.` is directly followed by the class name, inside `[…]` a string only stands as the value behind the
matcher.  `prevDot` = the previous token was a `.`, `attr` = `some phase` inside `[…]` -/
def shapeGo : Bool → Option Nat → List Tok → Bool
  | prevDot, _, [] => !prevDot
  | _, some phase, t :: r =>
    if t.tt == .rightBracket then shapeGo false none r
    else (t.tt != .delim || t.data.length == 1) && (t.tt != .string || phase == 1) && shapeGo false (some (attrNorm phase t).2) r
  | prevDot, none, t :: r =>
    (t.tt != .delim || t.data.length == 1) && (!prevDot || t.tt == .ident) &&
    (if t.tt == .leftBracket then shapeGo false (some 0) r
     else shapeGo (t.tt == .delim && t.data == ['.']) none r)

def selShape (ts : List Tok) : Bool := shapeGo false none ts

/-! ## specificity -/

/-- case-erased skeleton: identifiers and function names lower-cased, the content of `[…]` dropped -/
def skelGo : Bool → List Tok → List Tok
  | _, [] => []
  | true, t :: r => if t.tt == .rightBracket then t :: skelGo false r else skelGo true r
  | false, t :: r =>
    if t.tt == .leftBracket then t :: skelGo true r
    else if t.tt == .ident || t.tt == .function then .mk t.tt (lower t.data) [] :: skelGo false r
    else t :: skelGo false r

def skel (ts : List Tok) : List Tok := skelGo false ts

/-! ## token separation (CSS Syntax 3 §9 "serialization")

Whether two tokens written back to back re-lex as the same two tokens depends only on their *kinds*: the token class
and, for a delimiter, its character. -/

/-- kind of a token -/
abbrev Kind := TT × List Char

def kindOf (t : Tok) : Kind := (t.tt, if t.tt == .delim then t.data else [])

def identLikeTT (tt : TT) : Bool := tt == .ident || tt == .atKeyword || tt == .hash || tt == .dimension
def numericTT (tt : TT) : Bool := tt == .number || tt == .percentage || tt == .dimension

/-- the pairs of the table in CSS Syntax 3 §9 that must be kept apart (by white space or a comment) -/
def needsSep (a b : Kind) : Bool :=
  let startsName := b.1 == .ident || b.1 == .function || b.1 == .url || b.1 == .badUrl
  (identLikeTT a.1 && (startsName || numericTT b.1 || b.1 == .cdc || b == (.delim, ['-']) || (a.1 == .ident && b.1 == .leftParen))) ||
  (a.1 == .number && (startsName || numericTT b.1 || b == (.delim, ['%']))) ||
  ((a == (.delim, ['#']) || a == (.delim, ['-'])) && (startsName || numericTT b.1 || b == (.delim, ['-']))) ||
  (a == (.delim, ['@']) && (startsName || b == (.delim, ['-']))) ||
  ((a == (.delim, ['.']) || a == (.delim, ['+'])) && numericTT b.1) ||
  (a == (.delim, ['/']) && b == (.delim, ['*'])) ||
  (a == (.delim, ['|']) && (b == (.delim, ['|']) || b == (.delim, ['=']) || b.1 == .column)) ||
  ((a == (.delim, ['$']) || a == (.delim, ['*']) || a == (.delim, ['^']) || a == (.delim, ['~'])) && b == (.delim, ['=']))

/-- no adjacent pair needs a separator -/
def sepFree : List Kind → Bool
  | a :: b :: r => !needsSep a b && sepFree (b :: r)
  | _ => true

/-- the kinds of the tokens outside `[…]` (the brackets stay, their content is dropped) -/
def kindsOutside : Bool → List Tok → List Kind
  | _, [] => []
  | true, t :: r => if t.tt == .rightBracket then kindOf t :: kindsOutside false r else kindsOutside true r
  | false, t :: r => kindOf t :: kindsOutside (t.tt == .leftBracket) r

structure Spc where
  a : Nat
  b : Nat
  c : Nat
  deriving DecidableEq, Repr

def Spc.zero : Spc := ⟨0, 0, 0⟩
def Spc.add (x y : Spc) : Spc := ⟨x.a + y.a, x.b + y.b, x.c + y.c⟩
def Spc.lt (x y : Spc) : Bool := x.a < y.a || (x.a == y.a && (x.b < y.b || (x.b == y.b && x.c < y.c)))
def Spc.max (x y : Spc) : Spc := if x.lt y then y else x

def legacyPseudoElements : List (List Char) := ["before", "after", "first-line", "first-letter"].map String.toList
def maxArgFns : List (List Char) := ["not", "is", "matches", "has", "any", "-webkit-any", "-moz-any"].map String.toList
def nthOfFns : List (List Char) := ["nth-child", "nth-last-child"].map String.toList

/-- `colons` = number of colon tokens directly in front -/
structure SpState where
  cur : Spc
  best : Spc
  dot : Bool
  colons : Nat
  /-- inside `:nth-child(`: nothing counts up to the keyword `of` -/
  skipToOf : Bool

mutual
/-- specificity of a comma-separated list of complex selectors over a nested skeleton (maximum) -/
def specList (st : SpState) : List Tok → Spc
  | [] => st.best.max st.cur
  | .mk tt data args :: r =>
    let clr : SpState := { st with dot := false, colons := 0 }
    if st.skipToOf then
      specList (if tt == .ident && data == "of".toList then { clr with skipToOf := false } else clr) r
    else
    match tt with
    | .comma => specList { clr with cur := Spc.zero, best := st.best.max st.cur } r
    | .hash => specList { clr with cur := st.cur.add ⟨1, 0, 0⟩ } r
    | .leftBracket => specList { clr with cur := st.cur.add ⟨0, 1, 0⟩ } r
    | .colon => specList { st with dot := false, colons := st.colons + 1 } r
    | .delim => specList (if data == ['.'] then { clr with dot := true } else clr) r
    | .ident =>
      let inc : Spc :=
        if st.dot then ⟨0, 1, 0⟩
        else if st.colons == 1 then (if legacyPseudoElements.contains data then ⟨0, 0, 1⟩ else ⟨0, 1, 0⟩)
        else if st.colons ≥ 2 then ⟨0, 0, 1⟩
        else if (match r with | .mk .delim ['|'] _ :: _ => true | _ => false) then Spc.zero
        else ⟨0, 0, 1⟩
      specList { clr with cur := st.cur.add inc } r
    | .function =>
      let name := data.dropLast
      let inc : Spc :=
        if st.colons == 1 then
          if maxArgFns.contains name then specArgs false args
          else if name == "where".toList then Spc.zero
          else if nthOfFns.contains name then Spc.add ⟨0, 1, 0⟩ (specArgs true args)
          else ⟨0, 1, 0⟩
        else if st.colons ≥ 2 then
          if name == "slotted".toList then Spc.add ⟨0, 0, 1⟩ (specArgs false args) else ⟨0, 0, 1⟩
        else Spc.zero
      specList { clr with cur := st.cur.add inc } r
    | _ => specList clr r
def specArgs (nth : Bool) : List Tok → Spc
  | args => specList ⟨Spc.zero, Spc.zero, false, 0, nth⟩ args
end

/-- specificity of the selector (the maximum over a comma-separated list) -/
def specificity (ts : List Tok) : Spc := specArgs false (nest (skel ts))

end Verif.Spec.CssSel

/-!
# C05B — token stream of the dependency XML lexer as seen by `/repo/svg/buffer.go`

Shared interface between the model of the document loop of `svg.go` (`Model/SvgDoc.lean`) and its
specification (`Spec/SvgDocSpec.lean`).  The lexer (`github.com/tdewolff/parse/v2/xml`) is modelled **by
contract**: the harness obtains the token lists from the real lexer.  Other than `Verif.Xml.XTok` (C06) a token
carries *every* field `svg.go` reads: `printTag` writes the raw `Data` of attribute tokens, the DOCTYPE branch
looks at `Text`.  Bytes are `List Char` (Latin-1 embedding).
-/
namespace Verif.SvgDoc

/-- `startTag n`: Data = `<`n, Text = n.  `startTagPI n`: Data = `<?`n.
`attr d n v`: Data = d (leading white space, name, `=`, raw value), Text = n, AttrVal = v (raw, with its quotes;
`none` = attribute without `=`).  `startTagClose` / `startTagCloseVoid` / `startTagClosePI`: Data = `>` / `/>` / `?>`.
`endTag d n`: Data = d (`</`n ws* `>`), Text = n.  `text d`, `comment d`: Data = d.
`cdata d t`: Data = d (`<![CDATA[`t`]]>`), Text = t.  `doctype d t`: Data = d, Text = t (the bytes between
`<!DOCTYPE` and the closing `>`). -/
inductive STok
  | startTag (name : List Char)
  | startTagPI (name : List Char)
  | attr (data name : List Char) (val : Option (List Char))
  | startTagClose
  | startTagCloseVoid
  | startTagClosePI
  | endTag (data name : List Char)
  | text (data : List Char)
  | cdata (data text : List Char)
  | comment (data : List Char)
  | doctype (data text : List Char)
  deriving DecidableEq, Repr

/-- the bytes of a token (`Token.Data`) -/
def STok.render : STok → List Char
  | .startTag n => '<' :: n
  | .startTagPI n => '<' :: '?' :: n
  | .attr d _ _ => d
  | .startTagClose => ['>']
  | .startTagCloseVoid => ['/', '>']
  | .startTagClosePI => ['?', '>']
  | .endTag d _ => d
  | .text d => d
  | .cdata d _ => d
  | .comment d => d
  | .doctype d _ => d

end Verif.SvgDoc

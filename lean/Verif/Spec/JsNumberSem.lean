/-!
# C01N — specification side: ECMAScript numeric literals and their mathematical value

Independent of the model of the minifier (`Verif.Model.JsNumber`).  Transcribed from ECMA-262
(2023) §12.9.3 *Numeric Literals* and Annex B.1.1 (legacy octal, sloppy mode):

```
NumericLiteral ::  DecimalLiteral | DecimalBigIntegerLiteral
                 | NonDecimalIntegerLiteral[+Sep] | NonDecimalIntegerLiteral[+Sep] n
                 | LegacyOctalIntegerLiteral
DecimalLiteral ::  DecimalIntegerLiteral . DecimalDigits[+Sep]opt ExponentPart[+Sep]opt
                 | . DecimalDigits[+Sep] ExponentPart[+Sep]opt
                 | DecimalIntegerLiteral ExponentPart[+Sep]opt
DecimalIntegerLiteral ::  0 | NonZeroDigit | NonZeroDigit _opt DecimalDigits[+Sep]
                        | NonOctalDecimalIntegerLiteral          (`08`, `09`, `018` …: decimal)
DecimalBigIntegerLiteral ::  0 n | NonZeroDigit DecimalDigits[+Sep]opt n | NonZeroDigit _ DecimalDigits[+Sep] n
LegacyOctalIntegerLiteral :: 0 OctalDigit+                      (`017` = 15)
Digits[+Sep] :: Digit | Digits[+Sep] _opt Digit                 (a `_` only between two digits)
```

* `isNumericLiteral` — recogniser of that grammar on a whole lexeme;
* `mathDec s = (m, e)` and `mathValue s = m · 10^e : Rat` — the *mathematical value* (MV) of the lexeme,
  an exact rational (BigInt literals: the integer before the `n`);
* `isBigIntLit` — the lexeme is a BigInt literal (`typeof` is `"bigint"`, not `"number"`).

**IEEE-754 is not modelled.**  The Number value of a (non-BigInt) literal is `𝔽(RoundMVResult(MV))`,
a function of MV only, so two lexemes with the same `mathValue` (and the same `isBigIntLit`) evaluate to
the same ECMAScript value; the theorems of `Props/C01N.lean` are statements about MV.  The harness checks
the rounded values with node on the real output.
-/
namespace Verif.Spec.JsNumberSem

/-! ## digits -/

def isHexLetter (c : Char) : Bool := ('a' ≤ c && c ≤ 'f') || ('A' ≤ c && c ≤ 'F')

/-- value of one digit `0-9a-fA-F` (0 for anything else) -/
def digitVal (c : Char) : Nat :=
  if c.isDigit then c.toNat - 48
  else if 'a' ≤ c && c ≤ 'f' then c.toNat - 87
  else if 'A' ≤ c && c ≤ 'F' then c.toNat - 55
  else 0

/-- `c` is a digit of the given base (2, 8, 10, 16) -/
def isDigitOf (base : Nat) (c : Char) : Bool := (c.isDigit || isHexLetter c) && decide (digitVal c < base)

def natOfBase (base : Nat) (ds : List Char) : Nat := ds.foldl (fun a c => a * base + digitVal c) 0

/-- value of a decimal digit string -/
def natOf10 (ds : List Char) : Nat := Nat.ofDigitChars 10 ds 0

/-- `Digits[+Sep]` from a state: `prev` = the previous character was a digit.  A `_` is accepted only
    directly after a digit and must be followed by a digit; the string must end in a digit. -/
def sepDigitsAux (p : Char → Bool) : Bool → List Char → Bool
  | prev, [] => prev
  | prev, c :: r =>
    if p c then sepDigitsAux p true r
    else if c == '_' && prev then sepDigitsAux p false r
    else false

/-- `Digits[+Sep]`: non-empty, starts and ends with a digit, every `_` between two digits -/
def sepDigits (p : Char → Bool) (l : List Char) : Bool := sepDigitsAux p false l

/-- remove the numeric separators -/
def stripSep (l : List Char) : List Char := l.filter (· != '_')

/-! ## lexeme structure -/

/-- split off the BigInt suffix -/
def splitSuffix (s : List Char) : List Char × Bool :=
  match s.getLast? with
  | some 'n' => (s.dropLast, true)
  | _ => (s, false)

def isBigIntLit (s : List Char) : Bool := (splitSuffix s).2

/-- `0x`/`0o`/`0b` prefix (either case): base and the rest -/
def radixPrefix : List Char → Option (Nat × List Char)
  | '0' :: c :: r =>
    if c == 'x' || c == 'X' then some (16, r)
    else if c == 'o' || c == 'O' then some (8, r)
    else if c == 'b' || c == 'B' then some (2, r)
    else none
  | _ => none

def notDotE (c : Char) : Bool := c != '.' && c != 'e' && c != 'E'
def notE (c : Char) : Bool := c != 'e' && c != 'E'

/-- the three parts of a decimal lexeme: integer part, fraction (after a `.`), exponent (after `e`/`E`) -/
structure DecParts where
  ip : List Char
  fp : Option (List Char)
  ex : Option (List Char)
  deriving Repr, DecidableEq

def afterE : List Char → Option (List Char)
  | [] => none
  | _ :: x => some x

def decParts (b : List Char) : DecParts :=
  let ip := b.takeWhile notDotE
  match b.dropWhile notDotE with
  | '.' :: t => { ip := ip, fp := some (t.takeWhile notE), ex := afterE (t.dropWhile notE) }
  | r => { ip := ip, fp := none, ex := afterE r }

def isNonZeroDigit (c : Char) : Bool := '1' ≤ c && c ≤ '9'
def isOctDigit (c : Char) : Bool := '0' ≤ c && c ≤ '7'

/-- `DecimalIntegerLiteral` -/
def isDecIntLit : List Char → Bool
  | [] => false
  | ['0'] => true
  | '0' :: r => r.all Char.isDigit && r.any (fun c => c == '8' || c == '9')   -- NonOctalDecimalIntegerLiteral
  | c :: r => isNonZeroDigit c && sepDigits Char.isDigit (c :: r)

/-- `LegacyOctalIntegerLiteral` -/
def isLegacyOctal : List Char → Bool
  | '0' :: c :: r => (c :: r).all isOctDigit
  | _ => false

/-- `SignedInteger`: digits and sign -/
def signedInt : List Char → List Char × Bool
  | '+' :: r => (r, false)
  | '-' :: r => (r, true)
  | r => (r, false)

def exOK : Option (List Char) → Bool
  | none => true
  | some x => sepDigits Char.isDigit (signedInt x).1

/-- `DecimalLiteral` (including `NonOctalDecimalIntegerLiteral` integer parts) -/
def isDecimalLiteral (b : List Char) : Bool :=
  let p := decParts b
  (match p.fp with
   | none => isDecIntLit p.ip
   | some fp =>
     (p.ip.isEmpty && sepDigits Char.isDigit fp) ||
     (isDecIntLit p.ip && (fp.isEmpty || sepDigits Char.isDigit fp))) && exOK p.ex

/-- `DecimalBigIntegerLiteral` without its `n` -/
def isDecBigInt : List Char → Bool
  | ['0'] => true
  | c :: r => isNonZeroDigit c && sepDigits Char.isDigit (c :: r)
  | [] => false

/-- the recogniser of `NumericLiteral` (sloppy mode: legacy octal included) on a whole lexeme -/
def isNumericLiteral (s : List Char) : Bool :=
  let sb := splitSuffix s
  match radixPrefix sb.1 with
  | some (base, r) => sepDigits (isDigitOf base) r
  | none => if sb.2 then isDecBigInt sb.1 else isDecimalLiteral sb.1 || isLegacyOctal sb.1

/-- the lexemes the strict-mode grammar rejects (Annex B): `017`, `08`, `09.5` … -/
def isLegacyLike (s : List Char) : Bool :=
  match s with
  | '0' :: c :: _ => c.isDigit
  | _ => false

/-! ## mathematical value -/

def expValue : Option (List Char) → Int
  | none => 0
  | some x =>
    let v : Int := natOf10 (stripSep (signedInt x).1)
    if (signedInt x).2 then -v else v

/-- mantissa and decimal exponent of a decimal lexeme (no suffix) -/
def decDec (b : List Char) : Nat × Int :=
  let p := decParts b
  let fp := stripSep (p.fp.getD [])
  (natOf10 (stripSep p.ip ++ fp), expValue p.ex - (fp.length : Int))

/-- `(m, e)` with MV = `m · 10^e` -/
def mathDec (s : List Char) : Nat × Int :=
  let b := (splitSuffix s).1
  match radixPrefix b with
  | some (base, r) => (natOfBase base (stripSep r), 0)
  | none => if isLegacyOctal b then (natOfBase 8 b, 0) else decDec b

/-- the mathematical value of a numeric literal -/
def mathValue (s : List Char) : Rat := ((mathDec s).1 : Rat) * (10 : Rat) ^ (mathDec s).2

/-! ## executable comparison of values (also for astronomically large exponents) -/

def stripTens : Nat → Nat → Int → Nat × Int
  | 0, m, e => (m, e)
  | fuel + 1, m, e => if m % 10 == 0 && m != 0 then stripTens fuel (m / 10) (e + 1) else (m, e)

/-- normal form: `10 ∤ m`, zero is `(0, 0)` -/
def normDec (d : Nat × Int) : Nat × Int :=
  if d.1 == 0 then (0, 0) else stripTens d.1 d.1 d.2

/-- the two lexemes have the same mathematical value and the same type (Number / BigInt) -/
def sameValue (a b : List Char) : Bool :=
  normDec (mathDec a) == normDec (mathDec b) && isBigIntLit a == isBigIntLit b

/-! ## maximal munch: the numeric literal at the start of a source text -/

/-- the largest `k ≤ n`, `k > 0`, such that the first `k` characters of `src` are a `NumericLiteral` -/
def longestFrom (src : List Char) : Nat → Option Nat
  | 0 => none
  | k + 1 => if isNumericLiteral (src.take (k + 1)) then some (k + 1) else longestFrom src k

/-- length of the longest prefix of `src` that is a `NumericLiteral` -/
def longestLitPrefix (src : List Char) : Option Nat := longestFrom src src.length

def isIdentStart (c : Char) : Bool := c.isAlpha || c == '$' || c == '_'

/-- ECMA-262 §12.9.3: "The SourceCharacter immediately following a NumericLiteral must not be an
    IdentifierStart or DecimalDigit."  `lexNumericAt src = some (lit, rest)`: the source starts with the
    numeric literal `lit` (longest match) and may legally continue with `rest`. -/
def lexNumericAt (src : List Char) : Option (List Char × List Char) :=
  match longestLitPrefix src with
  | none => none
  | some k =>
    match src.drop k with
    | [] => some (src.take k, [])
    | c :: r => if isIdentStart c || c.isDigit then none else some (src.take k, c :: r)

/-! ## truthiness and property keys (used by the extra checks of the runner) -/

/-- `ToBoolean` of the literal: false exactly for `0`, `0n` (NaN cannot be written as a literal) -/
def isFalsyLit (s : List Char) : Bool := (mathDec s).1 == 0

/-! ## triggers of the known findings -/

/-- K-C01N-1: a BigInt literal with radix prefix that the minifier leaves in its original notation
    (more than 63 binary, 21 octal, 10 hexadecimal digits, or 10 hexadecimal digits starting with `E`/`F`):
    the suffix `n` is lost. -/
def trigBigRadix (s : List Char) : Bool :=
  let sb := splitSuffix s
  sb.2 &&
  match radixPrefix (stripSep sb.1) with
  | some (16, r) => decide (10 < r.length) ||
      (r.length == 10 && match r with | c :: _ => decide (14 ≤ digitVal c) | [] => false)
  | some (8, r) => decide (21 < r.length)
  | some (2, r) => decide (63 < r.length)
  | _ => false

end Verif.Spec.JsNumberSem

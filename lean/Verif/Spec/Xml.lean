import Verif.Spec.XmlTok
/-!
# Specification side of C06: XML infoset of a token stream, equivalence up to insignificant white space,
well-formedness of emitted character data and attribute values, triggers of the known findings

Independent of the model of the implementation (`Model/Xml.lean`): nothing here mentions what `xml.go` does.
Hand-transcribed from XML 1.0 (5th ed.): §2.2 `Char`, §2.3 `S`, §2.4 character data, §2.7 CDATA sections,
§3.3.3 attribute-value normalisation, §4.1 character and entity references, §4.6 predefined entities.

Bytes are `List Char` (Latin-1 embedding): a non-ASCII literal byte is kept as `DCh.raw` (a byte of a UTF-8
sequence), a character reference as `DCh.c codepoint`; literal ASCII characters are `DCh.c` too.
-/
namespace Verif.Spec.Xml
open Verif.Xml (XTok)

/-! ## characters and references -/

/-- decoded character of character data / of a normalised attribute value -/
inductive DCh
  | c (n : Nat)              -- ASCII literal or character reference (code point)
  | raw (n : Nat)            -- non-ASCII literal byte
  | ent (name : List Char)   -- reference to a general entity that is not predefined
  | bad                      -- `&` that does not start a reference: not well-formed
  deriving DecidableEq, Repr

/-- XML 1.0 `S` -/
def isS (c : Char) : Bool := c == ' ' || c == '\t' || c == '\n' || c == '\r'

def isDig (c : Char) : Bool := '0' ≤ c && c ≤ '9'
def isHex (c : Char) : Bool := isDig c || ('a' ≤ c && c ≤ 'f') || ('A' ≤ c && c ≤ 'F')
def isAl (c : Char) : Bool := ('a' ≤ c && c ≤ 'z') || ('A' ≤ c && c ≤ 'Z')
/-- name characters (ASCII part of `NameChar`, every non-ASCII byte accepted) -/
def isNameChar (c : Char) : Bool :=
  isAl c || isDig c || c == '.' || c == '-' || c == '_' || c == ':' || 128 ≤ c.toNat

def digVal (c : Char) : Nat :=
  if isDig c then c.toNat - 48 else if 'a' ≤ c then c.toNat - 87 else c.toNat - 55

def numVal (base : Nat) (ds : List Char) : Nat := ds.foldl (fun a c => a * base + digVal c) 0

/-- XML 1.0 production [2] `Char` -/
def legalChar (n : Nat) : Bool :=
  n == 9 || n == 10 || n == 13 || (32 ≤ n && n ≤ 0xD7FF) || (0xE000 ≤ n && n ≤ 0xFFFD) || (0x10000 ≤ n && n ≤ 0x10FFFF)

/-- predefined entities (§4.6) -/
def predefined (nm : List Char) : Option Nat :=
  if nm == ['l', 't'] then some 60 else if nm == ['g', 't'] then some 62
  else if nm == ['a', 'm', 'p'] then some 38 else if nm == ['q', 'u', 'o', 't'] then some 34
  else if nm == ['a', 'p', 'o', 's'] then some 39 else none

/-- numeric character reference: the bytes behind `&`; result = code point and number of bytes consumed (with `;`) -/
def numRef (r : List Char) : Option (Nat × Nat) :=
  match r with
  | '#' :: 'x' :: r2 =>
    let ds := r2.takeWhile isHex
    match r2.drop ds.length with
    | ';' :: _ => if ds.isEmpty then none else some (numVal 16 ds, ds.length + 3)
    | _ => none
  | '#' :: r2 =>
    let ds := r2.takeWhile isDig
    match r2.drop ds.length with
    | ';' :: _ => if ds.isEmpty then none else some (numVal 10 ds, ds.length + 2)
    | _ => none
  | _ => none

/-- reference (§4.1): the bytes behind `&`; result = decoded character and number of bytes consumed -/
def specRef (r : List Char) : Option (DCh × Nat) :=
  match r with
  | '#' :: _ => (numRef r).map (fun p => (DCh.c p.1, p.2))
  | _ =>
    let nm := r.takeWhile isNameChar
    match r.drop nm.length with
    | ';' :: _ =>
      if nm.isEmpty then none else
      match predefined nm with
      | some n => some (DCh.c n, nm.length + 1)
      | none => some (DCh.ent nm, nm.length + 1)
    | _ => none

def lit (c : Char) : DCh := if c.toNat < 128 then .c c.toNat else .raw c.toNat

/-- Decoding of character data (`attr = false`) and attribute-value normalisation (`attr = true`, §3.3.3:
references replaced, a literal white space character becomes a space, a character reference to white space
stays that character).  First argument: bytes still to drop (0 at the call). -/
def decodeGo (attr : Bool) : Nat → List Char → List DCh
  | _, [] => []
  | k + 1, _ :: r => decodeGo attr k r
  | 0, c :: r =>
    if c == '&' then
      match specRef r with
      | some (d, n) => d :: decodeGo attr n r
      | none => .bad :: decodeGo attr 0 r
    else (if attr && isS c then DCh.c 32 else lit c) :: decodeGo attr 0 r

def decodeText (d : List Char) : List DCh := decodeGo false 0 d
def normAttr (d : List Char) : List DCh := decodeGo true 0 d

/-- content of a quoted attribute value as delivered by the lexer (`"…"` or `'…'`) -/
def unquote (v : List Char) : Option (Char × List Char) :=
  match v with
  | q :: rest =>
    if (q == '"' || q == '\'') && rest.getLast? == some q then some (q, rest.dropLast) else none
  | [] => none

/-- normalised value of an attribute token (malformed literal: `[bad]`) -/
def attrValue (v : List Char) : List DCh :=
  match unquote v with
  | some (_, body) => normAttr body
  | none => [.bad]

/-! ## grammar of character data and attribute values

XML 1.0 productions [14] `CharData`, [10] `AttValue`, [66] `CharRef`, [68] `EntityRef`: character data and the
content of an attribute value literal are sequences of *units*, a unit being a literal byte other than `<`
and `&`, or a reference.  The theorems of `Props/C06.lean` quantify over all such sequences. -/

inductive XUnit
  | lit (c : Char)           -- literal byte
  | named (nm : List Char)   -- `&nm;`
  | dec (ds : List Char)     -- `&#ds;`
  | hex (ds : List Char)     -- `&#xds;`
  deriving DecidableEq, Repr

def XUnit.chars : XUnit → List Char
  | .lit c => [c]
  | .named nm => '&' :: (nm ++ [';'])
  | .dec ds => '&' :: '#' :: (ds ++ [';'])
  | .hex ds => '&' :: '#' :: 'x' :: (ds ++ [';'])

/-- literal byte allowed in character data / attribute values: not `<`, not `&`, a legal character
(`S`, or ≥ 0x20; bytes ≥ 0x80 are parts of UTF-8 sequences) -/
def litOk (c : Char) : Bool := c != '<' && c != '&' && (isS c || 32 ≤ c.toNat)

def XUnit.ok : XUnit → Bool
  | .lit c => litOk c
  | .named nm => !nm.isEmpty && nm.all isNameChar
  | .dec ds => !ds.isEmpty && ds.all isDig && legalChar (numVal 10 ds)
  | .hex ds => !ds.isEmpty && ds.all isHex && legalChar (numVal 16 ds)

/-- the character a unit stands for (`attr`: with attribute-value normalisation) -/
def XUnit.val (attr : Bool) : XUnit → DCh
  | .lit c => if attr && isS c then DCh.c 32 else Verif.Spec.Xml.lit c
  | .named nm => match predefined nm with | some n => DCh.c n | none => DCh.ent nm
  | .dec ds => DCh.c (numVal 10 ds)
  | .hex ds => DCh.c (numVal 16 ds)

def flat (us : List XUnit) : List Char := us.flatMap XUnit.chars

/-- character data of a text token according to the grammar -/
def WfText (d : List Char) : Prop := ∃ us : List XUnit, us.all XUnit.ok = true ∧ d = flat us ∧ us ≠ []

/-- attribute value literal according to the grammar: quote, units without the quote character, quote -/
def WfAttrVal (v : List Char) : Prop :=
  ∃ (q : Char) (us : List XUnit), (q = '"' ∨ q = '\'') ∧ us.all XUnit.ok = true ∧ (.lit q) ∉ us ∧
    v = q :: (flat us ++ [q])

/-- content of a CDATA section: legal characters -/
def WfCDataText (t : List Char) : Prop := ∀ c ∈ t, isS c = true ∨ 32 ≤ c.toNat

/-! ## infoset as an event stream -/

inductive Mark
  | openTag (name : List Char)
  | closeTag
  | attr (name : List Char) (val : List DCh)
  | pi (target : List Char)
  | piEnd
  | doctype (data : List Char)
  deriving DecidableEq, Repr

def Mark.isTag : Mark → Bool
  | .openTag _ => true
  | .closeTag => true
  | _ => false

inductive Ev
  | ch (d : DCh)
  | mark (m : Mark)
  deriving DecidableEq, Repr

def evTok : XTok → List Ev
  | .startTag n => [.mark (.openTag n)]
  | .startTagPI n => [.mark (.pi n)]
  | .attr n v => [.mark (.attr n (attrValue v))]
  | .attrBare _ n => [.mark (.attr n [.bad])]
  | .startTagClose => []
  | .startTagCloseVoid => [.mark .closeTag]
  | .startTagClosePI => [.mark .piEnd]
  | .endTag _ _ => [.mark .closeTag]
  | .text d => (decodeText d).map .ch
  | .cdata _ t => t.map (fun c => .ch (lit c))
  | .comment _ => []
  | .doctype d => [.mark (.doctype d)]

/-- The infoset of a token stream: element starts with their names, attributes with normalised values, element
ends, processing instructions (target, pseudo-attributes), DOCTYPE, and the characters of the character data
(references decoded, CDATA sections opened, comments gone). -/
def infoset (ts : List XTok) : List Ev := ts.flatMap evTok

/-- the non-character items of an infoset, in document order: element starts and ends, attributes with their
normalised values, processing instructions, DOCTYPE -/
def marks : List Ev → List Mark
  | [] => []
  | .mark m :: r => m :: marks r
  | .ch _ :: r => marks r

/-! ## equivalence up to insignificant white space -/

def isWsD : DCh → Bool
  | .c n => n == 32 || n == 9 || n == 10 || n == 13
  | _ => false

/-- canonical event: every *solid* (non-white-space character, element tag) carries the bit "preceded by white
space"; neutral marks (attributes, PI parts, DOCTYPE) carry none and are transparent for white space. -/
inductive CEv
  | ch (sp : Bool) (d : DCh)
  | tag (sp : Bool) (m : Mark)
  | neutral (m : Mark)
  deriving DecidableEq, Repr

/-- `pend`: white space seen since the last solid; `ps`: the last solid is *soft* (white space next to it is
insignificant): document start, and element tags unless white space is kept. -/
def canonGo (keep : Bool) : Bool → Bool → List Ev → List CEv
  | _, _, [] => []
  | pend, ps, .ch d :: r =>
    if isWsD d then canonGo keep true ps r else .ch (pend && !ps) d :: canonGo keep false false r
  | pend, ps, .mark m :: r =>
    if m.isTag then .tag (pend && !ps && keep) m :: canonGo keep false (!keep) r
    else .neutral m :: canonGo keep pend ps r

/-- Canonical form: white space runs collapsed to one bit; the bit is dropped next to a document boundary and
(unless `keep`) next to element tags.  All non-white-space characters, their order and the separations between
words of one text run are retained: equal canonical forms ⇒ no word joined, split or dropped. -/
def canon (keep : Bool) (evs : List Ev) : List CEv := canonGo keep false true evs

/-- equivalence of infosets up to insignificant white space (with `keep = true`: white space next to element
tags is significant as well — it may be collapsed, never removed) -/
def wsEquiv (keep : Bool) (a b : List Ev) : Prop := canon keep a = canon keep b

instance (keep : Bool) (a b : List Ev) : Decidable (wsEquiv keep a b) := by unfold wsEquiv; infer_instance

/-! ## well-formedness -/

def startsCdEnd : List Char → Bool
  | ']' :: ']' :: '>' :: _ => true
  | _ => false

/-- the byte string contains `]]>` -/
def hasCdEnd : List Char → Bool
  | [] => false
  | c :: r => startsCdEnd (c :: r) || hasCdEnd r

def legalD : DCh → Bool
  | .c n => legalChar n
  | .raw _ => true
  | .ent _ => true
  | .bad => false

/-- character data of a text token (§2.4): no `<`, every `&` starts a reference to a legal character or an
entity, no `]]>`, only legal characters -/
def wfChars (d : List Char) : Bool :=
  !d.contains '<' && (decodeText d).all legalD && !hasCdEnd d

/-- attribute value literal (§2.3 [10]): quoted, no `<`, no bare `&`, the quote character does not occur inside -/
def wfAttr (v : List Char) : Bool :=
  match unquote v with
  | some (q, body) => !body.contains '<' && !body.contains q && (normAttr body).all legalD
  | none => false

/-- a CDATA section token: `<![CDATA[` text `]]>`, text without `]]>` -/
def wfCData (data text : List Char) : Bool :=
  data == ['<', '!', '[', 'C', 'D', 'A', 'T', 'A', '['] ++ text ++ [']', ']', '>'] && !hasCdEnd text && text.all (fun c => legalD (lit c))

def wfTok : XTok → Bool
  | .text d => !d.isEmpty && wfChars d
  | .attr _ v => wfAttr v
  | .cdata d t => wfCData d t
  | _ => true

def wfToks (ts : List XTok) : Bool := ts.all wfTok

/-! ## hypotheses of the theorems: grammar-level well-formedness of tokens, lexer contract on the stream shape -/

/-- token contents according to the grammar (text: `CharData` with references; attribute: quoted `AttValue`;
CDATA: legal characters) -/
def WfTokP : XTok → Prop
  | .text d => WfText d
  | .attr _ v => WfAttrVal v
  | .cdata _ t => WfCDataText t
  | _ => True

/-- Contract of the dependency lexer on the shape of the stream: `>` and `/>` only follow a start tag and its
attributes (argument: "inside a start tag"). -/
def lexShape : Bool → List XTok → Bool
  | _, [] => true
  | _, .startTag _ :: r => lexShape true r
  | tg, .attr _ _ :: r => lexShape tg r
  | tg, .attrBare _ _ :: r => lexShape tg r
  | tg, .startTagClose :: r => tg && lexShape false r
  | tg, .startTagCloseVoid :: r => tg && lexShape false r
  | _, _ :: r => lexShape false r

/-- well-formedness constraint: an attribute without value only occurs as a word of processing-instruction
data (argument: "inside a PI" as the dependency lexer sees it: from `<?target` to `?>` — or to a `>` / `/>` in the
data, which the lexer reads as the end of a tag and behind which it delivers character data) -/
def bareInPI : Bool → List XTok → Bool
  | _, [] => true
  | _, .startTagPI _ :: r => bareInPI true r
  | _, .startTagClosePI :: r => bareInPI false r
  | _, .startTagClose :: r => bareInPI false r
  | _, .startTagCloseVoid :: r => bareInPI false r
  | pi, .attrBare _ _ :: r => pi && bareInPI pi r
  | pi, _ :: r => bareInPI pi r

/-- emitted tokens: text is character data according to the grammar (no `<`, `&` only in references),
attribute values are quoted literals without `<`, bare `&` or their own quote character -/
def WfOutP : XTok → Prop
  | .text d => WfText d
  | .attr _ v => WfAttrVal v
  | .cdata _ t => WfCDataText t
  | _ => True

/-- element nesting (well-formedness constraint "element type match"): every end tag closes the innermost
open element and carries its name; `/>` closes the element just opened; at the end nothing is open.
Argument: names of the open elements, innermost first. -/
def nest : List (List Char) → List XTok → Bool
  | st, [] => st.isEmpty
  | st, .startTag n :: r => nest (n :: st) r
  | _ :: st, .startTagCloseVoid :: r => nest st r
  | [], .startTagCloseVoid :: _ => false
  | n :: st, .endTag _ m :: r => n == m && nest st r
  | [], .endTag _ _ :: _ => false
  | st, _ :: r => nest st r

/-! ## look-ahead predicate used by the loop invariant -/

def lastIsS (l : List Char) : Bool :=
  match l.getLast? with
  | some c => isS c
  | none => false

def headIsWsD : List DCh → Bool
  | x :: _ => isWsD x
  | [] => false

/-- the next token that carries characters or is an element tag is a text token whose character data starts
with white space (literally or as a character reference) -/
def nextTextLeadsS : List XTok → Bool
  | [] => false
  | .text d :: _ => headIsWsD (decodeText d)
  | .cdata _ t :: r => if t.isEmpty then nextTextLeadsS r else false
  | .startTag _ :: _ => false
  | .endTag _ _ :: _ => false
  | _ :: r => nextTextLeadsS r

/-- triggers of open known findings that are decidable on the token level (none at present: K-C06-3…6 are
fixed in /repo, K-C06-7 is a byte-level trigger evaluated by the harness) -/
def triggers (_keep : Bool) (_ts : List XTok) : List String := []

/-! ## the property as a decidable predicate on (input tokens, output tokens) -/

/-- automaton for "contains `]]>`": `k` = number of `]` read immediately before -/
def cdAuto : Nat → List Char → Bool
  | _, [] => false
  | k, c :: r =>
    if c == ']' then cdAuto (k + 1) r
    else if c == '>' then decide (2 ≤ k) || cdAuto 0 r
    else cdAuto 0 r

/-- raw character data runs of a token stream: the data of consecutive text tokens (comments in between
vanish) concatenated; any other token ends the run -/
def rawRuns : List Char → List XTok → List (List Char)
  | acc, [] => [acc]
  | acc, .text d :: r => rawRuns (acc ++ d) r
  | acc, .comment _ :: r => rawRuns acc r
  | acc, _ :: r => acc :: rawRuns [] r

/-- some character data run contains the literal sequence `]]>` (not well-formed, §2.4) -/
def rawCdEnd (ts : List XTok) : Bool := (rawRuns [] ts).any hasCdEnd

def wfOutTok : XTok → Bool
  | .text d => wfChars d
  | .attr _ v => wfAttr v
  | _ => true

def projTags : List CEv → List CEv
  | [] => []
  | .tag _ m :: r => .tag false m :: projTags r
  | _ :: r => projTags r

def projNeutral (p : Mark → Bool) : List CEv → List Mark
  | [] => []
  | .neutral m :: r => if p m then m :: projNeutral p r else projNeutral p r
  | _ :: r => projNeutral p r

def projChars : List CEv → List CEv
  | [] => []
  | .neutral (.attr n _) :: r => .neutral (.attr n []) :: projChars r
  | .neutral (.doctype _) :: r => .neutral (.doctype []) :: projChars r
  | e :: r => e :: projChars r

/-- failing clauses of the property for input tokens `i` and output tokens `o` (empty = holds):
`wf` (an emitted text / attribute value is not well-formed), `struct`, `attr`, `pi`, `doctype`, `chars` -/
def holds (keep : Bool) (i o : List XTok) : List String :=
  if !wfToks i || !lexShape false i then [] else
  let ci := canon keep (infoset i)
  let co := canon keep (infoset o)
  let isAttr : Mark → Bool := fun m => match m with | .attr _ _ => true | _ => false
  let isPi : Mark → Bool := fun m => match m with | .pi _ => true | .piEnd => true | _ => false
  let isDt : Mark → Bool := fun m => match m with | .doctype _ => true | _ => false
  (if o.all wfOutTok && !rawCdEnd o && (!nest [] i || nest [] o) then [] else ["wf"]) ++
  (if projTags ci == projTags co then [] else ["struct"]) ++
  (if projNeutral isAttr ci == projNeutral isAttr co then [] else ["attr"]) ++
  (if projNeutral isPi ci == projNeutral isPi co then [] else ["pi"]) ++
  (if projNeutral isDt ci == projNeutral isDt co then [] else ["doctype"]) ++
  (if projChars ci == projChars co then [] else ["chars"])

end Verif.Spec.Xml

/-!
# C01 — abstract syntax of the JavaScript fragment (the parser's AST, by contract)

`E` / `S` mirror the node types of `parse/v2/js` that the fragment uses (`Var`, `LiteralExpr`, `UnaryExpr`,
`BinaryExpr`, `CondExpr`, `CommaExpr` (n-ary), `CallExpr`, `DotExpr`, `IndexExpr`, `GroupExpr`;
`ExprStmt`, `IfStmt`, `ReturnStmt`, `ThrowStmt`, `BlockStmt`, `EmptyStmt`, `FuncDecl`).
Shared by the specification side (grammar, semantics) and the model; nothing here depends on /repo.
-/
namespace Verif.Spec.JsSyntax

/-- unary operators (prefix, and the two postfix updates) -/
inductive UOp where
  | not | bitnot | typeof | void | delete | pos | neg | preinc | predec | postinc | postdec
deriving DecidableEq, Repr, Inhabited

/-- binary operators incl. assignments (the comma is a separate n-ary node) -/
inductive BOp where
  | assign | mulEq | divEq | modEq | expEq | addEq | subEq | shlEq | shrEq | ushrEq | andEq | xorEq | orEq
  | landEq | lorEq | nullishEq
  | exp | mul | div | mod | add | sub | shl | shr | ushr
  | lt | le | gt | ge | inOp | instOf
  | eq | ne | seq | sne
  | band | bxor | bor | land | lor | nullish
deriving DecidableEq, Repr, Inhabited

def UOp.all : List UOp := [.not, .bitnot, .typeof, .void, .delete, .pos, .neg, .preinc, .predec, .postinc, .postdec]
def BOp.all : List BOp :=
  [.assign, .mulEq, .divEq, .modEq, .expEq, .addEq, .subEq, .shlEq, .shrEq, .ushrEq, .andEq, .xorEq, .orEq,
   .landEq, .lorEq, .nullishEq,
   .exp, .mul, .div, .mod, .add, .sub, .shl, .shr, .ushr, .lt, .le, .gt, .ge, .inOp, .instOf,
   .eq, .ne, .seq, .sne, .band, .bxor, .bor, .land, .lor, .nullish]

theorem UOp.mem_all (o : UOp) : o ∈ UOp.all := by cases o <;> decide
theorem BOp.mem_all (o : BOp) : o ∈ BOp.all := by cases o <;> decide

/-- name of the `js.TokenType` constant of the operator in the parser's AST -/
def UOp.tok : UOp → String
  | .not => "NotToken" | .bitnot => "BitNotToken" | .typeof => "TypeofToken" | .void => "VoidToken"
  | .delete => "DeleteToken" | .pos => "PosToken" | .neg => "NegToken" | .preinc => "PreIncrToken"
  | .predec => "PreDecrToken" | .postinc => "PostIncrToken" | .postdec => "PostDecrToken"

def BOp.tok : BOp → String
  | .assign => "EqToken" | .mulEq => "MulEqToken" | .divEq => "DivEqToken" | .modEq => "ModEqToken"
  | .expEq => "ExpEqToken" | .addEq => "AddEqToken" | .subEq => "SubEqToken" | .shlEq => "LtLtEqToken"
  | .shrEq => "GtGtEqToken" | .ushrEq => "GtGtGtEqToken" | .andEq => "BitAndEqToken"
  | .xorEq => "BitXorEqToken" | .orEq => "BitOrEqToken"
  | .landEq => "AndEqToken" | .lorEq => "OrEqToken" | .nullishEq => "NullishEqToken"
  | .exp => "ExpToken" | .mul => "MulToken" | .div => "DivToken" | .mod => "ModToken"
  | .add => "AddToken" | .sub => "SubToken" | .shl => "LtLtToken" | .shr => "GtGtToken" | .ushr => "GtGtGtToken"
  | .lt => "LtToken" | .le => "LtEqToken" | .gt => "GtToken" | .ge => "GtEqToken"
  | .inOp => "InToken" | .instOf => "InstanceofToken"
  | .eq => "EqEqToken" | .ne => "NotEqToken" | .seq => "EqEqEqToken" | .sne => "NotEqEqToken"
  | .band => "BitAndToken" | .bxor => "BitXorToken" | .bor => "BitOrToken"
  | .land => "AndToken" | .lor => "OrToken" | .nullish => "NullishToken"

/-- source text of the operator -/
def UOp.text : UOp → String
  | .not => "!" | .bitnot => "~" | .typeof => "typeof" | .void => "void" | .delete => "delete"
  | .pos => "+" | .neg => "-" | .preinc => "++" | .predec => "--" | .postinc => "++" | .postdec => "--"

def BOp.text : BOp → String
  | .assign => "=" | .mulEq => "*=" | .divEq => "/=" | .modEq => "%=" | .expEq => "**=" | .addEq => "+="
  | .subEq => "-=" | .shlEq => "<<=" | .shrEq => ">>=" | .ushrEq => ">>>=" | .andEq => "&=" | .xorEq => "^="
  | .orEq => "|=" | .landEq => "&&=" | .lorEq => "||=" | .nullishEq => "??="
  | .exp => "**" | .mul => "*" | .div => "/" | .mod => "%" | .add => "+" | .sub => "-"
  | .shl => "<<" | .shr => ">>" | .ushr => ">>>" | .lt => "<" | .le => "<=" | .gt => ">" | .ge => ">="
  | .inOp => "in" | .instOf => "instanceof" | .eq => "==" | .ne => "!=" | .seq => "===" | .sne => "!=="
  | .band => "&" | .bxor => "^" | .bor => "|" | .land => "&&" | .lor => "||" | .nullish => "??"

/-- operators spelled as keywords -/
def UOp.isWord : UOp → Bool
  | .typeof | .void | .delete => true
  | _ => false

def BOp.isWord : BOp → Bool
  | .inOp | .instOf => true
  | _ => false

/-- literals of the fragment; strings are restricted (by `wfStr`) to characters that `minifyString` leaves alone -/
inductive Lit where
  | num (n : Nat) | str (s : String) | true | false | null
deriving DecidableEq, Repr, Inhabited

inductive E where
  | var (n : String)
  | lit (l : Lit)
  | unary (op : UOp) (x : E)
  | bin (op : BOp) (x y : E)
  | cond (c x y : E)
  | comma (l : List E)
  | call (f : E) (args : List E)
  | dot (x : E) (name : String)
  | index (x y : E)
  | group (x : E)
  /-- `opt a e`: the call/member chain `e`, rooted at the variable `a`, with its innermost link made optional:
      `a?.b.c(d)` (an OptionalExpression whose base is the root of the chain) -/
  | opt (root : String) (e : E)
deriving Repr, Inhabited

/-- statements; `S.empty` is an `EmptyStmt` node, `S.absent` an absent (`nil`) else branch; `ret none` is a bare
    `return`; `fn` is a top-level function declaration (parameters are plain names) -/
inductive S where
  | expr (e : E)
  | ifS (c : E) (t e : S)
  | ret (v : Option E)
  | throw (e : E)
  | block (l : List S)
  | fn (name : String) (params : List String) (body : List S)
  | empty
  | absent
deriving Repr, Inhabited

namespace E


/-- `innerExpr`: strip all enclosing groups -/
def inner : E → E
  | group x => inner x
  | e => e

def isGroup : E → Bool
  | group _ => true
  | _ => false

def isVar : E → Bool
  | var _ => true
  | _ => false

def isOpt : E → Bool
  | opt _ _ => true
  | _ => false

/-- a link of a call/member chain -/
def isLink : E → Bool
  | call _ _ => true
  | dot _ _ => true
  | index _ _ => true
  | _ => false

/-- the root of a call/member chain (the expression the innermost link is applied to) -/
def chainRoot : E → E
  | call f _ => chainRoot f
  | dot x _ => chainRoot x
  | index x _ => chainRoot x
  | e => e

/-- the variable at the root of a (possibly empty) call/member chain, parentheses around the variable ignored -/
def rootVar? (e : E) : Option String :=
  match (chainRoot e).inner with
  | var n => some n
  | _ => none

/-- the variable a non-empty call/member chain is rooted at -/
def chainVar? (e : E) : Option String := if isLink e then rootVar? e else none

end E

end Verif.Spec.JsSyntax

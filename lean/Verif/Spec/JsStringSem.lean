import Verif.Base.JsStrBase
/-!
# The ECMAScript meaning of a string literal (specification side of C01E)

`decodeLit strict s` is the *string value* (ECMA-262 §12.9.4 "SV", §12.9.6 "TV", Annex B.1.2) of the
source text `s` — one single-quoted, double-quoted or substitution-free template literal, quotes
included — as the list of its UTF-16 code units, or `none` when `s` is not such a literal.

* The source is a list of **bytes** (`Nat` < 256): ASCII bytes are themselves, bytes ≥ 0x80 must form
  well-formed UTF-8 (that is how an engine reads a source file); an ill-formed sequence gives `none`
  (outside the property: the engine would substitute U+FFFD).
* `strict = false` is sloppy mode: the legacy octal escapes `\1`…`\377`, `\0` in front of a digit and `\8`
  `\9` are accepted in `'…'`/`"…"` (Annex B.1.2).  In strict code and in template literals (in any mode)
  they are syntax errors.
* A template literal containing an unescaped `${` is not a plain literal (`none`): it starts a substitution.
* Raw line terminators LF/CR end a `'…'`/`"…"` literal illegally; in a template LF, CR and CRLF all denote LF.
  U+2028/U+2029 may appear raw in any literal (ES2019).

The file is independent of the model of the implementation (`Model/JsString.lean`); the harness validates
it against V8 (`tools/jsstr.mjs`) in both modes on every literal it generates.

Characters are written `c%'x'` (`Base/JsStrBase.lean`): the numeral of the code point.
-/
namespace Verif.Spec.JsStringSem
open Verif.JsStrBase


/-- UTF-16 code units of a code point -/
def units (cp : Nat) : List Nat :=
  if cp < 0x10000 then [cp] else [0xD800 + (cp - 0x10000) / 1024, 0xDC00 + (cp - 0x10000) % 1024]

def isCont (c : Nat) : Bool := 0x80 ≤ c && c ≤ 0xBF

/-- one well-formed UTF-8 sequence starting with the non-ASCII byte `c` (Unicode Table 3-7):
    its code units and the number of continuation bytes taken from `r` -/
def utf8Step (c : Nat) (r : List Nat) : Option (List Nat × Nat) :=
  if 0xC2 ≤ c ∧ c ≤ 0xDF then
    match r with
    | c1 :: _ => if isCont c1 then some (units ((c - 0xC0) * 64 + (c1 - 0x80)), 1) else none
    | _ => none
  else if 0xE0 ≤ c ∧ c ≤ 0xEF then
    match r with
    | c1 :: c2 :: _ =>
      if isCont c1 ∧ isCont c2 ∧ (c = 0xE0 → 0xA0 ≤ c1) ∧ (c = 0xED → c1 ≤ 0x9F) then
        some (units ((c - 0xE0) * 4096 + (c1 - 0x80) * 64 + (c2 - 0x80)), 2)
      else none
    | _ => none
  else if 0xF0 ≤ c ∧ c ≤ 0xF4 then
    match r with
    | c1 :: c2 :: c3 :: _ =>
      if isCont c1 ∧ isCont c2 ∧ isCont c3 ∧ (c = 0xF0 → 0x90 ≤ c1) ∧ (c = 0xF4 → c1 ≤ 0x8F) then
        some (units ((c - 0xF0) * 262144 + (c1 - 0x80) * 4096 + (c2 - 0x80) * 64 + (c3 - 0x80)), 3)
      else none
    | _ => none
  else none

/-- legacy octal escape (Annex B.1.2) whose first digit is `e`: value and number of further digits taken
    from `r1` — at most three digits, value at most 0o377 -/
def octStep (e : Nat) (r1 : List Nat) : Nat × Nat :=
  match r1 with
  | d2 :: r2 =>
    if isOct d2 then
      match r2 with
      | d3 :: _ =>
        if e ≤ c%'3' ∧ isOct d3 then ((e - 48) * 64 + (d2 - 48) * 8 + (d3 - 48), 2)
        else ((e - 48) * 8 + (d2 - 48), 1)
      | [] => ((e - 48) * 8 + (d2 - 48), 1)
    else (e - 48, 0)
  | [] => (e - 48, 0)

/-- the escape sequence `\e…` (`e :: r1` follows the backslash): code units and number of elements of
    `e :: r1` that belong to it -/
def escStep (legacy : Bool) (e : Nat) (r1 : List Nat) : Option (List Nat × Nat) :=
  if e = c%'n' then some ([10], 1)
  else if e = c%'r' then some ([13], 1)
  else if e = c%'t' then some ([9], 1)
  else if e = c%'b' then some ([8], 1)
  else if e = c%'f' then some ([12], 1)
  else if e = c%'v' then some ([11], 1)
  else if e = c%'x' then
    match r1 with
    | a :: b :: _ => if isHex a ∧ isHex b then some ([hexV a * 16 + hexV b], 3) else none
    | _ => none
  else if e = c%'u' then
    match r1 with
    | [] => none
    | g :: r2 =>
      if g = c%'{' then
        let ds := r2.takeWhile isHex
        if ds ≠ [] ∧ (r2.drop ds.length).head? = some c%'}' ∧ hexNat ds ≤ 0x10FFFF then
          some (units (hexNat ds), 3 + ds.length)
        else none
      else
        match r1 with
        | a :: b :: c :: d :: _ =>
          if isHex a ∧ isHex b ∧ isHex c ∧ isHex d then some ([hexNat [a, b, c, d]], 5) else none
        | _ => none
  else if isDig e then
    if e = c%'0' ∧ ¬ (r1.head?.any isDig) then some ([0], 1)          -- `\0` [lookahead ∉ DecimalDigit]
    else if !legacy then none                                          -- strict code, templates
    else if c%'8' ≤ e then some ([e], 1)                               -- `\8` `\9`
    else some ([(octStep e r1).1], 1 + (octStep e r1).2)               -- `\0`…`\377`
  else if e = 10 then some ([], 1)                                     -- line continuations
  else if e = 13 then (if r1.head? = some 10 then some ([], 2) else some ([], 1))
  else if e = 0xE2 ∧ r1.head? = some 0x80 ∧ (r1.drop 1).head?.any (fun x => x = 0xA8 ∨ x = 0xA9) then some ([], 3)
  else if e < 0x80 then some ([e], 1)                                  -- the character itself
  else (utf8Step e r1).map (fun p => (p.1, p.2 + 1))

/-- one item of the body of a literal quoted by `q` at `c :: r`: its code units and the number of elements
    of `r` that belong to it; `none`: no valid item starts here -/
def decStep (strict : Bool) (q c : Nat) (r : List Nat) : Option (List Nat × Nat) :=
  if c = q then none
  else if c = c%'\\' then
    match r with
    | [] => none
    | e :: r1 => escStep (!strict && q != c%'`') e r1
  else if c = 10 ∨ c = 13 then
    if q = c%'`' then (if c = 13 ∧ r.head? = some 10 then some ([10], 1) else some ([10], 0)) else none
  else if c = c%'$' ∧ q = c%'`' ∧ r.head? = some c%'{' then none
  else if c < 0x80 then some ([c], 0)
  else utf8Step c r

def decBodyF (strict : Bool) (q : Nat) : Nat → List Nat → Option (List Nat)
  | _, [] => some []
  | 0, _ :: _ => none
  | f + 1, c :: r =>
    match decStep strict q c r with
    | none => none
    | some (us, k) => (decBodyF strict q f (r.drop k)).map (us ++ ·)

/-- value of the text between the quotes -/
def decBody (strict : Bool) (q : Nat) (l : List Nat) : Option (List Nat) := decBodyF strict q l.length l

def isQuote (q : Nat) : Bool := q = c%'\'' || q = c%'"' || q = c%'`'

/-- the string value of a whole literal (quotes included) -/
def decodeLit (strict : Bool) (s : List Nat) : Option (List Nat) :=
  match s with
  | [] => none
  | q :: rest =>
    if isQuote q ∧ rest.getLast? = some q then decBody strict q rest.dropLast else none

/-- a literal of the property's domain: valid in the given mode -/
def wfLit (strict : Bool) (s : List Nat) : Prop := (decodeLit strict s).isSome

instance (strict : Bool) (s : List Nat) : Decidable (wfLit strict s) := by unfold wfLit; infer_instance

/-- does the byte string contain `</script>` (lower case, as the guard of the implementation spells it) -/
def hasScriptEnd : List Nat → Bool
  | [] => false
  | c :: r => (c = c%'<' && scriptEnd.isPrefixOf r) || hasScriptEnd r

/-- ASCII lower case -/
def lowerA (c : Nat) : Nat := if 65 ≤ c ∧ c ≤ 90 then c + 32 else c

/-- does the byte string contain `</script` in any letter case (it ends an HTML script element whatever follows),
    or `<!--` (it changes how a later `</script>` is read) -/
def hasHtmlEnd : List Nat → Bool
  | [] => false
  | c :: r =>
    (c = c%'<' && ((r.take 7).map lowerA == [47, 115, 99, 114, 105, 112, 116] || r.take 3 == [33, 45, 45])) || hasHtmlEnd r

end Verif.Spec.JsStringSem

import Verif.Spec.SvgPath
/-!
# Guards (known-finding triggers) and the printed-number shape contract for C05

Single source of truth: the same predicates are the guards of `path_geometry_partial` in
`Props/C05.lean`, are evaluated by the harness through `spec.c05.holds` (4th reply field), and name
the triggers of `meta/C05.known.json`.  Spec side only (no reference to the model).

The four triggers describe where `copyInstruction`'s control-point bookkeeping (`p.cx/cy`, `p.qx/qy`)
gets out of step with the SVG rule "the first control point of S/T is the reflection of the previous
command's control point if that command was a curve of the same family, else the current point":

* `closed`   — a curve command directly after a closepath (`z` does not reset `p.cx/p.qx`);
* `dropped`  — a curve command directly after a segment that is removed from the output
               (zero-length lineto or zero-length degenerate curve): the output's previous command changes;
* `degenerate` — an S/C (T/Q) directly after an exactly degenerate cubic (quadratic) that is replaced by a line;
* `traildot` — a number with a trailing dot (`1.`, valid in SVG 1.1): the dependency `parse.Number`
               reads `1` and leaves the dot; `1.e5` is then read as `1`, `5`, and a dot in front of an
               arc flag is taken for a bad flag.
-/
namespace Verif.Spec.SvgHazard
open Verif.Spec.SvgPath

/-- decomposition of a printed number: `-`? ip (`.` fp)? (`e` `-`? digits)? -/
structure NumView where
  neg : Bool
  ip : List Char
  dot : Bool
  fp : List Char
  ex : Option (Bool × List Char)
  deriving DecidableEq, Repr

def NumView.render (v : NumView) : List Char :=
  (if v.neg then ['-'] else []) ++ (v.ip ++ ((if v.dot then '.' :: v.fp else []) ++
    (match v.ex with
     | none => []
     | some (n, ds) => 'e' :: ((if n then ['-'] else []) ++ ds))))

/-- lexical well-formedness (what the lexer round trip needs) -/
def NumView.wf (v : NumView) : Bool :=
  v.ip.all isDigit && v.fp.all isDigit && (v.dot || v.fp.isEmpty) && (!v.ip.isEmpty || !v.fp.isEmpty) &&
  (match v.ex with
   | none => true
   | some (_, ds) => ds.all isDigit && !ds.isEmpty)

/-- no superfluous leading zero: an integer part starting with `0` means the lexeme is `0` or `-0` -/
def NumView.zeroOk (v : NumView) : Bool :=
  match v.ip with
  | '0' :: r => r.isEmpty && !v.dot && v.ex.isNone
  | _ => true

def NumView.isInt (v : NumView) : Bool := !v.dot && v.ex.isNone

def viewOf (s : List Char) : NumView :=
  let nr : Bool × List Char := match s with | '-' :: r => (true, r) | _ => (false, s)
  let ip := nr.2.takeWhile isDigit
  let r1 := nr.2.dropWhile isDigit
  let d : Bool × List Char × List Char := match r1 with
    | '.' :: r => (true, r.takeWhile isDigit, r.dropWhile isDigit)
    | _ => (false, [], r1)
  let ex : Option (Bool × List Char) := match d.2.2 with
    | 'e' :: '-' :: r => some (true, r)
    | 'e' :: r => some (false, r)
    | _ => none
  { neg := nr.1, ip := ip, dot := d.1, fp := d.2.1, ex := ex }

/-- shape contract of a number printed by `minify.Number` at precision 0 (C08.5): `-`? digits (`.` digits)?
    (`e` `-`? digits)? — no `+`, no `E`, at least one mantissa digit — and no superfluous leading zero
    (a lexeme whose integer part starts with `0` is `0` or `-0`).  Checked on every output of the real
    `minify.Number` by the harness (`spec.c05.goodnum`). -/
def goodNum (s : List Char) : Bool :=
  (viewOf s).wf && (viewOf s).zeroOk && ((viewOf s).render == s)

inductive PrevClass | normal | closed | dropped | degC | degQ
  deriving DecidableEq, Repr

/-- class of the segment a command produces in state `s` -/
def classify (s : St) (c : Cmd) : PrevClass :=
  match c.k with
  | .Z => .closed
  | .L =>
    (match (stepCmd s c).2 with
     | [sg] => if (simp1 sg).isNone then .dropped else .normal
     | _ => .normal)
  | .C | .S =>
    (match (stepCmd s c).2 with
     | [sg] => (match simp1 sg with
        | none => .dropped
        | some (.line _ _) => .degC
        | _ => .normal)
     | _ => .normal)
  | .Q | .T =>
    (match (stepCmd s c).2 with
     | [sg] => (match simp1 sg with
        | none => .dropped
        | some (.line _ _) => .degQ
        | _ => .normal)
     | _ => .normal)
  | _ => .normal

def isCubic (k : Kind) : Bool := k == .C || k == .S
def isQuad (k : Kind) : Bool := k == .Q || k == .T

/-- the trigger (if any) under which command `c` falls when the previous command had class `prev` -/
def hazardAt (prev : PrevClass) (c : Cmd) : Option String :=
  if isCubic c.k || isQuad c.k then
    match prev with
    | .closed => some "closed"
    | .dropped => some "dropped"
    | .degC => if isCubic c.k then some "degenerate" else none
    | .degQ => if isQuad c.k then some "degenerate" else none
    | .normal => none
  else none

def hazardsFrom : St → PrevClass → List Cmd → List String
  | _, _, [] => []
  | s, prev, c :: r =>
    (match hazardAt prev c with | some h => [h] | none => []) ++
      hazardsFrom (stepCmd s c).1 (classify s c) r

/-- names of the triggers a command list falls under (with multiplicity) -/
def hazards (cs : List Cmd) : List String := hazardsFrom {} .normal cs

def noHazard (cs : List Cmd) : Bool := (hazards cs).isEmpty

/-- lexical trigger `traildot`: a number with a trailing dot (`1.`, valid in SVG 1.1), i.e. digit `.`
    not followed by a digit.  The dependency `parse.Number` reads `1` and leaves the dot: harmless when
    a separator follows (`M1. 2.`), but `1.e5` is read as `1`, `5` and a dot in front of an arc flag
    (`A1 1 50. 1 1 2 2`) is taken for a bad flag. -/
def trailDot : List Char → Bool
  | d :: '.' :: r =>
    (isDigit d && (match r with | x :: _ => !isDigit x | [] => true)) || trailDot ('.' :: r)
  | _ :: r => trailDot r
  | [] => false

end Verif.Spec.SvgHazard

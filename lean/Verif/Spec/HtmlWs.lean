/-!
# Whitespace that may disappear (specification side of C03)

The rendered content of a document is abstracted to a stream of *items*:

* `word`  — a maximal run of non-whitespace characters of ordinary text
* `ws`    — a maximal run of ASCII whitespace of ordinary text (it collapses to one space when rendered)
* `inl`   — the start or end boundary of an inline-level element (transparent for whitespace)
* `objS` / `objE` — start / end boundary of an element that is laid out as one atomic inline box
             (replaced elements, inline-block widgets): from outside it behaves like a word, from inside its
             end is the end of a line
* `objV`  — an atomic inline box given as one token (inline `svg` / `math`, a template placeholder)
* `blk`   — the start or end boundary of a block-level element, table part, list item, `br`, or of an element that
             is not rendered; also the edges of the document
* `raw`   — preformatted or raw text (`pre`, `textarea`, …): opaque, every byte significant

`Refine h a b`: `b` is `a` with some `ws` items deleted, where every deleted `ws` is *deletable* at its place —
either **to its left** (skipping inline boundaries and whitespace already deleted) there is a block boundary, the
document start, or whitespace that was kept (the two would collapse into one space), or **to its right** (skipping
inline boundaries and further whitespace) there is a block boundary, the end of an atomic inline box or the end of
the document (whitespace at the end of a line is not rendered).  `h` is the list of items already kept, most
recent first.  Nothing else may change: in particular a `ws` between two words, or between a word and an atomic
inline box, is never deletable — rendered words are never joined (`refine_no_join`), and since only `ws` items are
ever dropped, never split or altered (`refine_words`); `raw` items are untouched (`refine_raw`).

Independent of `Verif.Model.*`.
-/
namespace Verif.Spec.HtmlWs

inductive Item where
  | word | ws | inl | objS | objE | objV | blk | raw
  deriving DecidableEq, Repr

/-- looking left over what has been kept (most recent first) -/
def leftOK : List Item → Bool
  | [] => true                 -- start of the document
  | .inl :: h => leftOK h
  | .blk :: _ => true
  | .ws :: _ => true           -- collapses with whitespace that is kept
  | _ :: _ => false

/-- looking right over what follows -/
def rightOK : List Item → Bool
  | [] => true                 -- end of the document
  | .inl :: r => rightOK r
  | .ws :: r => rightOK r
  | .blk :: _ => true
  | .objE :: _ => true
  | _ :: _ => false

inductive Refine : List Item → List Item → List Item → Prop where
  | nil (h) : Refine h [] []
  | keep (h x a b) : Refine (x :: h) a b → Refine h (x :: a) (x :: b)
  | dropL (h a b) : leftOK h = true → Refine h a b → Refine h (.ws :: a) b
  | dropR (h a b) : rightOK a = true → Refine h a b → Refine h (.ws :: a) b

/-- `b` refines `a` as a whole document -/
def WsRefine (a b : List Item) : Prop := Refine [] a b

def isWsItem : Item → Bool
  | .ws => true
  | _ => false

/-- everything except whitespace survives, in order: no word, element boundary or raw text is added, lost or moved -/
theorem refine_words {h a b} (r : Refine h a b) :
    a.filter (fun i => !isWsItem i) = b.filter (fun i => !isWsItem i) := by
  induction r with
  | nil => rfl
  | keep h x a b _ ih => simp only [List.filter_cons, ih]
  | dropL h a b _ _ ih => simpa [isWsItem] using ih
  | dropR h a b _ _ ih => simpa [isWsItem] using ih

/-- whitespace between two words (or between a word / atomic box and a word) is never deleted -/
theorem refine_no_join {h a b} (x y : Item) (hx : x = .word ∨ x = .objE ∨ x = .objV ∨ x = .raw)
    (hy : y = .word ∨ y = .objS ∨ y = .objV ∨ y = .raw)
    (r : Refine (x :: h) (.ws :: y :: a) b) : ∃ b', b = .ws :: y :: b' := by
  cases r with
  | keep _ _ _ b1 r1 =>
    cases r1 with
    | keep _ _ _ b2 _ => exact ⟨b2, rfl⟩
    | dropL _ _ _ _ _ => rcases hy with h | h | h | h <;> cases h
    | dropR _ _ _ _ _ => rcases hy with h | h | h | h <;> cases h
  | dropL _ _ _ hl _ => rcases hx with h | h | h | h <;> subst h <;> simp [leftOK] at hl
  | dropR _ _ _ hr _ => rcases hy with h | h | h | h <;> subst h <;> simp [rightOK] at hr

/-- an executable necessary condition for `Refine` (used to refute it on concrete documents) -/
def refineB : List Item → List Item → List Item → Bool
  | _, [], b => b.isEmpty
  | h, x :: a, b =>
    (match b with
     | y :: b' => x = y && refineB (x :: h) a b'
     | [] => false) ||
    (isWsItem x && ((leftOK h || rightOK a) && refineB h a b))

theorem refineB_complete {h a b} (r : Refine h a b) : refineB h a b = true := by
  induction r with
  | nil => rfl
  | keep h x a b _ ih => simp [refineB, ih]
  | dropL h a b hl _ ih => simp [refineB, isWsItem, hl, ih]
  | dropR h a b hr _ ih => simp [refineB, isWsItem, hr, ih]

end Verif.Spec.HtmlWs

import Verif.Props.C04B
open Verif.Props.C04B
#print axioms every_stream_is_a_tree
#print axioms structure_preserved
#print axioms structure_preserved_in_context
#print axioms empty_rule_kept
#print axioms semicolon_elided
#print axioms error_passthrough
#print axioms prelude_verbatim
#print axioms prelude_statement_verbatim
#print axioms import_url_shape
#print axioms bang_comment_kept
#print axioms bang_comment_content
#print axioms custom_property_raw
#print axioms specificity_preserved
#print axioms selector_equiv_html
#print axioms selector_equiv_xml_counterexample
#print axioms attr_ident_separated
#print axioms attr_unquote_plain
#print axioms important_preserved
#print axioms font_pre_ok
#print axioms import_target_ok
#print axioms selector_sep_outside
#print axioms selector_reparses
#print axioms font_ok_partial
#print axioms font_ok_counterexample
#print axioms background_ok_partial

import Verif.Props.C07
open Verif.Props.C07
#print axioms minify_events
#print axioms numId_ok
#print axioms jsonNum_ok
#print axioms jsonNum_json
#print axioms jsonNum_value
#print axioms jsonNum_keep
#print axioms parse_render
#print axioms render_unambiguous
#print axioms C07_main
#print axioms C07_shape
#print axioms C07_keepNumbers
#print axioms C07_length
#print axioms C07_length_full
#print axioms C07_length_keep
#print axioms numCE_ok

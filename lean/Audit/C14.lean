import Verif.Props.C14
open Verif.Props.C14
#print axioms sticky_surfaces
#print axioms simple_success
#print axioms simple_no_truncation
#print axioms readAll_failReads
#print axioms newInput_failReads
#print axioms exec_success
#print axioms exec_main_returns
#print axioms runPkg_success
#print axioms sticky_surfaces_pkg
#print axioms reader_error_surfaces
#print axioms all_packages_ok
#print axioms root_no_recover
#print axioms exec_healthy
#print axioms main_block_verdict
#print axioms C14_main
#print axioms writer_close_returns_minifier_error
#print axioms writer_close_always_returns

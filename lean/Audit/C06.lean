import Verif.Props.C06
open Verif.Props.C06
#print axioms entities_table_sound
#print axioms textRev_table_sound
#print axioms attrRev_table_sound
#print axioms decoder_agrees_with_grammar
#print axioms xml_attr_value
#print axioms attr_escape
#print axioms cdata_chars
#print axioms text_ws
#print axioms cdend_escape
#print axioms xml_infoset
#print axioms keep_ws_never_removed
#print axioms comments_only_removed
#print axioms xml_wellformed
#print axioms xml_nesting
#print axioms trailing_space_lookahead
#print axioms trailing_space_exact
#print axioms trailing_space_only_if
#print axioms trailing_space_kept
#print axioms cdend_any_split
#print axioms cdend_count_carried
#print axioms xml_no_cdend
#print axioms pi_attr_verbatim
#print axioms pi_tokens_verbatim

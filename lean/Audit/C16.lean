import Verif.Props.C16
open Verif.Props.C16
#print axioms version_gate
#print axioms gates_ok
#print axioms cli_flags_ok
#print axioms options_covered
#print axioms json_keep_numbers
#print axioms xml_keep_whitespace

import Verif.Props.C10
open Verif.Props.C10
#print axioms init_inv
#print axioms peek_spec
#print axioms shift_spec
#print axioms script_refines
#print axioms script_total
#print axioms peek_available
#print axioms Api.bytes_returns_input
#print axioms Api.bytes_never_mutates
#print axioms Api.bytes_alias_counterexample
#print axioms Api.wrapper_facts_ok
#print axioms Api.limits_ok

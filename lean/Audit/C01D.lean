import Verif.Props.C01D
open Verif.Props.C01D
#print axioms merge_decls_sound
#print axioms merge_decls_sound_prog
#print axioms code_checks_own_function
#print axioms code_optimizes_loops_in_endsInIf
#print axioms code_writes_empty_decl_body
#print axioms merge_assign_needs_own_function
#print axioms merge_assign_sound
#print axioms merge_assign_sound_prog
#print axioms merge_assign_sound_partial
#print axioms merge_assign_sound_partial_prog
#print axioms comma_split_sound
#print axioms merge_hoisted_sound
#print axioms hoist_names
#print axioms hoist_sound
#print axioms hoist_sound_counterexample
#print axioms hoist_sound_partial
#print axioms hoist_early
#print axioms hoist_sound_prog_partial
#print axioms hoist_sound_prog_repaired
#print axioms sort_decl_sound
#print axioms for_init_merge_sound
#print axioms for_init_merge_sound_names

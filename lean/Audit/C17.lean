import Verif.Props.C17
open Verif.Props.C17
#print axioms entities_html_ok
#print axioms entities_html_selfcontained
#print axioms numeric_ref_decodes
#print axioms textrev_html_ok
#print axioms attrrev_html_ok
#print axioms rev_html_needed
#print axioms textrev_html_covers_lt
#print axioms entities_xml_ok
#print axioms textrev_xml_ok
#print axioms attrrev_xml_ok
#print axioms rev_xml_needed
#print axioms colorhex_ok
#print axioms colorname_ok
#print axioms bool_attrs_ok
#print axioms url_attrs_partial
#print axioms url_attrs_counterexample
#print axioms raw_tags_ok
#print axioms block_tags_ok
#print axioms block_object_disjoint
#print axioms js_mimetypes_ok
#print axioms zero_units_ok
#print axioms zero_angle_funcs_ok
#print axioms angle_dimension_ok
#print axioms svg_color_attrs_ok
#print axioms hash_names_ok
#print axioms html5_table_wf

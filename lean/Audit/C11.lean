import Verif.Props.C11
open Verif.Props.C11
#print axioms embed_commutes
#print axioms embed_passthrough
#print axioms raw_payload_untouched
#print axioms embed_error
#print axioms error_line_true
#print axioms error_plain_untouched
#print axioms column_true_partial
#print axioms column_true_counterexample

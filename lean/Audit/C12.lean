import Verif.Props.C12
open Verif.Props.C12
#print axioms chunk_invariant
#print axioms chunk_invariant_same
#print axioms empty_chunks_irrelevant
#print axioms wreach_inv
#print axioms writer_safe
#print axioms writer_no_early_output
#print axioms writer_progress
#print axioms writer_step_decreases
#print axioms writer_bounded
#print axioms respwriter_safe
#print axioms middleware_mediatype
#print axioms bytes_same
#print axioms reader_safe
#print axioms reader_progress
#print axioms wf_generated
#print axioms C12_main
#print axioms history_results_stable
#print axioms pooled_alias_counterexample
#print axioms uncopied_input_counterexample
#print axioms ownership_generated
#print axioms C12_ownership

import Verif.Props.C09
open Verif.Props.C09
#print axioms json_valid_and_reaccepted
#print axioms xml_output_wellformed
#print axioms svg_path_output_parses
#print axioms svg_path_lex_roundtrip
#print axioms xml_lex_roundtrip
#print axioms xml_lex_sound
#print axioms xml_accepted_in_accepted_out
#print axioms xml_passes_defined
#print axioms xml_output_relexes_partial
#print axioms xml_output_markup_exact
#print axioms xml_output_relexes_counterexample
#print axioms xml_second_pass_defined
#print axioms xml_idempotent_counterexample
#print axioms xml_svg_bracket_count
#print axioms xml_svg_text_wellformed
#print axioms xml_svg_text_wellformed_sub
#print axioms xml_svg_style_text_counterexample
#print axioms xml_svg_cdata_wellformed
#print axioms xml_svg_cdata_kept_counterexample
#print axioms xml_svg_attr_wellformed
#print axioms xml_svg_attr_contract_needed

import Verif.Props.C09
open Verif.Props.C09
#print axioms json_valid_and_reaccepted

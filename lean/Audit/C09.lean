import Verif.Props.C09
open Verif.Props.C09
#print axioms json_valid_and_reaccepted
#print axioms xml_output_wellformed
#print axioms svg_path_output_parses
#print axioms svg_path_lex_roundtrip
#print axioms js_token_sep
#print axioms js_tree_tokens_safe
#print axioms js_tree_relex
#print axioms js_expr_relex
#print axioms js_print_relex_partial

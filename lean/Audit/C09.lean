import Verif.Props.C09
open Verif.Props.C09
#print axioms json_valid_and_reaccepted
#print axioms xml_output_wellformed
#print axioms svg_path_output_parses
#print axioms svg_path_lex_roundtrip
#print axioms css_writer_retokenises
#print axioms css_writer_retokenises_counterexample
#print axioms css_declaration_retokenises
#print axioms css_second_pass_tokens
#print axioms css_declaration_closed
#print axioms css_url_closed
#print axioms css_string_closed_partial
#print axioms css_string_closed_counterexample
#print axioms css_raw_retokenises
#print axioms css_raw_retokenises_counterexample
#print axioms css_declaration_retokenises_raw

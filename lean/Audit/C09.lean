import Verif.Props.C09
open Verif.Props.C09
#print axioms json_valid_and_reaccepted
#print axioms xml_output_wellformed
#print axioms svg_path_output_parses
#print axioms svg_path_lex_roundtrip
#print axioms json_second_pass_fixed
#print axioms json_numfix_keep
#print axioms json_numfix_precision_counterexample
#print axioms number_output_reaccepted
#print axioms decimal_output_reaccepted
#print axioms datauri_output_parses_partial
#print axioms mediatype_output_spec

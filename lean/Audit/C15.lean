import Verif.Props.C15
open Verif.Props.C15
#print axioms dispatch_refines
#print axioms match_agrees
#print axioms matchCall_agrees
#print axioms reregister_replaces
#print axioms notexist
#print axioms literal_beats_pattern
#print axioms toMap_nodup_keys

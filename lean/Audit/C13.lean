import Verif.Props.C13
open Verif.Props.C13
#print axioms noninterference
#print axioms deterministic
#print axioms more_threads_irrelevant
#print axioms readers_never_block
#print axioms facts_ok

import Verif.Props.C20
open Verif.Props.C20
#print axioms crash_safe_partial
#print axioms crash_safe_counterexample
#print axioms crash_safe_parallel
#print axioms frame
#print axioms inputBytes_spec
#print axioms done_dst
#print axioms done_no_bak
#print axioms bak_untouched
#print axioms write_error_restores
#print axioms out_on_error
#print axioms out_on_success
#print axioms out_on_sync
#print axioms write_split
#print axioms Verif.Spec.CliSafe.safeInvB_iff

import Verif.Props.C04
open Verif.Props.C04
#print axioms four_sides_ok
#print axioms zero_unit_ok
#print axioms zero_unit_kept
#print axioms color_ok_partial
#print axioms color_counterexample
#print axioms font_weight_ok
#print axioms font_family_partial
#print axioms font_family_counterexample
#print axioms bg_size_ok
#print axioms bg_repeat_ok
#print axioms flex_ok
#print axioms line_drop_ok
#print axioms dropKeywords_eq
#print axioms unicode_range_merge_ok
#print axioms writer_sep
#print axioms passthrough_property
#print axioms passthrough_token
#print axioms passthrough_raw
#print axioms writeRaw_plain
#print axioms function_args_apart
#print axioms bg_position_layer_ok
#print axioms bg_position_ok
#print axioms keepcss2_no_exponent
#print axioms border_color_ok

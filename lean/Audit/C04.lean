import Verif.Props.C04
open Verif.Props.C04
#print axioms four_sides_ok
#print axioms zero_unit_partial
#print axioms zero_unit_counterexample_angle
#print axioms zero_unit_counterexample_math
#print axioms zero_unit_kept
#print axioms color_ok_partial
#print axioms color_counterexample
#print axioms font_weight_ok
#print axioms font_family_partial
#print axioms font_family_counterexample

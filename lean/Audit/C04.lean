import Verif.Props.C04
open Verif.Props.C04
#print axioms four_sides_ok

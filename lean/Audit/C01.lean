import Verif.Props.C01
open Verif.Props.C01
#print axioms prec_order
#print axioms binary_tables
#print axioms bitor_left_above
#print axioms unary_tables
#print axioms optUnary_sound
#print axioms optCond_sound
#print axioms rewrite_sound_partial
#print axioms rewrite_sound_counterexample
#print axioms guarded_is_model
#print axioms printer_sound
#print axioms optStmt_sound
#print axioms stmts_sound_block
#print axioms stmts_sound_partial
#print axioms stmts_sound_counterexample
#print axioms print_derives
#print axioms print_derives_parsed
#print axioms print_target
#print axioms assoc_land
#print axioms assoc_lor
#print axioms assoc_nullish
#print axioms minify_derives
#print axioms minify_derives_parsed
#print axioms toNullish_sound
#print axioms optchain_guard_needed

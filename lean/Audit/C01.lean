import Verif.Props.C01
open Verif.Props.C01
#print axioms prec_order
#print axioms binary_tables_partial
#print axioms binary_tables_counterexample
#print axioms unary_tables

import Verif.Props.C01
open Verif.Props.C01
#print axioms prec_order
#print axioms binary_tables
#print axioms bitor_left_above
#print axioms unary_tables

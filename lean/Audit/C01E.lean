import Verif.Props.C01E
open Verif.Props.C01E
#print axioms string_value_preserved_partial
#print axioms template_value_preserved_partial
#print axioms string_wellformed_partial
#print axioms minifyString_quoted
#print axioms template_only_if_allowed
#print axioms not_longer_counterexample
#print axioms no_script_end
#print axioms no_html_end
#print axioms no_html_end_template

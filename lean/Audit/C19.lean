import Verif.Props.C19
open Verif.Props.C19
#print axioms dst_law_file
#print axioms dst_law_stdout
#print axioms dst_law_mirror
#print axioms dst_injective_same_root
#print axioms dst_injective_walk
#print axioms dst_injective
#print axioms only_dst_touched
#print axioms plan_noSyncBundle
#print axioms rejected_touches_nothing
#print axioms exit_nonzero_iff_fail
#print axioms concat_is_join
#print axioms concat_terminates
#print axioms fallback_original
#print axioms sync_copies_verbatim
#print axioms minify_writes_lib_output
#print axioms inplace_no_bak_left
#print axioms js_mime_known

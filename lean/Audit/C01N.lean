import Verif.Props.C01N
open Verif.Props.C01N
#print axioms number_value_preserved
#print axioms number_is_literal
#print axioms bigint_stays_bigint
#print axioms rejected_iff_legacy
#print axioms dot_after_number_ok
#print axioms dot_not_absorbed
#print axioms group_dot_is_member_dot

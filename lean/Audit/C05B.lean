import Verif.Props.C05B
open Verif.Props.C05B
#print axioms svg_structure_partial
#print axioms svg_structure_values
#print axioms svg_structure_counterexample
#print axioms attrs_kept
#print axioms default_attrs_listed
#print axioms style_type_default
#print axioms only_metadata_dropped
#print axioms removed_subtree
#print axioms empty_collapse_ok
#print axioms dimension_value_ok
#print axioms dimension_written
#print axioms dimension_text_ok
#print axioms dimension_text_full
#print axioms color_attr_ok
#print axioms attr_value_partial
#print axioms text_cdend_ok
#print axioms text_no_cdend
#print axioms text_cdend_content
#print axioms bracket_count_ok
#print axioms foreign_object_verbatim
#print axioms pi_verbatim

import Verif.Props.C02
open Verif.Props.C02
#print axioms alphabets_ok
#print axioms alphabets_ident_chars
#print axioms getName_injective
#print axioms getName_ident
#print axioms getName_valid
#print axioms getName_length
#print axioms keywords_long
#print axioms skip_terminates
#print axioms renameScope_fresh
#print axioms renameScope_no_keyword
#print axioms validOrder_perm
#print axioms names_independent_of_order
#print axioms capture_free_partial
#print axioms capture_free
#print axioms capture_free_counterexample
#print axioms free_names_kept
#print axioms unrenamed_names_kept
#print axioms toplevel_names_kept
#print axioms public_names_kept
#print axioms flag_writes
#print axioms keep_identity
#print axioms rename_off_identity
#print axioms renameScope_off
#print axioms with_disables
#print axioms with_names_counterexample
#print axioms shorthand_key_kept

import Verif.Props.C05
open Verif.Props.C05
#print axioms copy_geometry_C_to_S
#print axioms copy_geometry_Q_to_T
#print axioms copy_geometry_L_to_H
#print axioms copy_geometry_L_to_V
#print axioms copy_geometry_zero_line
#print axioms copy_geometry_degenerate_cubic
#print axioms copy_geometry_degenerate_quad
#print axioms copy_geometry_rel_to_abs
#print axioms copy_geometry_abs_to_rel
#print axioms copy_geometry_implicit_lineto
#print axioms path_geometry_counterexample
#print axioms fixed_regressions
#print axioms path_lex_roundtrip_items
#print axioms path_lex_roundtrip
#print axioms path_parse_roundtrip
#print axioms shorten_output_parses
#print axioms shorten_output_parses_of_contract
#print axioms path_geometry_partial
#print axioms Verif.Proofs.SvgInduct.groups_geometry
#print axioms Verif.Proofs.SvgSound.rewrite_sound
#print axioms Verif.Proofs.SvgVal.numVal_numLexeme

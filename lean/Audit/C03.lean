import Verif.Props.C03
open Verif.Props.C03
#print axioms attr_roundtrip
#print axioms unquoted_iff

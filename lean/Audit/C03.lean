import Verif.Props.C03
open Verif.Props.C03
#print axioms attr_roundtrip
#print axioms unquoted_iff
#print axioms entities_table_sound
#print axioms entities_preserve_partial
#print axioms entities_preserve_counterexample
#print axioms entities_preserve_ctl_counterexample
#print axioms entities_preserve_overflow_counterexample

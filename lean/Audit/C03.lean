import Verif.Props.C03
open Verif.Props.C03
#print axioms attr_roundtrip
#print axioms unquoted_iff
#print axioms entities_table_sound
#print axioms entities_preserve_partial
#print axioms entities_preserve_counterexample
#print axioms entities_preserve_overflow_counterexample
#print axioms html_refs_preserved
#print axioms attr_value_preserved
#print axioms Verif.Proofs.HtmlGlue.glue_of_hasReferenceGlue
#print axioms ws_refine
#print axioms ws_words_preserved
#print axioms ws_refine_counterexample
#print axioms pre_untouched
#print axioms raw_untouched
#print axioms Verif.Spec.HtmlWs.refine_words
#print axioms Verif.Spec.HtmlWs.refine_no_join
#print axioms omit_allowed
#print axioms doc_tags_allowed
#print axioms tag_classes_ok
#print axioms Verif.Proofs.HtmlOptional.p_tables_ok
#print axioms Verif.Proofs.HtmlOptional.omittable_finite
#print axioms raw_text_contained
#print axioms raw_text_relexed
#print axioms cond_comment_inner_safe
#print axioms Verif.Proofs.HtmlRawText.spec_of_rawEnd

import Verif.Props.C18
open Verif.Props.C18
#print axioms ws_table_agrees
#print axioms table_sizes
#print axioms tbl_escapes_percent
#print axioms tbl_hex_unescaped
#print axioms tbl_unescaped_printable
#print axioms tbl_does_not_escape_plus
#print axioms b64_roundtrip
#print axioms b64_roundtrip_bytes
#print axioms b64_length
#print axioms pct_roundtrip
#print axioms pct_roundtrip_tbl
#print axioms pct_roundtrip_dep
#print axioms pct_roundtrip_dep_tbl_counterexample
#print axioms pct_roundtrip_dep_tbl_partial
#print axioms dataURI_bad

import Verif.Props.C08
open Verif.Props.C08
#print axioms number_length
#print axioms number_value
#print axioms number_grammar
#print axioms number_round
#print axioms number_shape
#print axioms decimal_length
#print axioms decimal_value
#print axioms decimal_grammar
#print axioms decimal_round
#print axioms decimal_shape
#print axioms holds_sound
#print axioms number_json_hypotheses

import Verif.Props.C08
open Verif.Props.C08
#print axioms number_length_exact
#print axioms number_value

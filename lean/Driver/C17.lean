import Driver.Proto
import Verif.Base.Pack
import Verif.Spec.HtmlRefs
import Verif.Spec.HtmlTraits
import Verif.Spec.CssUnits
import Verif.Spec.TableChecks
import Verif.Spec.TraitChecks
import Verif.Gen.EntitiesHtml
import Verif.Gen.TextRevHtml
import Verif.Gen.AttrRevHtml
import Verif.Gen.AttrRevXml
import Verif.Gen.EntitiesXml
import Verif.Gen.TextRevXml
import Verif.Gen.TagTraits
import Verif.Gen.AttrTraits
import Verif.Gen.JsMimetypes
import Verif.Gen.ShortenColorHex
import Verif.Gen.ShortenColorName
import Verif.Gen.OptionalZeroDimension
import Verif.Gen.ZeroAngleFuncs
import Verif.Gen.AngleDimension
import Verif.Gen.SvgColorAttrs
import Verif.Gen.HashNames
import Verif.Gen.Html5Entities
import Verif.Gen.CssColors
/-!
driver handlers for property C17

* `dump.<Table>`            — the regenerated table as the kernel sees it (flat list: key, value, key, value, …),
                              compared by the harness with the live exported Go maps (translator cross-check)
* `spec.decodeRefs ctx s`   — `Spec.HtmlRefs.decodeRefs` on UTF-8 input, UTF-8 output (ctx 0 = text, 1 = attribute)
* `spec.decodeXml s`        — `[ok, text]`
* `spec.color s`            — `r g b` or `none`
* `spec.class.<list> name`  — membership in a hand-written list of `Spec/HtmlTraits`, `Spec/CssUnits`
* `bad.<check>`             — keys of the rows that fail the checker of `Spec/TableChecks` (search mode)
-/
namespace Verif.Driver.C17
open Verif Verif.Driver Verif.Gen Verif.Spec.HtmlRefs Verif.Spec.HtmlTraits Verif.Spec.CssUnits
open Verif.Spec.TableChecks

def pkBytes (n : Nat) : Bytes := (unpack n).map UInt8.ofNat

def natsBytes (l : List Nat) : Bytes := strBytes (" ".intercalate (l.map toString))

def pairs (t : List (Nat × Nat)) : Bytes :=
  listReply (t.foldr (fun (a, b) acc => pkBytes a :: pkBytes b :: acc) [])

def names (t : List Nat) : Bytes := listReply (t.map pkBytes)

/-- byte-keyed table: (byte value, packed escape) -/
def bytePairs (t : List (Nat × Nat)) : Bytes :=
  listReply (t.foldr (fun (a, b) acc => [UInt8.ofNat a] :: pkBytes b :: acc) [])

def byteKeys (t : List (Nat × Nat)) : Bytes := listReply (t.map (fun (a, _) => [UInt8.ofNat a]))

/-- last component of the derived `Repr` of an enumeration value -/
def ctorName {α : Type} [Repr α] (x : α) : String :=
  (((toString (repr x)).splitOn ".").getLast?).getD ""

def traitRows {α : Type} [Repr α] (t : List (Nat × List α)) : Bytes :=
  listReply (t.foldr (fun (a, ts) acc => pkBytes a :: strBytes (" ".intercalate (ts.map ctorName)) :: acc) [])

def utf8Chars (b : Bytes) : Except String (List Char) :=
  match String.fromUTF8? (ByteArray.mk b.toArray) with
  | some s => .ok s.toList
  | none => .error "invalid utf-8"

def charsUtf8 (l : List Char) : Bytes := (String.ofList l).toUTF8.toList

def dumps : List (String × Handler) := [
  ("dump.EntitiesHtml", fun _ => .ok (pairs EntitiesHtml.table)),
  ("dump.TextRevHtml", fun _ => .ok (bytePairs TextRevHtml.table)),
  ("dump.AttrRevHtml", fun _ => .ok (bytePairs AttrRevHtml.table)),
  ("dump.EntitiesXml", fun _ => .ok (pairs EntitiesXml.table)),
  ("dump.TextRevXml", fun _ => .ok (bytePairs TextRevXml.table)),
  ("dump.AttrRevXml", fun _ => .ok (bytePairs AttrRevXml.table)),
  ("dump.ShortenColorHex", fun _ => .ok (pairs ShortenColorHex.table)),
  ("dump.ShortenColorName", fun _ => .ok (pairs ShortenColorName.table)),
  ("dump.JsMimetypes", fun _ => .ok (names JsMimetypes.table)),
  ("dump.OptionalZeroDimension", fun _ => .ok (names OptionalZeroDimension.table)),
  ("dump.SvgColorAttrs", fun _ => .ok (names SvgColorAttrs.table)),
  ("dump.ZeroAngleFuncs", fun _ => .ok (names ZeroAngleFuncs.table)),
  ("dump.AngleDimension", fun _ => .ok (names AngleDimension.table)),
  ("dump.TagTraits", fun _ => .ok (traitRows TagTraits.table)),
  ("dump.AttrTraits", fun _ => .ok (traitRows AttrTraits.table)),
  ("dump.HashNames.html", fun _ => .ok (pairs HashNames.html)),
  ("dump.HashNames.css", fun _ => .ok (pairs HashNames.css)),
  ("dump.HashNames.svg", fun _ => .ok (pairs HashNames.svg)),
  ("dump.Html5Entities", fun _ => .ok (listReply
      (Html5Entities.table.foldr (fun (a, cps) acc => pkBytes a :: natsBytes cps :: acc) []))),
  ("dump.CssColors", fun _ => .ok (listReply
      (CssColors.table.foldr (fun (a, r, g, b) acc => pkBytes a :: natsBytes [r, g, b] :: acc) [])))]

def classes : List (String × List Nat) := [
  ("booleanAttrs", booleanAttrs ++ booleanAttrsObsolete), ("urlAttrs", urlAttrs ++ urlAttrsObsolete),
  ("rawJustified", rawTextElements ++ escapableRawTextElements ++ parserRawTextElements ++ foreignRoots),
  ("wsInsignificant", blockLevel ++ tableParts ++ lineBreak ++ notRendered ++ selectParts),
  ("jsMimeTypes", jsMimeTypes), ("svgColorAttrs", svgColorAttrs),
  ("lengthUnits", lengthUnits), ("angleUnits", angleUnits), ("zeroAngleFunctions", zeroAngleFunctions)]

def bads : List (String × Handler) := [
  ("bad.entitiesHtml", fun _ => .ok (names ((EntitiesHtml.table.filter (!entityRowOk ·)).map (·.1)))),
  ("bad.textRevHtml", fun _ => .ok (byteKeys (TextRevHtml.table.filter (!htmlRevRowOk .text ·)))),
  ("bad.attrRevHtml", fun _ => .ok (byteKeys (AttrRevHtml.table.filter (!htmlRevRowOk .attr ·)))),
  ("bad.textRevHtmlCovers", fun _ => .ok (names ((EntitiesHtml.table.filter
      (fun row => row.2 == pk! "<" && (lookupNat 60 TextRevHtml.table).isNone)).map (·.1)))),
  ("bad.entitiesXml", fun _ => .ok (names ((EntitiesXml.table.filter (!xmlEntityRowOk ·)).map (·.1)))),
  ("bad.textRevXml", fun _ => .ok (byteKeys (TextRevXml.table.filter (!xmlRevRowOk ·)))),
  ("bad.attrRevXml", fun _ => .ok (byteKeys (AttrRevXml.table.filter (!xmlRevRowOk ·)))),
  ("bad.colorHex", fun _ => .ok (names ((ShortenColorHex.table.filter (!colorHexRowOk ·)).map (·.1)))),
  ("bad.colorName", fun _ => .ok (names ((ShortenColorName.table.filter (!colorNameRowOk ·)).map (·.1)))),
  ("bad.boolAttrs", fun _ => .ok (names ((AttrTraits.table.filter (!boolAttrRowOk ·)).map (·.1)))),
  ("bad.urlAttrs", fun _ => .ok (names ((AttrTraits.table.filter (!urlAttrRowOk ·)).map (·.1)))),
  ("bad.rawTags", fun _ => .ok (names ((TagTraits.table.filter (!rawTagRowOk ·)).map (·.1)))),
  ("bad.blockTags", fun _ => .ok (names ((TagTraits.table.filter (!blockTagRowOk ·)).map (·.1)))),
  ("bad.jsMimetypes", fun _ => .ok (names (JsMimetypes.table.filter (!jsMimeTypes.contains ·)))),
  ("bad.zeroUnits", fun _ => .ok (names (OptionalZeroDimension.table.filter (!isLengthOrAngleUnit ·)))),
  ("bad.zeroAngleFuncs", fun _ => .ok (names (ZeroAngleFuncs.table.filter (!zeroAngleFunctions.contains ·)))),
  ("bad.angleDimension", fun _ => .ok (names (AngleDimension.table.filter (!angleUnits.contains ·)))),
  ("bad.zeroAngleGuard", fun _ => .ok (names (OptionalZeroDimension.table.filter
      (fun u => angleUnits.contains u && !AngleDimension.table.contains u)))),
  ("bad.svgColorAttrs", fun _ => .ok (names (SvgColorAttrs.table.filter (!svgColorAttrs.contains ·)))),
  ("bad.hashNames.html", fun _ => .ok (names ((HashNames.html.filter (!hashRowOk ·)).map (·.1)))),
  ("bad.hashNames.css", fun _ => .ok (names ((HashNames.css.filter (!hashRowOk ·)).map (·.1)))),
  ("bad.hashNames.svg", fun _ => .ok (names ((HashNames.svg.filter (!hashRowOk ·)).map (·.1))))]

def specs : List (String × Handler) := [
  ("spec.decodeRefs", fun args => do
    let ctx ← argNat args 0
    let s ← utf8Chars (← argBytes args 1)
    .ok (charsUtf8 (decodeRefs (if ctx == 0 then .text else .attr) s))),
  ("spec.decodeXml", fun args => do
    let s ← utf8Chars (← argBytes args 0)
    match decodeXml s with
    | some t => .ok (listReply [boolBytes true, charsUtf8 t])
    | none => .ok (listReply [boolBytes false, []])),
  ("spec.color", fun args => do
    let s ← argBytes args 0
    match colorCps (s.map UInt8.toNat) with
    | some (r, g, b) => .ok (natsBytes [r, g, b])
    | none => .ok (strBytes "none")),
  ("spec.class", fun args => do
    let cls ← argBytes args 0
    let name ← argBytes args 1
    match classes.lookup (String.ofList (bytesToChars cls)) with
    | some l => .ok (boolBytes (l.contains (pack (name.map UInt8.toNat))))
    | none => .error "unknown class"),
  ("spec.classList", fun args => do
    let cls ← argBytes args 0
    match classes.lookup (String.ofList (bytesToChars cls)) with
    | some l => .ok (names l)
    | none => .error "unknown class")]

def handlers : List (String × Handler) := dumps ++ bads ++ specs

end Verif.Driver.C17

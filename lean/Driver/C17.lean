import Driver.Proto
/-! driver handlers for property C17 (ops `model.*`, `spec.*`, `trig.*`) -/
namespace Verif.Driver.C17
open Verif Verif.Driver

def handlers : List (String × Handler) := []

end Verif.Driver.C17

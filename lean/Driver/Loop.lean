import Std.Data.HashMap
import Driver.Proto
/-! The read–evaluate–print loop of the model driver, shared by `vdrv` (all properties) and by the reduced
driver `vdrv_alt` that `check` generates when the driver module of some *other* property no longer builds. -/
open Verif Verif.Driver

namespace Verif.Driver

def handleLine (tbl : Std.HashMap String Handler) (line : String) : String :=
  match (line.trimAscii.toString.splitOn " ").filter (· ≠ "") with
  | [] => "!empty"
  | op :: args =>
    match tbl.get? op with
    | none => s!"!unknown op {op}"
    | some h =>
      match h args with
      | .ok b => if b.isEmpty then "-" else hexEncode b
      | .error e => s!"!{e}"

partial def loop (tbl : Std.HashMap String Handler) (i o : IO.FS.Stream) : IO Unit := do
  let line ← i.getLine
  if line.isEmpty then return ()
  o.putStrLn (handleLine tbl line)
  -- flush on every line: the harness may run request/response in lock-step
  o.flush
  loop tbl i o

def runMain (allHandlers : List (String × Handler)) (args : List String) : IO Unit := do
  let tbl : Std.HashMap String Handler := Std.HashMap.ofList allHandlers
  if args == ["ops"] then
    for (k, _) in allHandlers do IO.println k
    return
  loop tbl (← IO.getStdin) (← IO.getStdout)

end Verif.Driver

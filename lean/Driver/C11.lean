import Driver.Proto
import Verif.Model.Embed
/-! driver handlers for property C11 -/
namespace Verif.Driver.C11
open Verif Verif.Driver Verif.Model.Embed

def siteOf (name : String) (arg : List Char) : Option Site :=
  match name with
  | "htmlRaw.script" => some (.htmlRaw .script arg)
  | "htmlRaw.style" => some (.htmlRaw .style arg)
  | "htmlRaw.iframe" => some (.htmlRaw .iframe arg)
  | "htmlSvg" => some .htmlSvg
  | "htmlMath" => some .htmlMath
  | "htmlStyleAttr" => some .htmlStyleAttr
  | "htmlOnAttr" => some .htmlOnAttr
  | "svgStyleText" => some (.svgStyleText (if arg.isEmpty then none else some arg))
  | "svgStyleAttr" => some (.svgStyleAttr (if arg.isEmpty then none else some arg))
  | _ => none

/-- `model.c11.target site siteArg payload` → `[mime, payload, k1, v1, …]` -/
def targetOp : Handler := fun args => do
  let name ← argChars args 0
  let arg ← argChars args 1
  let p ← argChars args 2
  match siteOf (String.ofList name) arg with
  | none => .error "unknown site"
  | some s =>
    let t := target s p
    let ps := t.params.foldr (fun (k, v) acc => charsToBytes k :: charsToBytes v :: acc) []
    .ok (listReply ([charsToBytes t.mime, charsToBytes t.payload] ++ ps))

/-- `model.c11.updatepos doc offset line col isParseErr` → `line,col` -/
def updatePosOp : Handler := fun args => do
  let doc ← argChars args 0
  let off ← argNat args 1
  let l ← argNat args 2
  let c ← argNat args 3
  let pe ← argBool args 4
  let (l', c') := updatePos doc off l c pe
  .ok (strBytes s!"{l'},{c'}")

def handlers : List (String × Handler) := [("model.c11.target", targetOp), ("model.c11.updatepos", updatePosOp)]

end Verif.Driver.C11

import Driver.Proto
/-! driver handlers for property C11 (ops `model.*`, `spec.*`, `trig.*`) -/
namespace Verif.Driver.C11
open Verif Verif.Driver

def handlers : List (String × Handler) := []

end Verif.Driver.C11

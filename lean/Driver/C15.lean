import Driver.Proto
import Verif.Model.Registry
/-! driver handlers for property C15 -/
namespace Verif.Driver.C15
open Verif Verif.Driver Verif.Model.Registry

def decodeOp (g : List Bytes) : Except String RegOp :=
  match g with
  | [kind, key, id] =>
    match parseIntChars (bytesToChars id) with
    | some idv =>
      if kind == strBytes "L" then .ok (.addLit key idv.toNat)
      else match parseIntChars (bytesToChars key) with
        | some p => .ok (.addPat p.toNat idv.toNat)
        | none => .error "bad pid"
    | none => .error "bad id"
  | _ => .error "bad op group"

def optNat (o : Option Nat) : Bytes := match o with | some n => natBytes n | none => strBytes "none"

/-- `model.c15.query history mediatype matchingPids` →
    `[minify id, match kind, match id, mimetype, k1, v1, …]` -/
def query : Handler := fun args => do
  let gs ← argGroups args 0
  let h ← gs.mapM decodeOp
  let q ← argChars args 1
  let bits ← argList args 2
  let pids := bits.filterMap (fun b => (parseIntChars (bytesToChars b)).map Int.toNat)
  let pmOf : List Char → Nat → Bool := fun _ p => pids.contains p
  let r := build h
  let c := minifyCall r pmOf q
  let (m, _, mps) := matchCall r pmOf q
  let mk : Bytes := match m with
    | .lit _ => strBytes "L" | .pat p _ => strBytes "P" ++ natBytes p | .none => strBytes "N"
  let ps := c.params.foldr (fun (k, v) acc => charsToBytes k :: charsToBytes v :: acc) []
  let same : Bytes := boolBytes (mps == c.params)
  -- also report the reference specification's answer so the harness can compare the implementation with it directly
  let sp := specDispatch h (pmOf c.mimetype) (charsToBytes c.mimetype)
  .ok (listReply ([optNat c.id, mk, optNat m.id?, charsToBytes c.mimetype, same, optNat sp] ++ ps))

def handlers : List (String × Handler) := [("model.c15.query", query)]

end Verif.Driver.C15

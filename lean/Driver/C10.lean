import Driver.Proto
import Verif.Model.TokenBuffer
import Verif.Model.Api
/-! driver handlers for property C10 -/
namespace Verif.Driver.C10
open Verif Verif.Driver Verif.Model.TokenBuffer

def runOps (E : Nat) : TB → List (List Char) → Option (List Nat)
  | _, [] => some []
  | b, op :: r =>
    match op with
    | 's' :: _ => match shift E b with
      | some (b', t) => (runOps E b' r).map (t :: ·)
      | none => none
    | 'p' :: ds => match parseIntChars ds with
      | some i => match peek E b i.toNat with
        | some (b', t) => (runOps E b' r).map (t :: ·)
        | none => none
      | none => none
    | _ => none

/-- `model.c10.script E ops` (ops: list of `s` / `p<i>`): the ids of the returned tokens, or `panic` -/
def script : Handler := fun args => do
  let E ← argNat args 0
  let ops ← argList args 1
  match runOps E init (ops.map bytesToChars) with
  | some ts => .ok (strBytes (",".intercalate (ts.map toString)))
  | none => .ok (strBytes "panic")

/-- `model.c10.bytes mode retOrig v bufAfter isErr out` → returned ‖ callerAfter (list reply) -/
def bytesOp : Handler := fun args => do
  let mode ← argChars args 0
  let v ← argBytes args 1
  let bufAfter ← argBytes args 2
  let isErr ← argBool args 3
  let out ← argBytes args 4
  match Verif.Model.Api.InputMode.ofString (String.ofList mode) with
  | none => .error "bad mode"
  | some m =>
    let o := Verif.Model.Api.bytesCall m true (fun _ => ⟨bufAfter, if isErr then .error "e" else .ok out⟩) v
    .ok (listReply [o.returned, o.callerAfter])

def handlers : List (String × Handler) := [("model.c10.script", script), ("model.c10.bytes", bytesOp)]

end Verif.Driver.C10

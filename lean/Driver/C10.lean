import Driver.Proto
/-! driver handlers for property C10 (ops `model.*`, `spec.*`, `trig.*`) -/
namespace Verif.Driver.C10
open Verif Verif.Driver

def handlers : List (String × Handler) := []

end Verif.Driver.C10

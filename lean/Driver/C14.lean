import Driver.Proto
/-! driver handlers for property C14 (ops `model.*`, `spec.*`, `trig.*`) -/
namespace Verif.Driver.C14
open Verif Verif.Driver

def handlers : List (String × Handler) := []

end Verif.Driver.C14

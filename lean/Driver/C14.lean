import Driver.Proto
import Verif.Model.IoFail
import Verif.Gen.ExitPaths
/-! driver handlers for property C14 (ops `model.c14.*`) -/
namespace Verif.Driver.C14
open Verif Verif.Driver Verif.Skel Verif.Model.IoFail

def findPkg (name : List Char) : Except String ExitPkg :=
  match Verif.Gen.ExitPaths.all.find? (fun p => p.name.toList == name) with
  | some p => .ok p
  | none => .error s!"unknown package {String.ofList name}"

def errName : Err → String
  | .writer => "writer" | .reader => "reader" | .syntax => "syntax" | .eof => "eof" | .sub => "sub"

def outName : Out → String
  | .ret none => "ok"
  | .ret (some e) => "err:" ++ errName e
  | .fall => "fall"

/-- `model.c14.predict pkg n k readerFails` → `ok` | `err:writer` | `err:reader` | …:
    verdict of the regenerated skeleton's main block for a call that makes `n` body writes against
    a writer failing from its `k`-th call on -/
def predictH : Handler := fun args => do
  let name ← argChars args 0
  let n ← argNat args 1
  let k ← argNat args 2
  let rf ← argBool args 3
  let p ← findPkg name
  .ok (strBytes (outName (predict p n k rf)))

/-- `model.c14.simple n k` → verdict of the simple run (n body writes of one byte each, then probe) and
    the number of chunks accepted by the medium -/
def simpleH : Handler := fun args => do
  let n ← argNat args 0
  let k ← argNat args 1
  let r := simpleRun (List.replicate n [0]) k
  .ok (listReply [strBytes (outName (.ret r.1)), natBytes r.2.length])

/-- `model.c14.wf pkg` → is the regenerated skeleton well-formed -/
def wfH : Handler := fun args => do
  let name ← argChars args 0
  let p ← findPkg name
  .ok (boolBytes (wfExit p))

/-- `model.c14.readall data k chunk short` → bytes that `io.ReadAll` returns over the failing reader
    (the error is always the reader's, theorem `readAll_failReads`) -/
def readAllH : Handler := fun args => do
  let d ← argBytes args 0
  let k ← argNat args 1
  let c ← argNat args 2
  let s ← argBool args 3
  let r := readAll (failReads d k c s)
  .ok (listReply [r.1, strBytes (match r.2 with | some e => errName e | none => "nil")])

def handlers : List (String × Handler) :=
  [("model.c14.predict", predictH), ("model.c14.simple", simpleH), ("model.c14.wf", wfH),
   ("model.c14.readall", readAllH)]

end Verif.Driver.C14

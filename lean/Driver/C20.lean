import Driver.Proto
/-! driver handlers for property C20 (ops `model.*`, `spec.*`, `trig.*`) -/
namespace Verif.Driver.C20
open Verif Verif.Driver

def handlers : List (String × Handler) := []

end Verif.Driver.C20

import Driver.Proto
import Verif.Model.CliFs
import Verif.Spec.CliSafe
/-! driver handlers for property C20 (ops `model.c20.*`, `spec.c20.*`, `trig.c20.*`)

Common argument layout of the `model.c20.*` ops that take a task:

```
0 files   groups  path,content;…
1 dirs    list
2 srcs    list
3 dst     bytes
4 root    bytes
5 sep     bytes
6 flags   list of 0/1: sync, skip, presMode, presOwn, presTime, modeAgree, ownAgree
7 stdin   bytes
8 wok     bool   (all writes succeed)
9 chunks  list
```
-/
namespace Verif.Driver.C20
open Verif Verif.Driver Verif.Model.CliFs

def decodeFiles (gs : List (List Bytes)) : Except String (List (Bytes × Bytes)) :=
  gs.mapM fun g =>
    match g with
    | [p, c] => .ok (p, c)
    | [p] => .ok (p, [])
    | _ => .error "bad file group"

def flagAt (fl : List Bytes) (i : Nat) : Bool := fl[i]? == some [49]

structure Req where
  fs : Fs
  t : Task
  cfg : Cfg
  w : Writes

def decodeReq (args : List String) : Except String Req := do
  let files ← decodeFiles (← argGroups args 0)
  let dirs ← argList args 1
  let srcs ← argList args 2
  let dst ← argBytes args 3
  let root ← argBytes args 4
  let sep ← argBytes args 5
  let fl ← argList args 6
  let stdin ← argBytes args 7
  let wok ← argBool args 8
  let chunks ← argList args 9
  .ok {
    fs := { files := files, dirs := dirs }
    t := { srcs := srcs, dst := dst, root := root, sep := sep, sync := flagAt fl 0, skip := flagAt fl 1 }
    cfg := { presMode := flagAt fl 2, presOwn := flagAt fl 3, presTime := flagAt fl 4,
             modeAgree := flagAt fl 5, ownAgree := flagAt fl 6, stdin := stdin }
    w := if wok then .ok chunks else .fail chunks }

def sp : Bytes := [32]

/-- human-readable rendering; `write` carries the length only (chunking is free, data is compared through the final tree) -/
def renderOp : Op → Bytes
  | .rename a b => strBytes "rename " ++ a ++ sp ++ b
  | .openRead p => strBytes "openRead " ++ p
  | .openTrunc p => strBytes "openTrunc " ++ p
  | .write p c => strBytes "write " ++ p ++ sp ++ natBytes c.length
  | .close p => strBytes "close " ++ p
  | .remove p => strBytes "remove " ++ p
  | .mkdir p => strBytes "mkdir " ++ p
  | .chmod p => strBytes "chmod " ++ p
  | .chown p => strBytes "chown " ++ p
  | .chtimes p => strBytes "chtimes " ++ p

def renderFiles (l : List (Bytes × Bytes)) : Bytes :=
  listReply (l.foldr (fun (p, c) acc => p :: c :: acc) [])

/-- `model.c20.ops <req>` → rendered op list of `minifyOps` -/
def opsH : Handler := fun args => do
  let r ← decodeReq args
  .ok (listReply ((minifyOps r.cfg r.w r.t r.fs).map renderOp))

/-- `model.c20.run <req> k` → files after the first `k` ops (`k < 0`: all) -/
def runH : Handler := fun args => do
  let r ← decodeReq args
  let k ← argInt args 10
  let ops := minifyOps r.cfg r.w r.t r.fs
  let ops := if k < 0 then ops else ops.take k.toNat
  .ok (renderFiles (run ops r.fs).files)

/-- `model.c20.plan <req> libOk libOut` → `[inputBytes, outBytes, minifyOk]` where the library answers
    `libOut` (`libOk`=1) or fails (`libOk`=0) -/
def planH : Handler := fun args => do
  let r ← decodeReq args
  let libOk ← argBool args 10
  let libOut ← argBytes args 11
  let lib : Bytes → Option Bytes := fun _ => if libOk then some libOut else none
  .ok (listReply [inputBytes r.cfg r.t r.fs, outBytes r.cfg lib r.t r.fs,
    boolBytes (minifyOk r.cfg lib r.w r.t r.fs)])

/-- `model.c20.enabled <req>` → `ok` or the index of the first op of `minifyOps` whose precondition fails -/
def enabledH : Handler := fun args => do
  let r ← decodeReq args
  match firstDisabled r.fs (minifyOps r.cfg r.w r.t r.fs) with
  | none => .ok (strBytes "ok")
  | some i => .ok (natBytes i)

def decodeOp (g : List Bytes) : Except String Op :=
  match g with
  | [k, a, b] =>
    if k == strBytes "rename" then .ok (.rename a b)
    else if k == strBytes "write" then .ok (.write a b)
    else .error "bad op"
  | [k, a] =>
    if k == strBytes "openRead" then .ok (.openRead a)
    else if k == strBytes "openTrunc" then .ok (.openTrunc a)
    else if k == strBytes "close" then .ok (.close a)
    else if k == strBytes "remove" then .ok (.remove a)
    else if k == strBytes "mkdir" then .ok (.mkdir a)
    else if k == strBytes "chmod" then .ok (.chmod a)
    else if k == strBytes "chown" then .ok (.chown a)
    else if k == strBytes "chtimes" then .ok (.chtimes a)
    else if k == strBytes "write" then .ok (.write a [])
    else .error "bad op"
  | _ => .error "bad op group"

/-- `model.c20.exec files ops` → files after executing the given ops (contract check of `step`
    against the real kernel: the ops are the system calls a killed run actually completed) -/
def execH : Handler := fun args => do
  let files ← decodeFiles (← argGroups args 0)
  let ops ← (← argGroups args 1).mapM decodeOp
  .ok (renderFiles (run ops { files := files }).files)

/-- `spec.c20.safeinv orig cur final inputs dsts` → 0/1 -/
def safeH : Handler := fun args => do
  let orig ← decodeFiles (← argGroups args 0)
  let cur ← decodeFiles (← argGroups args 1)
  let fin ← decodeFiles (← argGroups args 2)
  let inputs ← argList args 3
  let dsts ← argList args 4
  .ok (boolBytes (Verif.Spec.CliSafe.safeInvB orig cur fin inputs dsts))

/-- `trig.c20.bakinput srcs dst` → 0/1 (guard of K-C20-1) -/
def trigH : Handler := fun args => do
  let srcs ← argList args 0
  let dst ← argBytes args 1
  .ok (boolBytes (srcs.contains (bak dst)))

def handlers : List (String × Handler) :=
  [("model.c20.ops", opsH), ("model.c20.run", runH), ("model.c20.plan", planH),
   ("model.c20.exec", execH), ("model.c20.enabled", enabledH), ("spec.c20.safeinv", safeH), ("trig.c20.bakinput", trigH)]

end Verif.Driver.C20

import Driver.Proto
/-! driver handlers for property C13 (ops `model.*`, `spec.*`, `trig.*`) -/
namespace Verif.Driver.C13
open Verif Verif.Driver

def handlers : List (String × Handler) := []

end Verif.Driver.C13

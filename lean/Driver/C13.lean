import Driver.Proto
import Verif.Model.Conc
/-! driver handlers for property C13: the lock model can be exercised on concrete operation sequences -/
namespace Verif.Driver.C13
open Verif Verif.Driver Verif.Model.Conc

/-- `model.c13.rw ops` with ops a string over r (RLock) u (RUnlock) L (Lock) U (Unlock):
    replies readers,writer,pending after the sequence -/
def rw : Handler := fun args => do
  let s ← argChars args 0
  let ops := s.filterMap (fun c => match c with
    | 'r' => some LockOp.rlock | 'u' => some LockOp.runlock | 'L' => some LockOp.lock | 'U' => some LockOp.unlock | _ => none)
  let st := ops.foldl applyOp {}
  .ok (strBytes s!"{st.readers},{st.writer},{st.pending}")

def handlers : List (String × Handler) := [("model.c13.rw", rw)]

end Verif.Driver.C13

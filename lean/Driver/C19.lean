import Driver.Proto
/-! driver handlers for property C19 (ops `model.*`, `spec.*`, `trig.*`) -/
namespace Verif.Driver.C19
open Verif Verif.Driver

def handlers : List (String × Handler) := []

end Verif.Driver.C19

import Driver.Proto
import Driver.C20
import Verif.Model.Cli
/-! driver handlers for property C19 (ops `model.c19.*`, `trig.c19.*`) -/
namespace Verif.Driver.C19
open Verif Verif.Driver Verif.Model.CliFs Verif.Model.Cli

/-- `model.c19.path fn a [b]` → the lexical path function `fn` ∈ clean dir base ext rel join norm -/
def pathH : Handler := fun args => do
  let fn ← argBytes args 0
  let a ← argBytes args 1
  let b ← (if args.length > 2 then argBytes args 2 else .ok [])
  if fn == strBytes "clean" then .ok (cleanB a)
  else if fn == strBytes "dir" then .ok (render (dirRaw a))
  else if fn == strBytes "base" then .ok (baseRaw a)
  else if fn == strBytes "ext" then .ok (extRaw a)
  else if fn == strBytes "norm" then .ok (normInput a)
  else if fn == strBytes "rel" then
    match relP (cleanP a) (cleanP b) with
    | some r => .ok (render r)
    | none => .ok (strBytes "!error")
  else if fn == strBytes "join" then
    .ok (if a.isEmpty then (if b.isEmpty then [] else cleanB b) else if b.isEmpty then cleanB a
         else render (joinP (cleanP a) ⟨false, cleanAux false (b.splitOn slashB) []⟩))
  else .error "unknown path function"

structure LibRow where
  mime : Bytes
  input : Bytes
  ok : Bool
  out : Bytes

def decodeLib (gs : List (List Bytes)) : Except String (List LibRow) :=
  gs.mapM fun g =>
    match g with
    | [m, i, o, out] => .ok ⟨m, i, o == [49], out⟩
    | _ => .error "bad lib row"

def libOf (rows : List LibRow) (mime b : Bytes) : Option Bytes :=
  match rows.find? (fun r => r.mime == mime && r.input == b) with
  | some r => if r.ok then some r.out else none
  | none => some (strBytes "!!LIB-TABLE-MISS!!")

def renderTask (t : Task) : Bytes :=
  [124].intercalate t.srcs ++ strBytes " -> " ++ t.dst ++ strBytes (if t.sync then " sync" else "") ++
    strBytes (if t.skip then " skip" else "") ++ strBytes " root=" ++ t.root

/-- `model.c19.effects files dirs inputs output flags typ nMatch filterSigns pmTable stdin libTable`
    → `[exit, stdout, nTasks, task…, path, content, …]`; flags = recursive, hidden, sync, bundle -/
def effectsH : Handler := fun args => do
  let files ← C20.decodeFiles (← argGroups args 0)
  let dirs ← argList args 1
  let inputs ← argList args 2
  let output ← argBytes args 3
  let fl ← argList args 4
  let typ ← argBytes args 5
  let nMatch ← argNat args 6
  let signs ← argList args 7
  let table ← argGroups args 8
  let stdin ← argBytes args 9
  let lib ← decodeLib (← argGroups args 10)
  let pm : Nat → Bytes → Bool := fun i s => (table[i]?.getD []).contains s
  let inv : Inv := {
    inputs := inputs, output := output, recursive := C20.flagAt fl 0, hidden := C20.flagAt fl 1,
    sync := C20.flagAt fl 2, bundle := C20.flagAt fl 3, typ := typ,
    matchPats := List.range nMatch,
    filters := signs.zipIdx.map (fun (s, i) => (s == [43], nMatch + i)),
    stdin := stdin }
  let r := effects pm (libOf lib) inv { files := files, dirs := dirs }
  .ok (listReply ([natBytes r.exit, r.stdout, natBytes r.tasks.length] ++ r.tasks.map renderTask ++
    r.fs.files.foldr (fun (p, c) acc => p :: c :: acc) []))

/-- `model.c19.readall files sep schedule` (schedule: `n:k` pairs as a list of `n,k` items flattened)
    → `[eof, chunk…]`: the bytes delivered by each `Read` call -/
def readallH : Handler := fun args => do
  let files ← argList args 0
  let sep ← argBytes args 1
  let nums ← argList args 2
  let ns := nums.filterMap (fun b => (parseIntChars (bytesToChars b)).map Int.toNat)
  let rec pairs : List Nat → List (Nat × Nat)
    | a :: b :: r => (a, b) :: pairs r
    | _ => []
  let (cs, eof) := readChunks (pairs ns) (newCR files sep)
  .ok (listReply (boolBytes eof :: cs))

def handlers : List (String × Handler) :=
  [("model.c19.path", pathH), ("model.c19.effects", effectsH), ("model.c19.readall", readallH)]

end Verif.Driver.C19

import Driver.Proto
import Driver.C03
import Verif.Spec.C09HtmlTok
/-! driver handlers for property C09, HTML slice (ops `spec.c09.html.*`) -/
namespace Verif.Driver.C09Html
open Verif Verif.Driver Verif.Spec.C09HtmlTok

def decoded (attr : Bool) (raw : List Char) : Bytes :=
  (Spec.HtmlAttr.decodeRefs attr raw).foldr (fun u acc => C03.duBytes u ++ acc) []

def qBytes : QForm → Bytes
  | .missing => strBytes "m" | .unquoted => strBytes "u" | .single => strBytes "s" | .double => strBytes "d"

def itemFields : Item → List Bytes
  | .text d refs => [strBytes "T", boolBytes refs, charsToBytes d, if refs then decoded false d else charsToBytes d]
  | .startTag n as sc =>
    [strBytes "S", charsToBytes n, boolBytes sc, natBytes as.length] ++
      as.flatMap (fun a => [charsToBytes a.name, qBytes a.q, charsToBytes a.raw, decoded true a.raw])
  | .endTag n => [strBytes "E", charsToBytes n]
  | .comment d => [strBytes "C", charsToBytes d]
  | .doctype d => [strBytes "D", charsToBytes d]

/-- does the input end inside a tag (eof-in-tag: the standard drops the unfinished tag)? -/
def eofInTag (m : M) : Bool :=
  match m.s with
  | .tagName _ | .beforeAttrName _ | .attrName _ _ | .afterAttrName _ _ | .beforeAttrValue _ _
  | .attrValueQ _ _ _ _ | .attrValueU _ _ _ | .afterAttrValueQ _ | .selfClosingStart _ => true
  | _ => false

/-- `spec.c09.html.tokens scripting doc` → the standard's token stream of `doc`, adjacent character tokens joined:
    flat list of `T refs raw decoded` | `S name selfClosing n (name q raw decoded)*` | `E name` | `C data` | `D raw`, closed by `Z tag|ok` (does the input end inside a tag?) -/
def tokensOp : Handler := fun args => do
  let scripting ← argBool args 0
  let doc ← argChars args 1
  .ok (listReply ((itemsFast scripting doc).flatMap itemFields ++
    [strBytes "Z", strBytes (if eofInTag (runS { scripting := scripting } doc) then "tag" else "ok")]))

/-- `spec.c09.html.attrval bytes` → `[raw, decoded, rest]` of the attribute value the standard's tokenizer reads at the
    start of `bytes` (the input right after `=`), or `none` -/
def attrvalOp : Handler := fun args => do
  let s ← argChars args 0
  match Spec.HtmlAttr.tokenizeAttr s with
  | some (raw, rest) => .ok (listReply [strBytes "ok", charsToBytes raw, decoded true raw, charsToBytes rest])
  | none => .ok (listReply [strBytes "none"])

def handlers : List (String × Handler) :=
  [("spec.c09.html.tokens", tokensOp), ("spec.c09.html.attrval", attrvalOp)]

end Verif.Driver.C09Html

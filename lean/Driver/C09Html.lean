import Driver.Proto
import Driver.C03
import Verif.Spec.C09HtmlTok
import Verif.Model.C09HtmlWalk
/-! driver handlers for property C09, HTML slice (ops `spec.c09.html.*`) -/
namespace Verif.Driver.C09Html
open Verif Verif.Driver Verif.Spec.C09HtmlTok

def decoded (attr : Bool) (raw : List Char) : Bytes :=
  (Spec.HtmlAttr.decodeRefs attr raw).foldr (fun u acc => C03.duBytes u ++ acc) []

def qBytes : QForm → Bytes
  | .missing => strBytes "m" | .unquoted => strBytes "u" | .single => strBytes "s" | .double => strBytes "d"

def itemFields : Item → List Bytes
  | .text d refs => [strBytes "T", boolBytes refs, charsToBytes d, if refs then decoded false d else charsToBytes d]
  | .startTag n as sc =>
    [strBytes "S", charsToBytes n, boolBytes sc, natBytes as.length] ++
      as.flatMap (fun a => [charsToBytes a.name, qBytes a.q, charsToBytes a.raw, decoded true a.raw])
  | .endTag n => [strBytes "E", charsToBytes n]
  | .comment d => [strBytes "C", charsToBytes d]
  | .doctype d => [strBytes "D", charsToBytes d]

/-- does the input end inside a tag (eof-in-tag: the standard drops the unfinished tag)? -/
def eofInTag (m : M) : Bool :=
  match m.s with
  | .tagName _ | .beforeAttrName _ | .attrName _ _ | .afterAttrName _ _ | .beforeAttrValue _ _
  | .attrValueQ _ _ _ _ | .attrValueU _ _ _ | .afterAttrValueQ _ | .selfClosingStart _ => true
  | _ => false

/-- `spec.c09.html.tokens scripting doc` → the standard's token stream of `doc`, adjacent character tokens joined:
    flat list of `T refs raw decoded` | `S name selfClosing n (name q raw decoded)*` | `E name` | `C data` | `D raw`, closed by `Z tag|ok` (does the input end inside a tag?) -/
def tokensOp : Handler := fun args => do
  let scripting ← argBool args 0
  let doc ← argChars args 1
  .ok (listReply ((itemsFast scripting doc).flatMap itemFields ++
    [strBytes "Z", strBytes (if eofInTag (runS { scripting := scripting } doc) then "tag" else "ok")]))

/-- `spec.c09.html.attrval bytes` → `[raw, decoded, rest]` of the attribute value the standard's tokenizer reads at the
    start of `bytes` (the input right after `=`), or `none` -/
def attrvalOp : Handler := fun args => do
  let s ← argChars args 0
  match Spec.HtmlAttr.tokenizeAttr s with
  | some (raw, rest) => .ok (listReply [strBytes "ok", charsToBytes raw, decoded true raw, charsToBytes rest])
  | none => .ok (listReply [strBytes "none"])

open Verif.Model.Html Verif.Model.C09HtmlWalk Verif.Spec.C09HtmlIntended in
/-- which kind of step first falls outside the guard of `html_output_retokenises_partial` -/
def whyLoop (o : Opts) (ext : Ext) (sub : Sub) : St → Phase → List HTok → String
  | _, .data, [] => "ok"
  | _, _, [] => "eof-in-raw-text"
  | st, ph, t :: rest =>
    match Verif.Model.Html.step o ext sub st t rest with
    | .error _ => "error"
    | .ok (st', out) =>
      let c := classify o ext st ph t out
      if c.1 then whyLoop o ext sub st' c.2.1 rest
      else match ph, t with
        | .data, .text _ _ => "text-unsafe-lt"
        | .data, .comment _ _ => "comment"
        | .data, .endTag _ _ => "end-tag"
        | .data, .startTag _ _ => "start-tag"
        | .data, .svg _ => "svg"
        | .data, .math _ => "math"
        | .data, .template _ => "template"
        | .data, .doctype => "doctype"
        | .rawStart _, .text _ _ => "raw-content"
        | _, _ => "raw-element-shape"

open Verif.Model.Html Verif.Model.C09HtmlWalk Verif.Spec.C09HtmlIntended in
/-- `model.c09.html.walk optsMask subMode ext tokens` → `[model output, guard (1/0), does the standard's tokenizer read the
    model output as the intended token stream (1/0), first kind of step outside the guard]`; the third is implied by the
    second (`html_output_retokenises_partial`) -/
def walkOp : Handler := fun args => do
  let m ← argNat args 0
  let subMode ← argNat args 1
  let extG ← argGroups args 2
  let toksG ← argGroups args 3
  let ext ← extG.mapM (fun g => match g with
    | [k, i, o] => .ok (bytesToChars k, bytesToChars i, bytesToChars o)
    | _ => .error "bad ext group")
  let toks ← toksG.mapM C03.decodeTok
  let sub : Sub := if subMode = 0 then none else some C03.stubSub
  let o := C03.optsOf m
  match htmlMinify o ext sub toks, walk o ext sub {} .data toks with
  | .ok out, .ok (g, ps) =>
    .ok (listReply [charsToBytes out, boolBytes g, boolBytes (decide (tokens false out = intended ps)),
      strBytes (whyLoop o ext sub {} .data toks)])
  | .error e, _ => .error e
  | _, .error e => .error e

def handlers : List (String × Handler) :=
  [("spec.c09.html.tokens", tokensOp), ("spec.c09.html.attrval", attrvalOp), ("model.c09.html.walk", walkOp)]

end Verif.Driver.C09Html

import Std.Data.HashMap
import Driver.Proto
import Driver.C01
import Driver.C01E
import Driver.C02
import Driver.C03
import Driver.C04
import Driver.C05
import Driver.C06
import Driver.C07
import Driver.C08
import Driver.C09
import Driver.C10
import Driver.C11
import Driver.C12
import Driver.C13
import Driver.C14
import Driver.C15
import Driver.C16
import Driver.C17
import Driver.C18
import Driver.C19
import Driver.C20
/-! `vdrv`: reads protocol lines from stdin, evaluates model/spec functions, prints replies. -/
open Verif Verif.Driver

def allHandlers : List (String × Handler) :=
  C01.handlers ++ C01E.handlers ++ C02.handlers ++ C03.handlers ++ C04.handlers ++ C05.handlers ++
  C06.handlers ++ C07.handlers ++ C08.handlers ++ C09.handlers ++ C10.handlers ++
  C11.handlers ++ C12.handlers ++ C13.handlers ++ C14.handlers ++ C15.handlers ++
  C16.handlers ++ C17.handlers ++ C18.handlers ++ C19.handlers ++ C20.handlers ++
  [("echo", fun args => argBytes args 0)]

def handleLine (tbl : Std.HashMap String Handler) (line : String) : String :=
  match (line.trimAscii.toString.splitOn " ").filter (· ≠ "") with
  | [] => "!empty"
  | op :: args =>
    match tbl.get? op with
    | none => s!"!unknown op {op}"
    | some h =>
      match h args with
      | .ok b => if b.isEmpty then "-" else hexEncode b
      | .error e => s!"!{e}"

partial def loop (tbl : Std.HashMap String Handler) (i o : IO.FS.Stream) : IO Unit := do
  let line ← i.getLine
  if line.isEmpty then return ()
  o.putStrLn (handleLine tbl line)
  -- flush on every line: the harness may run request/response in lock-step
  o.flush
  loop tbl i o

def main (args : List String) : IO Unit := do
  let tbl : Std.HashMap String Handler := Std.HashMap.ofList allHandlers
  if args == ["ops"] then
    for (k, _) in allHandlers do IO.println k
    return
  loop tbl (← IO.getStdin) (← IO.getStdout)

import Std.Data.HashMap
import Driver.Proto
import Driver.Loop
import Driver.C01
import Driver.C01E
import Driver.C01N
import Driver.C01D
import Driver.C02
import Driver.C03
import Driver.C04
import Driver.C04B
import Driver.C05
import Driver.C05B
import Driver.C06
import Driver.C07
import Driver.C08
import Driver.C09
import Driver.C10
import Driver.C11
import Driver.C12
import Driver.C13
import Driver.C14
import Driver.C15
import Driver.C16
import Driver.C17
import Driver.C18
import Driver.C19
import Driver.C20
/-! `vdrv`: reads protocol lines from stdin, evaluates model/spec functions, prints replies.
One line per driver module (sub-checks such as C05B, C01N included) so that parallel branches merge cleanly. -/
open Verif Verif.Driver

def allHandlers : List (String × Handler) :=
  C01.handlers ++
  C01E.handlers ++
  C01N.handlers ++
  C01D.handlers ++
  C02.handlers ++
  C03.handlers ++
  C04.handlers ++
  C04B.handlers ++
  C05.handlers ++
  C05B.handlers ++
  C06.handlers ++
  C07.handlers ++
  C08.handlers ++
  C09.handlers ++
  C10.handlers ++
  C11.handlers ++
  C12.handlers ++
  C13.handlers ++
  C14.handlers ++
  C15.handlers ++
  C16.handlers ++
  C17.handlers ++
  C18.handlers ++
  C19.handlers ++
  C20.handlers ++
  [("echo", fun args => argBytes args 0)]

def main (args : List String) : IO Unit := runMain allHandlers args

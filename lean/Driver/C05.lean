import Driver.Proto
/-! driver handlers for property C05 (ops `model.*`, `spec.*`, `trig.*`) -/
namespace Verif.Driver.C05
open Verif Verif.Driver

def handlers : List (String × Handler) := []

end Verif.Driver.C05

import Driver.Proto
import Verif.Spec.SvgPath
import Verif.Spec.SvgHazard
import Verif.Model.SvgPath
import Verif.Model.SvgGuard
/-! driver handlers for property C05 (ops `model.*`, `spec.*`, `trig.*`) -/
namespace Verif.Driver.C05
open Verif Verif.Driver Verif.Spec.SvgPath

def ratStr (q : Rat) : String :=
  if q.den == 1 then toString q.num else s!"{q.num}/{q.den}"
def ptStr (p : Pt) : String := s!"({ratStr p.1},{ratStr p.2})"
def bStr (b : Bool) : String := if b then "1" else "0"
def segStr : Seg → String
  | .move p => s!"M{ptStr p}"
  | .line a b => s!"L{ptStr a}{ptStr b}"
  | .cubic a c1 c2 b => s!"C{ptStr a}{ptStr c1}{ptStr c2}{ptStr b}"
  | .quad a c b => s!"Q{ptStr a}{ptStr c}{ptStr b}"
  | .arc a rx ry rot l s b => s!"A{ptStr a}[{ratStr rx},{ratStr ry},{ratStr rot},{bStr l},{bStr s}]{ptStr b}"
  | .close a b => s!"Z{ptStr a}{ptStr b}"

/-- exponents are bounded so that a stray huge exponent cannot make the exact model allocate 10^9 digits -/
def expsSmall : List Char → Bool
  | [] => true
  | c :: r =>
    if isExpChar c then
      let r' := match r with | '+' :: t => t | '-' :: t => t | t => t
      (r'.takeWhile isDigit).length ≤ 4 && expsSmall r
    else expsSmall r

/-- `model.c05.shorten path prec newPrec` → output bytes of the model -/
def shortenH : Handler := fun args => do
  let d ← argChars args 0
  let prec ← argInt args 1
  let np ← argInt args 2
  if !expsSmall d then .error "exponent out of the driver's range"
  else .ok (charsToBytes (Model.SvgPath.shortenWith (Model.SvgPath.goPr prec np) d))

/-- `model.c05.number lexeme prec` -/
def numberH : Handler := fun args => do
  let s ← argChars args 0
  let prec ← argInt args 1
  .ok (charsToBytes (Model.SvgNum.number s prec))

/-- `model.c05.fmtg decimal-lexeme` → AppendFloat(v,'g',-1,64) of the exact value -/
def fmtgH : Handler := fun args => do
  let s ← argChars args 0
  if !expsSmall s then .error "exponent out of the driver's range"
  else .ok (charsToBytes (Model.SvgNum.fmtG (numVal s)))

/-- `spec.c05.holds in out` → `[validIn, validOut, equiv, hazard]` -/
def holdsH : Handler := fun args => do
  let i ← argChars args 0
  let o ← argChars args 1
  if !expsSmall i || !expsSmall o then .error "exponent out of the driver's range" else
  let pi := parse i
  let po := parse o
  let vi := match pi with | some cs => validCmds cs | none => false
  let vo := po.isSome
  let eq := match pi, po with
    | some ci, some co => equiv (absSegments co) (absSegments ci)
    | _, _ => false
  let hz := (match pi with | some ci => Spec.SvgHazard.hazards ci | none => []) ++
    (if Spec.SvgHazard.trailDot i then ["traildot"] else [])
  .ok (listReply [boolBytes vi, boolBytes vo, boolBytes eq, strBytes (",".intercalate hz)])

/-- `spec.c05.segs path` → normalised absolute segments, human readable (for finding reports) -/
def segsH : Handler := fun args => do
  let i ← argChars args 0
  if !expsSmall i then .error "exponent out of the driver's range" else
  match parse i with
  | some cs => .ok (strBytes (" ".intercalate ((norm (absSegments cs)).map segStr)))
  | none => .error "not path data"

/-- `spec.c05.lex path` → 1 iff the string lexes and parses as path data -/
def lexH : Handler := fun args => do
  let i ← argChars args 0
  .ok (boolBytes (parse i).isSome)

/-- `spec.c05.goodnum s` → 1 iff `s` satisfies the printed-number shape contract -/
def goodNumH : Handler := fun args => do
  let s ← argChars args 0
  .ok (boolBytes (Spec.SvgHazard.goodNum s))

/-- `spec.c05.guards path` → `[scanGuard, noHazard]`: the decidable guards of `path_geometry_partial` -/
def guardsH : Handler := fun args => do
  let i ← argChars args 0
  if !expsSmall i then .error "exponent out of the driver's range" else
  .ok (listReply [boolBytes (Model.SvgGuard.scanGuard i),
    boolBytes (Spec.SvgHazard.noHazard (Model.SvgGuard.mergeZ ((parse i).getD [])))])

def handlers : List (String × Handler) :=
  [("model.c05.shorten", shortenH), ("model.c05.number", numberH), ("model.c05.fmtg", fmtgH),
   ("spec.c05.holds", holdsH), ("spec.c05.segs", segsH), ("spec.c05.lex", lexH),
   ("spec.c05.goodnum", goodNumH), ("spec.c05.guards", guardsH)]

end Verif.Driver.C05

import Driver.Proto
import Verif.Model.JsNumber
import Verif.Spec.JsNumberSem
/-! driver handlers for the growth item C01N of property C01 (numeric literals; ops `model.c01n.*`, `spec.c01n.*`) -/
namespace Verif.Driver.C01N
open Verif Verif.Driver

namespace M
export Verif.Model.JsNumber (minifyNumLit printNumLit tokOf memberDot groupDot notLit falsyLit Tok)
export Verif.Model.JsNumber.JsNumberDec (number)
end M
namespace S
export Verif.Spec.JsNumberSem (isNumericLiteral isLegacyLike mathDec normDec sameValue isBigIntLit
  lexNumericAt isFalsyLit trigBigRadix)
end S

def cb (l : List Char) : Bytes := charsToBytes l

def optReply (o : Option (List Char)) : Bytes :=
  match o with
  | none => listReply [boolBytes false, []]
  | some t => listReply [boolBytes true, cb t]

def tokName : M.Tok → String
  | .decimal => "decimal" | .integer => "integer" | .binary => "binary"
  | .octal => "octal" | .hex => "hex" | .reject => "reject"

/-- `model.c01n.lit s` → `[accepted?, printed bytes, token type]` -/
def lit : Handler := fun args => do
  let s ← argChars args 0
  match M.minifyNumLit s with
  | none => .ok (listReply [boolBytes false, [], strBytes (tokName (M.tokOf s))])
  | some t => .ok (listReply [boolBytes true, cb t, strBytes (tokName (M.tokOf s))])

/-- `model.c01n.all s name` → five groups `ok,bytes` joined by `,`:
    literal, `s .name`, `(s).name`, `!s`, falsy flag (as `1`/`0` bytes) -/
def all : Handler := fun args => do
  let s ← argChars args 0
  let name ← argChars args 1
  let o (x : Option (List Char)) : List Bytes :=
    match x with | none => [boolBytes false, []] | some t => [boolBytes true, cb t]
  .ok (listReply (o (M.minifyNumLit s) ++ o (M.memberDot s name) ++ o (M.groupDot s name) ++ o (M.notLit s)
    ++ [boolBytes (M.falsyLit s)]))

/-- `model.c01n.number s` → the private copy of `minify.Number(s, 0)` -/
def number : Handler := fun args => do
  let s ← argChars args 0
  .ok (cb (M.number s))

/-- `spec.c01n.islit s` -/
def islit : Handler := fun args => do
  let s ← argChars args 0
  .ok (boolBytes (S.isNumericLiteral s))

def decBytes (d : Nat × Int) : Bytes := strBytes (toString d.1 ++ "e" ++ toString d.2)

/-- `spec.c01n.info s` → `[isLit, legacyLike, bigint, falsy, trigBigRadix, normalised value "m e"]` -/
def info : Handler := fun args => do
  let s ← argChars args 0
  .ok (listReply [boolBytes (S.isNumericLiteral s), boolBytes (S.isLegacyLike s), boolBytes (S.isBigIntLit s),
    boolBytes (S.isFalsyLit s), boolBytes (S.trigBigRadix s), decBytes (S.normDec (S.mathDec s))])

/-- `spec.c01n.value a b` → `[isLit a, isLit b, same mathematical value and type]` — the property itself
    on an (input literal, implementation output) pair -/
def value : Handler := fun args => do
  let a ← argChars args 0
  let b ← argChars args 1
  .ok (listReply [boolBytes (S.isNumericLiteral a), boolBytes (S.isNumericLiteral b), boolBytes (S.sameValue a b)])

/-- `spec.c01n.lexat src` → `[ok, literal, rest]`: the numeric literal at the start of `src` (maximal
    munch) and the continuation -/
def lexat : Handler := fun args => do
  let src ← argChars args 0
  match S.lexNumericAt src with
  | none => .ok (listReply [boolBytes false, [], []])
  | some (l, r) => .ok (listReply [boolBytes true, cb l, cb r])

def handlers : List (String × Handler) :=
  [("model.c01n.lit", lit), ("model.c01n.all", all), ("model.c01n.number", number),
   ("spec.c01n.islit", islit), ("spec.c01n.info", info), ("spec.c01n.value", value),
   ("spec.c01n.lexat", lexat)]

end Verif.Driver.C01N

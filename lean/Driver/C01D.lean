import Driver.Proto
import Verif.Model.JsHoist
import Verif.Spec.JsDeclSem
/-! driver handlers for the sub-check C01D of property C01 (declaration handling; ops `model.c01d.*`, `spec.c01d.*`)

Programs arrive in a prefix encoding (tokens separated by one space); an identifier occurrence is `name rid root decl`:
expressions `N n | U | V id | A id e | P id | L k f a… | B op a b | NOT e | TY e | C c a b | M k e… | G e`,
optional expression `O0 | O1 e`,
statements `E e | D kind k item… | IF c t e | BL k s… | FOR w init oc op k s… | R0 | R e | TH e |
TRY k s… id k s… | FN id np id… k s… | EM | AB`; a program is `k s…`. -/
namespace Verif.Driver.C01D
open Verif Verif.Driver Verif.Spec.JsDeclSem

def binOf : String → Option BinOp
  | "+" => some .add | "-" => some .sub | "<" => some .lt | "===" => some .seq
  | "&&" => some .land | "||" => some .lor
  | _ => none

def kindOf : String → Option DeclKind
  | "var" => some .var | "let" => some .let_ | "const" => some .const_ | "hoisted" => some .hoisted
  | _ => none

def parseId : List String → Option ((String × Ann) × List String)
  | x :: a :: b :: c :: r => do
    let rid ← a.toNat?
    let root ← b.toNat?
    let d ← c.toNat?
    pure ((x, ⟨rid, root, d⟩), r)
  | _ => none

mutual
partial def parseE : List String → Option (DE × List String)
  | "N" :: n :: r => n.toNat?.map (fun k => (.num k, r))
  | "U" :: r => some (.undef, r)
  | "V" :: r => do
    let (i, r) ← parseId r
    pure (.var i.1 i.2, r)
  | "A" :: r => do
    let (i, r) ← parseId r
    let (e, r) ← parseE r
    pure (.assign i.1 i.2 e, r)
  | "P" :: r => do
    let (i, r) ← parseId r
    pure (.postinc i.1 i.2, r)
  | "L" :: k :: r => do
    let n ← k.toNat?
    let (f, r) ← parseE r
    let (l, r) ← parseEs n r
    pure (.call f l, r)
  | "B" :: op :: r => do
    let o ← binOf op
    let (x, r) ← parseE r
    let (y, r) ← parseE r
    pure (.bin o x y, r)
  | "NOT" :: r => do
    let (x, r) ← parseE r
    pure (.not x, r)
  | "TY" :: r => do
    let (x, r) ← parseE r
    pure (.typeof x, r)
  | "C" :: r => do
    let (c, r) ← parseE r
    let (x, r) ← parseE r
    let (y, r) ← parseE r
    pure (.cond c x y, r)
  | "M" :: k :: r => do
    let n ← k.toNat?
    let (l, r) ← parseEs n r
    pure (.comma l, r)
  | "G" :: r => do
    let (x, r) ← parseE r
    pure (.group x, r)
  | _ => none
partial def parseEs : Nat → List String → Option (List DE × List String)
  | 0, r => some ([], r)
  | n + 1, r => do
    let (x, r) ← parseE r
    let (l, r) ← parseEs n r
    pure (x :: l, r)
end

def parseOE : List String → Option (Option DE × List String)
  | "O0" :: r => some (none, r)
  | "O1" :: r => (parseE r).map (fun (e, r) => (some e, r))
  | _ => none

def parseIds : Nat → List String → Option (List (String × Ann) × List String)
  | 0, r => some ([], r)
  | n + 1, r => do
    let (i, r) ← parseId r
    let (l, r) ← parseIds n r
    pure (i :: l, r)

mutual
partial def parseS : List String → Option (DS × List String)
  | "E" :: r => do
    let (e, r) ← parseE r
    pure (.expr e, r)
  | "D" :: kind :: k :: r => do
    let kd ← kindOf kind
    let n ← k.toNat?
    let (l, r) ← parseEs n r
    pure (.decl kd l, r)
  | "IF" :: r => do
    let (c, r) ← parseE r
    let (t, r) ← parseS r
    let (e, r) ← parseS r
    pure (.ifS c t e, r)
  | "BL" :: k :: r => do
    let n ← k.toNat?
    let (l, r) ← parseSs n r
    pure (.block l, r)
  | "FOR" :: w :: r => do
    let (i, r) ← parseS r
    let (c, r) ← parseOE r
    let (p, r) ← parseOE r
    match r with
    | k :: r => do
      let n ← k.toNat?
      let (l, r) ← parseSs n r
      pure (.forS (w == "1") i c p l, r)
    | [] => none
  | "R0" :: r => some (.ret none, r)
  | "R" :: r => do
    let (e, r) ← parseE r
    pure (.ret (some e), r)
  | "TH" :: r => do
    let (e, r) ← parseE r
    pure (.throw e, r)
  | "TRY" :: k :: r => do
    let n ← k.toNat?
    let (b, r) ← parseSs n r
    let (i, r) ← parseId r
    match r with
    | k2 :: r => do
      let n2 ← k2.toNat?
      let (cb, r) ← parseSs n2 r
      pure (.tryS b i.1 i.2 cb, r)
    | [] => none
  | "FN" :: r => do
    let (i, r) ← parseId r
    match r with
    | np :: r => do
      let n ← np.toNat?
      let (ps, r) ← parseIds n r
      match r with
      | k :: r => do
        let m ← k.toNat?
        let (l, r) ← parseSs m r
        pure (.fn i.1 i.2 ps l, r)
      | [] => none
    | [] => none
  | "EM" :: r => some (.empty, r)
  | "AB" :: r => some (.absent, r)
  | _ => none
partial def parseSs : Nat → List String → Option (List DS × List String)
  | 0, r => some ([], r)
  | n + 1, r => do
    let (x, r) ← parseS r
    let (l, r) ← parseSs n r
    pure (x :: l, r)
end

def parseProg (b : Bytes) : Except String (List DS) :=
  let toks := ((String.ofList (bytesToChars b)).splitOn " ").filter (· ≠ "")
  match toks with
  | k :: r =>
    match k.toNat? with
    | some n =>
      match parseSs n r with
      | some (l, []) => .ok l
      | _ => .error "bad program encoding"
    | none => .error "bad program encoding"
  | [] => .error "empty program"

/-- `model.c01d.min <prog>` → output bytes, `!unmodelled` when outside the fragment -/
def minH : Handler := fun args => do
  let b ← argBytes args 0
  let prog ← parseProg b
  if !Verif.Model.JsHoist.hoistConsistentAll prog then .error "hoistBody and the store disagree" else
  match Verif.Model.JsHoist.jsMinify prog with
  | some cs => .ok (charsToBytes cs)
  | none => .error "unmodelled"

/-! ### the semantics on a concrete host -/

/-- host script: the i-th host call returns (`v<n>`, `u`) or throws (`t<n>`) item `i mod len` -/
def scriptVal (s : String) : Except Val Val :=
  match s.toList with
  | 'v' :: r => .ok (.num ((String.ofList r).toInt?.getD 0))
  | 't' :: r => .error (.num ((String.ofList r).toInt?.getD 0))
  | _ => .ok .undef

def scriptHost (script : List String) : Host :=
  ⟨fun t => if script.isEmpty then .ok .undef else scriptVal (script.getD ((t.length - 1) % script.length) "u")⟩

def hostNames : List String := ["g", "h"]

def initGlobal : Scope := fun x => if hostNames.contains x then some ⟨some (.host x), false⟩ else none

def showEv (e : Ev) : String := e.f ++ "(" ++ ",".intercalate e.args ++ ")"

def showBinding (h : List Scope) (ids : List Nat) (x : String) : String :=
  match findScope h ids x with
  | none => x ++ "=<none>"
  | some id =>
    match getB h id x with
    | some ⟨some v, _⟩ => x ++ "=" ++ v.shw
    | _ => x ++ "=<none>"   -- an uninitialised binding cannot be told from an absent one by a later script (V8)

def showOut (names : List String) (lexId : Nat) (o : Out Compl) : String :=
  match o with
  | .stuck w => "stuck:" ++ w
  | .ok c s =>
    "trace=" ++ ";".intercalate (s.trace.map showEv) ++ "|completion=" ++
      (match c with | .normal => "normal" | .ret v => "return:" ++ v.shw) ++
      "|globals=" ++ ";".intercalate (names.map (showBinding s.heap [lexId, 0]))
  | .thr v s =>
    "trace=" ++ ";".intercalate (s.trace.map showEv) ++ "|completion=throw:" ++ v.shw ++
      "|globals=" ++ ";".intercalate (names.map (showBinding s.heap [lexId, 0]))

/-- `spec.c01d.run <prog> <script items> <depth> <names>` → the observation of a run: `syntax`, `stuck:…`, or
    `trace=…|completion=…|globals=…` -/
def runH : Handler := fun args => do
  let b ← argBytes args 0
  let prog ← parseProg b
  let script ← argList args 1
  let depth ← argNat args 2
  let names ← argList args 3
  let sc := script.map (fun x => String.ofList (bytesToChars x))
  let ns := names.map (fun x => String.ofList (bytesToChars x))
  let s0 : St := ⟨[initGlobal], []⟩
  match runProg (scriptHost sc) depth prog s0 with
  | .syntaxError => .ok (strBytes "syntax")
  | .unsupported => .ok (strBytes "stuck:unsupported")
  | .done o => .ok (strBytes (showOut ns 1 o))

/-- `trig.c01d.known <prog>` → id of the open known finding whose guard the program satisfies, `-` if none -/
def trigH : Handler := fun args => do
  let b ← argBytes args 0
  let prog ← parseProg b
  .ok (strBytes (Verif.Model.JsHoist.knownTrigger prog))

/-- `model.c01d.facts` → the side conditions read from the source (`Gen/JsHoistFacts.lean`) as `0`/`1` characters:
    mergeChecksOwnFunction, isShadowedKnowsWhile, catchKeepsAssignedByVar, endsInIfOptimizesLoops -/
def factsH : Handler := fun _ =>
  .ok (boolBytes Verif.Gen.JsHoistFacts.mergeChecksOwnFunction ++ boolBytes Verif.Gen.JsHoistFacts.isShadowedKnowsWhile
    ++ boolBytes Verif.Gen.JsHoistFacts.catchKeepsAssignedByVar ++ boolBytes Verif.Gen.JsHoistFacts.endsInIfOptimizesLoops
    ++ boolBytes Verif.Gen.JsHoistFacts.emptyDeclBodyWritesSemicolon)

def handlers : List (String × Handler) :=
  [("model.c01d.min", minH), ("spec.c01d.run", runH), ("trig.c01d.known", trigH), ("model.c01d.facts", factsH)]

end Verif.Driver.C01D

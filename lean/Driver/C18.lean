import Driver.Proto
import Verif.Model.DataURI
import Verif.Spec.Rfc2397
/-! driver handlers for property C18 (ops `model.*`, `spec.*`, `trig.*`) -/
namespace Verif.Driver.C18
open Verif Verif.Driver

namespace M
export Verif.Model.DataURI (dataURI parseDataURI mediatype b64enc b64dec encodeURL decodeURL tbl)
end M
namespace S
export Verif.Spec.Rfc2397 (rfcParse mtNorm holdsDataURI specMediatype specMediatypeOK quotesClosed
  trigPlus trigParamNoType trigB64Item pctDecode b64Decode validlyEncoded)
end S

def cb (l : List Char) : Bytes := charsToBytes l

def normBytes (n : List Char × List (List Char)) : Bytes :=
  cb (n.1 ++ (n.2.map (fun p => ';' :: p)).flatten)

/-- `model.c18.datauri u hasSub subOut` → `[out, parsed?, mediatype, data]`
    (`sub` answers `subOut` whatever it is asked, or `none` when `hasSub = 0`) -/
def datauri : Handler := fun args => do
  let u ← argChars args 0
  let hasSub ← argBool args 1
  let subOut ← argChars args 2
  let sub : List Char → List Char → Option (List Char) := fun _ _ => if hasSub then some subOut else none
  let out := M.dataURI sub u
  match M.parseDataURI u with
  | none => .ok (listReply [cb out, boolBytes false, [], []])
  | some (mt, d) => .ok (listReply [cb out, boolBytes true, cb mt, cb d])

/-- `spec.c18.rfc u` → `[ok, media type text, normal form, data, trigPlus trigParamNoType trigB64Item,
    validly encoded?]` -/
def rfc : Handler := fun args => do
  let u ← argChars args 0
  let tr : Bytes := boolBytes (S.trigPlus u) ++ boolBytes (S.trigParamNoType u) ++ boolBytes (S.trigB64Item u)
  match S.rfcParse u with
  | none => .ok (listReply [boolBytes false, [], [], [], tr, boolBytes false])
  | some (mt, d) => .ok (listReply [boolBytes true, cb mt, normBytes (S.mtNorm mt), cb d, tr,
      boolBytes (S.validlyEncoded M.tbl u)])

/-- `spec.c18.holds u out d'` → the property on an (input, implementation output) pair -/
def holds : Handler := fun args => do
  let u ← argChars args 0
  let out ← argChars args 1
  let d ← argChars args 2
  .ok (boolBytes (S.holdsDataURI u out d))

/-- `model.c18.mediatype b` -/
def mediatype : Handler := fun args => do
  let b ← argChars args 0
  .ok (cb (M.mediatype b))

/-- `spec.c18.mediatype b out` → `[specMediatype b, out allowed?, quotes closed?]` -/
def specMt : Handler := fun args => do
  let b ← argChars args 0
  let out ← argChars args 1
  .ok (listReply [cb (S.specMediatype b), boolBytes (S.specMediatypeOK 0 b out), boolBytes (S.quotesClosed b)])

def optReply (o : Option (List Char)) : Bytes :=
  match o with
  | some d => listReply [boolBytes true, cb d]
  | none => listReply [boolBytes false, []]

/-- contracts of the dependency functions, one op each -/
def b64enc : Handler := fun args => do let b ← argChars args 0; .ok (cb (M.b64enc b))
def b64dec : Handler := fun args => do let b ← argChars args 0; .ok (optReply (M.b64dec b))
def encurl : Handler := fun args => do let b ← argChars args 0; .ok (cb (M.encodeURL M.tbl b))
def decurl : Handler := fun args => do let b ← argChars args 0; .ok (cb (M.decodeURL b))
def parse : Handler := fun args => do
  let u ← argChars args 0
  match M.parseDataURI u with
  | none => .ok (listReply [boolBytes false, [], []])
  | some (mt, d) => .ok (listReply [boolBytes true, cb mt, cb d])
def specPct : Handler := fun args => do let b ← argChars args 0; .ok (cb (S.pctDecode b))
def specB64 : Handler := fun args => do let b ← argChars args 0; .ok (optReply (S.b64Decode b))

def handlers : List (String × Handler) := [
  ("model.c18.datauri", datauri), ("model.c18.mediatype", mediatype), ("model.c18.parse", parse),
  ("model.c18.b64enc", b64enc), ("model.c18.b64dec", b64dec), ("model.c18.encurl", encurl),
  ("model.c18.decurl", decurl),
  ("spec.c18.rfc", rfc), ("spec.c18.holds", holds), ("spec.c18.mediatype", specMt),
  ("spec.c18.pct", specPct), ("spec.c18.b64", specB64)]

end Verif.Driver.C18

import Driver.Proto
/-! driver handlers for property C18 (ops `model.*`, `spec.*`, `trig.*`) -/
namespace Verif.Driver.C18
open Verif Verif.Driver

def handlers : List (String × Handler) := []

end Verif.Driver.C18

import Driver.Proto
import Driver.C09Xml
import Driver.C09Css
import Driver.C09Html
import Driver.C09Js
/-! driver handlers for property C09 (ops `model.*`, `spec.*`, `trig.*`) -/
namespace Verif.Driver.C09
open Verif Verif.Driver

def handlers : List (String × Handler) := C09Xml.handlers ++ C09Css.handlers ++ C09Html.handlers ++ C09Js.handlers

end Verif.Driver.C09

import Driver.Proto
import Driver.C09Js
/-! driver handlers for property C09 (ops `model.*`, `spec.*`, `trig.*`) -/
namespace Verif.Driver.C09
open Verif Verif.Driver

def handlers : List (String × Handler) := [] ++ C09Js.handlers

end Verif.Driver.C09

import Driver.Proto
/-! driver handlers for property C09 (ops `model.*`, `spec.*`, `trig.*`) -/
namespace Verif.Driver.C09
open Verif Verif.Driver

def handlers : List (String × Handler) := []

end Verif.Driver.C09

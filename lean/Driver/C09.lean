import Driver.Proto
import Driver.C09Html
/-! driver handlers for property C09 (ops `model.*`, `spec.*`, `trig.*`) -/
namespace Verif.Driver.C09
open Verif Verif.Driver

def handlers : List (String × Handler) := [] ++ C09Html.handlers

end Verif.Driver.C09

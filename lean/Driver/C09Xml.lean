import Driver.Proto
import Driver.C06
import Verif.Spec.C09XmlLex
import Verif.Model.C09SvgText
import Verif.Model.Xml
/-! driver handlers for the XML/SVG slice of C09 (ops `spec.c09.xml.*`) -/
namespace Verif.Driver.C09Xml
open Verif Verif.Driver
open Verif.Xml (XTok)
open Verif.Spec.C09XmlLex

def natB (n : Nat) : Bytes := strBytes (toString n)

/-- a token as four items `kind, Data, Text, AttrVal` (numbering of `Driver.C06.decodeTok`) -/
def encodeTok (t : XTok) : List Bytes :=
  let b := charsToBytes
  match t with
  | .comment d => [natB 1, b d, [], []]
  | .doctype d => [natB 2, b d, [], []]
  | .cdata d t => [natB 3, b d, b t, []]
  | .startTag n => [natB 4, b ('<' :: n), b n, []]
  | .startTagPI n => [natB 5, b ('<' :: '?' :: n), b n, []]
  | .startTagClose => [natB 6, b ['>'], [], []]
  | .startTagCloseVoid => [natB 7, b ['/', '>'], [], []]
  | .startTagClosePI => [natB 8, b ['?', '>'], [], []]
  | .endTag d n => [natB 9, b d, b n, []]
  | .attr n v => [natB 10, [], b n, b v]
  | .text d => [natB 11, b d, [], []]
  | .attrBare d n => [natB 12, b d, b n, []]

/-- `spec.c09.xml.tokens bytes` → `0` when the independent tokeniser rejects the bytes, else `1` followed by four
items per token -/
def tokens : Handler := fun args => do
  let s ← argChars args 0
  match xmlTokens s with
  | none => .ok (listReply [natB 0])
  | some ts => .ok (listReply (natB 1 :: ts.flatMap encodeTok))

/-- `spec.c09.xml.cmp keepWhitespace inputBytes outputBytes` → failing clauses of `compareDocs` -/
def cmp : Handler := fun args => do
  let keep ← argBool args 0
  let i ← argChars args 1
  let o ← argChars args 2
  .ok (listReply ((compareDocs keep i o).map strBytes))

/-- `spec.c09.xml.contract tokens` (tokens of the REAL lexer) → which parts of the hypotheses of the C09 theorems
fail for them: `lexok` (lexer contract), `wf` (Boolean token well-formedness) -/
def contract : Handler := fun args => do
  let ts ← Verif.Driver.C06.argToks args 0
  let r := (if lexOk .content ts then [] else ["lexok"]) ++
    (if Spec.Xml.wfToks ts then [] else ["wf"])
  .ok (listReply (r.map strBytes))

def normAttrWs : XTok → XTok
  | .attr n v => .attr n (v.map (fun c => if Spec.Xml.isS c then ' ' else c))
  | t => t

def piTargets : List XTok → List (List Char)
  | .startTagPI n :: r => n :: piTargets r
  | _ :: r => piTargets r
  | [] => []

/-- `spec.c09.xml.agree bytes tokens`: the independent tokeniser reads `bytes` as the reader's view of `tokens`
(the REAL lexer's tokens of the same bytes), compared outside PI data and up to the lexer's replacement of
TAB/LF/CR in attribute values: `1` agree, `0` differ, `n` the tokeniser rejects the bytes -/
def agree : Handler := fun args => do
  let s ← argChars args 0
  let ts ← Verif.Driver.C06.argToks args 1
  match xmlTokens s with
  | none => .ok (strBytes "n")
  | some mine =>
    let a := (dropPi false mine).map normAttrWs
    let b := (dropPi false (view ts)).map normAttrWs
    .ok (strBytes (if a == b && piTargets mine == piTargets ts then "1" else "0"))

/-- `model.c09.xml.pass keepWhitespace bytes` → `1` followed by the bytes the model of `xml.Minify` writes for the tokens
the independent tokeniser reads from `bytes` (TAB, LF, CR inside attribute values replaced by spaces first, as the
dependency lexer does), or `0` when the tokeniser rejects the bytes -/
def pass : Handler := fun args => do
  let keep ← argBool args 0
  let s ← argChars args 1
  match xmlTokens s with
  | none => .ok (listReply [natB 0])
  | some ts => .ok (listReply [natB 1, charsToBytes (Model.Xml.xmlMinify { keepWhitespace := keep } (ts.map normAttrWs))])

/-- `model.c09.xml.svgtext n data` → bytes written by the `TextToken` branch of svg.go (outside `style`) -/
def svgtext : Handler := fun args => do
  let n ← argNat args 0
  let d ← argChars args 1
  .ok (charsToBytes (Model.C09SvgText.svgTextData n d))

/-- `model.c09.xml.svgcdata n data text` → bytes written by the `CDATAToken` branch of svg.go (outside `style`) -/
def svgcdata : Handler := fun args => do
  let n ← argNat args 0
  let d ← argChars args 1
  let t ← argChars args 2
  .ok (charsToBytes (Model.C09SvgText.svgCData false (fun _ => none) n d t))

/-- `model.c09.xml.svgattr body` → bytes written for a quoted attribute value with content `body` that is not rewritten -/
def svgattr : Handler := fun args => do
  let b ← argChars args 0
  .ok (charsToBytes (Model.C09SvgText.svgAttrWrite (Model.C09SvgText.svgAttrPre b)))

/-- `model.c09.xml.svgstyletext n data m` → bytes written by the `TextToken` branch inside `style` when the sub-minifier
returns `m` for the data it is given -/
def svgstyletext : Handler := fun args => do
  let n ← argNat args 0
  let d ← argChars args 1
  let m ← argChars args 2
  .ok (charsToBytes (Model.C09SvgText.svgText true (fun _ => some m) n d))

/-- `model.c09.xml.svgstylecdata n data text m` → bytes written by the `CDATAToken` branch inside `style` -/
def svgstylecdata : Handler := fun args => do
  let n ← argNat args 0
  let d ← argChars args 1
  let t ← argChars args 2
  let m ← argChars args 3
  .ok (charsToBytes (Model.C09SvgText.svgCData true (fun _ => some m) n d t))

/-- `model.c09.xml.svgstyleattr body m` → bytes written for a quoted `style` attribute value -/
def svgstyleattr : Handler := fun args => do
  let b ← argChars args 0
  let m ← argChars args 1
  .ok (charsToBytes (Model.C09SvgText.svgStyleAttr (fun _ => some m) b))

def handlers : List (String × Handler) :=
  [("spec.c09.xml.tokens", tokens), ("spec.c09.xml.cmp", cmp), ("spec.c09.xml.contract", contract),
   ("spec.c09.xml.agree", agree), ("model.c09.xml.svgtext", svgtext), ("model.c09.xml.svgcdata", svgcdata),
   ("model.c09.xml.svgattr", svgattr), ("model.c09.xml.pass", pass),
   ("model.c09.xml.svgstyletext", svgstyletext), ("model.c09.xml.svgstylecdata", svgstylecdata),
   ("model.c09.xml.svgstyleattr", svgstyleattr)]

end Verif.Driver.C09Xml

import Driver.Proto
import Verif.Model.Xml
import Verif.Spec.Xml
/-! driver handlers for property C06 (ops `model.*`, `spec.*`, `trig.*`) -/
namespace Verif.Driver.C06
open Verif Verif.Driver Verif.Model.Xml
open Verif.Xml (XTok)

/-- one token = group `[kind, Data, Text, AttrVal]`, kind = decimal `xml.TokenType` of the dependency (12 = attribute token whose AttrVal is nil) -/
def decodeTok (g : List Bytes) : Except String XTok :=
  match g with
  | [kind, data, text, av] =>
    let d := bytesToChars data
    let t := bytesToChars text
    let v := bytesToChars av
    match parseIntChars (bytesToChars kind) with
    | some 1 => .ok (.comment d)
    | some 2 => .ok (.doctype d)
    | some 3 => .ok (.cdata d t)
    | some 4 => .ok (.startTag t)
    | some 5 => .ok (.startTagPI t)
    | some 6 => .ok .startTagClose
    | some 7 => .ok .startTagCloseVoid
    | some 8 => .ok .startTagClosePI
    | some 9 => .ok (.endTag d t)
    | some 10 => .ok (.attr t v)
    | some 11 => .ok (.text d)
    | some 12 => .ok (.attrBare d t)
    | _ => .error "bad token kind"
  | _ => .error "bad token group"

def argToks (args : List String) (i : Nat) : Except String (List XTok) := do
  let gs ← argGroups args i
  gs.mapM decodeTok

/-- `model.c06.minify keepWhitespace tokens` → output bytes of the model -/
def minify : Handler := fun args => do
  let keep ← argBool args 0
  let ts ← argToks args 1
  .ok (charsToBytes (xmlMinify { keepWhitespace := keep } ts))

/-- `trig.c06 keepWhitespace tokens` → names of the known-finding triggers that hold for the input -/
def trig : Handler := fun args => do
  let keep ← argBool args 0
  let ts ← argToks args 1
  .ok (listReply ((Spec.Xml.triggers keep ts).map strBytes))

/-- `spec.c06.holds keepWhitespace inputTokens outputTokens` → failing clauses of the property (empty = holds) -/
def holds : Handler := fun args => do
  let keep ← argBool args 0
  let i ← argToks args 1
  let o ← argToks args 2
  .ok (listReply ((Spec.Xml.holds keep i o).map strBytes))

def handlers : List (String × Handler) :=
  [("model.c06.minify", minify), ("trig.c06", trig), ("spec.c06.holds", holds)]

end Verif.Driver.C06

import Driver.Proto
/-! driver handlers for property C06 (ops `model.*`, `spec.*`, `trig.*`) -/
namespace Verif.Driver.C06
open Verif Verif.Driver

def handlers : List (String × Handler) := []

end Verif.Driver.C06

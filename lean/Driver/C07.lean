import Driver.Proto
import Verif.Model.Json
/-! driver handlers for property C07 (ops `model.c07.*`, `spec.c07.*`, `trig.c07.*`)

The number shortener `minify.Number` is **not** modelled here: the harness sends, for every number
lexeme of the text, the result of the real `minify.Number(lexeme, precision)`; `num` is the lookup in
that table.  So the JSON model is tied independently of the `Number` model (C08). -/
namespace Verif.Driver.C07
open Verif Verif.Driver Verif.Spec.Json Verif.Model.Json

/-- `num` from the alternating list lexeme₁, result₁, lexeme₂, result₂, … -/
def numTable : List Bytes → List (List Char × List Char)
  | a :: b :: r => (bytesToChars a, bytesToChars b) :: numTable r
  | _ => []

def numOf (tbl : List (List Char × List Char)) : List Char → Int → List Char :=
  fun s _ => match tbl.lookup s with
    | some r => r
    | none => "!no-number-result!".toList

def evReply (e : Ev) : Bytes :=
  (48 + e.1.code).toUInt8 :: (48 + e.2.1.code).toUInt8 :: charsToBytes e.2.2

/-- `model.c07.events text` → one item per event: state digit, grammar digit, text -/
def opEvents : Handler := fun args => do
  let t ← argChars args 0
  match parseJ t with
  | none => .error "invalid"
  | some v => .ok (listReply ((events .value v).map evReply))

/-- `model.c07.minify text keepNumbers precision table` → output bytes -/
def opMinify : Handler := fun args => do
  let t ← argChars args 0
  let keep ← argBool args 1
  let prec ← argInt args 2
  let tbl ← argList args 3
  match minifyText { precision := prec, keepNumbers := keep } (numOf (numTable tbl)) t with
  | none => .error "invalid"
  | some out => .ok (charsToBytes out)

/-- the exponent of a number lexeme is small enough for `numVal` to be evaluated (at most 4 significant
    exponent digits); other lexemes are compared by the harness' exact decimal oracle only -/
def expSmall (s : List Char) : Bool :=
  match s.dropWhile (fun c => !isE c) with
  | [] => true
  | _ :: t => ((expBody t).dropWhile (· == '0')).length ≤ 4

/-- `spec.c07.holds input output keepNumbers mode` — the property itself, evaluated with the
    specification side only (`parseJ`, `jvEq`, lengths) on the implementation's output.
    mode 0: numbers compared by value (`jvEq`); mode 1: shape only (`jvShapeEq`; precision > 0 or
    exponents too large to evaluate).  Reply: `ok`, or the first failing clause. -/
def opHolds : Handler := fun args => do
  let i ← argChars args 0
  let o ← argChars args 1
  let keep ← argBool args 2
  let mode ← argNat args 3
  match parseJ i with
  | none => .ok (strBytes "invalid-input")
  | some v =>
    match parseJ o with
    | none => .ok (strBytes "invalid-output")
    | some v' =>
      let big := countNum (fun s => !expSmall s) v + countNum (fun s => !expSmall s) v' > 0
      if !(if mode == 0 && !big then jvEq v v' else jvShapeEq v v') then .ok (strBytes "value")
      else if keep && compact v != compact v' then .ok (strBytes "keepnumbers")
      else if o.length ≤ i.length then .ok (strBytes "ok")
      else .ok (strBytes "length")

/-- `spec.c07.numHyp lexeme numberResult precision` — the hypotheses of the theorems on `num`
    (`NumGrammar`, `NumDotShrinks`, `NumValue`) evaluated on one result of the real `minify.Number`.
    Reply `ok` or the name of the first hypothesis that fails. -/
def opNumHyp : Handler := fun args => do
  let s ← argChars args 0
  let r ← argChars args 1
  let p ← argInt args 2
  if !isJsonNumber s then .ok (strBytes "not-a-json-number")
  else if !isMinNumber r then .ok (strBytes "NumGrammar(grammar)")
  else if r.length > s.length then .ok (strBytes "NumGrammar(length)")
  else if !hasExp s && startsDot r && r.length ≥ s.length then .ok (strBytes "NumDotShrinks")
  else if p ≤ 0 && expSmall s && expSmall r && numVal r != numVal s then .ok (strBytes "NumValue")
  else .ok (strBytes "ok")

/-- `spec.c07.isNumber lexeme` / `spec.c07.isString lexeme` -/
def opIsNumber : Handler := fun args => do
  let s ← argChars args 0
  .ok (boolBytes (isJsonNumber s))
def opIsString : Handler := fun args => do
  let s ← argChars args 0
  .ok (boolBytes (isJsonString s))

/-- `spec.c07.compact text` → `compact (parseJ text)` (whitespace removal only) -/
def opCompact : Handler := fun args => do
  let t ← argChars args 0
  match parseJ t with
  | none => .error "invalid"
  | some v => .ok (charsToBytes (compact v))

def handlers : List (String × Handler) :=
  [("model.c07.events", opEvents), ("model.c07.minify", opMinify), ("spec.c07.holds", opHolds),
   ("spec.c07.numHyp", opNumHyp), ("spec.c07.isNumber", opIsNumber), ("spec.c07.isString", opIsString),
   ("spec.c07.compact", opCompact)]

end Verif.Driver.C07

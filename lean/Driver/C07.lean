import Driver.Proto
/-! driver handlers for property C07 (ops `model.*`, `spec.*`, `trig.*`) -/
namespace Verif.Driver.C07
open Verif Verif.Driver

def handlers : List (String × Handler) := []

end Verif.Driver.C07

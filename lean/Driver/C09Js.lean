import Driver.Proto
import Verif.Spec.C09JsLex
/-! driver handlers for property C09, JavaScript slice (ops `spec.c09.js.*`, `model.c09.js.*`) -/
namespace Verif.Driver.C09Js
open Verif Verif.Driver Verif.Spec.C09JsLex

def kindByte : Kind → UInt8
  | .name => 'n'.toNat.toUInt8 | .priv => 'h'.toNat.toUInt8 | .num => 'd'.toNat.toUInt8
  | .str => 's'.toNat.toUInt8 | .tmpl => 't'.toNat.toUInt8 | .regex => 'r'.toNat.toUInt8
  | .punct => 'p'.toNat.toUInt8

def tokBytes (t : Token) : Bytes :=
  kindByte t.kind :: (if t.nl then 49 else 48) :: charsToBytes t.text

/-- `spec.c09.js.lex <bytes>` → the tokens of the independent lexer, each as `kind nl text` (kind one of
    `n h d s t r p`, nl `0|1`); an error reply with the number of tokens read and the unread rest otherwise -/
def lexH : Handler := fun args => do
  let cs ← argChars args 0
  match lex cs with
  | some ts => .ok (listReply (ts.map tokBytes))
  | none =>
    match lexDiag (cs.length + 1) {} true cs 0 with
    | .error (n, rest) => .error s!"not lexable after {n} tokens at: {String.ofList (rest.take 40)}"
    | .ok _ => .error "not lexable"

def handlers : List (String × Handler) := [("spec.c09.js.lex", lexH)]

end Verif.Driver.C09Js

import Driver.Proto
import Verif.Spec.C09JsLex
import Verif.Model.C09JsWriter
import Verif.Spec.C09JsStr
import Verif.Model.JsStmt
import Verif.Proofs.C09JsSep
import Verif.Proofs.C09JsStmt
import Driver.C01
/-! driver handlers for property C09, JavaScript slice (ops `spec.c09.js.*`, `model.c09.js.*`) -/
namespace Verif.Driver.C09Js
open Verif Verif.Driver Verif.Spec.C09JsLex

def kindByte : Kind → UInt8
  | .name => 'n'.toNat.toUInt8 | .priv => 'h'.toNat.toUInt8 | .num => 'd'.toNat.toUInt8
  | .str => 's'.toNat.toUInt8 | .tmpl => 't'.toNat.toUInt8 | .regex => 'r'.toNat.toUInt8
  | .punct => 'p'.toNat.toUInt8

def tokBytes (t : Token) : Bytes :=
  kindByte t.kind :: (if t.nl then 49 else 48) :: charsToBytes t.text

/-- `spec.c09.js.lex <bytes>` → the tokens of the independent lexer, each as `kind nl text` (kind one of
    `n h d s t r p`, nl `0|1`); an error reply with the number of tokens read and the unread rest otherwise -/
def lexH : Handler := fun args => do
  let cs ← argChars args 0
  match lex cs with
  | some ts => .ok (listReply (ts.map tokBytes))
  | none =>
    match lexDiag (cs.length + 1) {} true cs 0 with
    | .error (n, rest) => .error s!"not lexable after {n} tokens at: {String.ofList ((rest.take 40).map (fun c => if c.toNat < 32 || 126 < c.toNat then '.' else c))}"
    | .ok _ => .error "not lexable"

def kindOfByte (b : UInt8) : Option Verif.Model.C09JsWriter.XKind :=
  let c := Char.ofNat b.toNat
  if c == 'n' then some (.tok .name) else if c == 'h' then some (.tok .priv) else if c == 'd' then some (.tok .num)
  else if c == 's' then some (.tok .str) else if c == 't' then some (.tok .tmpl) else if c == 'r' then some (.tok .regex)
  else if c == 'p' then some (.tok .punct) else if c == 'c' then some .comment else none

/-- `model.c09.js.emit <list of tokens: kind byte followed by the text>` → the bytes the writer model produces -/
def emitH : Handler := fun args => do
  let items ← argList args 0
  let toks ← items.mapM (fun (it : Bytes) =>
    match it with
    | k :: text =>
      match kindOfByte k with
      | some kd => .ok (⟨kd, bytesToChars text⟩ : Verif.Model.C09JsWriter.XTok)
      | none => .error "bad token kind"
    | [] => .error "empty token")
  .ok (charsToBytes (Verif.Model.C09JsWriter.emitX toks))

/-- `spec.c09.js.strval <literal>` → the value of the string literal / template without substitutions as bytes -/
def strvalH : Handler := fun args => do
  let cs ← argChars args 0
  match Verif.Spec.C09JsStr.strValue cs with
  | some v => .ok (v.map (fun n => UInt8.ofNat n))
  | none => .error "not a well-formed literal"

/-- `spec.c09.js.strok <input literal> <output literal>` → `1` iff same value, no `</script`, no new `<!--` -/
def strokH : Handler := fun args => do
  let a ← argChars args 0
  let b ← argChars args 1
  .ok (boolBytes (Verif.Spec.C09JsStr.strOutOk a b))

/-- `model.c09.js.stmt <ver2020> <prog>` (program encoding of `Driver.C01`) → `[hyp, relex, bytes, guard]`: the tokens of the
    C01 statement printer model `jsTokens`; `hyp`: they satisfy the four hypotheses of `js_token_sep`; `relex`: the
    independent lexer reads the written bytes back as exactly these tokens; `guard`: the guarded printer `jsTokensG` of
    the theorem `js_print_relex_partial` is defined (and then equal to the model) -/
def stmtH : Handler := fun args => do
  let v ← argBool args 0
  let b ← argBytes args 1
  let prog ← Verif.Driver.C01.parseProg b
  match Verif.Model.JsStmt.jsTokens { ver2020 := v } prog with
  | none => .error "unmodelled"
  | some ts =>
    let hyp := ts.all Verif.Proofs.C09JsSep.tokOk && Verif.Proofs.C09JsSep.adjChain ts
      && Verif.Proofs.C09JsSep.headOk ts && Verif.Proofs.C09JsSep.goalsOk {} true ts
    let out := Verif.Model.JsPrint.emit ts
    let rl := lex out == some (Verif.Proofs.C09JsSep.lexToks true ts)
    let guard := (Verif.Proofs.C09JsStmt.jsTokensG { ver2020 := v } prog) == some ts
    .ok (listReply [boolBytes hyp, boolBytes rl, charsToBytes out, boolBytes guard])

def handlers : List (String × Handler) :=
  [("spec.c09.js.lex", lexH), ("model.c09.js.stmt", stmtH), ("model.c09.js.emit", emitH), ("spec.c09.js.strval", strvalH),
   ("spec.c09.js.strok", strokH)]

end Verif.Driver.C09Js

import Driver.Proto
import Verif.Spec.JsStringSem
import Verif.Model.JsString
/-! driver handlers for C01E — JS string literal rewriting (growth item E of C01): ops `spec.c01e.*`, `model.c01e.*` -/
namespace Verif.Driver.C01E
open Verif Verif.Driver

namespace S
export Verif.Spec.JsStringSem (decodeLit hasScriptEnd)
end S
namespace M
export Verif.Model.JsString (minifyString templateLit chooseQuote)
end M

def toNats (b : Bytes) : List Nat := b.map (·.toNat)
def ofNats (l : List Nat) : Bytes := l.map UInt8.ofNat

/-- reply of a decoder: `N` (not a literal) or `S` followed by the code units in decimal, `,`-separated -/
def unitsReply (o : Option (List Nat)) : Bytes :=
  match o with
  | none => strBytes "N"
  | some us => strBytes ("S" ++ ",".intercalate (us.map toString))

/-- `spec.c01e.decode strict lit` → string value of the literal (UTF-16 code units) -/
def decode : Handler := fun args => do
  let strict ← argBool args 0
  let lit ← argBytes args 1
  .ok (unitsReply (S.decodeLit strict (toNats lit)))

/-- `spec.c01e.script lit` → does the text contain `</script>` -/
def script : Handler := fun args => do
  let lit ← argBytes args 0
  .ok (boolBytes (S.hasScriptEnd (toNats lit)))

/-- `model.c01e.minify allowTemplate lit` → `minifyString(lit, allowTemplate)` -/
def minify : Handler := fun args => do
  let a ← argBool args 0
  let lit ← argBytes args 1
  .ok (ofNats (M.minifyString a (toNats lit)))

/-- `model.c01e.template lit` → `replaceEscapes(lit, '`', 1, 1)` -/
def template : Handler := fun args => do
  let lit ← argBytes args 0
  .ok (ofNats (M.templateLit (toNats lit)))

def handlers : List (String × Handler) := [
  ("spec.c01e.decode", decode), ("spec.c01e.script", script),
  ("model.c01e.minify", minify), ("model.c01e.template", template)]

end Verif.Driver.C01E

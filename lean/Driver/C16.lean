import Driver.Proto
/-! driver handlers for property C16 (ops `model.*`, `spec.*`, `trig.*`) -/
namespace Verif.Driver.C16
open Verif Verif.Driver

def handlers : List (String × Handler) := []

end Verif.Driver.C16

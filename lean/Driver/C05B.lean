import Driver.Proto
import Verif.Model.SvgDoc
import Verif.Model.SvgNum
/-! driver handlers for C05B (document loop of `svg.go`): ops `model.c05b.*`, `trig.c05b` (`spec.c05b.*` below) -/
namespace Verif.Driver.C05B
open Verif Verif.Driver Verif.Model.SvgDoc
open Verif.SvgDoc (STok)

/-- one token = group `[kind, Data, Text, AttrVal]`, kind = decimal `xml.TokenType` of the dependency
(12 = attribute token whose AttrVal is nil) -/
def decodeTok (g : List Bytes) : Except String STok :=
  match g with
  | [kind, data, text, av] =>
    let d := bytesToChars data
    let t := bytesToChars text
    let v := bytesToChars av
    match parseIntChars (bytesToChars kind) with
    | some 1 => .ok (.comment d)
    | some 2 => .ok (.doctype d t)
    | some 3 => .ok (.cdata d t)
    | some 4 => .ok (.startTag t)
    | some 5 => .ok (.startTagPI t)
    | some 6 => .ok .startTagClose
    | some 7 => .ok .startTagCloseVoid
    | some 8 => .ok .startTagClosePI
    | some 9 => .ok (.endTag d t)
    | some 10 => .ok (.attr d t (some v))
    | some 11 => .ok (.text d)
    | some 12 => .ok (.attr d t none)
    | _ => .error "bad token kind"
  | _ => .error "bad token group"

def argToks (args : List String) (i : Nat) : Except String (List STok) := do
  let gs ← argGroups args i
  gs.mapM decodeTok

def number0 (s : List Char) : List Char := Verif.Model.SvgNum.number s 0

/-- `model.c05b.requests keepComments inline tokens` → flat list `kind, mime, payload, …` of the payloads the loop
hands to the style minifier (kind 0 element text, 1 CDATA, 2 attribute) and to `ShortenPathData` (kind 3) -/
def requests : Handler := fun args => do
  let kc ← argBool args 0
  let inl ← argBool args 1
  let ts ← argToks args 2
  let rs := Verif.Model.SvgDoc.requests number0 ⟨kc, inl⟩ ts
  .ok (listReply (rs.flatMap fun r => [strBytes (toString r.1), charsToBytes r.2.1, charsToBytes r.2.2]))

structure Answer where
  kind : Nat
  mime : List Char
  payload : List Char
  out : Option (List Char)

def decodeAnswer (g : List Bytes) : Except String Answer :=
  match g with
  | [kind, mime, payload, present, out] =>
    match parseIntChars (bytesToChars kind) with
    | some k => .ok ⟨k.toNat, bytesToChars mime, bytesToChars payload,
        if bytesToChars present == ['1'] then some (bytesToChars out) else none⟩
    | none => .error "bad answer kind"
  | _ => .error "bad answer group"

/-- the parameters as finite tables: kind 0 = `sub` without params, 2 = `sub` with inline params, 3 = `path` -/
def envOf (as : List Answer) : Env :=
  { sub := fun mime inl p =>
      match as.find? (fun a => a.kind == (if inl then 2 else 0) && a.mime == mime && a.payload == p) with
      | some a => a.out
      | none => none
    path := fun p =>
      match as.find? (fun a => a.kind == 3 && a.payload == p) with
      | some a => a.out.getD p
      | none => p
    num := number0 }

/-- `model.c05b.minify keepComments inline tokens answers` → output bytes of the model -/
def minify : Handler := fun args => do
  let kc ← argBool args 0
  let inl ← argBool args 1
  let ts ← argToks args 2
  let gs ← argGroups args 3
  let as ← gs.mapM decodeAnswer
  .ok (charsToBytes (svgMinify (envOf as) ⟨kc, inl⟩ ts))

/-- `trig.c05b tokens` → names of the known-finding triggers that are decided on the token level -/
def trig : Handler := fun args => do
  let ts ← argToks args 0
  .ok (listReply ((if trigForeignAttr ts then ["foreignAttr"] else []).map strBytes))

def handlers : List (String × Handler) :=
  [("model.c05b.requests", requests), ("model.c05b.minify", minify), ("trig.c05b", trig)]

end Verif.Driver.C05B

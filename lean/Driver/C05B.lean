import Driver.Proto
import Verif.Model.SvgDoc
import Verif.Model.SvgNum
import Verif.Spec.SvgDocSpec
/-! driver handlers for C05B (document loop of `svg.go`): ops `model.c05b.*`, `trig.c05b` (`spec.c05b.*` below) -/
namespace Verif.Driver.C05B
open Verif Verif.Driver Verif.Model.SvgDoc
open Verif.SvgDoc (STok)

/-- one token = group `[kind, Data, Text, AttrVal]`, kind = decimal `xml.TokenType` of the dependency
(12 = attribute token whose AttrVal is nil) -/
def decodeTok (g : List Bytes) : Except String STok :=
  match g with
  | [kind, data, text, av] =>
    let d := bytesToChars data
    let t := bytesToChars text
    let v := bytesToChars av
    match parseIntChars (bytesToChars kind) with
    | some 1 => .ok (.comment d)
    | some 2 => .ok (.doctype d t)
    | some 3 => .ok (.cdata d t)
    | some 4 => .ok (.startTag t)
    | some 5 => .ok (.startTagPI t)
    | some 6 => .ok .startTagClose
    | some 7 => .ok .startTagCloseVoid
    | some 8 => .ok .startTagClosePI
    | some 9 => .ok (.endTag d t)
    | some 10 => .ok (.attr d t (some v))
    | some 11 => .ok (.text d)
    | some 12 => .ok (.attr d t none)
    | _ => .error "bad token kind"
  | _ => .error "bad token group"

def argToks (args : List String) (i : Nat) : Except String (List STok) := do
  let gs ← argGroups args i
  gs.mapM decodeTok

def number0 (s : List Char) : List Char := Verif.Model.SvgNum.number s 0

structure Answer where
  kind : Nat
  mime : List Char
  payload : List Char
  out : Option (List Char)

def decodeAnswer (g : List Bytes) : Except String Answer :=
  match g with
  | [kind, mime, payload, present, out] =>
    match parseIntChars (bytesToChars kind) with
    | some k => .ok ⟨k.toNat, bytesToChars mime, bytesToChars payload,
        if bytesToChars present == ['1'] then some (bytesToChars out) else none⟩
    | none => .error "bad answer kind"
  | _ => .error "bad answer group"

/-- the parameters as finite tables: kind 0 = `sub` without params, 2 = `sub` with inline params, 3 = `path` -/
def envOf (as : List Answer) : Env :=
  { sub := fun mime inl p =>
      match as.find? (fun a => a.kind == (if inl then 2 else 0) && a.mime == mime && a.payload == p) with
      | some a => a.out
      | none => none
    path := fun p =>
      match as.find? (fun a => a.kind == 3 && a.payload == p) with
      | some a => a.out.getD p
      | none => p
    num := number0 }

/-- `model.c05b.requests keepComments inline tokens answers` → flat list `kind, mime, payload, …` of the payloads the
loop hands to the style minifier (kind 0 element text, 1 CDATA, 2 attribute) and to `ShortenPathData` (kind 3) when
the parameters answer as in `answers` (unknown requests: `ErrNotExist` / identity) -/
def requests : Handler := fun args => do
  let kc ← argBool args 0
  let inl ← argBool args 1
  let ts ← argToks args 2
  let gs ← argGroups args 3
  let as ← gs.mapM decodeAnswer
  let rs := Verif.Model.SvgDoc.requests (envOf as) ⟨kc, inl⟩ ts
  .ok (listReply (rs.flatMap fun r => [strBytes (toString r.1), charsToBytes r.2.1, charsToBytes r.2.2]))

/-- `model.c05b.minify keepComments inline tokens answers` → output bytes of the model -/
def minify : Handler := fun args => do
  let kc ← argBool args 0
  let inl ← argBool args 1
  let ts ← argToks args 2
  let gs ← argGroups args 3
  let as ← gs.mapM decodeAnswer
  .ok (charsToBytes (svgMinify (envOf as) ⟨kc, inl⟩ ts))

/-- `trig.c05b tokens` → names of the known-finding triggers that are decided on the token level -/
def trig : Handler := fun args => do
  let ts ← argToks args 0
  .ok (listReply ((if trigForeignAttr ts then ["foreignAttr"] else []).map strBytes))

/-- `spec.c05b.holds inline inputTokens outputTokens` → failing clauses of the structural clause (empty = holds),
then the guards of `svg_structure_partial` that do NOT hold for the input (`defs1`, `foreignObject`, `shape`) -/
def holds : Handler := fun args => do
  let inl ← argBool args 0
  let i ← argToks args 1
  let o ← argToks args 2
  let guards := (if Spec.SvgDocSpec.hasDefs1 i then ["guard:defs1"] else []) ++
    (if Spec.SvgDocSpec.hasForeignObject i then ["guard:foreignObject"] else []) ++
    (if Spec.SvgDocSpec.attrShape false i then [] else ["guard:shape"])
  .ok (listReply ((Spec.SvgDocSpec.holds inl i o ++ guards).map strBytes))

/-- `spec.c05b.dim value` → `1` when the specification reads the value as number + unit and `parse.Dimension`
(model) agrees with that reading (hypothesis `hagree` of `dimension_value_ok`), `0` when they disagree, `-` when
the specification does not read a dimension -/
def dim : Handler := fun args => do
  let v ← argChars args 0
  match Spec.SvgPath.lexNumber v with
  | some (x, u) =>
    if Spec.SvgDocSpec.isUnit u && !x.isEmpty then
      .ok (boolBytes (dimension v == (x.length, u.length) && Spec.SvgPath.lexNumber x == some (x, [])))
    else .ok []
  | none => .ok []

/-- `spec.c05b.numok in out` → `1` when `out` satisfies the contract `NumOk` for the number lexeme `in`
(same exact value, again a number lexeme, also in front of a unit); `-` when `in` is not a number lexeme -/
def numok : Handler := fun args => do
  let x ← argChars args 0
  let y ← argChars args 1
  if Spec.SvgPath.lexNumber x != some (x, []) then .ok [] else
  .ok (boolBytes (Spec.SvgPath.numVal y == Spec.SvgPath.numVal x &&
    Spec.SvgPath.lexNumber y == some (y, []) && Spec.SvgPath.lexNumber (y ++ ['e', 'm']) == some (y, ['e', 'm']) &&
    Spec.SvgPath.lexNumber (y ++ ['%']) == some (y, ['%'])))

def handlers : List (String × Handler) :=
  [("model.c05b.requests", requests), ("model.c05b.minify", minify), ("trig.c05b", trig),
   ("spec.c05b.holds", holds), ("spec.c05b.dim", dim), ("spec.c05b.numok", numok)]

end Verif.Driver.C05B

import Driver.Proto
import Verif.Model.JsStmt
import Verif.Spec.JsLex
/-! driver handlers for property C01 (ops `model.c01.*`, `spec.c01.*`, `trig.c01.*`)

Programs arrive in a prefix encoding (tokens separated by one space):
`V name | N n | S str | T | F | Z | U op e | B op e e | C e e e | M k e… | L k f a… | D name e | I e e | G e`;
statements `E e | IF e s s | R0 | R e | TH e | BL k s… | FN name k p… m s… | EM | AB`; a program is `k s…`. -/
namespace Verif.Driver.C01
open Verif Verif.Driver Verif.Spec.JsSyntax Verif.Model.JsAst Verif.Model.JsOpt Verif.Model.JsPrint Verif.Model.JsStmt

def uopOf (s : String) : Option UOp :=
  match s with
  | "!" => some .not | "~" => some .bitnot | "typeof" => some .typeof | "void" => some .void
  | "delete" => some .delete | "u+" => some .pos | "u-" => some .neg | "++x" => some .preinc
  | "--x" => some .predec | "x++" => some .postinc | "x--" => some .postdec
  | _ => none

def bopOf (s : String) : Option BOp := BOp.all.find? (fun o => o.text == s)

def decStr (s : String) : String :=
  if s == "~" then "" else String.ofList (s.toList.map (fun c => if c == '_' then ' ' else c))

mutual
partial def parseE : List String → Option (E × List String)
  | "V" :: n :: r => some (.var n, r)
  | "N" :: n :: r => n.toNat?.map (fun k => (.lit (.num k), r))
  | "S" :: s :: r => some (.lit (.str (decStr s)), r)
  | "T" :: r => some (.lit .true, r)
  | "F" :: r => some (.lit .false, r)
  | "Z" :: r => some (.lit .null, r)
  | "U" :: op :: r => do
    let o ← uopOf op
    let (x, r) ← parseE r
    pure (.unary o x, r)
  | "B" :: op :: r => do
    let o ← bopOf op
    let (x, r) ← parseE r
    let (y, r) ← parseE r
    pure (.bin o x y, r)
  | "C" :: r => do
    let (c, r) ← parseE r
    let (x, r) ← parseE r
    let (y, r) ← parseE r
    pure (.cond c x y, r)
  | "M" :: k :: r => do
    let n ← k.toNat?
    let (l, r) ← parseEs n r
    pure (.comma l, r)
  | "L" :: k :: r => do
    let n ← k.toNat?
    let (f, r) ← parseE r
    let (l, r) ← parseEs n r
    pure (.call f l, r)
  | "D" :: name :: r => do
    let (x, r) ← parseE r
    pure (.dot x name, r)
  | "I" :: r => do
    let (x, r) ← parseE r
    let (y, r) ← parseE r
    pure (.index x y, r)
  | "G" :: r => do
    let (x, r) ← parseE r
    pure (.group x, r)
  | _ => none
partial def parseEs : Nat → List String → Option (List E × List String)
  | 0, r => some ([], r)
  | n + 1, r => do
    let (x, r) ← parseE r
    let (l, r) ← parseEs n r
    pure (x :: l, r)
end

def takeN : Nat → List String → Option (List String × List String)
  | 0, r => some ([], r)
  | n + 1, a :: r => (takeN n r).map (fun (l, r) => (a :: l, r))
  | _ + 1, [] => none

mutual
partial def parseS : List String → Option (S × List String)
  | "E" :: r => do
    let (e, r) ← parseE r
    pure (.expr e, r)
  | "IF" :: r => do
    let (c, r) ← parseE r
    let (t, r) ← parseS r
    let (e, r) ← parseS r
    pure (.ifS c t e, r)
  | "R0" :: r => some (.ret none, r)
  | "R" :: r => do
    let (e, r) ← parseE r
    pure (.ret (some e), r)
  | "TH" :: r => do
    let (e, r) ← parseE r
    pure (.throw e, r)
  | "BL" :: k :: r => do
    let n ← k.toNat?
    let (l, r) ← parseSs n r
    pure (.block l, r)
  | "FN" :: name :: k :: r => do
    let n ← k.toNat?
    let (ps, r) ← takeN n r
    match r with
    | m :: r => do
      let n2 ← m.toNat?
      let (l, r) ← parseSs n2 r
      pure (.fn name ps l, r)
    | [] => none
  | "EM" :: r => some (.empty, r)
  | "AB" :: r => some (.absent, r)
  | _ => none
partial def parseSs : Nat → List String → Option (List S × List String)
  | 0, r => some ([], r)
  | n + 1, r => do
    let (x, r) ← parseS r
    let (l, r) ← parseSs n r
    pure (x :: l, r)
end

def parseProg (b : Bytes) : Except String (List S) :=
  let toks := ((String.ofList (bytesToChars b)).splitOn " ").filter (· ≠ "")
  match toks with
  | k :: r =>
    match k.toNat? with
    | some n =>
      match parseSs n r with
      | some (l, []) => .ok l
      | _ => .error "bad program encoding"
    | none => .error "bad program encoding"
  | [] => .error "empty program"

/-- `model.c01.min <ver2020:0|1> <prog>` → output bytes, `!unmodelled` when outside the fragment.
    The written characters are also read back by the independent lexer `Spec.JsLex.lexTexts`: they must give exactly
    the tokens that were written (token separation), otherwise the reply is an error -/
def minH : Handler := fun args => do
  let v ← argBool args 0
  let b ← argBytes args 1
  let prog ← parseProg b
  match jsTokens { ver2020 := v } prog with
  | some ts =>
    let cs := emit ts
    if Verif.Spec.JsLex.lexTexts cs == some (ts.map (fun t => (tokText t).toList)) then .ok (charsToBytes cs)
    else .error ("token separation: lex(emit ts) differs from ts for " ++ String.ofList cs)
  | none => .error "unmodelled"

/-- `trig.c01.known <ver2020> <prog>` → `1` iff the program is in the modelled fragment and falls under an open known
    finding of the model (K-C01-1 `return a,b,undefined`, K-C01-2 call merging below an effectful condition): the model
    is defined, the guarded model is not -/
def knownH : Handler := fun args => do
  let v ← argBool args 0
  let b ← argBytes args 1
  let prog ← parseProg b
  let plain := jsMinify { ver2020 := v } prog
  let guarded := jsMinify { ver2020 := v, guarded := true } prog
  .ok (boolBytes (plain.isSome && guarded.isNone))

def handlers : List (String × Handler) := [("model.c01.min", minH), ("trig.c01.known", knownH)]

end Verif.Driver.C01

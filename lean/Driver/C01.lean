import Driver.Proto
/-! driver handlers for property C01 (ops `model.*`, `spec.*`, `trig.*`) -/
namespace Verif.Driver.C01
open Verif Verif.Driver

def handlers : List (String × Handler) := []

end Verif.Driver.C01

import Driver.Proto
import Verif.Model.Stream
import Verif.Gen.Wrappers
/-! driver handlers for property C12 (ops `model.c12.*`) -/
namespace Verif.Driver.C12
open Verif Verif.Driver Verif.Skel Verif.Model.Stream

def sk : WSkel := Verif.Gen.Wrappers.skel

def decErr (b : Bytes) : Except String (Option Err) :=
  let s := String.ofList (bytesToChars b)
  if s == "nil" then .ok none
  else if s == "notexist" then .ok (some .notExist)
  else if s == "closedpipe" then .ok (some .closedPipe)
  else if s == "min" then .ok (some (.minifier 0))
  else .error s!"bad error code {s}"

def encErr : Option Err → String
  | none => "nil" | some .notExist => "notexist" | some .closedPipe => "closedpipe" | some (.minifier _) => "min"

def decWEvent (g : List Bytes) : Except String WEvent :=
  match g with
  | [tag] =>
    let t := String.ofList (bytesToChars tag)
    if t == "ccall" then .ok .ccall else .error s!"bad event {t}"
  | [tag, d] =>
    let t := String.ofList (bytesToChars tag)
    if t == "wcall" then .ok (.wcall d)
    else if t == "out" then .ok (.out d)
    else if t == "wret" then .ok (.wret (d == strBytes "1"))
    else if t == "cret" then do let e ← decErr d; .ok (.cret e)
    else .error s!"bad event {t}"
  | _ => .error "bad event group"

/-- `model.c12.acceptsW kind events out err exists` → 1/0: is the observed event sequence of a real
    `m.Writer` (`kind = writer`) / `responseWriter` (`kind = rw`) run a run of the transition system
    interpreted from the regenerated skeleton, for a minifier that produces `out`, `err`
    (`exists = 0`: no minifier registered)? -/
def acceptsWH : Handler := fun args => do
  let kind ← argChars args 0
  let gs ← argGroups args 1
  let evs ← gs.mapM decWEvent
  let out ← argBytes args 2
  let err ← (argBytes args 3 >>= decErr)
  let ex ← argBool args 4
  let mf : Option MinFn := if ex then some (fun _ => (out, err)) else none
  if String.ofList kind == "rw" then .ok (boolBytes (acceptsRW sk mf evs))
  else .ok (boolBytes (acceptsW sk mf evs))

def decREvent (g : List Bytes) : Except String REvent :=
  match g with
  | [tag] =>
    if tag == strBytes "srceof" then .ok .srcEOF else .error "bad event"
  | [tag, d] =>
    if tag == strBytes "done" then do let e ← decErr d; .ok (.done e) else .error "bad event"
  | [tag, n, d] =>
    if tag == strBytes "read" then
      match parseIntChars (bytesToChars n) with
      | some v => .ok (.read v.toNat d)
      | none => .error "bad read size"
    else .error "bad event"
  | _ => .error "bad event group"

/-- `model.c12.acceptsR events out err` → 1/0 for an observed `m.Reader` run -/
def acceptsRH : Handler := fun args => do
  let gs ← argGroups args 0
  let evs ← gs.mapM decREvent
  let out ← argBytes args 1
  let err ← (argBytes args 2 >>= decErr)
  .ok (boolBytes (acceptsR sk out err evs))

/-- `model.c12.pick contentType extType` → media type the response writer matches on -/
def pickH : Handler := fun args => do
  let ct ← argChars args 0
  let ext ← argChars args 1
  .ok (strBytes (pickMediatype sk (String.ofList ct) (String.ofList ext)))

/-- `model.c12.whdr names` → header names forwarded by WriteHeader (`!` if never forwarded) -/
def whdrH : Handler := fun args => do
  let l ← argList args 0
  match writeHeader sk (l.map (fun b => String.ofList (bytesToChars b))) with
  | some r => .ok (listReply (r.map strBytes))
  | none => .error "status never forwarded"

/-- `model.c12.bytes v out err exists` → `[result, error]` of `m.Bytes` / `m.String` -/
def bytesH : Handler := fun args => do
  let v ← argBytes args 0
  let out ← argBytes args 1
  let err ← (argBytes args 2 >>= decErr)
  let ex ← argBool args 3
  let mf : Option MinFn := if ex then some (fun _ => (out, err)) else none
  match bytesVia sk.bytes mf v, bytesVia sk.string mf v with
  | some (b, e), some (b2, e2) =>
    if b == b2 && e == e2 then .ok (listReply [b, strBytes (encErr e)]) else .error "Bytes and String skeletons differ"
  | _, _ => .error "unrecognised Bytes/String skeleton"

/-- `model.c12.wf` → are the regenerated skeleton, reader-use facts and ownership facts well-formed -/
def wfH : Handler := fun _ =>
  .ok (boolBytes (wfSkel sk && wfInputUses Verif.Gen.Wrappers.inputUses && wfOwnership sk Verif.Gen.Wrappers.retFacts))

/-- `model.c12.own` → are the regenerated ownership facts of `Bytes`/`String` well-formed (fresh local buffer) -/
def ownH : Handler := fun _ =>
  .ok (boolBytes (wfOwnership sk Verif.Gen.Wrappers.retFacts))

def decOCall (g : List Bytes) : Except String OCall :=
  match g with
  | [kind, input, out, err, ex] => do
    let e ← decErr err
    let mf : Option MinFn := if ex == strBytes "1" then some (fun _ => (out, e)) else none
    .ok { str := kind == strBytes "s", mf, input }
  | _ => .error "bad call group"

/-- `model.c12.hist calls` (each call = `[b|s, input, plain output, plain error, exists]`) → for every call of the
    history, in order: what the retained result, the caller's input slice and the error read AFTER the whole
    history has run in the heap model configured by the regenerated ownership facts (the minifier leaves its
    working buffer reversed) -/
def histH : Handler := fun args => do
  let gs ← argGroups args 0
  let calls ← gs.mapM decOCall
  match ownCfgs sk Verif.Gen.Wrappers.retFacts with
  | none => .error "unrecognised ownership facts of Bytes/String"
  | some (cb, cs) =>
    let s := orun cb cs List.reverse {} calls
    .ok (listReply (s.done.flatMap fun d => [deref s.heap d.outRef, deref s.heap d.inRef, strBytes (encErr d.err)]))

/-- `model.c12.via chunks` → concatenation (what a well-formed leaf minifier sees of a chunked stream) -/
def viaH : Handler := fun args => do
  let cs ← argList args 0
  .ok (readAll cs)

def handlers : List (String × Handler) :=
  [("model.c12.acceptsW", acceptsWH), ("model.c12.acceptsR", acceptsRH), ("model.c12.pick", pickH),
   ("model.c12.whdr", whdrH), ("model.c12.bytes", bytesH), ("model.c12.wf", wfH), ("model.c12.via", viaH),
   ("model.c12.own", ownH), ("model.c12.hist", histH)]

end Verif.Driver.C12

import Driver.Proto
/-! driver handlers for property C12 (ops `model.*`, `spec.*`, `trig.*`) -/
namespace Verif.Driver.C12
open Verif Verif.Driver

def handlers : List (String × Handler) := []

end Verif.Driver.C12

import Driver.Proto
import Verif.Model.CssGrammar
import Verif.Model.CssShorthand
import Verif.Spec.CssGrammarSpec
/-! driver handlers for C04B (grammar walk, selectors, preludes, `font`/`background` of `css.go`):
ops `model.c04b.*`, `spec.c04b.*` -/
namespace Verif.Driver.C04B
open Verif Verif.Driver
open Verif.Spec.CssValue (TT Tok)
open Verif.Spec.CssGrammar

def natOf (b : Bytes) : Except String Nat :=
  match parseIntChars (bytesToChars b) with
  | some n => .ok n.toNat
  | none => .error "bad number"

def decodeToks : List Bytes → Except String (List Tok)
  | [] => .ok []
  | [_] => .error "odd token list"
  | code :: data :: r => do
    let n ← natOf code
    let rest ← decodeToks r
    .ok (.mk (TT.ofCode n) (bytesToChars data) [] :: rest)

/-- one event = group `[gt code, data, tt1, lexeme1, tt2, lexeme2, …]` -/
def decodeEv (g : List Bytes) : Except String Ev :=
  match g with
  | gt :: data :: toks => do
    let n ← natOf gt
    let ts ← decodeToks toks
    .ok ⟨GT.ofCode n, bytesToChars data, ts⟩
  | _ => .error "bad event group"

def argEvs (args : List String) (i : Nat) : Except String (List Ev) := do
  (← argGroups args i).mapM decodeEv

def decodeTok (g : List Bytes) : Except String Tok :=
  match g with
  | [code, data] => do .ok (.mk (TT.ofCode (← natOf code)) (bytesToChars data) [])
  | [code] => do .ok (.mk (TT.ofCode (← natOf code)) [] [])
  | _ => .error "bad token group"

def argToks (args : List String) (i : Nat) : Except String (List Tok) := do
  (← argGroups args i).mapM decodeTok

/-- `model.c04b.sheet keepCSS2 events` → `[S, bytes of minifyGrammar]`, or `[N]` when a declaration of the sheet is
outside the declaration model -/
def sheetOp : Handler := fun args => do
  let css2 ← argBool args 0
  let evs ← argEvs args 1
  let o : Model.Css.Opts := ⟨css2⟩
  let inside := evs.all fun e => e.gt != .declaration || (Model.CssShorthand.minifyDeclarationB o e.data e.vals).isSome
  if !inside then .ok (listReply [strBytes "N"]) else
  let decl : Model.CssGrammar.DeclFn := fun p v => (Model.CssShorthand.minifyDeclarationB o p v).getD []
  .ok (listReply [strBytes "S", charsToBytes (Model.CssGrammar.minifyGrammar decl evs)])

/-- `model.c04b.decl keepCSS2 prop components` → `[S|N, bytes written after "prop:"]` -/
def declOp : Handler := fun args => do
  let css2 ← argBool args 0
  let prop ← argChars args 1
  let comps ← argToks args 2
  match Model.CssShorthand.minifyDeclarationB ⟨css2⟩ prop comps with
  | some out => .ok (listReply [strBytes "S", charsToBytes out])
  | none => .ok (listReply [strBytes "N"])

/-- `spec.c04b.holds html inEvents outEvents` → failing clauses (empty = holds) -/
def holdsOp : Handler := fun args => do
  let html ← argBool args 0
  let a ← argEvs args 1
  let b ← argEvs args 2
  .ok (listReply ((holds ⟨html⟩ a b).map strBytes))

/-- `spec.c04b.decl prop inComponents outComponents` → `1` same / `0` different / `2` not judged -/
def specDeclOp : Handler := fun args => do
  let prop ← argChars args 0
  let a ← argToks args 1
  let b ← argToks args 2
  .ok (natBytes (Spec.CssShorthand.verdictB prop (Spec.CssValue.nest a) (Spec.CssValue.nest b)))

/-- `spec.c04b.tree events` → `[roundtrip, wellformed]`: does the stream read as a tree and back, and is that tree
the tree of an error-free style sheet? -/
def treeOp : Handler := fun args => do
  let evs ← argEvs args 0
  let t := treeOf evs
  .ok (listReply [boolBytes (flatten t == evs), boolBytes (wfList t)])

/-- `spec.c04b.sel html tokens` → `[normal form lexemes joined by NUL, a, b, c]` -/
def selOp : Handler := fun args => do
  let html ← argBool args 0
  let ts ← argToks args 1
  let nf := (Spec.CssSel.selNorm ⟨html⟩ ts).flatMap fun t => t.data ++ [Char.ofNat 0]
  let s := Spec.CssSel.specificity ts
  .ok (listReply [charsToBytes nf, natBytes s.a, natBytes s.b, natBytes s.c])

def handlers : List (String × Handler) :=
  [("model.c04b.sheet", sheetOp), ("model.c04b.decl", declOp), ("spec.c04b.holds", holdsOp),
   ("spec.c04b.decl", specDeclOp), ("spec.c04b.tree", treeOp), ("spec.c04b.sel", selOp)]

end Verif.Driver.C04B

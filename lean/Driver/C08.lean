import Driver.Proto
import Verif.Model.Num
import Verif.Spec.Num
/-! driver handlers for property C08 (ops `model.*`, `spec.*`, `trig.*`) -/
namespace Verif.Driver.C08
open Verif Verif.Driver

/-- `model.number input prec` → output bytes of the model of `minify.Number` -/
def opNumber : Handler := fun args => do
  let s ← argChars args 0
  let p ← argInt args 1
  .ok (charsToBytes (Model.Num.number s p))

/-- `model.decimal input prec` → output bytes of the model of `minify.Decimal` -/
def opDecimal : Handler := fun args => do
  let s ← argChars args 0
  let p ← argInt args 1
  .ok (charsToBytes (Model.Num.decimal s p))

/-- `spec.holds.c08 mode input prec output` → decimal fail mask (`0` = property holds);
    mode `0` = Number (full grammar), `1` = Decimal (no exponent) -/
def opHolds : Handler := fun args => do
  let mode ← argInt args 0
  let s ← argChars args 1
  let p ← argInt args 2
  let o ← argChars args 3
  .ok (natBytes (Spec.Num.failMask (mode != 0) s p o))

/-- `spec.isnumber input` → `1`/`0` followed by `1`/`0` for isDecimal -/
def opGrammar : Handler := fun args => do
  let s ← argChars args 0
  .ok (boolBytes (Spec.Num.isNumber s) ++ boolBytes (Spec.Num.isDecimal s))

def handlers : List (String × Handler) :=
  [("model.number", opNumber), ("model.decimal", opDecimal), ("spec.holds.c08", opHolds),
   ("spec.grammar.c08", opGrammar)]

end Verif.Driver.C08

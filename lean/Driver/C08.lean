import Driver.Proto
/-! driver handlers for property C08 (ops `model.*`, `spec.*`, `trig.*`) -/
namespace Verif.Driver.C08
open Verif Verif.Driver

def handlers : List (String × Handler) := []

end Verif.Driver.C08

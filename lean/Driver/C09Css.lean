import Driver.Proto
import Driver.C04
import Verif.Spec.C09CssTok
import Verif.Model.C09Css
/-! driver handlers of the CSS slice of C09 (ops `spec.c09.css.*`, `model.c09.css.*`) -/
namespace Verif.Driver.C09Css
open Verif Verif.Driver
open Verif.Spec.CssValue (TT Tok)
open Verif.Spec.C09CssTok

def utf8 (s : List Char) : Bytes := (String.ofList s).toUTF8.toList

def natStr (n : Nat) : String := toString n

/-- `spec.c09.css.tokens bytes` → `code len code len …` (ASCII, space separated) for all tokens incl. white space and comments -/
def tokensOp : Handler := fun args => do
  let s ← argChars args 0
  let ts := tokenise s
  .ok (strBytes (" ".intercalate (ts.map fun t => natStr t.1.code ++ " " ++ natStr t.2.length)))

/-- `spec.c09.css.values bytes` → the values (UTF-8) of all string tokens and urls (`url` token, or `url(` string `)`),
    in order; item = `s`/`u` + value -/
def valuesAux : List Token → List Bytes
  | [] => []
  | (TT.function, f) :: (TT.string, s) :: r =>
    if isUrlName f.dropLast then ((117 : UInt8) :: utf8 (stringValue s)) :: valuesAux r else ((115 : UInt8) :: utf8 (stringValue s)) :: valuesAux r
  | (TT.string, s) :: r => ((115 : UInt8) :: utf8 (stringValue s)) :: valuesAux r
  | (TT.url, l) :: r => ((117 : UInt8) :: utf8 (urlValue l)) :: valuesAux r
  | _ :: r => valuesAux r

def valuesOp : Handler := fun args => do
  let s ← argChars args 0
  .ok (listReply (valuesAux (significant (tokenise s))))

/-- `spec.c09.css.closed bytes` → 3 flags: brackets balanced, no bad token, not open-ended; then `1` if no top-level `;` -/
def closedOp : Handler := fun args => do
  let s ← argChars args 0
  let ts := tokenise s
  .ok (boolBytes (balance ts [] == some []) ++ boolBytes (!hasBad ts) ++ boolBytes (!openEnded s) ++
       boolBytes (noTopSemicolon ts 0))

/-- same token: same type and lexeme; names (identifier, function, hash, at-keyword, dimension) may differ in the
    white space that terminates a hex escape (`\\9` = `\\9 `): they are compared by the code points they stand for -/
def sameTok (a b : Token) : Bool :=
  a.1 == b.1 && (a.2 == b.2 ||
    ((a.1 == .ident || a.1 == .function || a.1 == .hash || a.1 == .atKeyword || a.1 == .dimension) &&
      unescape false a.2.length a.2 == unescape false b.2.length b.2))

/-- index of the first difference of two token lists, `none` if equal -/
def firstDiff : List Token → List Token → Nat → Option Nat
  | [], [], _ => none
  | a :: r, b :: r', i => if sameTok a b then firstDiff r r' (i + 1) else some i
  | _, _, i => some i

/-- `spec.c09.css.joined bytes lexemes` → `1` when the significant tokens of `bytes` are the significant tokens of the
    lexemes, each tokenised on its own, in order (nothing merged, nothing split across a boundary); else `0 i` -/
def joinedOp : Handler := fun args => do
  let s ← argChars args 0
  let ls ← argList args 1
  let want := ls.flatMap fun l => significant (tokenise (bytesToChars l))
  match firstDiff (significant (tokenise s)) want 0 with
  | none => .ok (strBytes "1")
  | some i => .ok (strBytes ("0 " ++ natStr i))

/-- `model.c09.css.plan keepCSS2 prop components` → `[S, raw, important, lexeme…]` or `[N]` -/
def planOp : Handler := fun args => do
  let css2 ← argBool args 0
  let prop ← argChars args 1
  let gs ← argGroups args 2
  let comps ← gs.mapM C04.decodeTok
  match Model.C09Css.declPlan ⟨css2⟩ prop comps with
  | some p => .ok (listReply (strBytes "S" :: boolBytes p.raw :: boolBytes p.important ::
                    (Model.C09Css.planLexemes p).map charsToBytes))
  | none => .ok (listReply [strBytes "N"])

def handlers : List (String × Handler) :=
  [("spec.c09.css.tokens", tokensOp), ("spec.c09.css.values", valuesOp), ("spec.c09.css.closed", closedOp),
   ("spec.c09.css.joined", joinedOp), ("model.c09.css.plan", planOp)]

end Verif.Driver.C09Css

import Verif.Base.Bytes
/-!
# Line protocol of the model driver `vdrv`

One request per input line:  `op arg1 arg2 …`  — arguments are hex strings (`-` = empty).
One reply per line: hex of the result bytes (`-` = empty), or `!message` on a protocol/model error.
A handler receives the decoded arguments.  Structured arguments are flattened by the harness:
`,` separates list items inside one argument token and `;` separates groups of items, see `argList`.
-/
namespace Verif.Driver
open Verif

abbrev Handler := List String → Except String Bytes

def decodeHex (tok : String) : Except String Bytes :=
  if tok == "-" then .ok [] else
  match hexDecode tok with
  | some b => .ok b
  | none => .error s!"bad hex: {tok}"

/-- i-th argument as bytes -/
def argBytes (args : List String) (i : Nat) : Except String Bytes :=
  match args[i]? with
  | some t => decodeHex t
  | none => .error s!"missing arg {i}"

def argChars (args : List String) (i : Nat) : Except String (List Char) :=
  bytesToChars <$> argBytes args i

/-- i-th argument as a decimal integer (sent as hex of its ASCII rendering) -/
def argInt (args : List String) (i : Nat) : Except String Int := do
  let b ← argBytes args i
  match parseIntChars (bytesToChars b) with
  | some v => .ok v
  | none => .error s!"bad int arg {i}"

def argNat (args : List String) (i : Nat) : Except String Nat := do
  let v ← argInt args i
  if v < 0 then .error s!"negative nat arg {i}" else .ok v.toNat

def argBool (args : List String) (i : Nat) : Except String Bool := do
  let v ← argInt args i
  .ok (v != 0)

/-- i-th argument as a list of byte strings: items separated by `,` (`-` alone = empty list,
    an empty item is written `_`) -/
def decodeList (tok : String) : Except String (List Bytes) :=
  if tok == "-" then .ok [] else
  (tok.splitOn ",").mapM (fun t => if t == "_" then .ok [] else decodeHex t)

def argList (args : List String) (i : Nat) : Except String (List Bytes) :=
  match args[i]? with
  | some t => decodeList t
  | none => .error s!"missing arg {i}"

/-- i-th argument as list of groups (`;`-separated) of items (`,`-separated); empty group = `-` -/
def argGroups (args : List String) (i : Nat) : Except String (List (List Bytes)) :=
  match args[i]? with
  | some t => if t == "-" then .ok [] else (t.splitOn ";").mapM decodeList
  | none => .error s!"missing arg {i}"

def boolBytes (b : Bool) : Bytes := if b then [49] else [48]

/-- encode a list of byte strings as a reply: hex items joined by `,` then taken as ASCII bytes -/
def listReply (l : List Bytes) : Bytes :=
  strBytes (",".intercalate (l.map (fun b => if b.isEmpty then "_" else hexEncode b)))

end Verif.Driver

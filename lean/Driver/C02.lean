import Driver.Proto
/-! driver handlers for property C02 (ops `model.*`, `spec.*`, `trig.*`) -/
namespace Verif.Driver.C02
open Verif Verif.Driver

def handlers : List (String × Handler) := []

end Verif.Driver.C02

import Driver.Proto
import Verif.Model.Rename
/-! driver handlers for property C02 (ops `model.c02.*`, `spec.c02.*`) -/
namespace Verif.Driver.C02
open Verif Verif.Driver Verif.Spec.Scope Verif.Model.Rename

def cfgOf (n : Nat) : Cfg := if n == 0 then freqCfg else alphaCfg

def natOf (b : Bytes) : Except String Nat :=
  match parseIntChars (bytesToChars b) with
  | some v => if v < 0 then .error "negative" else .ok v.toNat
  | none => .error "bad nat"

def natList (l : List Bytes) : Except String (List Nat) := l.mapM natOf

def nameBytes (n : Name) : Bytes := charsToBytes n

/-- `model.c02.getName cfg index` -/
def opGetName : Handler := fun args => do
  let c := cfgOf (← argNat args 0)
  let i ← argNat args 1
  .ok (nameBytes (getName c.start c.cont i))

/-- `model.c02.renameScope cfg rename numArgs names uses undeclared order`
    → `[validOrder, idx0, name0, idx1, name1, …]` -/
def opRenameScope : Handler := fun args => do
  let c := cfgOf (← argNat args 0)
  let rename ← argBool args 1
  let numArgs ← argNat args 2
  let names := (← argList args 3).map bytesToChars
  let uses ← natList (← argList args 4)
  let und := (← argList args 5).map bytesToChars
  let order ← natList (← argList args 6)
  if names.length != uses.length then .error "names/uses length" else
  let s : ScopeIn := { declared := names.zip uses, numArgs := numArgs, undeclared := und, order := order }
  let r := renameScope c rename s
  let valid := if rename then validOrder uses numArgs order else order == List.range names.length
  .ok (listReply (boolBytes valid :: r.foldr (fun p acc => natBytes p.1 :: nameBytes p.2 :: acc) []))

def nodupB (l : List Name) : Bool :=
  match l with
  | [] => true
  | a :: r => !r.contains a && nodupB r

/-- `spec.c02.fresh cfg after undeclared` — the per-call property evaluated on the names the implementation
    chose: pairwise distinct, none is the name of an undeclared variable of the scope, none is a keyword,
    each is a valid identifier.  Reply `1` or `0` + reason. -/
def opFresh : Handler := fun args => do
  let c := cfgOf (← argNat args 0)
  let after := (← argList args 1).map bytesToChars
  let und := (← argList args 2).map bytesToChars
  let isStart (ch : Char) : Bool := ('a' ≤ ch && ch ≤ 'z') || ('A' ≤ ch && ch ≤ 'Z') || ch == '_' || ch == '$'
  let isCont (ch : Char) : Bool := isStart ch || ('0' ≤ ch && ch ≤ '9')
  let ident (n : Name) : Bool := match n with | [] => false | h :: t => isStart h && t.all isCont
  if !nodupB after then .ok (strBytes "0 duplicate name") else
  match after.find? (fun n => und.contains n) with
  | some n => .ok (strBytes "0 name of an undeclared variable: " ++ nameBytes n)
  | none =>
  match after.find? (fun n => c.keywords.contains n) with
  | some n => .ok (strBytes "0 keyword: " ++ nameBytes n)
  | none =>
  match after.find? (fun n => !ident n) with
  | some n => .ok (strBytes "0 not an identifier: " ++ nameBytes n)
  | none => .ok (strBytes "1")

/-- preorder list with depths → forest -/
def buildForest : Nat → Nat → List (Nat × Info) → Forest × List (Nat × Info)
  | 0, _, l => (.nil, l)
  | fuel + 1, d, l =>
    match l with
    | [] => (.nil, [])
    | (d', i) :: rest =>
      if d' == d then
        let (ch, rest1) := buildForest fuel (d + 1) rest
        let (sib, rest2) := buildForest fuel d rest1
        (.node i ch sib, rest2)
      else (.nil, l)

def splitAtN (l : List Nat) (n : Nat) : List Nat × List Nat := (l.take n, l.drop n)

def decodeScope (g : List Bytes) : Except String (Nat × Info) := do
  let ns ← natList g
  match ns with
  | depth :: rn :: fn :: hw :: nd :: nu :: nr :: rest =>
    let (decl, r1) := splitAtN rest nd
    let (und, r2) := splitAtN r1 nu
    let (refs, r3) := splitAtN r2 nr
    if refs.length != nr || !r3.isEmpty then .error "bad scope group" else
    .ok (depth, { declared := decl, undeclared := und, refs := refs, rename := rn != 0, isFunc := fn != 0,
                  hasWith := hw != 0 })
  | _ => .error "short scope group"

/-- array-backed evaluation of `Model.Rename.renameForest`: the bindings of every scope come from the model's
    `stepPairs`; only `assign` is replaced by an array update (first binding wins, as in `List.lookup`) -/
def applyPairs (arr : Array Name) (pairs : List (VarId × Name)) : Array Name :=
  pairs.reverse.foldl (fun a p => a.setIfInBounds p.1 p.2) arr

def renameFast (c : Cfg) : Array Name → Forest → Array Name
  | arr, .nil => arr
  | arr, .node i ch sib =>
    let arr1 := applyPairs arr (stepPairs c (fun v => arr.getD v []) i)
    renameFast c (renameFast c arr1 ch) sib

/-- `spec.c02.tree cfg scopes names` → `[wfTree, flagsOk, inputOk, captureFree(model naming), name0', name1', …]`:
    the contract of the scope analysis evaluated on a parsed tree, the guards of `capture_free_partial`, and the
    property evaluated on the naming the model of the traversal produces -/
def opTree : Handler := fun args => do
  let c := cfgOf (← argNat args 0)
  let gs ← argGroups args 1
  let scopes ← gs.mapM decodeScope
  let names := ((← argList args 2).map bytesToChars).toArray
  let ν : Naming := fun v => names.getD v []
  let (f, rest) := buildForest (2 * scopes.length + 2) 0 scopes
  if !rest.isEmpty then .error "malformed preorder" else
  let arr' := renameFast c names f
  let ν' : Naming := fun v => arr'.getD v []
  let out := arr'.toList.map nameBytes
  .ok (listReply ([boolBytes (wfForest f), boolBytes (flagsOk f), boolBytes (inputOk ν f),
    boolBytes (captureFreeB ν' f)] ++ out))

/-- `spec.c02.resolve scopes namesAfter` → `1`/`0`: `captureFreeB` of an arbitrary naming on the tree -/
def opResolve : Handler := fun args => do
  let gs ← argGroups args 0
  let scopes ← gs.mapM decodeScope
  let names := ((← argList args 1).map bytesToChars).toArray
  let ν : Naming := fun v => names.getD v []
  let (f, rest) := buildForest (2 * scopes.length + 2) 0 scopes
  if !rest.isEmpty then .error "malformed preorder" else
  .ok (boolBytes (captureFreeB ν f))

/-- `model.c02.printProp keyIsIdent key value` -/
def opPrintProp : Handler := fun args => do
  let isId ← argBool args 0
  let key ← argChars args 1
  let value ← argChars args 2
  .ok (charsToBytes (printProp isId key value))

def handlers : List (String × Handler) :=
  [("model.c02.getName", opGetName), ("model.c02.renameScope", opRenameScope),
   ("spec.c02.fresh", opFresh), ("spec.c02.tree", opTree), ("spec.c02.resolve", opResolve),
   ("model.c02.printProp", opPrintProp)]

end Verif.Driver.C02

import Driver.Proto
/-! driver handlers for property C04 (ops `model.*`, `spec.*`, `trig.*`) -/
namespace Verif.Driver.C04
open Verif Verif.Driver

def handlers : List (String × Handler) := []

end Verif.Driver.C04

import Driver.Proto
import Verif.Model.Css
/-! driver handlers for property C04 (ops `model.c04.*`, `spec.c04.*`) -/
namespace Verif.Driver.C04
open Verif Verif.Driver
open Verif.Spec.CssValue (TT Tok)

/-- a group `[tt code, lexeme]` → flat token -/
def decodeTok (g : List Bytes) : Except String Tok :=
  match g with
  | [code, data] =>
    match parseIntChars (bytesToChars code) with
    | some n => .ok (.mk (TT.ofCode n.toNat) (bytesToChars data) [])
    | none => .error "bad token type"
  | [code] =>
    match parseIntChars (bytesToChars code) with
    | some n => .ok (.mk (TT.ofCode n.toNat) [] [])
    | none => .error "bad token type"
  | _ => .error "bad token group"

/-- `model.c04.num decimal lexeme` → `minify.Decimal(lexeme, 0)` / `minify.Number(lexeme, 0)` -/
def numOp : Handler := fun args => do
  let css2 ← argBool args 0
  let s ← argChars args 1
  .ok (charsToBytes (if css2 then Model.CssNum.decimal0 s else Model.CssNum.number0 s))

/-- `model.c04.decl keepCSS2 prop components` → `[S|N, bytes written after "prop:"]` -/
def declOp : Handler := fun args => do
  let css2 ← argBool args 0
  let prop ← argChars args 1
  let gs ← argGroups args 2
  let comps ← gs.mapM decodeTok
  match Model.Css.minifyDeclaration ⟨css2⟩ prop comps with
  | some out => .ok (listReply [strBytes "S", charsToBytes out])
  | none => .ok (listReply [strBytes "N"])

/-- `spec.c04.holds prop inComponents outComponents` → `1` same / `0` different / `2` not judged -/
def holdsOp : Handler := fun args => do
  let prop ← argChars args 0
  let a ← (← argGroups args 1).mapM decodeTok
  let b ← (← argGroups args 2).mapM decodeTok
  .ok (natBytes (Spec.CssValue.verdict prop (Spec.CssValue.nest a) (Spec.CssValue.nest b)))

def handlers : List (String × Handler) :=
  [("model.c04.num", numOp), ("model.c04.decl", declOp), ("spec.c04.holds", holdsOp)]

end Verif.Driver.C04

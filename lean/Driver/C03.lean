import Driver.Proto
import Verif.Spec.HtmlAttr
import Verif.Model.HtmlAttr
import Verif.Spec.HtmlKnown
/-! driver handlers for property C03 (ops `model.*`, `spec.*`, `trig.*`) -/
namespace Verif.Driver.C03
open Verif Verif.Driver
open Verif.Gen

def utf8 (n : Nat) : Bytes :=
  let b (x : Nat) : UInt8 := UInt8.ofNat x
  if n < 0x80 then [b n]
  else if n < 0x800 then [b (0xC0 + n / 64), b (0x80 + n % 64)]
  else if n < 0x10000 then [b (0xE0 + n / 4096), b (0x80 + n / 64 % 64), b (0x80 + n % 64)]
  else [b (0xF0 + n / 262144), b (0x80 + n / 4096 % 64), b (0x80 + n / 64 % 64), b (0x80 + n % 64)]

def duBytes : Spec.HtmlAttr.DU → Bytes
  | .lit c => [charToByte c]
  | .cp n => utf8 n

/-- `model.c03.replent mode raw` — mode 0: ReplaceEntities text maps, 1: attr (rev = nil),
    2: ReplaceMultipleWhitespaceAndEntities text maps, 3: same with rev = nil -/
def replent : Handler := fun args => do
  let mode ← argNat args 0
  let raw ← argChars args 1
  let em := C03Tables.entitiesMap
  let rev := C03Tables.textRevEntitiesMap
  let out := match mode with
    | 0 => Model.HtmlAttr.replaceEntities em rev raw
    | 1 => Model.HtmlAttr.replaceEntities em [] raw
    | 2 => Model.HtmlAttr.replaceWsEntities em rev raw
    | _ => Model.HtmlAttr.replaceWsEntities em [] raw
  .ok (charsToBytes out)

def quoteOf (n : Nat) : Model.HtmlAttr.Quote :=
  if n = 39 then .single else if n = 34 then .double else .none

/-- `model.c03.escape val origQuote(0|34|39) mustQuote` -/
def escape : Handler := fun args => do
  let v ← argChars args 0
  let q ← argNat args 1
  let must ← argBool args 2
  .ok (charsToBytes (Model.HtmlAttr.escapeAttrVal v (quoteOf q) must))

def trimWs : Handler := fun args => do
  let v ← argChars args 0
  .ok (charsToBytes (Model.HtmlAttr.trimWhitespace v))

/-- `spec.c03.decode attr raw` → UTF-8 rendering of the decoded units -/
def decode : Handler := fun args => do
  let attr ← argBool args 0
  let raw ← argChars args 1
  .ok ((Spec.HtmlAttr.decodeRefs attr raw).foldr (fun u acc => duBytes u ++ acc) [])

/-- `spec.c03.tokattr s` → `[raw, rest]` or `[]` when `s` does not start with a conforming attribute value -/
def tokattr : Handler := fun args => do
  let s ← argChars args 0
  match Spec.HtmlAttr.tokenizeAttr s with
  | some (raw, rest) => .ok (listReply [strBytes "ok", charsToBytes raw, charsToBytes rest])
  | none => .ok (listReply [strBytes "none"])

/-- `trig.c03.refs attr raw` → names of the known-finding triggers the raw text falls under, or `none` -/
def trigRefs : Handler := fun args => do
  let raw ← argChars args 1
  let names := (if Spec.HtmlKnown.glue raw then ["glue"] else []) ++
    (if Spec.HtmlKnown.ctlRef raw then ["ctlref"] else []) ++
    (if Spec.HtmlKnown.hexOverflow raw then ["hexoverflow"] else [])
  .ok (strBytes (if names.isEmpty then "none" else ",".intercalate names))

def handlers : List (String × Handler) := [
  ("trig.c03.refs", trigRefs),
  ("model.c03.replent", replent),
  ("model.c03.escape", escape),
  ("model.c03.trimws", trimWs),
  ("spec.c03.decode", decode),
  ("spec.c03.tokattr", tokattr)]

end Verif.Driver.C03

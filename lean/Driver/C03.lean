import Driver.Proto
import Verif.Spec.HtmlAttr
import Verif.Model.HtmlAttr
import Verif.Spec.HtmlKnown
import Verif.Model.Html
import Verif.Spec.HtmlKnownDoc
import Verif.Spec.HtmlRawText
/-! driver handlers for property C03 (ops `model.*`, `spec.*`, `trig.*`) -/
namespace Verif.Driver.C03
open Verif Verif.Driver
open Verif.Gen

def utf8 (n : Nat) : Bytes :=
  let b (x : Nat) : UInt8 := UInt8.ofNat x
  if n < 0x80 then [b n]
  else if n < 0x800 then [b (0xC0 + n / 64), b (0x80 + n % 64)]
  else if n < 0x10000 then [b (0xE0 + n / 4096), b (0x80 + n / 64 % 64), b (0x80 + n % 64)]
  else [b (0xF0 + n / 262144), b (0x80 + n / 4096 % 64), b (0x80 + n / 64 % 64), b (0x80 + n % 64)]

def duBytes : Spec.HtmlAttr.DU → Bytes
  | .lit c => [charToByte c]
  | .cp n => utf8 n

/-- `model.c03.replent mode raw` — mode 0: ReplaceEntities text maps, 1: attr (AttrRevEntitiesMap),
    2: ReplaceMultipleWhitespaceAndEntities text maps, 3: same with rev = nil -/
def replent : Handler := fun args => do
  let mode ← argNat args 0
  let raw ← argChars args 1
  let em := C03Tables.entitiesMap
  let rev := C03Tables.textRevEntitiesMap
  let out := match mode with
    | 0 => Model.HtmlAttr.replaceEntities em rev raw
    | 1 => Model.HtmlAttr.replaceEntities em C03Tables.attrRevEntitiesMap raw
    | 2 => Model.HtmlAttr.replaceWsEntities em rev raw
    | _ => Model.HtmlAttr.replaceWsEntities em C03Tables.attrRevEntitiesMap raw
  .ok (charsToBytes out)

def quoteOf (n : Nat) : Model.HtmlAttr.Quote :=
  if n = 39 then .single else if n = 34 then .double else .none

/-- `model.c03.escape val origQuote(0|34|39) mustQuote` -/
def escape : Handler := fun args => do
  let v ← argChars args 0
  let q ← argNat args 1
  let must ← argBool args 2
  .ok (charsToBytes (Model.HtmlAttr.escapeAttrVal v (quoteOf q) must))

def trimWs : Handler := fun args => do
  let v ← argChars args 0
  .ok (charsToBytes (Model.HtmlAttr.trimWhitespace v))

/-- `model.c03.rawok name b` → 1 when `rawTextEndsAtEnd name b`, else 0; for `style`/`iframe` followed by the
    specification's verdict (`Spec.HtmlRawText.rawTextEnd` of `b</name>` is the length of `b`) -/
def rawok : Handler := fun args => do
  let name ← argChars args 0
  let b ← argChars args 1
  let m := Verif.Model.Html.rawTextEndsAtEnd name b
  let sp := Spec.HtmlRawText.rawTextEnd name 0 (b ++ '<' :: '/' :: name ++ ['>']) == b.length
  .ok (charsToBytes [if m then '1' else '0', if sp then '1' else '0'])

/-- `spec.c03.decode attr raw` → UTF-8 rendering of the decoded units -/
def decode : Handler := fun args => do
  let attr ← argBool args 0
  let raw ← argChars args 1
  .ok ((Spec.HtmlAttr.decodeRefs attr raw).foldr (fun u acc => duBytes u ++ acc) [])

/-- `spec.c03.tokattr s` → `[raw, rest]` or `[]` when `s` does not start with a conforming attribute value -/
def tokattr : Handler := fun args => do
  let s ← argChars args 0
  match Spec.HtmlAttr.tokenizeAttr s with
  | some (raw, rest) => .ok (listReply [strBytes "ok", charsToBytes raw, charsToBytes rest])
  | none => .ok (listReply [strBytes "none"])

/-- `trig.c03.refs attr raw` → names of the known-finding triggers the raw text falls under, or `none` -/
def trigRefs : Handler := fun args => do
  let raw ← argChars args 1
  let names := (if Spec.HtmlKnown.glue raw then ["glue"] else []) ++
    (if Spec.HtmlKnown.crLfRef raw then ["crlf"] else []) ++
    (if Spec.HtmlKnown.hexOverflow raw then ["hexoverflow"] else [])
  .ok (strBytes (if names.isEmpty then "none" else ",".intercalate names))

/-! ### the token loop -/
open Verif.Model.Html in
def optsOf (m : Nat) : Opts :=
  { keepComments := m % 2 = 1, keepSpecialComments := m / 2 % 2 = 1, keepDefaultAttrVals := m / 4 % 2 = 1,
    keepDocumentTags := m / 8 % 2 = 1, keepEndTags := m / 16 % 2 = 1, keepQuotes := m / 32 % 2 = 1,
    keepWhitespace := m / 64 % 2 = 1 }

open Verif.Model.Html in
def decodeAttrs : List Bytes → Except String (List Attr)
  | [] => .ok []
  | n :: v :: d :: t :: r => do
    let rest ← decodeAttrs r
    .ok ({ name := bytesToChars n, val := bytesToChars v, data := bytesToChars d, tmpl := t == [49] } :: rest)
  | _ => .error "bad attribute group"

open Verif.Model.Html in
def decodeTok (g : List Bytes) : Except String HTok :=
  match g with
  | k :: r =>
    let kind := bytesToChars k
    if kind == ['T'] then match r with
      | [d, t] => .ok (.text (bytesToChars d) (t == [49]))
      | _ => .error "bad text token"
    else if kind == ['S'] then match r with
      | n :: as => do .ok (.startTag (bytesToChars n) (← decodeAttrs as))
      | _ => .error "bad start tag"
    else if kind == ['E'] then match r with
      | [n, d] => .ok (.endTag (bytesToChars n) (bytesToChars d))
      | _ => .error "bad end tag"
    else if kind == ['C'] then match r with
      | [d, t] => .ok (.comment (bytesToChars d) (bytesToChars t))
      | _ => .error "bad comment"
    else if kind == ['D'] then .ok .doctype
    else if kind == ['V'] then match r with | [d] => .ok (.svg (bytesToChars d)) | _ => .error "bad svg"
    else if kind == ['M'] then match r with | [d] => .ok (.math (bytesToChars d)) | _ => .error "bad math"
    else if kind == ['P'] then match r with | [d] => .ok (.template (bytesToChars d)) | _ => .error "bad template"
    else .error "unknown token kind"
  | [] => .error "empty token group"

/-- the recording stub minifier of the harness: `[label|i or -|payload]`; the label is the media type when the
    harness registered a stub under that literal type, `?` for the catch-all pattern -/
def stubLabels : List String :=
  ["text/css", "application/javascript", "text/javascript", "image/svg+xml", "application/mathml+xml", "text/html",
   "application/json", "application/ld+json", "module"]

def stubSub (mime : List Char) (inline : Bool) (payload : List Char) : List Char :=
  let label := if stubLabels.any (fun l => l.toList == mime) then mime else ['?']
  '[' :: label ++ ['|', if inline then 'i' else '-', '|'] ++ payload ++ [']']

/-- sub mode 2: a stub that also drops every backslash of the payload (`<\/script>` becomes `</script>`, `<!\--`
    becomes `<!--`): its results regularly fail `rawTextEndsAtEnd` -/
def stubSubDrop (mime : List Char) (inline : Bool) (payload : List Char) : List Char :=
  stubSub mime inline (payload.filter (· != '\\'))

/-- `model.c03.minify optsMask subMode ext tokens` -/
def minifyOp : Handler := fun args => do
  let m ← argNat args 0
  let subMode ← argNat args 1
  let extG ← argGroups args 2
  let toksG ← argGroups args 3
  let ext ← extG.mapM (fun g => match g with
    | [k, i, o] => .ok (bytesToChars k, bytesToChars i, bytesToChars o)
    | _ => .error "bad ext group")
  let toks ← toksG.mapM decodeTok
  let sub : Verif.Model.Html.Sub := if subMode = 0 then none else if subMode = 2 then some stubSubDrop else some stubSub
  match Verif.Model.Html.htmlMinify (optsOf m) ext sub toks with
  | .ok out => .ok (charsToBytes out)
  | .error e => .error e

/-- `trig.c03.doc tokens` → comma separated names of the document-level triggers that fire, or `none` -/
def trigDoc : Handler := fun args => do
  let toksG ← argGroups args 0
  let toks ← toksG.mapM decodeTok
  let names := Spec.HtmlKnownDoc.docTriggers toks
  .ok (strBytes (if names.isEmpty then "none" else ",".intercalate names))

def handlers : List (String × Handler) := [
  ("trig.c03.doc", trigDoc),
  ("model.c03.minify", minifyOp),
  ("trig.c03.refs", trigRefs),
  ("model.c03.replent", replent),
  ("model.c03.escape", escape),
  ("model.c03.trimws", trimWs),
  ("model.c03.rawok", rawok),
  ("spec.c03.decode", decode),
  ("spec.c03.tokattr", tokattr)]

end Verif.Driver.C03

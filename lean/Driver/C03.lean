import Driver.Proto
/-! driver handlers for property C03 (ops `model.*`, `spec.*`, `trig.*`) -/
namespace Verif.Driver.C03
open Verif Verif.Driver

def handlers : List (String × Handler) := []

end Verif.Driver.C03

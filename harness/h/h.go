// Package h is the shared runtime of the correspondence harness: seeded PRNG, hex line
// protocol to the Lean model driver `vdrv`, case comparison and the JSON report that the
// `check` driver turns into evidence and VIOLATION lines.
package h

import (
	"bufio"
	"bytes"
	"encoding/hex"
	"encoding/json"
	"fmt"
	"os"
	"os/exec"
	"runtime"
	"strconv"
	"strings"
	"sync"
	"time"
)

// ---------- PRNG (splitmix64): every random choice of a run derives from VERIF_SEED ----------

type RNG struct{ S uint64 }

// NewRNG derives an unrelated stream per seed (the seed is hashed: consecutive seeds must not give shifted copies of one stream).
func NewRNG(seed uint64) *RNG {
	z := (seed + 0x632BE59BD9B4E019) * 0xD1342543DE82EF95
	z = (z ^ (z >> 32)) * 0xBF58476D1CE4E5B9
	z = (z ^ (z >> 29)) * 0x94D049BB133111EB
	return &RNG{S: z ^ (z >> 32)}
}
func (r *RNG) Next() uint64 {
	r.S += 0x9E3779B97F4A7C15
	z := r.S
	z = (z ^ (z >> 30)) * 0xBF58476D1CE4E5B9
	z = (z ^ (z >> 27)) * 0x94D049BB133111EB
	return z ^ (z >> 31)
}
func (r *RNG) Intn(n int) int {
	if n <= 0 {
		return 0
	}
	return int(r.Next() % uint64(n))
}
func (r *RNG) Bool() bool        { return r.Next()&1 == 1 }
func (r *RNG) Chance(p int) bool { return r.Intn(100) < p } // p percent
func (r *RNG) Pick(s []string) string {
	return s[r.Intn(len(s))]
}
func (r *RNG) Fork() *RNG { return NewRNG(r.Next()) }

// ---------- protocol encoding ----------

func Hex(b []byte) string {
	if len(b) == 0 {
		return "-"
	}
	return hex.EncodeToString(b)
}
func HexS(s string) string { return Hex([]byte(s)) }
func Int(i int64) string   { return HexS(strconv.FormatInt(i, 10)) }
func Bool(b bool) string {
	if b {
		return Int(1)
	}
	return Int(0)
}

// List encodes a list of byte strings as one argument token (`,` separated, `_` = empty item, `-` = empty list)
func List(items [][]byte) string {
	if len(items) == 0 {
		return "-"
	}
	parts := make([]string, len(items))
	for i, it := range items {
		if len(it) == 0 {
			parts[i] = "_"
		} else {
			parts[i] = hex.EncodeToString(it)
		}
	}
	return strings.Join(parts, ",")
}
func ListS(items []string) string {
	b := make([][]byte, len(items))
	for i, s := range items {
		b[i] = []byte(s)
	}
	return List(b)
}

// Groups encodes a list of lists (`;` between groups)
func Groups(gs [][][]byte) string {
	if len(gs) == 0 {
		return "-"
	}
	parts := make([]string, len(gs))
	for i, g := range gs {
		parts[i] = List(g)
	}
	return strings.Join(parts, ";")
}

// DecodeReply turns a vdrv reply into bytes; ok=false if the model reported an error (`!msg`).
func DecodeReply(s string) (b []byte, ok bool, msg string) {
	if strings.HasPrefix(s, "!") {
		return nil, false, s[1:]
	}
	if s == "-" {
		return []byte{}, true, ""
	}
	d, err := hex.DecodeString(s)
	if err != nil {
		return nil, false, "undecodable reply: " + s
	}
	return d, true, ""
}

// DecodeListReply decodes a reply produced by `listReply` on the Lean side.
func DecodeListReply(b []byte) [][]byte {
	if len(b) == 0 {
		return nil
	}
	var out [][]byte
	for _, p := range strings.Split(string(b), ",") {
		if p == "_" {
			out = append(out, []byte{})
			continue
		}
		d, _ := hex.DecodeString(p)
		out = append(out, d)
	}
	return out
}

// ---------- vdrv pool ----------

var VdrvPath = "/verif/lean/.lake/build/bin/vdrv"
var Workers = runtime.NumCPU()

// Eval sends the request lines to vdrv (sharded over Workers processes) and returns one reply per line.
func Eval(lines []string) ([]string, error) {
	n := len(lines)
	out := make([]string, n)
	if n == 0 {
		return out, nil
	}
	w := Workers
	if w > n/256+1 {
		w = n/256 + 1
	}
	var wg sync.WaitGroup
	errs := make([]error, w)
	for k := 0; k < w; k++ {
		lo, hi := n*k/w, n*(k+1)/w
		wg.Add(1)
		go func(k, lo, hi int) {
			defer wg.Done()
			cmd := exec.Command(VdrvPath)
			var in bytes.Buffer
			for _, l := range lines[lo:hi] {
				in.WriteString(l)
				in.WriteByte('\n')
			}
			cmd.Stdin = &in
			var stdout bytes.Buffer
			cmd.Stdout = &stdout
			var stderr bytes.Buffer
			cmd.Stderr = &stderr
			if err := cmd.Run(); err != nil {
				errs[k] = fmt.Errorf("vdrv: %v: %s", err, stderr.String())
				return
			}
			sc := bufio.NewScanner(&stdout)
			sc.Buffer(make([]byte, 1<<20), 1<<28)
			i := lo
			for sc.Scan() {
				if i >= hi {
					errs[k] = fmt.Errorf("vdrv: too many reply lines")
					return
				}
				out[i] = sc.Text()
				i++
			}
			if i != hi {
				errs[k] = fmt.Errorf("vdrv: %d replies for %d requests (stderr: %s)", i-lo, hi-lo, stderr.String())
			}
		}(k, lo, hi)
	}
	wg.Wait()
	for _, e := range errs {
		if e != nil {
			return nil, e
		}
	}
	return out, nil
}

// ---------- report ----------

type Finding struct {
	Stage  string `json:"stage"`
	Kind   string `json:"kind"`  // "diff" (model≠impl) | "fail" (property fails on impl output) | "crash"
	What   string `json:"what"`  // human-readable: which clause / which op
	Input  string `json:"input"` // human-readable input (quoted)
	Hex    string `json:"input_hex,omitempty"`
	Config string `json:"config,omitempty"`
	Impl   string `json:"impl,omitempty"`
	Model  string `json:"model,omitempty"`
	Known  string `json:"known,omitempty"` // id of the known finding this falls under, if any
	Seed   uint64 `json:"seed,omitempty"`
}

type Stage struct {
	Name        string         `json:"name"`
	Evaluations int            `json:"evaluations"`
	Nontrivial  int            `json:"distinct_nontrivial"`
	Rule        string         `json:"rule"`
	Samples     []string       `json:"samples"`
	Exhaustive  bool           `json:"exhaustive"`
	WallS       float64        `json:"wall_s"`
	Dist        map[string]int `json:"distribution,omitempty"`
	start       time.Time
	seen        map[string]struct{}
}

type KnownReplay struct {
	ID         string `json:"id"`
	StillFails bool   `json:"still_fails"`
	What       string `json:"what"`
	Observed   string `json:"observed,omitempty"`
}

type Report struct {
	Property      string        `json:"property"`
	Tier          string        `json:"tier"`
	Seed          uint64        `json:"seed"`
	Stages        []*Stage      `json:"stages"`
	Findings      []Finding     `json:"findings"`
	Known         []KnownReplay `json:"known"`
	ExcludedKnown int           `json:"excluded_known"`
	Notes         []string      `json:"notes"`
	mu            sync.Mutex
}

func (r *Report) StartStage(name, rule string) *Stage {
	s := &Stage{Name: name, Rule: rule, start: time.Now(), seen: map[string]struct{}{}, Dist: map[string]int{}}
	r.mu.Lock()
	r.Stages = append(r.Stages, s)
	r.mu.Unlock()
	return s
}

// Count registers one evaluated case. key identifies the case (for distinctness); nontrivial by the stage's rule.
func (s *Stage) Count(key string, nontrivial bool) {
	s.Evaluations++
	if nontrivial {
		if _, ok := s.seen[key]; !ok {
			s.seen[key] = struct{}{}
			s.Nontrivial++
		}
	}
	if len(s.Samples) < 6 && (nontrivial || s.Evaluations < 3) {
		if len(key) > 300 {
			key = key[:300] + "…"
		}
		s.Samples = append(s.Samples, key)
	}
}
func (s *Stage) Tag(t string) { s.Dist[t]++ }
func (s *Stage) End()         { s.WallS = time.Since(s.start).Seconds(); s.seen = nil }

const maxFindings = 40

func (r *Report) Add(f Finding) {
	r.mu.Lock()
	defer r.mu.Unlock()
	if len(r.Findings) < maxFindings {
		r.Findings = append(r.Findings, f)
	}
}
func (r *Report) Note(format string, a ...any) {
	r.mu.Lock()
	r.Notes = append(r.Notes, fmt.Sprintf(format, a...))
	r.mu.Unlock()
}
func (r *Report) Write(path string) error {
	b, err := json.MarshalIndent(r, "", " ")
	if err != nil {
		return err
	}
	return os.WriteFile(path, b, 0o644)
}

// Q quotes bytes for humans.
func Q(b []byte) string { return strconv.QuoteToASCII(string(b)) }

// ---------- generic compare helper ----------

// Case is one request to the model with the implementation's answer.
type Case struct {
	Line   string // full protocol line
	Want   []byte // implementation result
	Key    string // human readable identification (input + config)
	InHex  string
	Config string
	Nontrivial bool
}

// CompareAll evaluates all cases on the model and records a "diff" finding for each disagreement.
func CompareAll(r *Report, st *Stage, what string, cases []Case) error {
	lines := make([]string, len(cases))
	for i, c := range cases {
		lines[i] = c.Line
	}
	rep, err := Eval(lines)
	if err != nil {
		return err
	}
	for i, c := range cases {
		st.Count(c.Key, c.Nontrivial)
		got, ok, msg := DecodeReply(rep[i])
		if !ok {
			r.Add(Finding{Stage: st.Name, Kind: "diff", What: what + ": model error " + msg, Input: c.Key, Hex: c.InHex, Config: c.Config, Impl: Q(c.Want)})
			continue
		}
		if !bytes.Equal(got, c.Want) {
			r.Add(Finding{Stage: st.Name, Kind: "diff", What: what, Input: c.Key, Hex: c.InHex, Config: c.Config, Impl: Q(c.Want), Model: Q(got)})
		}
	}
	return nil
}

// Safely runs f under recover with a timeout; a panic or timeout is reported as crash text.
func Safely(timeout time.Duration, f func()) (crash string) {
	done := make(chan string, 1)
	go func() {
		defer func() {
			if p := recover(); p != nil {
				done <- fmt.Sprintf("panic: %v", p)
			}
		}()
		f()
		done <- ""
	}()
	select {
	case s := <-done:
		return s
	case <-time.After(timeout):
		return "timeout after " + timeout.String()
	}
}

package h

import (
	"encoding/json"
	"os"
	"path/filepath"
)

// KnownEntry is one entry of /verif/known_findings.json (never written at run time).
type KnownEntry struct {
	ID       string         `json:"id"`
	Property string         `json:"property"`
	Status   string         `json:"status"` // "open" | "fixed"
	What     string         `json:"what"`
	Trigger  string         `json:"trigger,omitempty"` // name of the narrow predicate that classifies generated inputs under this finding
	Replay   map[string]any `json:"replay"`            // exact failing input / config, property specific
	Commit   string         `json:"commit,omitempty"`
}

// Root is /verif (or the worktree the check runs from).
func Root() string {
	if r := os.Getenv("VERIF_ROOT"); r != "" {
		return r
	}
	return "/verif"
}

// Known returns the entries of the known-findings file for one property.
func Known(property string) []KnownEntry {
	b, err := os.ReadFile(filepath.Join(Root(), "known_findings.json"))
	if err != nil {
		return nil
	}
	var all []KnownEntry
	if json.Unmarshal(b, &all) != nil {
		return nil
	}
	var out []KnownEntry
	for _, k := range all {
		if k.Property == property {
			out = append(out, k)
		}
	}
	return out
}

// ReplayStr fetches a string field of the replay record.
func (k KnownEntry) ReplayStr(key string) string {
	if v, ok := k.Replay[key].(string); ok {
		return v
	}
	return ""
}

// AddKnown records the outcome of replaying an open known finding.
func (r *Report) AddKnown(id string, stillFails bool, what, observed string) {
	r.mu.Lock()
	r.Known = append(r.Known, KnownReplay{ID: id, StillFails: stillFails, What: what, Observed: observed})
	r.mu.Unlock()
}

// GoBuildArgs returns the leading arguments of a `go build` of a harness command: when the check runs against another
// checkout of the repository (VERIF_REPO), the alternative module file that points the replace directive there.
func GoBuildArgs() []string {
	if mf := os.Getenv("VERIF_MODFILE"); mf != "" {
		return []string{"build", "-modfile", mf}
	}
	return []string{"build"}
}

module verifharness

go 1.23

require (
	github.com/tdewolff/minify/v2 v2.0.0
	github.com/tdewolff/parse/v2 v2.7.23
	golang.org/x/net v0.34.0
	golang.org/x/tools v0.29.0
)

require (
	golang.org/x/mod v0.22.0 // indirect
	golang.org/x/sync v0.10.0 // indirect
)

replace github.com/tdewolff/minify/v2 => /repo

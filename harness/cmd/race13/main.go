// Command race13 is the C13 stress program.  It is built with -race -tags verif by the C13 runner and
// run as a separate process: N goroutines hammer ONE fully registered registry (with SHARED option
// structs) through every entry point; every result is compared with the sequential result; option
// structs and all package-level byte slices (VerifGlobals hooks) must be unchanged afterwards.
// Output: one JSON object per line ({"kind":"mismatch"|"optmut"|"globalmut"|"summary",…}); data races
// are reported by the race detector on stderr (exit code 66).
package main

import (
	"bytes"
	"crypto/sha256"
	"encoding/hex"
	"encoding/json"
	"flag"
	"fmt"
	"io"
	"os"
	"path/filepath"
	"reflect"
	"regexp"
	"runtime"
	"sort"
	"strings"
	"sync"

	"github.com/tdewolff/minify/v2"
	"github.com/tdewolff/minify/v2/css"
	"github.com/tdewolff/minify/v2/html"
	"github.com/tdewolff/minify/v2/js"
	mjson "github.com/tdewolff/minify/v2/json"
	"github.com/tdewolff/minify/v2/svg"
	"github.com/tdewolff/minify/v2/xml"

	"verifharness/h"
)

type doc struct {
	mt   string
	name string
	data []byte
}

type opts struct {
	CSS  *css.Minifier
	HTML *html.Minifier
	JS   *js.Minifier
	JSON *mjson.Minifier
	SVG  *svg.Minifier
	XML  *xml.Minifier
	ASP  *html.Minifier
}

func newRegistry(o *opts) *minify.M {
	m := minify.New()
	m.Add("text/css", o.CSS)
	m.Add("text/html", o.HTML)
	m.Add("image/svg+xml", o.SVG)
	m.AddRegexp(regexp.MustCompile("^(application|text)/(x-)?(java|ecma|j|live)script(1\\.[0-5])?$|^module$"), o.JS)
	m.AddRegexp(regexp.MustCompile("[/+]json$"), o.JSON)
	m.AddRegexp(regexp.MustCompile("[/+]xml$"), o.XML)
	m.Add("text/asp", o.ASP)
	return m
}

func emit(v map[string]any) {
	b, _ := json.Marshal(v)
	fmt.Println(string(b))
}

func globals() map[string][]byte {
	out := map[string][]byte{}
	add := func(p string, g map[string][]byte) {
		for k, v := range g {
			out[p+"."+k] = v
		}
	}
	add("minify", minify.VerifGlobals())
	add("css", css.VerifGlobals())
	add("html", html.VerifGlobals())
	add("js", js.VerifGlobals())
	add("json", mjson.VerifGlobals())
	add("svg", svg.VerifGlobals())
	add("xml", xml.VerifGlobals())
	return out
}

var entryPoints = []string{"Minify", "Bytes", "String", "Reader", "Writer", "Match"}

func call(m *minify.M, ep string, d doc) (string, string) {
	switch ep {
	case "Minify":
		var w bytes.Buffer
		err := m.Minify(d.mt, &w, bytes.NewReader(d.data))
		return w.String(), errS(err)
	case "Bytes":
		in := append([]byte(nil), d.data...)
		out, err := m.Bytes(d.mt, in)
		if err != nil && !bytes.Equal(in, d.data) {
			return "CALLER-DATA-CHANGED", errS(err)
		}
		if err != nil {
			return "", errS(err)
		}
		return string(out), ""
	case "String":
		out, err := m.String(d.mt, string(d.data))
		if err != nil {
			return "", errS(err)
		}
		return out, ""
	case "Reader":
		r := m.Reader(d.mt, bytes.NewReader(d.data))
		out, err := io.ReadAll(r)
		if err != nil {
			return "", errS(err)
		}
		return string(out), ""
	case "Writer":
		var w bytes.Buffer
		wc := m.Writer(d.mt, &w)
		_, werr := wc.Write(d.data)
		err := wc.Close()
		if err == nil && werr != nil && werr != io.ErrClosedPipe {
			err = werr
		}
		if err != nil {
			return "", errS(err)
		}
		return w.String(), ""
	case "Match":
		name, params, f := m.Match(d.mt + "; charset=utf-8")
		return fmt.Sprintf("%s|%v|%v", name, params, f != nil), ""
	}
	return "", "?"
}

func errS(err error) string {
	if err == nil {
		return ""
	}
	return err.Error()
}

func main() {
	n := flag.Int("n", 8, "goroutines")
	iters := flag.Int("iters", 3, "passes per goroutine over all (doc, entry point) pairs")
	seed := flag.Uint64("seed", 1, "")
	procs := flag.Int("procs", 0, "GOMAXPROCS (0 = default)")
	repo := flag.String("repo", "/repo", "")
	maxBytes := flag.Int("maxbytes", 30000, "benchmark files are truncated at a safe boundary to this size")
	flag.Parse()
	if *procs > 0 {
		runtime.GOMAXPROCS(*procs)
	}
	o := &opts{
		CSS:  &css.Minifier{Precision: 0},
		HTML: &html.Minifier{KeepConditionalComments: true, KeepDefaultAttrVals: false},
		JS:   &js.Minifier{Version: 2019},
		JSON: &mjson.Minifier{},
		SVG:  &svg.Minifier{Precision: 0},
		XML:  &xml.Minifier{},
		ASP:  &html.Minifier{TemplateDelims: [2]string{"<%", "%>"}, KeepSpecialComments: true},
	}
	snapshot := *o
	optCopy := opts{CSS: &css.Minifier{}, HTML: &html.Minifier{}, JS: &js.Minifier{}, JSON: &mjson.Minifier{}, SVG: &svg.Minifier{}, XML: &xml.Minifier{}, ASP: &html.Minifier{}}
	*optCopy.CSS, *optCopy.HTML, *optCopy.JS, *optCopy.JSON, *optCopy.SVG, *optCopy.XML, *optCopy.ASP = *o.CSS, *o.HTML, *o.JS, *o.JSON, *o.SVG, *o.XML, *o.ASP
	_ = snapshot
	m := newRegistry(o)

	docs := []doc{
		{"text/html", "embedded", []byte(`<!DOCTYPE html><HTML><head><style>a { color: #FF0000; margin: 0px 0px 0px 0px } </style><script type="text/javascript">var x = function(a, b){ if (a) { return b + 1 } else { return 2 } }; x(1,2);</script></head><body><P CLASS=" a  b ">Hello   &amp; <b> world </b> &copy;<svg width="100px" height="100px"><path d="M 10 10 L 20 20 L 20 30 Z"/><style>rect{fill:#ffffff}</style></svg><a href="data:text/css;base64,YSB7IGNvbG9yOiByZWQgfQ==" style="color: rgb(255,255,255);" onclick="javascript:return  false ;">x</a><!--[if IE]> c <![endif]--></p></body></html>`)},
		{"text/css", "css", []byte(`@media screen { a:hover { background-position: right 10% bottom 20%; color: rgba(255,0,0,1.0); font-weight: bold; margin: 1.0e2px 0.50em } } b { background: url( "data:image/svg+xml,<svg xmlns='http://www.w3.org/2000/svg'><path d='M0 0L10 10'/></svg>" ) }`)},
		{"application/javascript", "js", []byte("function f(alpha, beta){ var gamma = alpha ? beta : !0; for (let i = 0; i < 10; i++) { gamma += i } return gamma ?? 'x' }\nlet s = `a${f(1,2)}b`; if (s) { console.log(s) } else { console.log(1e3) }")},
		{"application/json", "json", []byte(`{ "a" : [ 1.0e2 , 0.50, -0.0 , "xA" ] , "b" : { "c" : null , "c" : true } }`)},
		{"image/svg+xml", "svg", []byte(`<?xml version="1.0"?><svg xmlns="http://www.w3.org/2000/svg" version="1.1" x="0" y="0" width="100px"><!-- c --><g fill="#FF0000" style="stroke: #000000"><path d="M 100 100 L 300 100 L 200 300 z M1e2 5e-1 A 5 5 0 0 1 10 10"/><rect x="0.0" width="10.50"/></g></svg>`)},
		{"text/xml", "xml", []byte(`<?xml version="1.0"?><a  b = "c &amp; d" ><![CDATA[ x < y ]]>  <e>  text  </e> <!-- c --><f></f></a>`)},
		{"text/asp", "asp", []byte(`<p> <% x %>  text <b> y </b></p>`)},
		// path data whose first command is not a moveto, next to paths that end in curves: any per-document state of the path
		// shortener (current point, control points) that survived from another document shows in the output
		{"image/svg+xml", "svg-nomove-c", []byte(`<svg xmlns="http://www.w3.org/2000/svg"><path d="C-2-2 4 4 5 5"/><path d="Q-3 -3 4 4"/><path d="T4 4"/><path d="S1 1 2 2"/></svg>`)},
		{"image/svg+xml", "svg-curves", []byte(`<svg xmlns="http://www.w3.org/2000/svg"><path d="M0 0C1 1 2 2 3 3S4 4 5 5Q6 6 7 7T8 8"/><path d="M10 10c1 1 2 2 3 3"/></svg>`)},
		{"image/svg+xml", "svg-curve-to-origin", []byte(`<svg xmlns="http://www.w3.org/2000/svg"><path d="M0 0C1 1 2 2 0 0"/></svg>`)}, // ends at (0,0) with control point (2,2): its reflection is the first control point of svg-nomove-c
		{"image/svg+xml", "svg-quad-to-origin", []byte(`<svg xmlns="http://www.w3.org/2000/svg"><path d="M0 0Q3 3 0 0"/></svg>`)},
		{"image/svg+xml", "svg-nomove-l", []byte(`<svg xmlns="http://www.w3.org/2000/svg"><path d="l1 1h2v2"/><path d="t1 1"/><path d="s1 1 2 2"/></svg>`)},
		{"text/html", "bad-js", []byte(`<script>{</script><p>x`)},
		{"text/unknown", "unknown", []byte(`whatever`)},
	}
	files, _ := filepath.Glob(filepath.Join(*repo, "_benchmarks", "sample_*"))
	sort.Strings(files)
	mts := map[string]string{".html": "text/html", ".css": "text/css", ".js": "application/javascript", ".json": "application/json", ".svg": "image/svg+xml", ".xml": "text/xml"}
	for _, f := range files {
		b, err := os.ReadFile(f)
		if err != nil || len(b) == 0 || len(b) > *maxBytes {
			continue // only whole files: truncation would make most of them invalid
		}
		docs = append(docs, doc{mts[filepath.Ext(f)], filepath.Base(f), b})
	}

	before := map[string]string{}
	capOK := map[string]bool{}
	for k, v := range globals() {
		before[k] = string(v)
		capOK[k] = cap(v) == len(v)
	}

	// sequential reference
	type key struct {
		d  int
		ep string
	}
	want := map[key][2]string{}
	hsh := sha256.New()
	for i, d := range docs {
		for _, ep := range entryPoints {
			out, e := call(m, ep, d)
			want[key{i, ep}] = [2]string{out, e}
			fmt.Fprintf(hsh, "%s|%s|%s|%s\n", d.name, ep, out, e)
		}
	}
	digest := hex.EncodeToString(hsh.Sum(nil))

	// the concurrent phase runs on a FRESH registry over the same shared option structs: whatever a first use does
	// (lazy initialisation, caching) must happen under concurrency, not during the sequential reference pass
	m = newRegistry(o)
	var wg sync.WaitGroup
	var mu sync.Mutex
	mismatches, calls := 0, 0
	for g := 0; g < *n; g++ {
		wg.Add(1)
		go func(g int) {
			defer wg.Done()
			rng := h.NewRNG(*seed*1000 + uint64(g))
			for it := 0; it < *iters; it++ {
				order := rng.Intn(1 << 30)
				for j := 0; j < len(docs)*len(entryPoints); j++ {
					idx := (j*7919 + order) % (len(docs) * len(entryPoints))
					i, ep := idx/len(entryPoints), entryPoints[idx%len(entryPoints)]
					if rng.Chance(30) {
						runtime.Gosched()
					}
					out, e := call(m, ep, docs[i])
					w := want[key{i, ep}]
					mu.Lock()
					calls++
					if out != w[0] || e != w[1] {
						mismatches++
						if mismatches <= 5 {
							emit(map[string]any{"kind": "mismatch", "doc": docs[i].name, "mediatype": docs[i].mt, "entry": ep, "goroutine": g,
								"sequential": trunc(w[0]) + " err=" + w[1], "concurrent": trunc(out) + " err=" + e, "input": trunc(string(docs[i].data))})
						}
					}
					mu.Unlock()
				}
			}
		}(g)
	}
	wg.Wait()

	for _, pair := range []struct {
		name string
		a, b any
	}{{"css", *o.CSS, *optCopy.CSS}, {"html", *o.HTML, *optCopy.HTML}, {"js", *o.JS, *optCopy.JS}, {"json", *o.JSON, *optCopy.JSON}, {"svg", *o.SVG, *optCopy.SVG}, {"xml", *o.XML, *optCopy.XML}, {"asp", *o.ASP, *optCopy.ASP}} {
		if !reflect.DeepEqual(pair.a, pair.b) {
			emit(map[string]any{"kind": "optmut", "which": pair.name, "before": fmt.Sprintf("%+v", pair.b), "after": fmt.Sprintf("%+v", pair.a)})
		}
	}
	after := globals()
	var names []string
	for k := range after {
		names = append(names, k)
	}
	sort.Strings(names)
	for _, k := range names {
		v := after[k]
		if string(v) != before[k] {
			emit(map[string]any{"kind": "globalmut", "var": k, "before": before[k], "after": string(v)})
		}
		if cap(v) != len(v) {
			emit(map[string]any{"kind": "globalcap", "var": k, "len": len(v), "cap": cap(v)})
		}
	}
	var dn []string
	for _, d := range docs {
		dn = append(dn, d.name)
	}
	emit(map[string]any{"kind": "summary", "goroutines": *n, "calls": calls, "mismatches": mismatches, "docs": len(docs), "digest": digest, "globals": len(after), "gomaxprocs": runtime.GOMAXPROCS(0), "doc_names": strings.Join(dn, ",")})
}

func trunc(s string) string {
	if len(s) > 400 {
		return s[:400] + "…"
	}
	return s
}

package main

import (
	"fmt"
	"net/url"

	"github.com/tdewolff/minify/v2"
	"github.com/tdewolff/minify/v2/css"
	"github.com/tdewolff/minify/v2/html"
	"github.com/tdewolff/minify/v2/svg"
	"github.com/tdewolff/minify/v2/xml"
)

func main() {
	m := minify.New()
	m.Add("text/html", &html.Minifier{})
	m.Add("text/css", &css.Minifier{})
	m.Add("image/svg+xml", &svg.Minifier{})
	m.Add("text/xml", &xml.Minifier{})
	for _, in := range []string{
		"<p>a <marquee>b</marquee> c</p>",
		"<p>a <noscript>b</noscript> c</p>",
		"<p>a <span>b</span> c</p>",
		"<p>a <option>b</option> c</p>",
		"<xmp>a &amp; b &lt;</xmp>",
		"<plaintext>a &amp; b",
		"<title>a &amp; b &lt;</title>",
		"<textarea>a &amp;  b &lt;</textarea>",
		"<p>&amp;amp; &amp;#38; &ampx &amp;x &lt;b&gt; &LT; &AMP;x &AMP;</p>",
		"<a title=\"&lt;&amp;&AMP;x&amp;#1;\" href=' HTTP://a/b '>x</a>",
		"<html xmlns=' HTTP://www.w3.org/1999/xhtml '><p profile=' HTTP://x/ '>",
		"<p>&NewLine;x&Tab;y &nbsp; &zeetrf; &notit; &not</p>",
		"<script type='application/javascript'>a</script><script type='text/javascript'>b</script><script type=module>c</script>",
	} {
		out, err := m.String("text/html", in)
		fmt.Printf("%q -> %q %v\n", in, out, err)
	}
	m.URL, _ = url.Parse("http://www.w3.org/")
	out, err := m.String("text/html", "<html xmlns='http://www.w3.org/1999/xhtml'><a href='http://www.w3.org/x'>a</a>")
	fmt.Printf("%q %v\n", out, err)
	m.URL = nil
	for _, in := range []string{"a{color:black;color:#F00;color:#ff0000;color:Lightslateblue;color:DARKBLUE; margin:0px 0deg 0s 0% 0fr 0q 0Q 0dpi}", "a{rotate:0deg;transform:rotate(0deg)}"} {
		out, err := m.String("text/css", in)
		fmt.Printf("%q -> %q %v\n", in, out, err)
	}
	for _, in := range []string{`<svg><rect fill="black" stroke="#ff0000" stop-color="#F00" color="Black" x="&apos;&quot;&gt;&lt;&amp;"/><text>&apos;&quot;&gt;&lt;&amp; &#60; &#x26;</text></svg>`} {
		out, err := m.String("image/svg+xml", in)
		fmt.Printf("%q -> %q %v\n", in, out, err)
		out, err = m.String("text/xml", in)
		fmt.Printf("%q -> %q %v\n", in, out, err)
	}
}

package main

import (
	"bufio"
	"bytes"
	"fmt"
	"os"

	"github.com/tdewolff/minify/v2"
	"github.com/tdewolff/minify/v2/css"
)

func main() {
	m := minify.New()
	sc := bufio.NewScanner(os.Stdin)
	sc.Buffer(make([]byte, 1<<20), 1<<20)
	inline := len(os.Args) > 1 && os.Args[1] == "inline"
	for sc.Scan() {
		in := sc.Text()
		var out bytes.Buffer
		var params map[string]string
		if inline {
			params = map[string]string{"inline": "1"}
		}
		err := (&css.Minifier{}).Minify(m, &out, bytes.NewBufferString(in), params)
		fmt.Printf("%-50q -> %q  %v\n", in, out.String(), err)
	}
}

package main

import (
	"bufio"
	"bytes"
	"fmt"
	"os"

	"github.com/tdewolff/minify/v2"
	"github.com/tdewolff/minify/v2/css"
	"github.com/tdewolff/minify/v2/svg"
)

func main() {
	m := minify.New()
	m.AddFunc("text/css", css.Minify)
	sc := bufio.NewScanner(os.Stdin)
	sc.Buffer(make([]byte, 1<<20), 1<<20)
	for sc.Scan() {
		in := sc.Text()
		in = string(bytes.ReplaceAll([]byte(in), []byte(`\n`), []byte("\n")))
		for _, inline := range []bool{false} {
			var w bytes.Buffer
			err := (&svg.Minifier{Inline: inline}).Minify(m, &w, bytes.NewBufferString(in), nil)
			fmt.Printf("%q\n  -> %q err=%v\n", in, w.String(), err)
		}
	}
}

// Command race12 is the C12 history executor built with the race detector (-race -tags verif) by the C12
// runner and run as a separate process: it reads a JSON list of c12hist.History from stdin, runs all of them
// on ONE registry and prints one JSON object per line ({"kind":"finding",…} / {"kind":"summary",…}).  Data
// races are reported by the race detector on stderr (exit code 66).  A slice returned by m.Bytes that still
// aliases memory another goroutine writes to is a data race between that write and the caller's later read.
package main

import (
	"encoding/json"
	"fmt"
	"os"
	"time"

	"verifharness/c12hist"
)

func main() {
	var hs []c12hist.History
	if err := json.NewDecoder(os.Stdin).Decode(&hs); err != nil {
		fmt.Fprintln(os.Stderr, "race12: bad input:", err)
		os.Exit(2)
	}
	m := c12hist.NewM()
	enc := json.NewEncoder(os.Stdout)
	calls, nf := 0, 0
	for _, h := range hs {
		res := c12hist.Run(m, h, 60*time.Second)
		calls += res.Calls
		for _, f := range res.Findings {
			nf++
			if nf <= 50 {
				enc.Encode(map[string]any{"kind": "finding", "finding": f})
			}
		}
	}
	enc.Encode(map[string]any{"kind": "summary", "histories": len(hs), "calls": calls, "findings": nf})
}

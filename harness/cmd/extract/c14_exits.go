package main

// C14 — exit-sequence skeletons of every package's (*Minifier).Minify  →  lean/Verif/Gen/ExitPaths.lean
//
// For each of json, xml, svg, html, css, js the body of `(*Minifier).Minify` is walked.  Every statement
// list that contains a `return` (directly, or inside one of the recognised one-line `if … { return … }`
// shapes) is emitted as an *exit block*: the list of atoms of its statements, in source order.
// The translator does not know which blocks are "right"; it only names shapes.  Anything it does not
// recognise becomes `other "<source text>"`, which no Lean well-formedness predicate accepts.
//
// Atoms (Verif.Skel.XAtom):
//   work                  statement without any return (may write to w; write errors are dropped)
//   probeWrite            `_, err := w.Write(nil)` on the writer parameter
//   returnIfErr           `if err != nil { return err }` for the err of the directly preceding probe
//   writeReturnIfErr      `if _, err := w.Write(x); err != nil { return err }` (a checked ordinary write)
//   returnNilIfEOF        `if X.Err() == io.EOF { return nil }`
//   returnLexErrIfNotEOF  `if X.Err() != io.EOF { return X.Err() }`
//   returnLexErr          `return X.Err()`
//   returnNil             `return nil`
//   parse                 `ast, err := js.Parse(…)`
//   returnIfParseErr      `if err != nil { return err }` directly after parse
//   returnSubErr          return of a sub-minifier's error in a context where it is known non-nil
//   other s               anything else that contains or is a return

import (
	"bytes"
	"fmt"
	"go/ast"
	"go/printer"
	"go/token"
	"strings"
)

var c14Pkgs = []string{"css", "html", "js", "json", "svg", "xml"}

type c14Walker struct {
	r      *Repo
	wName  string // name of the io.Writer parameter
	blocks [][]string
}

func c14Src(fset *token.FileSet, n ast.Node) string { return c14SrcN(fset, n, 90) }

// c14SrcN: source text of a node with all white space runs collapsed, cut after max bytes
func c14SrcN(fset *token.FileSet, n ast.Node, max int) string {
	var b bytes.Buffer
	printer.Fprint(&b, fset, n)
	s := strings.Join(strings.Fields(b.String()), " ")
	if len(s) > max {
		s = s[:max] + "…"
	}
	return s
}

func isIdent(e ast.Expr, name string) bool {
	id, ok := e.(*ast.Ident)
	return ok && id.Name == name
}

func isSel(e ast.Expr, x, sel string) bool {
	s, ok := e.(*ast.SelectorExpr)
	return ok && s.Sel.Name == sel && isIdent(s.X, x)
}

// isErrCall: `<anything>.Err()`
func isErrCall(e ast.Expr) bool {
	c, ok := e.(*ast.CallExpr)
	if !ok || len(c.Args) != 0 {
		return false
	}
	s, ok := c.Fun.(*ast.SelectorExpr)
	return ok && s.Sel.Name == "Err"
}

func sameExpr(fset *token.FileSet, a, b ast.Expr) bool { return c14Src(fset, a) == c14Src(fset, b) }

// binCond matches `L op R`
func binCond(e ast.Expr, op token.Token) (l, r ast.Expr, ok bool) {
	b, ok := e.(*ast.BinaryExpr)
	if !ok || b.Op != op {
		return nil, nil, false
	}
	return b.X, b.Y, true
}

// containsReturn reports whether the node contains a return statement outside function literals.
func containsReturn(n ast.Node) bool {
	found := false
	ast.Inspect(n, func(x ast.Node) bool {
		switch x.(type) {
		case *ast.FuncLit:
			return false
		case *ast.ReturnStmt:
			found = true
		}
		return !found
	})
	return found
}

// isProbeCall: `w.Write(nil)` on the writer parameter
func (c *c14Walker) isProbeCall(e ast.Expr) bool {
	call, ok := e.(*ast.CallExpr)
	if !ok || len(call.Args) != 1 || !isIdent(call.Args[0], "nil") {
		return false
	}
	return isSel(call.Fun, c.wName, "Write")
}

func (c *c14Walker) isWriteCall(e ast.Expr) bool {
	call, ok := e.(*ast.CallExpr)
	return ok && len(call.Args) == 1 && isSel(call.Fun, c.wName, "Write")
}

// `_, err := <call>` / `_, err = <call>`
func blankErrAssign(s ast.Stmt) (ast.Expr, bool) {
	a, ok := s.(*ast.AssignStmt)
	if !ok || len(a.Lhs) != 2 || len(a.Rhs) != 1 || !isIdent(a.Lhs[0], "_") || !isIdent(a.Lhs[1], "err") {
		return nil, false
	}
	return a.Rhs[0], true
}

// single `return <e>` body
func singleReturn(b *ast.BlockStmt) (ast.Expr, bool) {
	if b == nil || len(b.List) != 1 {
		return nil, false
	}
	r, ok := b.List[0].(*ast.ReturnStmt)
	if !ok || len(r.Results) != 1 {
		return nil, false
	}
	return r.Results[0], true
}

// isErrOrUpdated: `err` or `minify.UpdateErrorPosition(err, …)`
func isErrOrUpdated(e ast.Expr) bool {
	if isIdent(e, "err") {
		return true
	}
	call, ok := e.(*ast.CallExpr)
	if !ok || len(call.Args) < 1 || !isIdent(call.Args[0], "err") {
		return false
	}
	return isSel(call.Fun, "minify", "UpdateErrorPosition")
}

func isErrNeNil(e ast.Expr) bool {
	l, r, ok := binCond(e, token.NEQ)
	return ok && isIdent(l, "err") && isIdent(r, "nil")
}
func isErrEqNil(e ast.Expr) bool {
	l, r, ok := binCond(e, token.EQL)
	return ok && isIdent(l, "err") && isIdent(r, "nil")
}

// `err := <call>` as the init of an if
func errInit(s ast.Stmt) (ast.Expr, bool) {
	a, ok := s.(*ast.AssignStmt)
	if !ok || a.Tok != token.DEFINE || len(a.Lhs) != 1 || len(a.Rhs) != 1 || !isIdent(a.Lhs[0], "err") {
		return nil, false
	}
	_, isCall := a.Rhs[0].(*ast.CallExpr)
	return a.Rhs[0], isCall
}

// atoms of one statement; nonNil: `err` is known to be non-nil here; prev: atoms emitted so far in this list
func (c *c14Walker) stmtAtoms(s ast.Stmt, nonNil bool, prev []string) []string {
	fset := c.r.Fset
	other := func() []string { return []string{"other " + leanStr(c14Src(fset, s))} }
	last := ""
	if len(prev) > 0 {
		last = prev[len(prev)-1]
	}
	switch st := s.(type) {
	case *ast.ReturnStmt:
		if len(st.Results) != 1 {
			return other()
		}
		e := st.Results[0]
		switch {
		case isIdent(e, "nil"):
			return []string{"returnNil"}
		case isErrCall(e):
			return []string{"returnLexErr"}
		case nonNil && isErrOrUpdated(e):
			return []string{"returnSubErr"}
		}
		return other()
	case *ast.AssignStmt:
		if rhs, ok := blankErrAssign(st); ok && c.isProbeCall(rhs) {
			return []string{"probeWrite"}
		}
		if len(st.Lhs) == 2 && len(st.Rhs) == 1 && isIdent(st.Lhs[1], "err") {
			if call, ok := st.Rhs[0].(*ast.CallExpr); ok && isSel(call.Fun, "js", "Parse") {
				return []string{"parse"}
			}
		}
	case *ast.IfStmt:
		if st.Else == nil {
			ret, single := singleReturn(st.Body)
			if single && st.Init != nil {
				if rhs, ok := blankErrAssign(st.Init); ok && isErrNeNil(st.Cond) && isIdent(ret, "err") {
					if c.isProbeCall(rhs) {
						return []string{"probeWrite", "returnIfErr"}
					}
					if c.isWriteCall(rhs) {
						return []string{"writeReturnIfErr"}
					}
				}
				if rhs, ok := errInit(st.Init); ok && isErrNeNil(st.Cond) && isErrOrUpdated(ret) && !c.isWriteCall(rhs) {
					// `if err := sub(...); err != nil { return err' }` — the call may write to w
					return []string{"work", "returnSubErr"}
				}
			}
			if single && st.Init == nil {
				if isErrNeNil(st.Cond) && isIdent(ret, "err") {
					if last == "probeWrite" {
						return []string{"returnIfErr"}
					}
					if last == "parse" {
						return []string{"returnIfParseErr"}
					}
				}
				if l, r, ok := binCond(st.Cond, token.EQL); ok && isErrCall(l) && isSel(r, "io", "EOF") && isIdent(ret, "nil") {
					return []string{"returnNilIfEOF"}
				}
				if l, r, ok := binCond(st.Cond, token.NEQ); ok && isErrCall(l) && isSel(r, "io", "EOF") && isErrCall(ret) && sameExpr(fset, l, ret) {
					return []string{"returnLexErrIfNotEOF"}
				}
				if l, r, ok := binCond(st.Cond, token.NEQ); ok && nonNil && isIdent(l, "err") && isSel(r, "minify", "ErrNotExist") && isErrOrUpdated(ret) {
					return []string{"returnSubErr"}
				}
			}
		}
	}
	if !containsReturn(s) {
		// a probe whose result is dropped, or recover(), must not hide inside "work"
		bad := false
		ast.Inspect(s, func(x ast.Node) bool {
			if call, ok := x.(*ast.CallExpr); ok {
				if c.isProbeCall(call) || isIdent(call.Fun, "recover") {
					bad = true
				}
			}
			return !bad
		})
		if bad {
			return other()
		}
		return []string{"work"}
	}
	// compound statement with returns deeper inside: its lists are exit blocks of their own
	c.descend(s)
	return []string{"work"}
}

// descend walks the nested statement lists of a compound statement
func (c *c14Walker) descend(s ast.Stmt) {
	switch st := s.(type) {
	case *ast.BlockStmt:
		c.walkList(st.List, false)
	case *ast.IfStmt:
		bodyNonNil := isErrNeNil(st.Cond)
		elseNonNil := isErrEqNil(st.Cond)
		if bodyNonNil || elseNonNil {
			if _, ok := errInit(st.Init); !ok && st.Init != nil {
				bodyNonNil, elseNonNil = false, false
			}
		}
		c.walkList(st.Body.List, bodyNonNil)
		switch e := st.Else.(type) {
		case *ast.BlockStmt:
			c.walkList(e.List, elseNonNil)
		case *ast.IfStmt:
			c.walkList([]ast.Stmt{e}, elseNonNil)
		}
	case *ast.ForStmt:
		c.walkList(st.Body.List, false)
	case *ast.RangeStmt:
		c.walkList(st.Body.List, false)
	case *ast.SwitchStmt:
		for _, cl := range st.Body.List {
			c.walkList(cl.(*ast.CaseClause).Body, false)
		}
	case *ast.TypeSwitchStmt:
		for _, cl := range st.Body.List {
			c.walkList(cl.(*ast.CaseClause).Body, false)
		}
	case *ast.LabeledStmt:
		c.walkList([]ast.Stmt{st.Stmt}, false)
	default:
		// select, go, defer with returns inside: not a shape of this code base
		c.blocks = append(c.blocks, []string{"other " + leanStr(c14Src(c.r.Fset, s))})
	}
}

func (c *c14Walker) walkList(list []ast.Stmt, nonNil bool) {
	var atoms []string
	hasRet := false
	for _, s := range list {
		as := c.stmtAtoms(s, nonNil, atoms)
		for _, a := range as {
			if strings.HasPrefix(a, "return") || strings.HasPrefix(a, "other") || a == "writeReturnIfErr" {
				hasRet = true
			}
		}
		atoms = append(atoms, as...)
	}
	if hasRet {
		c.blocks = append(c.blocks, atoms)
	}
}

func init() {
	gen("ExitPaths", func(r *Repo) (string, error) {
		var sb strings.Builder
		sb.WriteString("import Verif.Base.SkelIR\n")
		sb.WriteString(header("ExitPaths", "the (*Minifier).Minify methods of /repo/{css,html,js,json,svg,xml}"))
		sb.WriteString("open Verif.Skel Verif.Skel.XAtom\n\n")
		var names []string
		for _, pkg := range c14Pkgs {
			fd, err := r.FindFunc(pkg, "*Minifier", "Minify")
			if err != nil {
				return "", err
			}
			ps := fd.Type.Params.List
			var pnames []string
			for _, p := range ps {
				for _, n := range p.Names {
					pnames = append(pnames, n.Name)
				}
			}
			if len(pnames) != 4 || fd.Body == nil {
				return "", fmt.Errorf("%s: Minify no longer has 4 parameters", pkg)
			}
			w := &c14Walker{r: r, wName: pnames[1]}
			w.walkList(fd.Body.List, false)
			// package-wide facts: recover() calls, dropped / used Write results
			files, err := r.Files(pkg)
			if err != nil {
				return "", err
			}
			recovers, dropped, used := 0, 0, 0
			for _, f := range files {
				ast.Inspect(f, func(x ast.Node) bool {
					switch n := x.(type) {
					case *ast.CallExpr:
						if isIdent(n.Fun, "recover") {
							recovers++
						}
						if s, ok := n.Fun.(*ast.SelectorExpr); ok && s.Sel.Name == "Write" && len(n.Args) == 1 {
							used++
						}
					case *ast.ExprStmt:
						if call, ok := n.X.(*ast.CallExpr); ok {
							if s, ok := call.Fun.(*ast.SelectorExpr); ok && s.Sel.Name == "Write" && len(call.Args) == 1 {
								dropped++
							}
						}
					}
					return true
				})
			}
			used -= dropped
			fmt.Fprintf(&sb, "/-- `%s.(*Minifier).Minify` (writer parameter `%s`) -/\ndef %s : ExitPkg :=\n  { name := %s\n    exits := [\n", pkg, w.wName, pkg, leanStr(pkg))
			for i, b := range w.blocks {
				sep := ","
				if i == len(w.blocks)-1 {
					sep = ""
				}
				fmt.Fprintf(&sb, "      [%s]%s\n", strings.Join(b, ", "), sep)
			}
			fmt.Fprintf(&sb, "    ]\n    recovers := %d\n    droppedWrites := %d\n    usedWrites := %d }\n\n", recovers, dropped, used)
			names = append(names, pkg)
		}
		// the root package (wrappers) must not recover either
		files, err := r.Files(".")
		if err != nil {
			return "", err
		}
		rootRecovers := 0
		for _, f := range files {
			ast.Inspect(f, func(x ast.Node) bool {
				if n, ok := x.(*ast.CallExpr); ok && isIdent(n.Fun, "recover") {
					rootRecovers++
				}
				return true
			})
		}
		fmt.Fprintf(&sb, "/-- `recover()` calls in package minify (minify.go, common.go, …) -/\ndef rootRecovers : Nat := %d\n\n", rootRecovers)
		fmt.Fprintf(&sb, "def all : List ExitPkg := [%s]\n", strings.Join(names, ", "))
		sb.WriteString(footer("ExitPaths"))
		return sb.String(), nil
	})
}

package main

// C14 — exit-sequence skeletons of every package's (*Minifier).Minify  →  lean/Verif/Gen/ExitPaths.lean
//
// For each of json, xml, svg, html, css, js the body of `(*Minifier).Minify` is walked.  Every statement list that contains
// a `return` is emitted as an *exit block*: the list of atoms of its statements, in source order.  The translator does not
// know which blocks are "right"; it only names what a statement does.  Anything it does not recognise becomes
// `other "<source text>"`, which no Lean well-formedness predicate accepts.
//
// Atoms (Verif.Skel.XAtom):
//   work                  statement(s) without any return (may write to w; write errors are dropped); consecutive ones are one atom
//   probeWrite            `_, e := w.Write(nil)` on the writer parameter
//   returnIfErr           `if e != nil { return e }` for the e of the directly preceding probe
//   writeReturnIfErr      `if _, e := w.Write(x); e != nil { return e }` (a checked ordinary write)
//   returnNilIfEOF        `if L == io.EOF { return nil }`        L: a call `X.Err()` or a value holding one
//   returnLexErrIfNotEOF  `if L != io.EOF { return L }`
//   returnLexErr          `return L`
//   returnNil             `return nil`
//   parse                 `tree, e := js.Parse(…)`
//   returnIfParseErr      `if e != nil { return e }` directly after parse
//   returnSubErr          return of a sub-minifier's error where it is known non-nil, as is or through a function that
//                         cannot turn a non-nil error into nil (minify.UpdateErrorPosition, a local wrapper around it, …)
//   other s               anything else that contains or is a return
//
// Statements are recognised by what they refer to (go/types objects), not by spelling: the writer is the io.Writer
// parameter (or a once-defined `write := w.Write`), error variables are whatever variable of type error the statement
// defines, `io.EOF` is the variable EOF of package io under any import name, `nil != e` is `e != nil`.  Equivalent layouts
// give the same atoms: `x := f(); if x != nil {…}` = `if x := f(); x != nil {…}`; `if c { return … } else { B }` = `if c { return … }; B`;
// `_, e = w.Write(nil); return e` = probe, returnIfErr, returnNil; `return helper(w, l.Err())` with a helper declared in the
// module is replaced by the helper's own statements (the writer and the lexer error are followed into its parameters).

import (
	"fmt"
	"go/ast"
	"go/token"
	"go/types"
	"strings"

	"golang.org/x/tools/go/packages"
)

var c14Pkgs = []string{"css", "html", "js", "json", "svg", "xml"}

// c14SrcN: source text of a node with all white space runs collapsed, cut after max bytes
func c14Src(fset *token.FileSet, n ast.Node) string { return c14SrcN(fset, n, 90) }

func c14SrcN(fset *token.FileSet, n ast.Node, max int) string {
	s := nodeText(fset, n)
	if len(s) > max {
		s = s[:max] + "…"
	}
	return s
}

// containsReturn reports whether the node contains a return statement outside function literals.
func containsReturn(n ast.Node) bool {
	found := false
	ast.Inspect(n, func(x ast.Node) bool {
		switch x.(type) {
		case *ast.FuncLit:
			return false
		case *ast.ReturnStmt:
			found = true
		}
		return !found
	})
	return found
}

type c14Walker struct {
	e       *tenv
	p       *packages.Package
	single  map[types.Object]ast.Expr
	writers map[types.Object]bool // objects standing for the io.Writer the function must report failures of
	lexErrs map[types.Object]bool // objects holding the value of a lexer / parser Err() call
	blocks  [][]string
	depth   int
	// state of the list being walked
	probeErr types.Object // error variable of the directly preceding probe
	parseErr types.Object
}

func (c *c14Walker) info() *types.Info { return c.p.TypesInfo }

func (c *c14Walker) obj(x ast.Expr) types.Object {
	id, ok := unparen(x).(*ast.Ident)
	if !ok {
		return nil
	}
	if o := c.info().Uses[id]; o != nil {
		return o
	}
	return c.info().Defs[id]
}

func (c *c14Walker) isNil(x ast.Expr) bool {
	_, ok := c.obj(x).(*types.Nil)
	return ok
}

func isErrorType(t types.Type) bool {
	return t != nil && types.Identical(t, types.Universe.Lookup("error").Type())
}

func (c *c14Walker) isEOF(x ast.Expr) bool {
	var id *ast.Ident
	switch v := unparen(x).(type) {
	case *ast.SelectorExpr:
		id = v.Sel
	case *ast.Ident:
		id = v
	default:
		return false
	}
	o, ok := c.info().Uses[id].(*types.Var)
	return ok && o.Name() == "EOF" && o.Pkg() != nil && o.Pkg().Path() == "io"
}

// writeCall: a call of Write on the writer (directly or through a once-defined method value)
func (c *c14Walker) writeCall(x ast.Expr) (probe, ok bool) {
	call, isCall := unparen(x).(*ast.CallExpr)
	if !isCall || len(call.Args) != 1 {
		return false, false
	}
	fun := unparen(call.Fun)
	if id, isId := fun.(*ast.Ident); isId {
		if def, has := c.single[c.info().Uses[id]]; has {
			fun = unparen(def)
		}
	}
	sel, isSel := fun.(*ast.SelectorExpr)
	if !isSel || sel.Sel.Name != "Write" || !c.writers[c.obj(sel.X)] {
		return false, false
	}
	return c.isNil(call.Args[0]), true
}

// lexErr: x is `X.Err()` (method Err, no arguments, result error) or a variable holding one; returns a key for comparison
func (c *c14Walker) lexErr(x ast.Expr) (string, bool) {
	x = unparen(x)
	if o := c.obj(x); o != nil {
		if c.lexErrs[o] {
			return fmt.Sprintf("obj@%d", o.Pos()), true
		}
		if def, has := c.single[o]; has {
			return c.lexErr(def)
		}
		return "", false
	}
	call, ok := x.(*ast.CallExpr)
	if !ok || len(call.Args) != 0 {
		return "", false
	}
	sel, ok := unparen(call.Fun).(*ast.SelectorExpr)
	if !ok || sel.Sel.Name != "Err" || !isErrorType(c.info().TypeOf(call)) {
		return "", false
	}
	recv := types.ExprString(sel.X)
	if o := c.obj(sel.X); o != nil {
		recv = fmt.Sprintf("obj@%d", o.Pos())
	}
	return "call:" + recv, true
}

// errCmpNil: `E op nil` / `nil op E` with E a variable of type error; returns E's object
func (c *c14Walker) errCmpNil(cond ast.Expr, op token.Token) types.Object {
	b, ok := unparen(cond).(*ast.BinaryExpr)
	if !ok || b.Op != op {
		return nil
	}
	for _, pr := range [][2]ast.Expr{{b.X, b.Y}, {b.Y, b.X}} {
		if c.isNil(pr[1]) {
			if o, ok := c.obj(pr[0]).(*types.Var); ok && isErrorType(o.Type()) {
				return o
			}
		}
	}
	return nil
}

// eofCmp: `L op io.EOF` / `io.EOF op L`; returns the key of L
func (c *c14Walker) eofCmp(cond ast.Expr, op token.Token) (string, bool) {
	b, ok := unparen(cond).(*ast.BinaryExpr)
	if !ok || b.Op != op {
		return "", false
	}
	for _, pr := range [][2]ast.Expr{{b.X, b.Y}, {b.Y, b.X}} {
		if c.isEOF(pr[1]) {
			if k, ok := c.lexErr(pr[0]); ok {
				return k, true
			}
		}
	}
	return "", false
}

// blankErrAssign: `_, E := <rhs>` / `_, E = <rhs>`
func (c *c14Walker) blankErrAssign(s ast.Stmt) (types.Object, ast.Expr, bool) {
	a, ok := s.(*ast.AssignStmt)
	if !ok || len(a.Lhs) != 2 || len(a.Rhs) != 1 {
		return nil, nil, false
	}
	if id, ok := a.Lhs[0].(*ast.Ident); !ok || id.Name != "_" {
		return nil, nil, false
	}
	o, ok := c.obj(a.Lhs[1]).(*types.Var)
	if !ok || !isErrorType(o.Type()) {
		return nil, nil, false
	}
	return o, a.Rhs[0], true
}

// errInit: `E := <call>` defining one variable of type error
func (c *c14Walker) errInit(s ast.Stmt) (types.Object, ast.Expr, bool) {
	a, ok := s.(*ast.AssignStmt)
	if !ok || a.Tok != token.DEFINE || len(a.Lhs) != 1 || len(a.Rhs) != 1 {
		return nil, nil, false
	}
	o, ok := c.obj(a.Lhs[0]).(*types.Var)
	if !ok || !isErrorType(o.Type()) {
		return nil, nil, false
	}
	_, isCall := unparen(a.Rhs[0]).(*ast.CallExpr)
	return o, a.Rhs[0], isCall
}

func singleReturn(b *ast.BlockStmt) (ast.Expr, bool) {
	if b == nil || len(b.List) != 1 {
		return nil, false
	}
	r, ok := b.List[0].(*ast.ReturnStmt)
	if !ok || len(r.Results) != 1 {
		return nil, false
	}
	return r.Results[0], true
}

// propagates: e is the error variable errObj itself, or a call that cannot turn a non-nil errObj into nil
func (c *c14Walker) propagates(e ast.Expr, errObj types.Object) bool {
	if c.obj(e) == errObj && errObj != nil {
		return true
	}
	call, ok := unparen(e).(*ast.CallExpr)
	if !ok {
		return false
	}
	fn := calleeOf(c.info(), call)
	if fn == nil {
		return false
	}
	for i, a := range call.Args {
		if c.obj(a) == errObj && errObj != nil && c.e.keepsNonNil(fn, i, 0) {
			return true
		}
	}
	return false
}

// keepsNonNil: every return of fn yields a non-nil error when parameter idx is a non-nil error
func (e *tenv) keepsNonNil(fn *types.Func, idx int, depth int) bool {
	if fn.Pkg() != nil && isStdlibPath(fn.Pkg().Path()) {
		switch fn.Pkg().Path() + "." + fn.Name() {
		case "fmt.Errorf", "errors.Join":
			return true
		}
		return false
	}
	ref, ok := e.funcIndex()[fn.Origin()]
	if !ok || ref.decl.Body == nil || depth > 3 {
		return false
	}
	info := ref.pkg.TypesInfo
	var param types.Object
	i := 0
	for _, f := range ref.decl.Type.Params.List {
		for _, n := range f.Names {
			if i == idx {
				param = info.Defs[n]
			}
			i++
		}
	}
	if param == nil {
		return false
	}
	// values derived from the parameter by a successful type assertion: `p, ok := err.(*T)` used where ok holds
	derived := map[types.Object]bool{param: true}
	ast.Inspect(ref.decl.Body, func(n ast.Node) bool {
		if a, ok := n.(*ast.AssignStmt); ok && len(a.Rhs) == 1 && len(a.Lhs) >= 1 {
			if ta, ok := unparen(a.Rhs[0]).(*ast.TypeAssertExpr); ok && ta.Type != nil {
				if id, ok := unparen(ta.X).(*ast.Ident); ok && derived[info.Uses[id]] {
					if l, ok := a.Lhs[0].(*ast.Ident); ok {
						if o := info.Defs[l]; o != nil {
							derived[o] = true
						}
					}
				}
			}
		}
		return true
	})
	okAll, any := true, false
	ast.Inspect(ref.decl.Body, func(n ast.Node) bool {
		if _, isLit := n.(*ast.FuncLit); isLit {
			return false
		}
		ret, ok := n.(*ast.ReturnStmt)
		if !ok {
			return true
		}
		any = true
		if len(ret.Results) != 1 {
			okAll = false
			return false
		}
		r := unparen(ret.Results[0])
		switch v := r.(type) {
		case *ast.Ident:
			if !derived[info.Uses[v]] {
				okAll = false
			}
		case *ast.UnaryExpr:
			if _, isLit := unparen(v.X).(*ast.CompositeLit); !(v.Op == token.AND && isLit) {
				okAll = false
			}
		case *ast.CallExpr:
			f2 := calleeOf(info, v)
			good := false
			if f2 != nil {
				for j, a := range v.Args {
					if id, ok := unparen(a).(*ast.Ident); ok && derived[info.Uses[id]] && e.keepsNonNil(f2, j, depth+1) {
						good = true
					}
				}
			}
			if !good {
				okAll = false
			}
		default:
			okAll = false
		}
		return okAll
	})
	return okAll && any
}

func nodeText(fset *token.FileSet, n ast.Node) string {
	var b strings.Builder
	printerFprint(&b, fset, n)
	return strings.Join(strings.Fields(b.String()), " ")
}

// normalise a statement list: (N1) `if c { …return } else { B }` → `if c { …return }` followed by B;
// (N2) `E := call` directly followed by `if E != nil …` (no init of its own) → `if E := call; E != nil …`
func (c *c14Walker) normalise(list []ast.Stmt) []ast.Stmt {
	var out []ast.Stmt
	for i := 0; i < len(list); i++ {
		s := list[i]
		if o, _, ok := c.errInit(s); ok && i+1 < len(list) {
			if is, ok := list[i+1].(*ast.IfStmt); ok && is.Init == nil && (c.errCmpNil(is.Cond, token.NEQ) == o || c.errCmpNil(is.Cond, token.EQL) == o) {
				merged := *is
				merged.Init = s
				s = &merged
				i++
			}
		}
		if is, ok := s.(*ast.IfStmt); ok && is.Else != nil && len(is.Body.List) > 0 {
			if _, isRet := is.Body.List[len(is.Body.List)-1].(*ast.ReturnStmt); isRet {
				if eb, ok := is.Else.(*ast.BlockStmt); ok {
					flat := *is
					flat.Else = nil
					out = append(out, &flat)
					out = append(out, c.normalise(eb.List)...)
					continue
				}
			}
		}
		out = append(out, s)
	}
	return out
}

// atoms of one statement; nonNil: error objects known to be non-nil here; prev: atoms emitted so far in this list
func (c *c14Walker) stmtAtoms(s ast.Stmt, nonNil map[types.Object]bool, prev []string) []string {
	fset := c.e.r.Fset
	other := func() []string { return []string{"other " + leanStr(c14Src(fset, s))} }
	last := ""
	if len(prev) > 0 {
		last = prev[len(prev)-1]
	}
	switch st := s.(type) {
	case *ast.ReturnStmt:
		if len(st.Results) != 1 {
			return other()
		}
		e := st.Results[0]
		switch {
		case c.isNil(e):
			return []string{"returnNil"}
		case func() bool { _, ok := c.lexErr(e); return ok }():
			return []string{"returnLexErr"}
		case last == "probeWrite" && c.probeErr != nil && c.obj(e) == c.probeErr:
			// `_, e = w.Write(nil); return e`: the probe's error if there is one, nil otherwise
			return []string{"returnIfErr", "returnNil"}
		}
		for o := range nonNil {
			if c.propagates(e, o) {
				return []string{"returnSubErr"}
			}
		}
		if as, ok := c.inlineHelper(e); ok {
			return as
		}
		return other()
	case *ast.AssignStmt:
		// `lexErr := l.Err()`: reads the lexer's error, cannot write to w — no atom of its own
		if len(st.Lhs) == 1 && len(st.Rhs) == 1 && st.Tok == token.DEFINE {
			if call, isCall := unparen(st.Rhs[0]).(*ast.CallExpr); isCall {
				if _, ok := c.lexErr(call); ok {
					if o := c.obj(st.Lhs[0]); o != nil {
						if _, once := c.single[o]; once {
							return nil
						}
					}
				}
			}
		}
		if o, rhs, ok := c.blankErrAssign(st); ok {
			if probe, isW := c.writeCall(rhs); isW && probe {
				c.probeErr = o
				return []string{"probeWrite"}
			}
		}
		if len(st.Lhs) == 2 && len(st.Rhs) == 1 {
			if o, ok := c.obj(st.Lhs[1]).(*types.Var); ok && isErrorType(o.Type()) {
				if call, ok := unparen(st.Rhs[0]).(*ast.CallExpr); ok {
					if fn := calleeOf(c.info(), call); fn != nil && fn.Name() == "Parse" && fn.Pkg() != nil && fn.Pkg().Path() == "github.com/tdewolff/parse/v2/js" {
						c.parseErr = o
						return []string{"parse"}
					}
				}
			}
		}
	case *ast.IfStmt:
		if st.Else == nil {
			ret, single := singleReturn(st.Body)
			if single && st.Init != nil {
				if o, rhs, ok := c.blankErrAssign(st.Init); ok && c.errCmpNil(st.Cond, token.NEQ) == o && c.obj(ret) == o {
					if probe, isW := c.writeCall(rhs); isW {
						if probe {
							return []string{"probeWrite", "returnIfErr"}
						}
						return []string{"writeReturnIfErr"}
					}
				}
				if o, rhs, ok := c.errInit(st.Init); ok && c.errCmpNil(st.Cond, token.NEQ) == o && c.propagates(ret, o) {
					if _, isW := c.writeCall(rhs); !isW {
						// `if e := sub(...); e != nil { return e' }` — the call may write to w
						return []string{"work", "returnSubErr"}
					}
				}
			}
			if single && st.Init == nil {
				if o := c.errCmpNil(st.Cond, token.NEQ); o != nil && c.obj(ret) == o {
					if last == "probeWrite" && o == c.probeErr {
						return []string{"returnIfErr"}
					}
					if last == "parse" && o == c.parseErr {
						return []string{"returnIfParseErr"}
					}
				}
				if _, ok := c.eofCmp(st.Cond, token.EQL); ok && c.isNil(ret) {
					return []string{"returnNilIfEOF"}
				}
				if k, ok := c.eofCmp(st.Cond, token.NEQ); ok {
					if k2, ok2 := c.lexErr(ret); ok2 && k == k2 {
						return []string{"returnLexErrIfNotEOF"}
					}
				}
				// `if e != minify.ErrNotExist { return e' }` where e is known non-nil
				if b, ok := unparen(st.Cond).(*ast.BinaryExpr); ok && b.Op == token.NEQ {
					if o, ok := c.obj(b.X).(*types.Var); ok && nonNil[o] && c.propagates(ret, o) {
						if sel := c.obj(b.Y); sel != nil {
							return []string{"returnSubErr"}
						}
						if se, ok := unparen(b.Y).(*ast.SelectorExpr); ok {
							if v, ok := c.info().Uses[se.Sel].(*types.Var); ok && isErrorType(v.Type()) {
								return []string{"returnSubErr"}
							}
						}
					}
				}
			}
		}
	}
	if !containsReturn(s) {
		// a probe whose result is dropped, or recover(), must not hide inside "work"
		bad := false
		ast.Inspect(s, func(x ast.Node) bool {
			if call, ok := x.(*ast.CallExpr); ok {
				if probe, isW := c.writeCall(call); isW && probe {
					bad = true
				}
				if id, ok := unparen(call.Fun).(*ast.Ident); ok {
					if b, isB := c.info().Uses[id].(*types.Builtin); isB && b.Name() == "recover" {
						bad = true
					}
				}
			}
			return !bad
		})
		if bad {
			return other()
		}
		return []string{"work"}
	}
	// compound statement with returns deeper inside: its lists are exit blocks of their own
	c.descend(s)
	return []string{"work"}
}

// inlineHelper: `return f(args…)` where f is declared in the module and returns one error: f's statements take the place
// of the return; the writer and lexer-error values among the arguments are followed into f's parameters
func (c *c14Walker) inlineHelper(e ast.Expr) ([]string, bool) {
	call, ok := unparen(e).(*ast.CallExpr)
	if !ok || c.depth >= 2 {
		return nil, false
	}
	fn := calleeOf(c.info(), call)
	if fn == nil || fn.Pkg() == nil || isStdlibPath(fn.Pkg().Path()) {
		return nil, false
	}
	ref, ok := c.e.funcIndex()[fn.Origin()]
	if !ok || ref.decl.Body == nil || ref.decl.Recv != nil {
		return nil, false
	}
	sig := fn.Type().(*types.Signature)
	if sig.Results().Len() != 1 || !isErrorType(sig.Results().At(0).Type()) || sig.Variadic() {
		return nil, false
	}
	sub := &c14Walker{e: c.e, p: ref.pkg, single: singleDefs(ref.pkg), writers: map[types.Object]bool{}, lexErrs: map[types.Object]bool{}, depth: c.depth + 1}
	i := 0
	passesWriter := false
	for _, f := range ref.decl.Type.Params.List {
		for _, n := range f.Names {
			if i < len(call.Args) {
				po := ref.pkg.TypesInfo.Defs[n]
				if c.writers[c.obj(call.Args[i])] {
					sub.writers[po] = true
					passesWriter = true
				} else if _, ok := c.lexErr(call.Args[i]); ok {
					sub.lexErrs[po] = true
				}
			}
			i++
		}
	}
	if !passesWriter {
		return nil, false
	}
	atoms := sub.listAtoms(ref.decl.Body.List, nil)
	c.blocks = append(c.blocks, sub.blocks...)
	return atoms, true
}

// descend walks the nested statement lists of a compound statement
func (c *c14Walker) descend(s ast.Stmt) {
	none := map[types.Object]bool{}
	switch st := s.(type) {
	case *ast.BlockStmt:
		c.walkList(st.List, none)
	case *ast.IfStmt:
		body, els := map[types.Object]bool{}, map[types.Object]bool{}
		initOK := st.Init == nil
		if st.Init != nil {
			_, _, initOK = c.errInit(st.Init)
		}
		if initOK {
			if o := c.errCmpNil(st.Cond, token.NEQ); o != nil {
				body[o] = true
			}
			if o := c.errCmpNil(st.Cond, token.EQL); o != nil {
				els[o] = true
			}
		}
		c.walkList(st.Body.List, body)
		switch e := st.Else.(type) {
		case *ast.BlockStmt:
			c.walkList(e.List, els)
		case *ast.IfStmt:
			c.walkList([]ast.Stmt{e}, els)
		}
	case *ast.ForStmt:
		c.walkList(st.Body.List, none)
	case *ast.RangeStmt:
		c.walkList(st.Body.List, none)
	case *ast.SwitchStmt:
		for _, cl := range st.Body.List {
			c.walkList(cl.(*ast.CaseClause).Body, none)
		}
	case *ast.TypeSwitchStmt:
		for _, cl := range st.Body.List {
			c.walkList(cl.(*ast.CaseClause).Body, none)
		}
	case *ast.LabeledStmt:
		c.walkList([]ast.Stmt{st.Stmt}, none)
	default:
		// select, go, defer with returns inside: not a shape of this code base
		c.blocks = append(c.blocks, []string{"other " + leanStr(c14Src(c.e.r.Fset, s))})
	}
}

func (c *c14Walker) listAtoms(list []ast.Stmt, nonNil map[types.Object]bool) []string {
	savedProbe, savedParse := c.probeErr, c.parseErr
	c.probeErr, c.parseErr = nil, nil
	defer func() { c.probeErr, c.parseErr = savedProbe, savedParse }()
	var atoms []string
	for _, s := range c.normalise(list) {
		as := c.stmtAtoms(s, nonNil, atoms)
		for _, a := range as {
			if a == "work" && len(atoms) > 0 && atoms[len(atoms)-1] == "work" {
				continue // consecutive work statements are one atom
			}
			atoms = append(atoms, a)
		}
	}
	return atoms
}

func (c *c14Walker) walkList(list []ast.Stmt, nonNil map[types.Object]bool) {
	atoms := c.listAtoms(list, nonNil)
	for _, a := range atoms {
		if strings.HasPrefix(a, "return") || strings.HasPrefix(a, "other") || a == "writeReturnIfErr" {
			c.blocks = append(c.blocks, atoms)
			return
		}
	}
}

func c14CountRecovers(p *packages.Package, fset *token.FileSet) int {
	n := 0
	for _, f := range p.Syntax {
		if !isRepoFile(fset, f) {
			continue
		}
		ast.Inspect(f, func(x ast.Node) bool {
			if call, ok := x.(*ast.CallExpr); ok {
				if id, ok := unparen(call.Fun).(*ast.Ident); ok {
					if b, isB := p.TypesInfo.Uses[id].(*types.Builtin); isB && b.Name() == "recover" {
						n++
					}
				}
			}
			return true
		})
	}
	return n
}

func init() {
	gen("ExitPaths", func(r *Repo) (string, error) {
		e, err := r.TEnv()
		if err != nil {
			return "", err
		}
		var sb strings.Builder
		sb.WriteString("import Verif.Base.SkelIR\n")
		sb.WriteString(header("ExitPaths", "the (*Minifier).Minify methods of /repo/{css,html,js,json,svg,xml}"))
		sb.WriteString("open Verif.Skel Verif.Skel.XAtom\n\n")
		var names []string
		for _, pkg := range c14Pkgs {
			fd, p, err := e.FuncDecl(pkg, "Minifier", "Minify")
			if err != nil {
				return "", err
			}
			var params []types.Object
			for _, f := range fd.Type.Params.List {
				for _, n := range f.Names {
					params = append(params, p.TypesInfo.Defs[n])
				}
			}
			if len(params) != 4 || fd.Body == nil {
				return "", fmt.Errorf("%s: Minify no longer has 4 named parameters", pkg)
			}
			wv, ok := params[1].(*types.Var)
			if !ok || types.TypeString(wv.Type(), nil) != "io.Writer" {
				return "", fmt.Errorf("%s: second parameter of Minify is not an io.Writer", pkg)
			}
			w := &c14Walker{e: e, p: p, single: singleDefs(p), writers: map[types.Object]bool{wv: true}, lexErrs: map[types.Object]bool{}}
			w.walkList(fd.Body.List, map[types.Object]bool{})
			// package-wide facts: recover() calls, dropped / used Write results
			recovers := c14CountRecovers(p, r.Fset)
			dropped, used := 0, 0
			for _, f := range p.Syntax {
				if !isRepoFile(r.Fset, f) {
					continue
				}
				ast.Inspect(f, func(x ast.Node) bool {
					switch n := x.(type) {
					case *ast.CallExpr:
						if s, ok := n.Fun.(*ast.SelectorExpr); ok && s.Sel.Name == "Write" && len(n.Args) == 1 {
							used++
						}
					case *ast.ExprStmt:
						if call, ok := n.X.(*ast.CallExpr); ok {
							if s, ok := call.Fun.(*ast.SelectorExpr); ok && s.Sel.Name == "Write" && len(call.Args) == 1 {
								dropped++
							}
						}
					}
					return true
				})
			}
			used -= dropped
			fmt.Fprintf(&sb, "/-- `%s.(*Minifier).Minify` -/\ndef %s : ExitPkg :=\n  { name := %s\n    exits := [\n", pkg, pkg, leanStr(pkg))
			for i, b := range w.blocks {
				sep := ","
				if i == len(w.blocks)-1 {
					sep = ""
				}
				fmt.Fprintf(&sb, "      [%s]%s\n", strings.Join(b, ", "), sep)
			}
			fmt.Fprintf(&sb, "    ]\n    recovers := %d\n    droppedWrites := %d\n    usedWrites := %d }\n\n", recovers, dropped, used)
			names = append(names, pkg)
		}
		// the root package (wrappers) must not recover either
		rp, err := e.Pkg(".")
		if err != nil {
			return "", err
		}
		fmt.Fprintf(&sb, "/-- `recover()` calls in package minify (minify.go, common.go, …) -/\ndef rootRecovers : Nat := %d\n\n", c14CountRecovers(rp, r.Fset))
		fmt.Fprintf(&sb, "def all : List ExitPkg := [%s]\n", strings.Join(names, ", "))
		sb.WriteString(footer("ExitPaths"))
		return sb.String(), nil
	})
}

package main

// C02: structural facts about the renamer in /repo/js (non-test files):
//   * every call site of `renameScope`: enclosing function, the `case *js.X:` clause of the enclosing type
//     switch (or "-"), and the argument expression;
//   * every assignment to `….renamer.rename` (function, right-hand side) and the arguments of `newRenamer(…)`;
//   * whether `renameScope` starts with `if !r.rename { return }` (ignoring a leading `defer`);
//   * the alphabets and length constants of `newRenamer`.
// Output: lean/Verif/Gen/RenameSites.lean.  The expected values live in Props/C02.lean (`decide`).

import (
	"fmt"
	"go/ast"
	"go/token"
	"go/types"
	"sort"
	"strconv"
	"strings"
)

// c02Canon renders expressions with the local names of one function replaced by what they are bound to, so that
// renaming a receiver, parameter or local variable does not change the transcript:
//   receiver -> recv, i-th parameter -> arg<i>, `x := y.(type)` of a type switch -> sw, `x, ok := y.(T)` -> as(T),
//   `a, b := f(…)` -> f#0, f#1, `x := e` -> let(e), `for _, x := range e` -> each(e).
type c02Canon struct{ names map[string]string }

func newC02Canon(fd *ast.FuncDecl) *c02Canon {
	c := &c02Canon{names: map[string]string{}}
	if fd.Recv != nil {
		for _, f := range fd.Recv.List {
			for _, n := range f.Names {
				c.names[n.Name] = "recv"
			}
		}
	}
	i := 0
	for _, f := range fd.Type.Params.List {
		for _, n := range f.Names {
			c.names[n.Name] = fmt.Sprintf("arg%d", i)
			i++
		}
		if len(f.Names) == 0 {
			i++
		}
	}
	if fd.Body == nil {
		return c
	}
	bind := func(lhs ast.Expr, to string) {
		if id, ok := lhs.(*ast.Ident); ok && id.Name != "_" {
			if _, done := c.names[id.Name]; !done { // first binding wins (source order)
				c.names[id.Name] = to
			}
		}
	}
	ast.Inspect(fd.Body, func(n ast.Node) bool {
		switch x := n.(type) {
		case *ast.TypeSwitchStmt:
			if as, ok := x.Assign.(*ast.AssignStmt); ok && len(as.Lhs) == 1 {
				bind(as.Lhs[0], "sw")
			}
		case *ast.AssignStmt:
			if x.Tok != token.DEFINE {
				return true
			}
			if len(x.Rhs) == 1 {
				switch rhs := x.Rhs[0].(type) {
				case *ast.CallExpr:
					for k, l := range x.Lhs {
						bind(l, fmt.Sprintf("%s#%d", c.render(rhs.Fun), k))
					}
					return true
				case *ast.TypeAssertExpr:
					if rhs.Type != nil {
						bind(x.Lhs[0], "as("+types.ExprString(rhs.Type)+")")
						return true
					}
				}
			}
			if len(x.Lhs) == len(x.Rhs) {
				for k, l := range x.Lhs {
					bind(l, "let("+c.render(x.Rhs[k])+")")
				}
			}
		case *ast.RangeStmt:
			if x.Tok == token.DEFINE {
				if x.Value != nil {
					bind(x.Value, "each("+c.render(x.X)+")")
				}
				if x.Key != nil {
					bind(x.Key, "index("+c.render(x.X)+")")
				}
			}
		}
		return true
	})
	return c
}

func (c *c02Canon) render(e ast.Expr) string {
	switch x := e.(type) {
	case *ast.Ident:
		if v, ok := c.names[x.Name]; ok {
			return v
		}
		return x.Name
	case *ast.SelectorExpr:
		return c.render(x.X) + "." + x.Sel.Name
	case *ast.ParenExpr:
		return "(" + c.render(x.X) + ")"
	case *ast.UnaryExpr:
		return x.Op.String() + c.render(x.X)
	case *ast.StarExpr:
		return "*" + c.render(x.X)
	case *ast.BinaryExpr:
		return c.render(x.X) + " " + x.Op.String() + " " + c.render(x.Y)
	case *ast.IndexExpr:
		return c.render(x.X) + "[" + c.render(x.Index) + "]"
	case *ast.CallExpr:
		args := make([]string, len(x.Args))
		for i, a := range x.Args {
			args[i] = c.render(a)
		}
		return c.render(x.Fun) + "(" + strings.Join(args, ", ") + ")"
	}
	return types.ExprString(e)
}

func init() {
	gen("RenameSites", func(r *Repo) (string, error) {
		files, err := r.Files("js")
		if err != nil {
			return "", err
		}
		type site struct {
			pos           token.Pos
			fn, node, arg string
		}
		type write struct {
			pos     token.Pos
			fn, rhs string
		}
		type optCall struct {
			pos    token.Pos
			fn     string
			clause ast.Node // enclosing case clause (nil: the function body)
			arg    string
		}
		var opts []optCall
		siteClause := map[token.Pos]ast.Node{}
		var sites []site
		var writes []write
		var newArgs []string
		for _, f := range files {
			for _, d := range f.Decls {
				fd, ok := d.(*ast.FuncDecl)
				if !ok || fd.Body == nil {
					continue
				}
				fn := fd.Name.Name
				canon := newC02Canon(fd)
				var stack []ast.Node
				ast.Inspect(fd.Body, func(n ast.Node) bool {
					if n == nil {
						stack = stack[:len(stack)-1]
						return true
					}
					stack = append(stack, n)
					switch x := n.(type) {
					case *ast.CallExpr:
						var clause ast.Node
						for i := len(stack) - 1; i >= 0; i-- {
							if cc, ok := stack[i].(*ast.CaseClause); ok && len(cc.List) == 1 {
								clause = cc
								break
							}
						}
						if sel, ok := x.Fun.(*ast.SelectorExpr); ok && sel.Sel.Name == "renameScope" && len(x.Args) == 1 {
							node := "-"
							if cc, ok := clause.(*ast.CaseClause); ok {
								node = types.ExprString(cc.List[0])
							}
							sites = append(sites, site{x.Pos(), fn, node, canon.render(x.Args[0])})
							siteClause[x.Pos()] = clause
						}
						if id, ok := x.Fun.(*ast.Ident); ok && id.Name == "optimizeStmtList" && len(x.Args) >= 1 {
							opts = append(opts, optCall{x.Pos(), fn, clause, canon.render(x.Args[0])})
						}
						if id, ok := x.Fun.(*ast.Ident); ok && id.Name == "newRenamer" {
							for _, a := range x.Args {
								newArgs = append(newArgs, canon.render(a))
							}
						}
					case *ast.AssignStmt:
						for i, l := range x.Lhs {
							if sel, ok := l.(*ast.SelectorExpr); ok && sel.Sel.Name == "rename" && i < len(x.Rhs) {
								if in, ok := sel.X.(*ast.SelectorExpr); ok && in.Sel.Name == "renamer" {
									writes = append(writes, write{x.Pos(), fn, canon.render(x.Rhs[i])})
								}
							}
						}
					}
					return true
				})
			}
		}
		if len(sites) == 0 {
			return "", fmt.Errorf("no renameScope call sites found in /repo/js")
		}
		sort.Slice(sites, func(i, j int) bool { return sites[i].pos < sites[j].pos })
		sort.Slice(writes, func(i, j int) bool { return writes[i].pos < writes[j].pos })

		// renameScope guard
		rs, err := r.FindFunc("js", "*renamer", "renameScope")
		if err != nil {
			return "", err
		}
		guard := false
		for _, st := range rs.Body.List {
			if _, ok := st.(*ast.DeferStmt); ok {
				continue
			}
			// `if !<receiver>.rename { return }` whatever the receiver is called
			recvName := "r"
			if rs.Recv != nil && len(rs.Recv.List) == 1 && len(rs.Recv.List[0].Names) == 1 {
				recvName = rs.Recv.List[0].Names[0].Name
			}
			if is, ok := st.(*ast.IfStmt); ok && is.Init == nil && is.Else == nil && types.ExprString(is.Cond) == "!"+recvName+".rename" && len(is.Body.List) == 1 {
				if ret, ok := is.Body.List[0].(*ast.ReturnStmt); ok && len(ret.Results) == 0 {
					guard = true
				}
			}
			break
		}

		// alphabets
		nr, err := r.FindFunc("js", "", "newRenamer")
		if err != nil {
			return "", err
		}
		alph := map[string]string{}
		var grab func(list []ast.Stmt, prefix string) error
		grab = func(list []ast.Stmt, prefix string) error {
			for _, st := range list {
				switch x := st.(type) {
				case *ast.AssignStmt:
					for i, l := range x.Lhs {
						id, ok := l.(*ast.Ident)
						if !ok || (id.Name != "identStart" && id.Name != "identContinue") || i >= len(x.Rhs) {
							continue
						}
						call, ok := x.Rhs[i].(*ast.CallExpr)
						if !ok || len(call.Args) != 1 || types.ExprString(call.Fun) != "[]byte" {
							return fmt.Errorf("newRenamer: %s is not assigned a []byte(\"…\") literal", id.Name)
						}
						bl, ok := call.Args[0].(*ast.BasicLit)
						if !ok || bl.Kind != token.STRING {
							return fmt.Errorf("newRenamer: %s is not assigned a string literal", id.Name)
						}
						v, err := strconv.Unquote(bl.Value)
						if err != nil {
							return err
						}
						alph[prefix+id.Name] = v
					}
				case *ast.IfStmt:
					if types.ExprString(x.Cond) == "useCharFreq" {
						if err := grab(x.Body.List, "freq:"); err != nil {
							return err
						}
					}
				}
			}
			return nil
		}
		if err := grab(nr.Body.List, "alpha:"); err != nil {
			return "", err
		}
		for _, k := range []string{"alpha:identStart", "alpha:identContinue", "freq:identStart", "freq:identContinue"} {
			if _, ok := alph[k]; !ok {
				return "", fmt.Errorf("newRenamer: alphabet %s not found", k)
			}
		}
		consts := map[string]string{}
		for _, f := range files {
			for _, d := range f.Decls {
				gd, ok := d.(*ast.GenDecl)
				if !ok || gd.Tok != token.CONST {
					continue
				}
				for _, s := range gd.Specs {
					vs := s.(*ast.ValueSpec)
					for i, n := range vs.Names {
						if (n.Name == "identStartLen" || n.Name == "identContinueLen") && i < len(vs.Values) {
							if bl, ok := vs.Values[i].(*ast.BasicLit); ok && bl.Kind == token.INT {
								consts[n.Name] = bl.Value
							}
						}
					}
				}
			}
		}
		if consts["identStartLen"] == "" || consts["identContinueLen"] == "" {
			return "", fmt.Errorf("identStartLen / identContinueLen constants not found")
		}

		var b strings.Builder
		b.WriteString(header("RenameSites", "js/js.go, js/vars.go"))
		b.WriteString("/-- every `renameScope` call: (enclosing function, `case` of the enclosing type switch, argument) -/\n")
		b.WriteString("def sites : List (String × String × String) := [\n")
		for i, s := range sites {
			sep := ","
			if i == len(sites)-1 {
				sep = ""
			}
			fmt.Fprintf(&b, "  (%s, %s, %s)%s\n", leanStr(s.fn), leanStr(s.node), leanStr(s.arg), sep)
		}
		b.WriteString("]\n\n/-- for every call site, in the same order: is the statement list of that scope (`P.List…` for the argument `P.Scope`)\n    handed to `optimizeStmtList` in the same function / case clause \"before\" the `renameScope` call, \"after\" it, or not there at all (\"none\") -/\n")
		b.WriteString("def siteOrder : List String := [")
		for i, st := range sites {
			prefix := strings.TrimSuffix(st.arg, ".Scope") + ".List"
			order := "none"
			for _, o := range opts {
				if o.fn != st.fn || o.clause != siteClause[st.pos] || !strings.HasPrefix(o.arg, prefix) {
					continue
				}
				if o.pos < st.pos {
					if order == "none" {
						order = "before"
					}
				} else {
					order = "after"
				}
			}
			if i > 0 {
				b.WriteString(", ")
			}
			b.WriteString(leanStr(order))
		}
		b.WriteString("]\n\n/-- every assignment to `renamer.rename`: (function, right-hand side) -/\n")
		b.WriteString("def flagWrites : List (String × String) := [\n")
		for i, w := range writes {
			sep := ","
			if i == len(writes)-1 {
				sep = ""
			}
			fmt.Fprintf(&b, "  (%s, %s)%s\n", leanStr(w.fn), leanStr(w.rhs), sep)
		}
		b.WriteString("]\n\n/-- arguments of the `newRenamer(…)` call (rename, useCharFreq) -/\n")
		fmt.Fprintf(&b, "def newRenamerArgs : List String := %s\n\n", leanStrList(newArgs))
		fmt.Fprintf(&b, "/-- `renameScope` starts with `if !r.rename { return }` -/\ndef guardFirst : Bool := %v\n\n", guard)
		fmt.Fprintf(&b, "def identStartLen : Nat := %s\ndef identContinueLen : Nat := %s\n\n", consts["identStartLen"], consts["identContinueLen"])
		fmt.Fprintf(&b, "def alphaStart : List Char := %s\n", leanChars(alph["alpha:identStart"]))
		fmt.Fprintf(&b, "def alphaCont : List Char := %s\n", leanChars(alph["alpha:identContinue"]))
		fmt.Fprintf(&b, "def freqStart : List Char := %s\n", leanChars(alph["freq:identStart"]))
		fmt.Fprintf(&b, "def freqCont : List Char := %s\n", leanChars(alph["freq:identContinue"]))
		b.WriteString(footer("RenameSites"))
		return b.String(), nil
	})
}

package main

// A small conservative may-alias analysis (flow-insensitive, field-based, context-insensitive) used by the C13 facts.
//
// Question it answers: can the storage of a *source* (a package-level slice / map of the library, or a parameter that
// receives one) be written through anything that was derived from it — a local alias, a re-slice, a struct field it was
// stored in, a parameter of a callee it was handed to, a value a callee returned?
//
//   level D ("direct")   the value may point into protected storage: a write through it is a write to the source
//   level C ("contains") the value is a container (slice of slices, pointer, struct, map, interface) that may hold a D value;
//                        reading an element / field / dereferencing it gives D|C, writing its own elements is harmless
//
// Taint lives on objects (go/types): local variables, parameters, results, struct fields (one abstract location per field
// of a type: field-based), package-level variables.  All function bodies of the module and of its non-standard-library
// dependencies (their source is in the module cache) are scanned until nothing changes.  Calls into the standard library,
// calls through interfaces declared outside the module and calls of function values of a named function type are *leaves*:
// the analysis does not look inside, it reports `(callee, argument index)` and the Lean theorem decides which leaves are
// acceptable (read-only standard-library functions by package + name; named contracts such as io.Writer.Write).
// Everything the analysis cannot follow is reported (never silently dropped):
//   violations  "WRITES …"   an element / field / pointer write, copy destination, append base, delete/clear, IncDec through a D value
//               "ESCAPES …"  a D/C value sent on a channel, handed to a call of an anonymous function value, converted with unsafe
// The only standard-library knowledge built in here is which functions return a slice that shares storage with an argument
// (aliasingStdlib): for every other standard-library function a result is taken to be fresh.

import (
	"fmt"
	"go/ast"
	"go/token"
	"go/types"
	"os"
	"sort"
	"strings"

	"golang.org/x/tools/go/packages"
)

const (
	lvD = 1
	lvC = 2
	// lvG marks a value that is (a local alias of) a source itself and has not crossed a call boundary yet.  Such a value is
	// followed into local variables, callee parameters and results, but NOT into struct fields, container elements or other
	// package-level variables: the library stores package-level slices in token data on purpose (`t.Data = spaceBytes`), and a
	// field-based analysis would then see every in-place edit of any token's data as a write to the slice.  Those stores are
	// outside this static fact (as they always were); the run-time hook VerifGlobals compares the slices' contents instead.
	lvG = 4
)

type aliasLeaf struct {
	callee string
	idx    int // argument index; -1 = receiver
}

type aliasAnalysis struct {
	e       *tenv
	taint   map[types.Object]uint8
	origin  map[types.Object]string
	ret     map[*types.Func][]uint8 // level of each result, given tainted input
	retOrig map[*types.Func]string
	changed bool
	viol    map[string]bool
	leaves  map[aliasLeaf]bool
	// appends whose base is itself a package-level slice are accounted for by the appendBases fact (+ run-time cap==len check)
	exemptAppendBase func(info *types.Info, x ast.Expr) bool
	impls            map[*types.Func][]*types.Func // interface method -> implementations in the module
	pkgs             []*packages.Package           // scanned packages, sorted
	single           map[types.Object]ast.Expr     // local variables defined exactly once (:= / var) and never reassigned: their defining expression
	curFn            string
	// A little flow sensitivity for local variables: a local that is assigned an alias at position P is an alias only from P
	// on — or from the start of the outermost loop / function literal that contains P but not the variable's declaration
	// (the next iteration sees the value), or everywhere when a function literal captures it.  Without this a variable that
	// is edited in place first and only later re-pointed at a table entry (`val = name`) would look like a write to the table.
	// … and a little branch sensitivity: an assignment inside the then-branch of an `if` (a `case` of a switch) does not reach
	// the else-branch (the later cases).
	regions  map[types.Object][]aliasRegion
	captured map[types.Object]bool
	seedLen  map[string]int // source label -> statically known length of a package-level []byte
	stack    []ast.Node     // enclosing loops, function literals, ifs, switches and case clauses of the statement being scanned
}

// aliasRegion: the variable is an alias at every position >= start (NoPos: everywhere) outside the excluded ranges
type aliasRegion struct {
	start token.Pos
	excl  [][2]token.Pos
	lv    uint8
	orgs  []string // labels of the sources this assignment can alias (sorted, at most 4 + "…")
}

func mergeOrgs(a []string, b string) []string {
	for _, part := range strings.Split(b, "+") {
		if part == "" {
			continue
		}
		found := false
		for _, x := range a {
			if x == part {
				found = true
			}
		}
		if !found {
			a = append(a, part)
		}
	}
	sort.Strings(a)
	if len(a) > 4 {
		a = append(a[:4:4], "…")
	}
	return a
}

func (r aliasRegion) covers(pos token.Pos) bool {
	if r.start != token.NoPos && pos < r.start {
		return false
	}
	for _, e := range r.excl {
		if e[0] <= pos && pos < e[1] {
			return false
		}
	}
	return true
}

func isStdlibPath(path string) bool {
	first := path
	if i := strings.Index(path, "/"); i >= 0 {
		first = path[:i]
	}
	return !strings.Contains(first, ".")
}

// refLike: a value of this type can share storage with another value (slice, map, pointer, chan, func, interface, or a
// struct / array containing one); strings are immutable and basic values are copies.
func refLike(t types.Type) bool { return refLikeN(t, 0) }

func refLikeN(t types.Type, depth int) bool {
	if t == nil || depth > 6 {
		return true
	}
	switch u := t.Underlying().(type) {
	case *types.Basic:
		return u.Kind() == types.UnsafePointer
	case *types.Slice, *types.Map, *types.Pointer, *types.Chan, *types.Signature, *types.Interface:
		return true
	case *types.Array:
		return refLikeN(u.Elem(), depth+1)
	case *types.Struct:
		for i := 0; i < u.NumFields(); i++ {
			if refLikeN(u.Field(i).Type(), depth+1) {
				return true
			}
		}
		return false
	case *types.Tuple:
		for i := 0; i < u.Len(); i++ {
			if refLikeN(u.At(i).Type(), depth+1) {
				return true
			}
		}
		return false
	}
	return true
}

// standard-library functions whose result shares storage with argument 0 (sub-slices of the input)
var aliasingStdlib = map[string]bool{
	"bytes.TrimSpace": true, "bytes.Trim": true, "bytes.TrimLeft": true, "bytes.TrimRight": true, "bytes.TrimFunc": true,
	"bytes.TrimLeftFunc": true, "bytes.TrimRightFunc": true, "bytes.TrimPrefix": true, "bytes.TrimSuffix": true,
	"bytes.Fields": true, "bytes.FieldsFunc": true, "bytes.Split": true, "bytes.SplitN": true, "bytes.SplitAfter": true,
	"bytes.SplitAfterN": true, "bytes.Cut": true, "bytes.CutPrefix": true, "bytes.CutSuffix": true, "bytes.NewBuffer": true,
	"bytes.NewReader": true, "slices.Clip": true, "slices.Grow": true, "slices.Compact": true, "slices.Delete": true, "slices.Insert": true,
	"bytes.Title": false,
}

func newAliasAnalysis(e *tenv) *aliasAnalysis {
	a := &aliasAnalysis{e: e, taint: map[types.Object]uint8{}, origin: map[types.Object]string{}, ret: map[*types.Func][]uint8{},
		retOrig: map[*types.Func]string{}, viol: map[string]bool{}, leaves: map[aliasLeaf]bool{}, impls: map[*types.Func][]*types.Func{},
		single: map[types.Object]ast.Expr{}, regions: map[types.Object][]aliasRegion{}, captured: map[types.Object]bool{}, seedLen: map[string]int{}}
	var paths []string
	for path, p := range e.byPath {
		if !isStdlibPath(path) && p.TypesInfo != nil && len(p.Syntax) > 0 {
			paths = append(paths, path)
		}
	}
	sort.Strings(paths)
	for _, path := range paths {
		a.pkgs = append(a.pkgs, e.byPath[path])
	}
	a.indexSingleDefs()
	a.indexCaptured()
	return a
}

// indexCaptured: local variables used inside a function literal that does not contain their declaration
func (a *aliasAnalysis) indexCaptured() {
	for _, p := range a.pkgs {
		for _, f := range p.Syntax {
			var lits []*ast.FuncLit
			ast.Inspect(f, func(n ast.Node) bool {
				if fl, ok := n.(*ast.FuncLit); ok {
					lits = append(lits, fl)
				}
				return true
			})
			for _, fl := range lits {
				ast.Inspect(fl.Body, func(n ast.Node) bool {
					if id, ok := n.(*ast.Ident); ok {
						if obj := p.TypesInfo.Uses[id]; obj != nil {
							if v, ok := obj.(*types.Var); ok && !v.IsField() && (obj.Pos() < fl.Pos() || obj.Pos() >= fl.End()) {
								a.captured[obj] = true
							}
						}
					}
					return true
				})
			}
		}
	}
}

// effectiveRegion: where in the source an assignment at pos makes the local variable obj an alias
func (a *aliasAnalysis) effectiveRegion(obj types.Object, pos token.Pos) aliasRegion {
	v, ok := obj.(*types.Var)
	if !ok || v.IsField() || v.Pkg() == nil || v.Parent() == v.Pkg().Scope() || a.captured[obj] {
		return aliasRegion{}
	}
	for _, n := range a.stack {
		switch n.(type) {
		case *ast.ForStmt, *ast.RangeStmt, *ast.FuncLit:
			if obj.Pos() < n.Pos() || obj.Pos() >= n.End() {
				return aliasRegion{start: n.Pos()}
			}
		}
	}
	r := aliasRegion{start: pos}
	for i, n := range a.stack {
		switch s := n.(type) {
		case *ast.IfStmt:
			if s.Else != nil && s.Body.Pos() <= pos && pos < s.Body.End() {
				r.excl = append(r.excl, [2]token.Pos{s.Else.Pos(), s.Else.End()})
			}
		case *ast.CaseClause, *ast.CommClause:
			fall := false
			ast.Inspect(n, func(x ast.Node) bool {
				if b, ok := x.(*ast.BranchStmt); ok && b.Tok == token.FALLTHROUGH {
					fall = true
				}
				return !fall
			})
			if !fall && i > 0 {
				r.excl = append(r.excl, [2]token.Pos{n.End(), a.stack[i-1].End()})
			}
		}
	}
	return r
}

// indexSingleDefs records local variables with exactly one definition and no other assignment (used to see through
// `write := w.Write` and `ok := m.o.minVersion(2016)`).
func (a *aliasAnalysis) indexSingleDefs() {
	for _, p := range a.pkgs {
		for obj, x := range singleDefs(p) {
			a.single[obj] = x
		}
	}
}

// singleDefs: local variables of a package that are defined exactly once (`:=` / `var x = …`) and never assigned again,
// inc/decremented, address-taken or used as range variables, with their defining expression
func singleDefs(p *packages.Package) map[types.Object]ast.Expr {
	defs := map[types.Object]ast.Expr{}
	count := map[types.Object]int{}
	for _, f := range p.Syntax {
		ast.Inspect(f, func(n ast.Node) bool {
			switch s := n.(type) {
			case *ast.AssignStmt:
				for i, l := range s.Lhs {
					id, ok := unparen(l).(*ast.Ident)
					if !ok {
						continue
					}
					obj := p.TypesInfo.Defs[id]
					if obj == nil {
						obj = p.TypesInfo.Uses[id]
					}
					if obj == nil {
						continue
					}
					count[obj]++
					if s.Tok == token.DEFINE && len(s.Lhs) == len(s.Rhs) {
						defs[obj] = s.Rhs[i]
					}
				}
			case *ast.ValueSpec:
				for i, id := range s.Names {
					if obj := p.TypesInfo.Defs[id]; obj != nil && len(s.Values) == len(s.Names) {
						count[obj]++
						defs[obj] = s.Values[i]
					}
				}
			case *ast.IncDecStmt:
				if id, ok := unparen(s.X).(*ast.Ident); ok {
					if obj := p.TypesInfo.Uses[id]; obj != nil {
						count[obj] += 2
					}
				}
			case *ast.UnaryExpr:
				if s.Op == token.AND {
					if id, ok := unparen(s.X).(*ast.Ident); ok {
						if obj := p.TypesInfo.Uses[id]; obj != nil {
							count[obj] += 2
						}
					}
				}
			case *ast.RangeStmt:
				for _, kx := range []ast.Expr{s.Key, s.Value} {
					if id, ok := kx.(*ast.Ident); ok {
						if obj := p.TypesInfo.Defs[id]; obj != nil {
							count[obj] += 2
						} else if obj := p.TypesInfo.Uses[id]; obj != nil {
							count[obj] += 2
						}
					}
				}
			}
			return true
		})
	}
	out := map[types.Object]ast.Expr{}
	for obj, x := range defs {
		if count[obj] == 1 {
			if v, ok := obj.(*types.Var); ok && v.Pkg() != nil && v.Parent() != v.Pkg().Scope() {
				out[obj] = x
			}
		}
	}
	return out
}

func (a *aliasAnalysis) seed(obj types.Object, lv uint8, label string) {
	a.regions[obj] = []aliasRegion{{lv: lv, orgs: []string{label}}}
	if a.taint[obj]|lv != a.taint[obj] {
		a.taint[obj] |= lv
		a.changed = true
		if _, ok := a.origin[obj]; !ok {
			a.origin[obj] = label
		}
	}
}

func (a *aliasAnalysis) add(obj types.Object, lv uint8, from string) {
	a.addAt(obj, lv, from, aliasRegion{})
}

func (a *aliasAnalysis) addAt(obj types.Object, lv uint8, from string, reg aliasRegion) {
	if obj == nil || lv == 0 {
		return
	}
	if v, ok := obj.(*types.Var); ok && !refLike(v.Type()) {
		return
	}
	known := false
	for i, r := range a.regions[obj] {
		if r.start == reg.start {
			known = true
			no := mergeOrgs(append([]string(nil), r.orgs...), from)
			if r.lv|lv != r.lv || len(no) != len(r.orgs) {
				a.regions[obj][i].lv |= lv
				a.regions[obj][i].orgs = no
				a.changed = true
			}
		}
	}
	if !known {
		reg.lv = lv
		reg.orgs = mergeOrgs(nil, from)
		a.regions[obj] = append(a.regions[obj], reg)
		a.changed = true
	}
	if a.taint[obj]|lv != a.taint[obj] {
		a.taint[obj] |= lv
		a.changed = true
		if _, ok := a.origin[obj]; !ok {
			a.origin[obj] = from
		}
		if os.Getenv("VERIF_ALIAS_DEBUG") != "" {
			fmt.Fprintf(os.Stderr, "taint %s %s (level %d) in %s [%s]\n", obj.Name(), a.e.r.Fset.Position(obj.Pos()), lv, a.curFn, from)
		}
	}
}

func (a *aliasAnalysis) run() {
	for iter := 0; iter < 50; iter++ {
		a.changed = false
		for _, p := range a.pkgs {
			for _, f := range p.Syntax {
				if !isRepoFile(a.e.r.Fset, f) {
					continue
				}
				for _, d := range f.Decls {
					fd, ok := d.(*ast.FuncDecl)
					if !ok || fd.Body == nil {
						continue
					}
					fn, _ := p.TypesInfo.Defs[fd.Name].(*types.Func)
					a.scanFunc(p, fn, fd.Type, fd.Body, pkgShort(p.Types)+"."+funcName(fd))
				}
				// package-level initialisers: var x = f(global)
				for _, d := range f.Decls {
					if gd, ok := d.(*ast.GenDecl); ok && gd.Tok == token.VAR {
						for _, s := range gd.Specs {
							vs := s.(*ast.ValueSpec)
							a.curFn = pkgShort(p.Types) + ".(package initialiser)"
							for i, n := range vs.Names {
								if len(vs.Values) == len(vs.Names) {
									lv, org := a.level(p, vs.Values[i])
									a.add(p.TypesInfo.Defs[n], lv, org)
									a.scanExpr(p, nil, vs.Values[i])
								}
							}
						}
					}
				}
			}
		}
		if !a.changed {
			return
		}
	}
	a.viol["analysis did not reach a fixpoint in 50 rounds"] = true
}

func pkgShort(p *types.Package) string {
	if p == nil {
		return "?"
	}
	if s, ok := libPkgs[p.Path()]; ok {
		return s
	}
	return p.Name()
}

func (a *aliasAnalysis) orig(obj types.Object) string {
	if s, ok := a.origin[obj]; ok {
		return s
	}
	return "?"
}

// level of an expression and the origin label of the taint (first contributing object)
func (a *aliasAnalysis) level(p *packages.Package, x ast.Expr) (uint8, string) {
	info := p.TypesInfo
	x = unparen(x)
	typ := info.TypeOf(x)
	deeper := func(base uint8, org string) (uint8, string) {
		if base == 0 || !refLike(typ) {
			return 0, ""
		}
		if base&lvC != 0 {
			return lvD | lvC | (base & lvG), org
		}
		return lvD | (base & lvG), org
	}
	switch v := x.(type) {
	case *ast.Ident:
		obj := info.Uses[v]
		if obj == nil {
			obj = info.Defs[v]
		}
		if obj == nil {
			return 0, ""
		}
		if a.taint[obj] == 0 {
			return 0, ""
		}
		var lv uint8
		var orgs []string
		for _, r := range a.regions[obj] {
			if r.covers(v.Pos()) {
				lv |= r.lv
				for _, o := range r.orgs {
					orgs = mergeOrgs(orgs, o)
				}
			}
		}
		return lv, strings.Join(orgs, "+") // 0: not an alias (yet) at this point of the function
	case *ast.SliceExpr:
		return a.level(p, v.X)
	case *ast.IndexExpr:
		if tv, ok := info.Types[v.X]; ok && tv.IsType() {
			return 0, ""
		}
		b, org := a.level(p, v.X)
		return deeper(b, org)
	case *ast.SelectorExpr:
		if sel, ok := info.Selections[v]; ok {
			if sel.Kind() == types.FieldVal {
				lv := a.taint[sel.Obj()]
				org := a.orig(sel.Obj())
				b, borg := a.level(p, v.X)
				if d, _ := deeper(b, borg); d != 0 {
					if lv == 0 {
						org = borg
					}
					lv |= d
				}
				if !refLike(typ) {
					return 0, ""
				}
				return lv, org
			}
			// method value x.M: a closure over x
			b, org := a.level(p, v.X)
			if b != 0 {
				return lvC, org
			}
			return 0, ""
		}
		if obj := info.Uses[v.Sel]; obj != nil { // qualified identifier
			return a.taint[obj], a.orig(obj)
		}
	case *ast.StarExpr:
		b, org := a.level(p, v.X)
		return deeper(b, org)
	case *ast.UnaryExpr:
		if v.Op == token.AND {
			// &x: a pointer to storage; &T{…}: handled by the composite literal
			if _, isLit := unparen(v.X).(*ast.CompositeLit); isLit {
				return a.level(p, v.X)
			}
			b, org := a.addrLevel(p, v.X)
			return b, org
		}
		if v.Op == token.ARROW {
			b, org := a.level(p, v.X)
			return deeper(b, org)
		}
	case *ast.TypeAssertExpr:
		b, org := a.level(p, v.X)
		if !refLike(typ) {
			return 0, ""
		}
		return b, org
	case *ast.CompositeLit:
		var lv uint8
		org := ""
		for _, el := range v.Elts {
			val := el
			if kv, ok := el.(*ast.KeyValueExpr); ok {
				val = kv.Value
				if kl, ko := a.level(p, kv.Key); kl != 0 {
					lv |= lvC
					org = ko
				}
			}
			if l, o := a.level(p, val); l != 0 && l&lvG == 0 {
				lv |= lvC
				if org == "" {
					org = o
				}
			}
		}
		return lv, org
	case *ast.FuncLit:
		return 0, ""
	case *ast.CallExpr:
		return a.callLevel(p, v)
	}
	return 0, ""
}

// addrLevel: level of &x
func (a *aliasAnalysis) addrLevel(p *packages.Package, x ast.Expr) (uint8, string) {
	x = unparen(x)
	switch v := x.(type) {
	case *ast.IndexExpr:
		// &s[i]: points into s's storage
		b, org := a.level(p, v.X)
		if b&lvD != 0 {
			return lvD | (b & lvC), org
		}
		if b&lvC != 0 {
			return lvC, org
		}
		return 0, ""
	case *ast.SelectorExpr:
		if sel, ok := p.TypesInfo.Selections[v]; ok && sel.Kind() == types.FieldVal {
			b, org := a.level(p, v.X)
			if b&lvD != 0 { // &g.f with g protected
				return lvD, org
			}
			if l, o := a.level(p, x); l != 0 {
				return lvC, o
			}
			return 0, ""
		}
	}
	if l, o := a.level(p, x); l != 0 {
		return lvC, o // pointer to a variable that holds an alias
	}
	return 0, ""
}

func (a *aliasAnalysis) callLevel(p *packages.Package, call *ast.CallExpr) (uint8, string) {
	info := p.TypesInfo
	typ := info.TypeOf(call)
	if tv, ok := info.Types[call.Fun]; ok && tv.IsType() { // conversion
		if len(call.Args) == 1 && refLike(tv.Type) {
			if at := info.TypeOf(call.Args[0]); at != nil && isString(at) {
				return 0, "" // []byte(string): a copy
			}
			return a.level(p, call.Args[0])
		}
		return 0, ""
	}
	if id, ok := unparen(call.Fun).(*ast.Ident); ok {
		if _, isB := info.Uses[id].(*types.Builtin); isB {
			switch id.Name {
			case "append":
				if len(call.Args) == 0 {
					return 0, ""
				}
				if a.exemptAppendBase != nil && a.exemptAppendBase(info, call.Args[0]) {
					return 0, "" // cap == len is checked at run time (appendBases): the result is a fresh array
				}
				lv, org := a.level(p, call.Args[0])
				// appended elements that are themselves references make the result a container
				if st, ok := typ.Underlying().(*types.Slice); ok && refLike(st.Elem()) {
					for i, x := range call.Args[1:] {
						l, o := a.level(p, x)
						if l != 0 {
							if call.Ellipsis != token.NoPos && i == len(call.Args)-2 {
								lv |= l
							} else {
								lv |= lvC
							}
							if org == "" {
								org = o
							}
						}
					}
				}
				return lv, org
			case "min", "max":
				return 0, ""
			}
			return 0, ""
		}
	}
	if typ == nil || !refLike(typ) {
		return 0, ""
	}
	fn := a.staticCallee(p, call)
	if fn == nil {
		return 0, ""
	}
	anyT, org := a.anyArgTainted(p, call)
	if !anyT {
		return 0, ""
	}
	if fn.Pkg() != nil && isStdlibPath(fn.Pkg().Path()) {
		name := shortFuncName(fn)
		if aliasingStdlib[name] && len(call.Args) > 0 {
			l, o := a.level(p, call.Args[0])
			if l != 0 {
				if _, isSl := typ.Underlying().(*types.Slice); isSl && !isByteSlice(typ) {
					return lvC | lvD | (l & lvG), o
				}
				return l, o
			}
		}
		return 0, ""
	}
	if r, ok := a.ret[fn.Origin()]; ok {
		var lv uint8
		for _, l := range r {
			lv |= l
		}
		if lv != 0 {
			return lv, org
		}
	}
	return 0, ""
}

func (a *aliasAnalysis) anyArgTainted(p *packages.Package, call *ast.CallExpr) (bool, string) {
	for _, x := range call.Args {
		if l, o := a.level(p, x); l != 0 {
			return true, o
		}
	}
	if sel, ok := unparen(call.Fun).(*ast.SelectorExpr); ok {
		if _, isSel := p.TypesInfo.Selections[sel]; isSel {
			if l, o := a.level(p, sel.X); l != 0 {
				return true, o
			}
		}
	}
	return false, ""
}

// staticCallee resolves the callee, seeing through a local variable that is defined once as a function / method value
func (a *aliasAnalysis) staticCallee(p *packages.Package, call *ast.CallExpr) *types.Func {
	if fn := calleeOf(p.TypesInfo, call); fn != nil {
		return fn
	}
	if id, ok := unparen(call.Fun).(*ast.Ident); ok {
		if obj := p.TypesInfo.Uses[id]; obj != nil {
			if def, ok := a.single[obj]; ok {
				switch d := unparen(def).(type) {
				case *ast.Ident:
					fn, _ := p.TypesInfo.Uses[d].(*types.Func)
					return fn
				case *ast.SelectorExpr:
					fn, _ := p.TypesInfo.Uses[d.Sel].(*types.Func)
					return fn
				}
			}
		}
	}
	return nil
}

// closureRecv: for `write := w.Write; write(x)` the receiver expression of the method value
func (a *aliasAnalysis) closureDef(p *packages.Package, call *ast.CallExpr) ast.Expr {
	if id, ok := unparen(call.Fun).(*ast.Ident); ok {
		if obj := p.TypesInfo.Uses[id]; obj != nil {
			if def, ok := a.single[obj]; ok {
				return unparen(def)
			}
		}
	}
	return nil
}

func (a *aliasAnalysis) violation(kind, what string, p *packages.Package, x ast.Expr, org string) {
	a.viol[fmt.Sprintf("%s %s: %s `%s` (storage of %s)", kind, a.curFn, what, types.ExprString(x), org)] = true
}

// root object of an lvalue base: x, x.f (field object), x[i] …
func (a *aliasAnalysis) rootObj(p *packages.Package, x ast.Expr) types.Object {
	x = unparen(x)
	switch v := x.(type) {
	case *ast.Ident:
		if o := p.TypesInfo.Uses[v]; o != nil {
			return o
		}
		return p.TypesInfo.Defs[v]
	case *ast.SelectorExpr:
		if sel, ok := p.TypesInfo.Selections[v]; ok && sel.Kind() == types.FieldVal {
			return sel.Obj()
		}
		return p.TypesInfo.Uses[v.Sel]
	case *ast.IndexExpr:
		return a.rootObj(p, v.X)
	case *ast.SliceExpr:
		return a.rootObj(p, v.X)
	case *ast.StarExpr:
		return a.rootObj(p, v.X)
	}
	return nil
}

// assign: lhs receives a value of level lv
func (a *aliasAnalysis) assign(p *packages.Package, lhs ast.Expr, lv uint8, org string) {
	if lv == 0 {
		return
	}
	lhs = unparen(lhs)
	if lv&lvG != 0 {
		// only into local variables
		id, ok := lhs.(*ast.Ident)
		if !ok {
			return
		}
		obj := p.TypesInfo.Defs[id]
		if obj == nil {
			obj = p.TypesInfo.Uses[id]
		}
		if v, ok := obj.(*types.Var); !ok || v.Pkg() == nil || v.Parent() == v.Pkg().Scope() || v.IsField() {
			return
		}
	}
	switch v := lhs.(type) {
	case *ast.Ident:
		if v.Name == "_" {
			return
		}
		obj := p.TypesInfo.Defs[v]
		if obj == nil {
			obj = p.TypesInfo.Uses[v]
		}
		if obj != nil {
			a.addAt(obj, lv, org, a.effectiveRegion(obj, v.Pos()))
		}
	case *ast.SelectorExpr:
		if sel, ok := p.TypesInfo.Selections[v]; ok && sel.Kind() == types.FieldVal {
			a.add(sel.Obj(), lv, org)
		} else if obj := p.TypesInfo.Uses[v.Sel]; obj != nil {
			a.add(obj, lv, org)
		}
	case *ast.IndexExpr, *ast.StarExpr:
		// stored inside a container: the container's root now contains an alias
		if t := p.TypesInfo.TypeOf(lhs); t != nil && refLike(t) {
			a.add(a.rootObj(p, lhs), lvC, org)
		}
	}
}

// checkWrite: x is written through (x[i] = …, *x = …, x.f = … with x a pointer, copy(x, …), …)
func (a *aliasAnalysis) checkWriteThrough(p *packages.Package, base ast.Expr, what string) {
	if l, org := a.level(p, base); l&lvD != 0 {
		if a.infeasibleByLength(p, base, org) {
			return
		}
		a.violation("WRITES", what, p, base, org)
	}
}

// infeasibleByLength: the write through the local alias x sits in the body of an `if … len(x) == K …` and every source x can
// alias there is a package-level []byte whose (never re-assigned) initialiser has a statically known length other than K:
// on that path x is not the alias.  (css.minifyColor: `data = blackBytes` (4 bytes), later `else if len(data) == 7 { data[2] = … }`.)
func (a *aliasAnalysis) infeasibleByLength(p *packages.Package, base ast.Expr, org string) bool {
	id, ok := unparen(base).(*ast.Ident) // a re-slice has another length: only the variable itself
	if !ok || org == "" || strings.Contains(org, "…") {
		return false
	}
	obj := p.TypesInfo.Uses[id]
	if obj == nil {
		return false
	}
	var lens []int
	for _, label := range strings.Split(org, "+") {
		n, ok := a.seedLen[label]
		if !ok {
			return false
		}
		lens = append(lens, n)
	}
	for _, n := range a.stack {
		is, ok := n.(*ast.IfStmt)
		if !ok || id.Pos() < is.Body.Pos() || id.Pos() >= is.Body.End() {
			continue
		}
		var conj func(x ast.Expr) bool
		conj = func(x ast.Expr) bool {
			x = unparen(x)
			b, ok := x.(*ast.BinaryExpr)
			if !ok {
				return false
			}
			if b.Op == token.LAND {
				return conj(b.X) || conj(b.Y)
			}
			if b.Op != token.EQL {
				return false
			}
			for _, pair := range [][2]ast.Expr{{b.X, b.Y}, {b.Y, b.X}} {
				call, ok := unparen(pair[0]).(*ast.CallExpr)
				if !ok || len(call.Args) != 1 {
					continue
				}
				if f, ok := unparen(call.Fun).(*ast.Ident); !ok || f.Name != "len" {
					continue
				}
				if _, isB := p.TypesInfo.Uses[unparen(call.Fun).(*ast.Ident)].(*types.Builtin); !isB {
					continue
				}
				arg, ok := unparen(call.Args[0]).(*ast.Ident)
				if !ok || p.TypesInfo.Uses[arg] != obj {
					continue
				}
				k, err := a.e.Int(p, pair[1])
				if err != nil {
					continue
				}
				all := true
				for _, n := range lens {
					if int64(n) == k {
						all = false
					}
				}
				if all {
					return true
				}
			}
			return false
		}
		if conj(is.Cond) {
			// the variable must not be re-assigned between the test and the write
			reassigned := false
			ast.Inspect(is.Body, func(x ast.Node) bool {
				if as, ok := x.(*ast.AssignStmt); ok && as.Pos() < id.Pos() {
					for _, l := range as.Lhs {
						if li, ok := unparen(l).(*ast.Ident); ok && (p.TypesInfo.Uses[li] == obj || p.TypesInfo.Defs[li] == obj) {
							reassigned = true
						}
					}
				}
				return !reassigned
			})
			if !reassigned {
				return true
			}
		}
	}
	return false
}

func (a *aliasAnalysis) checkLHS(p *packages.Package, lhs ast.Expr, what string) {
	lhs = unparen(lhs)
	switch v := lhs.(type) {
	case *ast.IndexExpr:
		if t := p.TypesInfo.TypeOf(v.X); t != nil {
			if _, isArr := t.Underlying().(*types.Array); isArr {
				a.checkLHS(p, v.X, what) // element of an array value: a write to wherever the array lives
				return
			}
		}
		a.checkWriteThrough(p, v.X, what)
	case *ast.StarExpr:
		a.checkWriteThrough(p, v.X, what)
	case *ast.SelectorExpr:
		if sel, ok := p.TypesInfo.Selections[v]; ok && sel.Kind() == types.FieldVal {
			if t := p.TypesInfo.TypeOf(v.X); t != nil {
				if _, isPtr := t.Underlying().(*types.Pointer); isPtr || sel.Indirect() {
					a.checkWriteThrough(p, v.X, what)
					return
				}
			}
			a.checkLHS(p, v.X, what)
		}
	}
}

func (a *aliasAnalysis) scanFunc(p *packages.Package, fn *types.Func, ft *ast.FuncType, body *ast.BlockStmt, name string) {
	prev := a.curFn
	a.curFn = name
	defer func() { a.curFn = prev }()
	info := p.TypesInfo
	var results []types.Object
	if ft.Results != nil {
		for _, f := range ft.Results.List {
			if len(f.Names) == 0 {
				results = append(results, nil)
			}
			for _, n := range f.Names {
				results = append(results, info.Defs[n])
			}
		}
	}
	setRet := func(i int, lv uint8, org string) {
		lv &^= lvG
		if fn == nil || lv == 0 {
			return
		}
		fn = fn.Origin()
		r := a.ret[fn]
		for len(r) <= i {
			r = append(r, 0)
		}
		if r[i]|lv != r[i] {
			r[i] |= lv
			a.changed = true
			if _, ok := a.retOrig[fn]; !ok {
				a.retOrig[fn] = org
			}
		}
		a.ret[fn] = r
	}
	var pushed []bool
	var walk func(n ast.Node) bool
	walk = func(n ast.Node) bool {
		if n == nil {
			if pushed[len(pushed)-1] {
				a.stack = a.stack[:len(a.stack)-1]
			}
			pushed = pushed[:len(pushed)-1]
			return true
		}
		switch n.(type) {
		case *ast.ForStmt, *ast.RangeStmt, *ast.IfStmt, *ast.SwitchStmt, *ast.TypeSwitchStmt, *ast.SelectStmt, *ast.CaseClause, *ast.CommClause:
			a.stack = append(a.stack, n)
			pushed = append(pushed, true)
		case *ast.FuncLit:
		default:
			pushed = append(pushed, false)
		}
		switch s := n.(type) {
		case *ast.FuncLit:
			a.stack = append(a.stack, s)
			a.scanFunc(p, nil, s.Type, s.Body, name+" (func literal)")
			a.stack = a.stack[:len(a.stack)-1]
			return false
		case *ast.AssignStmt:
			for _, l := range s.Lhs {
				kind := "element/field assignment through"
				if s.Tok != token.ASSIGN && s.Tok != token.DEFINE {
					kind = "compound assignment through"
				}
				a.checkLHS(p, l, kind)
			}
			if len(s.Lhs) == len(s.Rhs) {
				for i, l := range s.Lhs {
					lv, org := a.level(p, s.Rhs[i])
					a.assign(p, l, lv, org)
				}
			} else if len(s.Rhs) == 1 {
				a.multiAssign(p, s.Lhs, s.Rhs[0])
			}
		case *ast.ValueSpec:
			if len(s.Values) == len(s.Names) {
				for i, nm := range s.Names {
					lv, org := a.level(p, s.Values[i])
					a.assign(p, nm, lv, org)
				}
			} else if len(s.Values) == 1 {
				var lhs []ast.Expr
				for _, nm := range s.Names {
					lhs = append(lhs, nm)
				}
				a.multiAssign(p, lhs, s.Values[0])
			}
		case *ast.IncDecStmt:
			a.checkLHS(p, s.X, "++/-- through")
		case *ast.RangeStmt:
			lv, org := a.level(p, s.X)
			if lv != 0 {
				t := info.TypeOf(s.X)
				var kt, vt types.Type
				switch u := t.Underlying().(type) {
				case *types.Map:
					kt, vt = u.Key(), u.Elem()
				case *types.Slice:
					vt = u.Elem()
				case *types.Array:
					vt = u.Elem()
				case *types.Pointer:
					if arr, ok := u.Elem().Underlying().(*types.Array); ok {
						vt = arr.Elem()
					}
				case *types.Chan:
					kt = u.Elem()
				}
				el := uint8(lvD)
				if lv&lvC != 0 {
					el = lvD | lvC
				}
				if s.Key != nil && kt != nil && refLike(kt) {
					a.assign(p, s.Key, el, org)
				}
				if s.Value != nil && vt != nil && refLike(vt) {
					a.assign(p, s.Value, el, org)
				}
			}
		case *ast.SendStmt:
			if lv, org := a.level(p, s.Value); lv != 0 {
				a.violation("ESCAPES", "sent on a channel", p, s.Value, org)
			}
		case *ast.ReturnStmt:
			if len(s.Results) == 0 {
				for i, r := range results {
					if r != nil {
						setRet(i, a.taint[r], a.orig(r))
					}
				}
			} else if len(s.Results) == len(results) || ft.Results == nil {
				for i, r := range s.Results {
					lv, org := a.level(p, r)
					setRet(i, lv, org)
				}
			} else if len(s.Results) == 1 { // return f() with a tuple
				if lv, org := a.level(p, s.Results[0]); lv != 0 {
					for i := range results {
						setRet(i, lv, org)
					}
				}
			}
		case *ast.CallExpr:
			a.scanCall(p, s)
		}
		return true
	}
	ast.Inspect(body, walk)
	// named results assigned and returned by a bare return are handled above; results that are tainted objects also count
	for i, r := range results {
		if r != nil && a.taint[r] != 0 {
			setRet(i, a.taint[r], a.orig(r))
		}
	}
}

func (a *aliasAnalysis) scanExpr(p *packages.Package, fn *types.Func, x ast.Expr) {
	ast.Inspect(x, func(n ast.Node) bool {
		switch s := n.(type) {
		case *ast.FuncLit:
			a.stack = append(a.stack, s)
			a.scanFunc(p, nil, s.Type, s.Body, a.curFn+" (func literal)")
			a.stack = a.stack[:len(a.stack)-1]
			return false
		case *ast.CallExpr:
			a.scanCall(p, s)
		}
		return true
	})
}

// multiAssign: a, b := f()   /   v, ok := m[k]   /   v, ok := x.(T)   /   v, ok := <-ch
func (a *aliasAnalysis) multiAssign(p *packages.Package, lhs []ast.Expr, rhs ast.Expr) {
	rhs = unparen(rhs)
	switch r := rhs.(type) {
	case *ast.CallExpr:
		fn := a.staticCallee(p, r)
		anyT, org := a.anyArgTainted(p, r)
		if fn == nil || !anyT {
			return
		}
		if fn.Pkg() != nil && isStdlibPath(fn.Pkg().Path()) {
			if aliasingStdlib[shortFuncName(fn)] && len(r.Args) > 0 {
				if l, o := a.level(p, r.Args[0]); l != 0 {
					for _, x := range lhs {
						a.assign(p, x, l, o)
					}
				}
			}
			return
		}
		rl := a.ret[fn.Origin()]
		for i, x := range lhs {
			if i < len(rl) {
				a.assign(p, x, rl[i], org)
			}
		}
	default:
		lv, org := a.level(p, rhs)
		if len(lhs) > 0 {
			a.assign(p, lhs[0], lv, org)
		}
	}
}

func (a *aliasAnalysis) implementations(m *types.Func) []*types.Func {
	if r, ok := a.impls[m]; ok {
		return r
	}
	var out []*types.Func
	sig := m.Type().(*types.Signature)
	iface, _ := sig.Recv().Type().Underlying().(*types.Interface)
	if iface != nil {
		for _, p := range a.pkgs {
			sc := p.Types.Scope()
			for _, n := range sc.Names() {
				tn, ok := sc.Lookup(n).(*types.TypeName)
				if !ok || tn.IsAlias() {
					continue
				}
				if _, isIface := tn.Type().Underlying().(*types.Interface); isIface {
					continue
				}
				for _, t := range []types.Type{tn.Type(), types.NewPointer(tn.Type())} {
					if types.Implements(t, iface) {
						if obj, _, _ := types.LookupFieldOrMethod(t, true, p.Types, m.Name()); obj != nil {
							if f, ok := obj.(*types.Func); ok {
								out = append(out, f)
							}
						}
						break
					}
				}
			}
		}
	}
	a.impls[m] = out
	return out
}

func (a *aliasAnalysis) paramObjs(fn *types.Func) (recv *types.Var, params []*types.Var, variadic bool) {
	sig := fn.Type().(*types.Signature)
	// the declaration's own parameter objects (those used inside the body) are the ones in the FuncDecl
	if ref, ok := a.e.funcIndex()[fn.Origin()]; ok {
		info := ref.pkg.TypesInfo
		if ref.decl.Recv != nil && len(ref.decl.Recv.List) == 1 && len(ref.decl.Recv.List[0].Names) == 1 {
			recv, _ = info.Defs[ref.decl.Recv.List[0].Names[0]].(*types.Var)
		}
		for _, f := range ref.decl.Type.Params.List {
			if len(f.Names) == 0 {
				params = append(params, nil)
			}
			for _, n := range f.Names {
				v, _ := info.Defs[n].(*types.Var)
				params = append(params, v)
			}
		}
		return recv, params, sig.Variadic()
	}
	return nil, nil, sig.Variadic()
}

func (a *aliasAnalysis) hasBody(fn *types.Func) bool {
	ref, ok := a.e.funcIndex()[fn.Origin()]
	return ok && ref.decl.Body != nil && fn.Pkg() != nil && !isStdlibPath(fn.Pkg().Path())
}

func (a *aliasAnalysis) scanCall(p *packages.Package, call *ast.CallExpr) {
	info := p.TypesInfo
	if tv, ok := info.Types[call.Fun]; ok && tv.IsType() {
		if len(call.Args) == 1 {
			if b, ok := tv.Type.Underlying().(*types.Basic); ok && b.Kind() == types.UnsafePointer {
				if lv, org := a.level(p, call.Args[0]); lv != 0 {
					a.violation("ESCAPES", "converted to unsafe.Pointer", p, call.Args[0], org)
				}
			}
		}
		return
	}
	if id, ok := unparen(call.Fun).(*ast.Ident); ok {
		if _, isB := info.Uses[id].(*types.Builtin); isB {
			switch id.Name {
			case "copy":
				if len(call.Args) == 2 {
					a.checkWriteThrough(p, call.Args[0], "copy destination")
				}
			case "append":
				if len(call.Args) > 0 && !(a.exemptAppendBase != nil && a.exemptAppendBase(info, call.Args[0])) {
					a.checkWriteThrough(p, call.Args[0], "append base")
				}
			case "delete", "clear":
				if len(call.Args) > 0 {
					a.checkWriteThrough(p, call.Args[0], id.Name+" of")
				}
			}
			return
		}
	}
	// argument levels
	type argT struct {
		lv  uint8
		org string
	}
	args := make([]argT, len(call.Args))
	any := false
	for i, x := range call.Args {
		l, o := a.level(p, x)
		args[i] = argT{l, o}
		if l != 0 {
			any = true
		}
	}
	var recvArg argT
	var recvExpr ast.Expr
	if sel, ok := unparen(call.Fun).(*ast.SelectorExpr); ok {
		if _, isSel := info.Selections[sel]; isSel {
			recvExpr = sel.X
		}
	} else if def := a.closureDef(p, call); def != nil {
		if sel, ok := def.(*ast.SelectorExpr); ok {
			if _, isSel := info.Selections[sel]; isSel {
				recvExpr = sel.X
			}
		}
	}
	if recvExpr != nil {
		l, o := a.level(p, recvExpr)
		recvArg = argT{l, o}
		if l != 0 {
			any = true
		}
	}
	if !any {
		return
	}
	leaf := func(name string) {
		for i, ar := range args {
			if ar.lv != 0 {
				a.leaves[aliasLeaf{name, i}] = true
			}
		}
		if recvArg.lv != 0 {
			a.leaves[aliasLeaf{name, -1}] = true
		}
	}
	fn := a.staticCallee(p, call)
	if fn == nil {
		// a function value: a directly called / once-defined function literal is followed, a value of a named function type
		// is a leaf named after the type (a contract), anything else cannot be followed
		var lit *ast.FuncLit
		if fl, ok := unparen(call.Fun).(*ast.FuncLit); ok {
			lit = fl
		} else if def := a.closureDef(p, call); def != nil {
			lit, _ = def.(*ast.FuncLit)
		}
		if lit != nil {
			i := 0
			for _, f := range lit.Type.Params.List {
				for _, n := range f.Names {
					if i < len(args) {
						a.add(info.Defs[n], args[i].lv&^lvG, args[i].org)
					}
					i++
				}
			}
			return
		}
		ft := info.TypeOf(call.Fun)
		if named, ok := types.Unalias(ft).(*types.Named); ok && named.Obj().Pkg() != nil {
			leaf("func value of type " + pkgShort(named.Obj().Pkg()) + "." + named.Obj().Name())
			return
		}
		for i, ar := range args {
			if ar.lv != 0 {
				a.violation("ESCAPES", fmt.Sprintf("argument %d of a call of an anonymous function value", i), p, call.Args[i], ar.org)
			}
		}
		return
	}
	sig := fn.Type().(*types.Signature)
	// interface method
	if sig.Recv() != nil {
		if _, isIface := sig.Recv().Type().Underlying().(*types.Interface); isIface {
			leaf(shortFuncName(fn))
			if fn.Pkg() != nil && !isStdlibPath(fn.Pkg().Path()) {
				for _, impl := range a.implementations(fn) {
					a.passArgs(p, impl, call, recvArg.lv, recvArg.org)
				}
			}
			return
		}
	}
	if !a.hasBody(fn) {
		leaf(shortFuncName(fn))
		return
	}
	a.passArgs(p, fn, call, recvArg.lv, recvArg.org)
}

// passArgs: the callee's parameter objects receive the levels of the actual arguments
func (a *aliasAnalysis) passArgs(p *packages.Package, fn *types.Func, call *ast.CallExpr, recvLv uint8, recvOrg string) {
	recv, params, variadic := a.paramObjs(fn)
	if recv != nil && recvLv&^lvG != 0 {
		a.add(recv, recvLv&^lvG, recvOrg)
	}
	for i, x := range call.Args {
		l, o := a.level(p, x)
		if l == 0 {
			continue
		}
		pi := i
		if variadic && pi >= len(params)-1 {
			pi = len(params) - 1
			if call.Ellipsis == token.NoPos { // packed into a fresh slice
				if pi >= 0 && pi < len(params) && params[pi] != nil {
					if st, ok := params[pi].Type().Underlying().(*types.Slice); ok && refLike(st.Elem()) {
						a.add(params[pi], lvC, o)
					}
				}
				continue
			}
		}
		if pi >= 0 && pi < len(params) && params[pi] != nil {
			a.add(params[pi], l&^lvG, o)
		}
	}
}

package main

// Typed evaluation of the source expressions the table generators read.
//
// The generators used to match literal syntax (`[]byte("…")`, char literals, `1 << iota`, `js.X` selectors, one file name).
// That made every behaviour-preserving rewrite of a table (a value hoisted into a named variable, a key written as 0x3c or
// through a constant, a table moved to another file, an import alias) a false alarm.  Everything here goes through the
// type checker instead: constants are taken from types.Info.Types[e].Value (go/constant), identifiers are resolved to
// their objects and package-level variables / constants are followed to their initialisers, wherever they are declared.
// What cannot be evaluated statically (a value computed by a function, a variable that is assigned anywhere else) is
// still an error: the generator fails and the check reports a broken tie.

import (
	"fmt"
	"go/ast"
	"go/constant"
	"go/printer"
	"go/token"
	"go/types"
	"io"
	"sort"
	"strings"
	"sync"

	"golang.org/x/tools/go/packages"
)

type tenv struct {
	r       *Repo
	byPath  map[string]*packages.Package
	byTypes map[*types.Package]*packages.Package
	mu      sync.Mutex
	specs   map[*packages.Package]map[token.Pos]specRef // top-level var/const specs by the position of the declared name
	assigns map[*packages.Package]map[types.Object]bool // objects that are assigned / have their address taken outside their declaration
	funcs   map[*types.Func]funcRef                     // declarations of functions and methods with bodies
}

type specRef struct {
	spec *ast.ValueSpec
	idx  int
	decl *ast.GenDecl
	file *ast.File
}

type funcRef struct {
	decl *ast.FuncDecl
	pkg  *packages.Package
}

// TEnv loads (once) all packages of the repository with their dependencies and indexes them.
func (r *Repo) TEnv() (*tenv, error) {
	pkgs, err := r.Typed()
	if err != nil {
		return nil, err
	}
	r.tenvOnce.Do(func() {
		e := &tenv{r: r, byPath: map[string]*packages.Package{}, byTypes: map[*types.Package]*packages.Package{},
			specs: map[*packages.Package]map[token.Pos]specRef{}, assigns: map[*packages.Package]map[types.Object]bool{}}
		packages.Visit(pkgs, nil, func(p *packages.Package) {
			e.byPath[p.PkgPath] = p
			if p.Types != nil {
				e.byTypes[p.Types] = p
			}
		})
		r.tenv = e
	})
	return r.tenv, nil
}

// Pkg returns the package of a directory relative to the repository root ("." is the root package).
func (e *tenv) Pkg(rel string) (*packages.Package, error) {
	path := modPath
	if rel != "." && rel != "" {
		path = modPath + "/" + rel
	}
	p, ok := e.byPath[path]
	if !ok {
		return nil, fmt.Errorf("package %s is not part of the repository any more", path)
	}
	return p, nil
}

func (e *tenv) pkgOf(obj types.Object) *packages.Package {
	if obj == nil || obj.Pkg() == nil {
		return nil
	}
	return e.byTypes[obj.Pkg()]
}

func unparen(x ast.Expr) ast.Expr {
	for {
		p, ok := x.(*ast.ParenExpr)
		if !ok {
			return x
		}
		x = p.X
	}
}

// isRepoFile: generated hook files (build tag verif) and tests never count as the code under verification
func isRepoFile(fset *token.FileSet, f *ast.File) bool {
	fn := fset.Position(f.Pos()).Filename
	base := fn[strings.LastIndex(fn, "/")+1:]
	return !strings.HasSuffix(base, "_test.go") && !strings.HasPrefix(base, "verif_")
}

func (e *tenv) specIndex(p *packages.Package) map[token.Pos]specRef {
	e.mu.Lock()
	defer e.mu.Unlock()
	if m, ok := e.specs[p]; ok {
		return m
	}
	m := map[token.Pos]specRef{}
	for _, f := range p.Syntax {
		for _, d := range f.Decls {
			gd, ok := d.(*ast.GenDecl)
			if !ok || (gd.Tok != token.VAR && gd.Tok != token.CONST) {
				continue
			}
			for _, s := range gd.Specs {
				vs := s.(*ast.ValueSpec)
				for i, n := range vs.Names {
					m[n.Pos()] = specRef{vs, i, gd, f}
				}
			}
		}
	}
	e.specs[p] = m
	return m
}

// reassigned reports whether a package-level variable is assigned, inc/decremented or has its address taken anywhere in
// its package outside its declaration (then its initialiser is not its value).
func (e *tenv) reassigned(obj types.Object) bool {
	p := e.pkgOf(obj)
	if p == nil {
		return true
	}
	e.mu.Lock()
	m, ok := e.assigns[p]
	if !ok {
		m = map[types.Object]bool{}
		mark := func(x ast.Expr) {
			x = unparen(x)
			if id, ok := x.(*ast.Ident); ok {
				if o := p.TypesInfo.Uses[id]; o != nil {
					m[o] = true
				}
			}
		}
		for _, f := range p.Syntax {
			ast.Inspect(f, func(n ast.Node) bool {
				switch s := n.(type) {
				case *ast.AssignStmt:
					for _, l := range s.Lhs {
						mark(l)
					}
				case *ast.IncDecStmt:
					mark(s.X)
				case *ast.UnaryExpr:
					if s.Op == token.AND {
						mark(s.X)
					}
				case *ast.RangeStmt:
					if s.Tok == token.ASSIGN {
						if s.Key != nil {
							mark(s.Key)
						}
						if s.Value != nil {
							mark(s.Value)
						}
					}
				}
				return true
			})
		}
		e.assigns[p] = m
	}
	e.mu.Unlock()
	return m[obj]
}

// Lookup finds a package-level object by name.
func (e *tenv) Lookup(p *packages.Package, name string) (types.Object, error) {
	obj := p.Types.Scope().Lookup(name)
	if obj == nil {
		return nil, fmt.Errorf("%s: no package-level %s", p.PkgPath, name)
	}
	return obj, nil
}

// Init returns the initialiser expression of a package-level variable or constant and the package it is declared in.
func (e *tenv) Init(obj types.Object) (ast.Expr, *packages.Package, error) {
	p := e.pkgOf(obj)
	if p == nil {
		return nil, nil, fmt.Errorf("%s: source of its package is not loaded", obj.Name())
	}
	if obj.Parent() != p.Types.Scope() {
		return nil, nil, fmt.Errorf("%s is not a package-level declaration", obj.Name())
	}
	ref, ok := e.specIndex(p)[obj.Pos()]
	if !ok {
		return nil, nil, fmt.Errorf("%s.%s: declaration not found", p.Name, obj.Name())
	}
	if len(ref.spec.Values) != len(ref.spec.Names) {
		return nil, nil, fmt.Errorf("%s.%s has no initialiser of its own", p.Name, obj.Name())
	}
	return ref.spec.Values[ref.idx], p, nil
}

// resolveVar: x is an identifier / qualified identifier naming a package-level variable whose initialiser is its value
func (e *tenv) resolveVar(p *packages.Package, x ast.Expr) (ast.Expr, *packages.Package, bool, error) {
	var id *ast.Ident
	switch v := x.(type) {
	case *ast.Ident:
		id = v
	case *ast.SelectorExpr:
		if _, isPkg := p.TypesInfo.Uses[identOf(v.X)].(*types.PkgName); !isPkg {
			return nil, nil, false, nil
		}
		id = v.Sel
	default:
		return nil, nil, false, nil
	}
	obj, ok := p.TypesInfo.Uses[id].(*types.Var)
	if !ok || obj.IsField() || obj.Pkg() == nil || obj.Parent() != obj.Pkg().Scope() {
		return nil, nil, false, nil
	}
	if e.reassigned(obj) {
		return nil, nil, true, fmt.Errorf("variable %s is assigned outside its declaration: its initialiser is not its value", obj.Name())
	}
	init, dp, err := e.Init(obj)
	return init, dp, true, err
}

func identOf(x ast.Expr) *ast.Ident {
	id, _ := unparen(x).(*ast.Ident)
	return id
}

func isByteSlice(t types.Type) bool {
	s, ok := t.Underlying().(*types.Slice)
	if !ok {
		return false
	}
	b, ok := s.Elem().Underlying().(*types.Basic)
	return ok && b.Kind() == types.Uint8
}

func isString(t types.Type) bool {
	b, ok := t.Underlying().(*types.Basic)
	return ok && b.Info()&types.IsString != 0
}

// Bytes evaluates an expression of type string or []byte to its bytes.
func (e *tenv) Bytes(p *packages.Package, x ast.Expr) (string, error) { return e.bytes(p, x, 0) }

func (e *tenv) bytes(p *packages.Package, x ast.Expr, depth int) (string, error) {
	if depth > 20 {
		return "", fmt.Errorf("initialiser chain too deep")
	}
	x = unparen(x)
	tv, ok := p.TypesInfo.Types[x]
	if ok && tv.Value != nil && tv.Value.Kind() == constant.String {
		return constant.StringVal(tv.Value), nil
	}
	switch v := x.(type) {
	case *ast.CallExpr:
		if len(v.Args) == 1 {
			if ft, ok := p.TypesInfo.Types[v.Fun]; ok && ft.IsType() && (isByteSlice(ft.Type) || isString(ft.Type)) {
				if at := p.TypesInfo.TypeOf(v.Args[0]); at != nil && (isByteSlice(at) || isString(at)) {
					return e.bytes(p, v.Args[0], depth+1)
				}
			}
		}
	case *ast.BinaryExpr:
		if v.Op == token.ADD && ok && isString(tv.Type) {
			a, err := e.bytes(p, v.X, depth+1)
			if err != nil {
				return "", err
			}
			b, err := e.bytes(p, v.Y, depth+1)
			if err != nil {
				return "", err
			}
			return a + b, nil
		}
	case *ast.CompositeLit:
		if ok && isByteSlice(tv.Type) {
			var out []byte
			for _, el := range v.Elts {
				if _, keyed := el.(*ast.KeyValueExpr); keyed {
					return "", fmt.Errorf("keyed byte slice literal at %s", e.r.Fset.Position(x.Pos()))
				}
				n, err := e.Int(p, el)
				if err != nil || n < 0 || n > 255 {
					return "", fmt.Errorf("byte slice literal element is not a constant byte at %s", e.r.Fset.Position(el.Pos()))
				}
				out = append(out, byte(n))
			}
			return string(out), nil
		}
	case *ast.Ident, *ast.SelectorExpr:
		if init, dp, isVar, err := e.resolveVar(p, x); isVar {
			if err != nil {
				return "", err
			}
			return e.bytes(dp, init, depth+1)
		}
	}
	return "", fmt.Errorf("not a statically known string / []byte value (%T) at %s", x, e.r.Fset.Position(x.Pos()))
}

// Int evaluates an integer (byte, rune, named integer type) expression.
func (e *tenv) Int(p *packages.Package, x ast.Expr) (int64, error) {
	x = unparen(x)
	for depth := 0; depth < 20; depth++ {
		if tv, ok := p.TypesInfo.Types[x]; ok && tv.Value != nil {
			if v := constant.ToInt(tv.Value); v.Kind() == constant.Int {
				if n, exact := constant.Int64Val(v); exact {
					return n, nil
				}
			}
			return 0, fmt.Errorf("constant %s is not an integer at %s", tv.Value, e.r.Fset.Position(x.Pos()))
		}
		init, dp, isVar, err := e.resolveVar(p, x)
		if !isVar {
			break
		}
		if err != nil {
			return 0, err
		}
		p, x = dp, unparen(init)
	}
	return 0, fmt.Errorf("not a statically known integer (%T) at %s", x, e.r.Fset.Position(x.Pos()))
}

// Bool evaluates a boolean expression.
func (e *tenv) Bool(p *packages.Package, x ast.Expr) (bool, error) {
	x = unparen(x)
	for depth := 0; depth < 20; depth++ {
		if tv, ok := p.TypesInfo.Types[x]; ok && tv.Value != nil && tv.Value.Kind() == constant.Bool {
			return constant.BoolVal(tv.Value), nil
		}
		init, dp, isVar, err := e.resolveVar(p, x)
		if !isVar {
			break
		}
		if err != nil {
			return false, err
		}
		p, x = dp, unparen(init)
	}
	return false, fmt.Errorf("not a statically known bool (%T) at %s", x, e.r.Fset.Position(x.Pos()))
}

type litKV struct {
	Key, Val ast.Expr
}

// Composite resolves an expression (a literal, or the name of a package-level variable initialised with one) to a
// composite literal and the package whose type information covers it.
func (e *tenv) Composite(p *packages.Package, x ast.Expr) (*ast.CompositeLit, *packages.Package, error) {
	x = unparen(x)
	for depth := 0; depth < 20; depth++ {
		if cl, ok := x.(*ast.CompositeLit); ok {
			return cl, p, nil
		}
		init, dp, isVar, err := e.resolveVar(p, x)
		if !isVar {
			break
		}
		if err != nil {
			return nil, nil, err
		}
		p, x = dp, unparen(init)
	}
	return nil, nil, fmt.Errorf("not a composite literal (%T) at %s", x, e.r.Fset.Position(x.Pos()))
}

// MapVar returns the key/value expressions of the map literal that initialises the package-level variable `name`.
// The table variable itself may be written at run time (cmd/minify extends extMap from --ext): what is read here is the
// built-in initial content.
func (e *tenv) MapVar(rel, name string) ([]litKV, *packages.Package, *types.Map, error) {
	p, err := e.Pkg(rel)
	if err != nil {
		return nil, nil, nil, err
	}
	obj, err := e.Lookup(p, name)
	if err != nil {
		return nil, nil, nil, err
	}
	v, ok := obj.(*types.Var)
	if !ok {
		return nil, nil, nil, fmt.Errorf("%s.%s is not a variable any more", p.Name, name)
	}
	mt, ok := v.Type().Underlying().(*types.Map)
	if !ok {
		return nil, nil, nil, fmt.Errorf("%s.%s is not a map any more (%s)", p.Name, name, v.Type())
	}
	init, dp, err := e.Init(v)
	if err != nil {
		return nil, nil, nil, err
	}
	cl, dp, err := e.Composite(dp, init)
	if err != nil {
		return nil, nil, nil, fmt.Errorf("%s.%s is no longer initialised with a map literal: %v", p.Name, name, err)
	}
	var out []litKV
	for _, el := range cl.Elts {
		kv, ok := el.(*ast.KeyValueExpr)
		if !ok {
			return nil, nil, nil, fmt.Errorf("%s.%s: element is not key: value", p.Name, name)
		}
		out = append(out, litKV{kv.Key, kv.Value})
	}
	return out, dp, mt, nil
}

// ConstNames maps the values of the package-level constants of a named type (in the package that declares the type)
// to their names (the alphabetically first name when several constants share a value).
func (e *tenv) ConstNames(t types.Type) (map[int64]string, error) {
	named, ok := types.Unalias(t).(*types.Named)
	if !ok || named.Obj().Pkg() == nil {
		return nil, fmt.Errorf("%s is not a named type", t)
	}
	out := map[int64]string{}
	sc := named.Obj().Pkg().Scope()
	names := sc.Names()
	sort.Strings(names)
	for _, n := range names {
		c, ok := sc.Lookup(n).(*types.Const)
		if !ok || !types.Identical(c.Type(), named) {
			continue
		}
		if v := constant.ToInt(c.Val()); v.Kind() == constant.Int {
			if i, exact := constant.Int64Val(v); exact {
				if _, dup := out[i]; !dup {
					out[i] = n
				}
			}
		}
	}
	return out, nil
}

// ---- perfect-hash name tables (html/hash.go, css/hash.go, svg/hash.go) ----

type hashInfo struct {
	text   string           // _Hash_text
	table  map[uint64]bool  // the non-zero entries of _Hash_table: exactly the values ToHash can return
	consts map[string]int64 // every package-level constant of type Hash
	typ    types.Type
}

// HashInfo reads the generated perfect hash of a package through the type checker: which file the pieces live in, and
// what else is declared next to them, does not matter.
func (e *tenv) HashInfo(rel string) (*hashInfo, error) {
	p, err := e.Pkg(rel)
	if err != nil {
		return nil, err
	}
	tobj, ok := p.Types.Scope().Lookup("Hash").(*types.TypeName)
	if !ok {
		return nil, fmt.Errorf("%s: type Hash not found", rel)
	}
	h := &hashInfo{table: map[uint64]bool{}, consts: map[string]int64{}, typ: tobj.Type()}
	txt, err := e.Lookup(p, "_Hash_text")
	if err != nil {
		return nil, err
	}
	init, dp, err := e.Init(txt)
	if err != nil {
		return nil, err
	}
	if h.text, err = e.Bytes(dp, init); err != nil {
		return nil, fmt.Errorf("%s._Hash_text: %v", rel, err)
	}
	tab, err := e.Lookup(p, "_Hash_table")
	if err != nil {
		return nil, err
	}
	init, dp, err = e.Init(tab)
	if err != nil {
		return nil, err
	}
	cl, dp, err := e.Composite(dp, init)
	if err != nil {
		return nil, fmt.Errorf("%s._Hash_table: %v", rel, err)
	}
	for _, el := range cl.Elts {
		if kv, ok := el.(*ast.KeyValueExpr); ok {
			el = kv.Value
		}
		v, err := e.Int(dp, el)
		if err != nil {
			return nil, fmt.Errorf("%s._Hash_table: %v", rel, err)
		}
		if v != 0 {
			h.table[uint64(v)] = true
		}
	}
	sc := p.Types.Scope()
	for _, n := range sc.Names() {
		if c, ok := sc.Lookup(n).(*types.Const); ok && types.Identical(c.Type(), h.typ) {
			if v := constant.ToInt(c.Val()); v.Kind() == constant.Int {
				if i, exact := constant.Int64Val(v); exact {
					h.consts[n] = i
				}
			}
		}
	}
	if len(h.table) == 0 || len(h.text) == 0 {
		return nil, fmt.Errorf("%s: perfect hash tables are empty", rel)
	}
	return h, nil
}

// Name is what Hash(v).String() returns.
func (h *hashInfo) Name(v int64) string {
	start, n := uint64(v)>>8, uint64(v)&0xff
	if start+n > uint64(len(h.text)) {
		return ""
	}
	return h.text[start : start+n]
}

// Real reports whether ToHash can return v (a pseudo hash such as css.zeroAngleFunc is not a row of the hash table).
func (h *hashInfo) Real(v int64) bool { return h.table[uint64(v)] }

// ---- function declarations ----

func (e *tenv) funcIndex() map[*types.Func]funcRef {
	e.mu.Lock()
	defer e.mu.Unlock()
	if e.funcs != nil {
		return e.funcs
	}
	e.funcs = map[*types.Func]funcRef{}
	for _, p := range e.byPath {
		if p.TypesInfo == nil {
			continue
		}
		for _, f := range p.Syntax {
			for _, d := range f.Decls {
				if fd, ok := d.(*ast.FuncDecl); ok {
					if fn, ok := p.TypesInfo.Defs[fd.Name].(*types.Func); ok {
						e.funcs[fn] = funcRef{fd, p}
					}
				}
			}
		}
	}
	return e.funcs
}

// FuncDecl finds a function or method declaration: recv "" for functions, "T" for methods on T or *T.
func (e *tenv) FuncDecl(rel, recv, name string) (*ast.FuncDecl, *packages.Package, error) {
	p, err := e.Pkg(rel)
	if err != nil {
		return nil, nil, err
	}
	var obj types.Object
	if recv == "" {
		obj = p.Types.Scope().Lookup(name)
	} else {
		tn, ok := p.Types.Scope().Lookup(recv).(*types.TypeName)
		if !ok {
			return nil, nil, fmt.Errorf("%s: type %s not found", p.Name, recv)
		}
		obj, _, _ = types.LookupFieldOrMethod(types.NewPointer(tn.Type()), true, p.Types, name)
	}
	fn, ok := obj.(*types.Func)
	if !ok {
		return nil, nil, fmt.Errorf("%s: func (%s).%s not found", p.Name, recv, name)
	}
	ref, ok := e.funcIndex()[fn]
	if !ok || ref.decl.Body == nil {
		return nil, nil, fmt.Errorf("%s: func (%s).%s has no body in this package", p.Name, recv, name)
	}
	return ref.decl, ref.pkg, nil
}

// calleeOf resolves the static callee of a call (function, method, or interface method); nil for calls of function
// values, conversions and builtins.
func calleeOf(info *types.Info, call *ast.CallExpr) *types.Func {
	switch f := unparen(call.Fun).(type) {
	case *ast.Ident:
		fn, _ := info.Uses[f].(*types.Func)
		return fn
	case *ast.SelectorExpr:
		fn, _ := info.Uses[f.Sel].(*types.Func)
		return fn
	case *ast.IndexExpr: // generic instantiation f[T](…)
		if id := identOf(f.X); id != nil {
			fn, _ := info.Uses[id].(*types.Func)
			return fn
		}
	}
	return nil
}

// shortFuncName: pkg.F, pkg.T.M for methods (pointer-ness of the receiver dropped), with the package's name (not path)
func shortFuncName(fn *types.Func) string {
	name := fn.Name()
	sig, _ := fn.Type().(*types.Signature)
	pk := ""
	if fn.Pkg() != nil {
		pk = fn.Pkg().Name() + "."
	}
	if sig != nil && sig.Recv() != nil {
		t := sig.Recv().Type()
		if pt, ok := t.(*types.Pointer); ok {
			t = pt.Elem()
		}
		if nt, ok := types.Unalias(t).(*types.Named); ok {
			if nt.Obj().Pkg() != nil {
				pk = nt.Obj().Pkg().Name() + "."
			}
			return pk + nt.Obj().Name() + "." + name
		}
		return pk + "(" + t.String() + ")." + name
	}
	return pk + name
}

func printerFprint(w io.Writer, fset *token.FileSet, n ast.Node) { printer.Fprint(w, fset, n) }

package main

// C19: the extension → mimetype table of cmd/minify (`var extMap = map[string]string{…}` in main.go),
// regenerated as Lean data.  Fails when the literal no longer has that shape.

import (
	"fmt"
	"go/ast"
	"sort"
	"strconv"
	"strings"
)

func init() {
	gen("CliExtMap", func(r *Repo) (string, error) {
		e, err := r.FindVar("cmd/minify", "extMap")
		if err != nil {
			return "", err
		}
		lit, ok := e.(*ast.CompositeLit)
		if !ok {
			return "", fmt.Errorf("cmd/minify extMap is not a composite literal")
		}
		type kv struct{ k, v string }
		var rows []kv
		for _, el := range lit.Elts {
			p, ok := el.(*ast.KeyValueExpr)
			if !ok {
				return "", fmt.Errorf("cmd/minify extMap: element is not key: value")
			}
			kl, ok1 := p.Key.(*ast.BasicLit)
			vl, ok2 := p.Value.(*ast.BasicLit)
			if !ok1 || !ok2 {
				return "", fmt.Errorf("cmd/minify extMap: non-literal key or value")
			}
			k, e1 := strconv.Unquote(kl.Value)
			v, e2 := strconv.Unquote(vl.Value)
			if e1 != nil || e2 != nil {
				return "", fmt.Errorf("cmd/minify extMap: cannot unquote %s: %s", kl.Value, vl.Value)
			}
			rows = append(rows, kv{k, v})
		}
		sort.Slice(rows, func(i, j int) bool { return rows[i].k < rows[j].k })
		var sb strings.Builder
		sb.WriteString(header("CliExtMap", "cmd/minify/main.go (var extMap)"))
		sb.WriteString("/-- file name extension (without the dot) ↦ mimetype, sorted by extension -/\n")
		sb.WriteString("def extMap : List (String × String) := [\n")
		for i, r := range rows {
			sep := ","
			if i == len(rows)-1 {
				sep = ""
			}
			fmt.Fprintf(&sb, "  (%s, %s)%s\n", leanStr(r.k), leanStr(r.v), sep)
		}
		sb.WriteString("]\n")
		sb.WriteString(footer("CliExtMap"))
		return sb.String(), nil
	})
}

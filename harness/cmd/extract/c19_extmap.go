package main

// C19: the extension → mimetype table of cmd/minify (`var extMap = map[string]string{…}` in main.go),
// regenerated as Lean data (keys and values through the type checker: literals, constants, constant expressions).
// Fails when the variable is no longer initialised with a map literal of statically known strings.

import (
	"fmt"
	"sort"
	"strings"
)

func init() {
	gen("CliExtMap", func(r *Repo) (string, error) {
		e, err := r.TEnv()
		if err != nil {
			return "", err
		}
		kvs, p, _, err := e.MapVar("cmd/minify", "extMap")
		if err != nil {
			return "", err
		}
		type kv struct{ k, v string }
		var rows []kv
		for _, el := range kvs {
			k, e1 := e.Bytes(p, el.Key)
			v, e2 := e.Bytes(p, el.Val)
			if e1 != nil || e2 != nil {
				return "", fmt.Errorf("cmd/minify extMap: key or value is not a statically known string (%v %v)", e1, e2)
			}
			rows = append(rows, kv{k, v})
		}
		sort.Slice(rows, func(i, j int) bool { return rows[i].k < rows[j].k })
		var sb strings.Builder
		sb.WriteString(header("CliExtMap", "cmd/minify/main.go (var extMap)"))
		sb.WriteString("/-- file name extension (without the dot) ↦ mimetype, sorted by extension -/\n")
		sb.WriteString("def extMap : List (String × String) := [\n")
		for i, r := range rows {
			sep := ","
			if i == len(rows)-1 {
				sep = ""
			}
			fmt.Fprintf(&sb, "  (%s, %s)%s\n", leanStr(r.k), leanStr(r.v), sep)
		}
		sb.WriteString("]\n")
		sb.WriteString(footer("CliExtMap"))
		return sb.String(), nil
	})
}

package main

// C16 — the CLI flags that map onto the option structs: every `f.AddOpt(&xMinifier.Field, short, long, …)` call of
// cmd/minify/main.go, as `long=xMinifier.Field`; plus the option struct fields of each minifier package (exported ones),
// so that a new option without a decision in the expectation table is noticed.

import (
	"fmt"
	"go/ast"
	"go/printer"
	"go/token"
	"sort"
	"strings"
)

func init() {
	gen("CliFlags", func(r *Repo) (string, error) {
		fs, err := r.Files("cmd/minify")
		if err != nil {
			return "", err
		}
		var flags []string
		for _, f := range fs {
			ast.Inspect(f, func(n ast.Node) bool {
				call, ok := n.(*ast.CallExpr)
				if !ok || len(call.Args) < 3 {
					return true
				}
				sel, ok := call.Fun.(*ast.SelectorExpr)
				if !ok || sel.Sel.Name != "AddOpt" {
					return true
				}
				u, ok := call.Args[0].(*ast.UnaryExpr)
				if !ok || u.Op != token.AND {
					return true
				}
				tsel, ok := u.X.(*ast.SelectorExpr)
				if !ok {
					return true
				}
				base, ok := tsel.X.(*ast.Ident)
				if !ok || !strings.HasSuffix(base.Name, "Minifier") {
					return true
				}
				long, ok := call.Args[2].(*ast.BasicLit)
				if !ok {
					return true
				}
				flags = append(flags, fmt.Sprintf("%s=%s.%s", strings.Trim(long.Value, `"`), base.Name, tsel.Sel.Name))
				return true
			})
		}
		if len(flags) == 0 {
			return "", fmt.Errorf("no AddOpt(&xMinifier.Field, …) calls found in cmd/minify")
		}
		sort.Strings(flags)
		var fields []string
		for _, pkg := range []string{"css", "html", "js", "json", "svg", "xml"} {
			pf, err := r.Files(pkg)
			if err != nil {
				return "", err
			}
			for _, f := range pf {
				for _, d := range f.Decls {
					gd, ok := d.(*ast.GenDecl)
					if !ok || gd.Tok != token.TYPE {
						continue
					}
					for _, s := range gd.Specs {
						ts := s.(*ast.TypeSpec)
						st, ok := ts.Type.(*ast.StructType)
						if !ok || ts.Name.Name != "Minifier" {
							continue
						}
						for _, fl := range st.Fields.List {
							for _, nm := range fl.Names {
								if nm.IsExported() {
									fields = append(fields, pkg+"."+nm.Name)
								}
							}
						}
					}
				}
			}
		}
		sort.Strings(fields)
		// the minifier values of run(): how each `xMinifier` variable is defined, what is assigned to its fields, and under
		// which media types it is registered — the template flavours must be copies of htmlMinifier (made after the flags
		// were parsed) so that every --html-* flag reaches them
		var registry []string
		for _, f := range fs {
			for _, d := range f.Decls {
				fd, ok := d.(*ast.FuncDecl)
				if !ok || fd.Body == nil || fd.Name.Name != "run" {
					continue
				}
				ast.Inspect(fd.Body, func(n ast.Node) bool {
					switch t := n.(type) {
					case *ast.AssignStmt:
						if len(t.Lhs) == 1 && len(t.Rhs) == 1 {
							l := exprText(r.Fset, t.Lhs[0])
							base := l
							if i := strings.IndexByte(l, '.'); i >= 0 {
								base = l[:i]
							}
							if strings.HasSuffix(base, "Minifier") {
								registry = append(registry, fmt.Sprintf("def %s %s %s", l, t.Tok.String(), c16Src(r, t.Rhs[0])))
							}
						}
					case *ast.CallExpr:
						ft := exprText(r.Fset, t.Fun)
						if (ft == "m.Add" || ft == "m.AddRegexp") && len(t.Args) == 2 {
							a := exprText(r.Fset, t.Args[1])
							if strings.HasSuffix(a, "Minifier") {
								registry = append(registry, fmt.Sprintf("reg %s -> %s", exprText(r.Fset, t.Args[0]), a))
							}
						}
					}
					return true
				})
			}
		}
		sort.Strings(registry)
		var b strings.Builder
		b.WriteString(header("CliFlags", "/repo/cmd/minify/main.go (AddOpt calls) and the Minifier option structs"))
		fmt.Fprintf(&b, "/-- `--flag=xMinifier.Field` for every CLI flag bound to an option struct field -/\ndef flags : List String := %s\n\n", leanStrList(flags))
		fmt.Fprintf(&b, "/-- exported fields of the six `Minifier` option structs -/\ndef optionFields : List String := %s\n\n", leanStrList(fields))
		fmt.Fprintf(&b, "/-- `run()`: definitions of and assignments to the `xMinifier` variables (`def`), registrations (`reg`) -/\ndef registry : List String := %s\n", leanStrList(registry))
		b.WriteString(footer("CliFlags"))
		return b.String(), nil
	})
}

// version gates: every call `….minVersion(N)` in package js with its enclosing function, and every place where a byte
// sequence of newer syntax (`**`, `?.`, `??`, template literals through minifyString's allowTemplate, optional catch
// binding) is produced — so that a new ungated producer changes the regenerated list.
func init() {
	gen("JsVersionGates", func(r *Repo) (string, error) {
		fs, err := r.Files("js")
		if err != nil {
			return "", err
		}
		var gates, producers []string
		for _, f := range fs {
			for _, d := range f.Decls {
				fd, ok := d.(*ast.FuncDecl)
				if !ok || fd.Body == nil {
					continue
				}
				fn := funcName(fd)
				// which producer calls sit inside the BODY of an `if` whose condition mentions minVersion(N): a call in the
				// init statement or the condition itself runs before the gate is evaluated
				guard := map[*ast.CallExpr]string{}
				var walk func(n ast.Node, g string)
				walk = func(n ast.Node, g string) {
					ast.Inspect(n, func(x ast.Node) bool {
						switch t := x.(type) {
						case *ast.IfStmt:
							if t.Init != nil {
								walk(t.Init, g)
							}
							walk(t.Cond, g)
							g2 := g
							ct := exprText(r.Fset, t.Cond)
							if i := strings.Index(ct, "minVersion("); i >= 0 {
								g2 = ct[i : i+strings.Index(ct[i:], ")")+1]
							}
							walk(t.Body, g2)
							if t.Else != nil {
								walk(t.Else, g)
							}
							return false
						case *ast.CallExpr:
							guard[t] = g
						}
						return true
					})
				}
				walk(fd.Body, "")
				ast.Inspect(fd.Body, func(n ast.Node) bool {
					// the ES2015 property shorthand `{a}`: written when the `name:` prefix is skipped because the value is a
					// variable of the same name — record whether that condition consults the version
					if ifs, ok := n.(*ast.IfStmt); ok {
						ct := exprText(r.Fset, ifs.Cond)
						if strings.Contains(ct, ".IsIdent(") {
							g := "no-gate"
							if i := strings.Index(ct, "minVersion("); i >= 0 {
								g = ct[i : i+strings.Index(ct[i:], ")")+1]
							}
							producers = append(producers, fmt.Sprintf("%s: property shorthand (name: skipped when Name.IsIdent) gate %s", fn, g))
						}
					}
					call, ok := n.(*ast.CallExpr)
					if !ok {
						return true
					}
					ft := exprText(r.Fset, call.Fun)
					if strings.HasSuffix(ft, ".minVersion") && len(call.Args) == 1 {
						gates = append(gates, fmt.Sprintf("%s: minVersion(%s)", fn, exprText(r.Fset, call.Args[0])))
					}
					if strings.HasSuffix(ft, ".write") && len(call.Args) == 1 {
						a := exprText(r.Fset, call.Args[0])
						if a == "expBytes" || a == "optChainBytes" {
							g := guard[call]
							if g == "" {
								g = "no-gate"
							}
							producers = append(producers, fmt.Sprintf("%s: write(%s) inside %s", fn, a, g))
						}
					}
					if ft == "toNullishExpr" {
						g := guard[call]
						if g == "" {
							g = "UNGUARDED"
						}
						producers = append(producers, fmt.Sprintf("%s: toNullishExpr inside %s", fn, g))
					}
					if ft == "minifyString" && len(call.Args) == 2 {
						producers = append(producers, fmt.Sprintf("%s: minifyString allowTemplate=%s", fn, exprText(r.Fset, call.Args[1])))
					}
					return true
				})
			}
		}
		sort.Strings(gates)
		sort.Strings(producers)
		var b strings.Builder
		b.WriteString(header("JsVersionGates", "/repo/js (minVersion call sites and producers of newer syntax)"))
		fmt.Fprintf(&b, "def gates : List String := %s\n\n", leanStrList(gates))
		fmt.Fprintf(&b, "def producers : List String := %s\n", leanStrList(producers))
		b.WriteString(footer("JsVersionGates"))
		return b.String(), nil
	})
}

// option reads: every place where a field of a Minifier option struct is read in the six minifier packages, with the
// enclosing function and the innermost context (the call it is an argument of, the `if` condition it occurs in, or the
// assignment it feeds) — so that a new consumer of an option, or an option check that disappears, changes the
// regenerated list (`option_sites_ok`).
func init() {
	gen("OptionSites", func(r *Repo) (string, error) {
		fields := map[string]bool{"KeepComments": true, "KeepConditionalComments": true, "KeepSpecialComments": true,
			"KeepDefaultAttrVals": true, "KeepDocumentTags": true, "KeepEndTags": true, "KeepQuotes": true, "KeepWhitespace": true,
			"TemplateDelims": true, "KeepCSS2": true, "Precision": true, "newPrecision": true, "Inline": true, "KeepVarNames": true,
			"useAlphabetVarNames": true, "Version": true, "KeepNumbers": true}
		var sites []string
		for _, pkg := range []string{"css", "html", "js", "json", "svg", "xml"} {
			fs, err := r.Files(pkg)
			if err != nil {
				return "", err
			}
			for _, f := range fs {
				for _, d := range f.Decls {
					fd, ok := d.(*ast.FuncDecl)
					if !ok || fd.Body == nil {
						continue
					}
					fn := funcName(fd)
					var stack []ast.Node
					ast.Inspect(fd.Body, func(n ast.Node) bool {
						if n == nil {
							stack = stack[:len(stack)-1]
							return true
						}
						stack = append(stack, n)
						sel, ok := n.(*ast.SelectorExpr)
						if !ok || !fields[sel.Sel.Name] {
							return true
						}
						recv := exprText(r.Fset, sel.X)
						if recv != "o" && !strings.HasSuffix(recv, ".o") && recv != "tmp" {
							return true
						}
						ctx := "expr"
						for i := len(stack) - 2; i >= 0; i-- {
							switch t := stack[i].(type) {
							case *ast.CallExpr:
								isArg := false
								for _, a := range t.Args {
									if a.Pos() <= sel.Pos() && sel.End() <= a.End() {
										isArg = true
									}
								}
								if isArg {
									ctx = "arg of " + exprText(r.Fset, t.Fun)
								}
							case *ast.IfStmt:
								if t.Cond.Pos() <= sel.Pos() && sel.End() <= t.Cond.End() {
									c := exprText(r.Fset, t.Cond)
									if len(c) > 60 {
										c = c[:60] + ".."
									}
									ctx = "if " + c
								}
							case *ast.AssignStmt:
								onLeft := false
								for _, l := range t.Lhs {
									if l.Pos() <= sel.Pos() && sel.End() <= l.End() {
										onLeft = true
									}
								}
								if onLeft {
									ctx = "WRITE"
								} else {
									ctx = "assigned to " + exprText(r.Fset, t.Lhs[0])
								}
							case *ast.ReturnStmt:
								ctx = "returned"
							}
							if ctx != "expr" {
								break
							}
						}
						sites = append(sites, fmt.Sprintf("%s.%s: %s %s", pkg, fn, sel.Sel.Name, ctx))
						return true
					})
				}
			}
		}
		sort.Strings(sites)
		var b strings.Builder
		b.WriteString(header("OptionSites", "/repo/{css,html,js,json,svg,xml} (every read or write of an option field)"))
		fmt.Fprintf(&b, "def sites : List String := %s\n", leanStrList(sites))
		b.WriteString(footer("OptionSites"))
		return b.String(), nil
	})
}

// c16Src prints an expression in full (types.ExprString abbreviates composite literals)
func c16Src(r *Repo, e ast.Expr) string {
	var b strings.Builder
	if err := printer.Fprint(&b, r.Fset, e); err != nil {
		return exprText(r.Fset, e)
	}
	return strings.Join(strings.Fields(b.String()), " ")
}

package main

// C16 — (1) the CLI flags that map onto the option structs, (2) the JS version gates.  Everything is read from the
// type-checked AST, so that renaming a variable / receiver / unexported function, hoisting a sub-expression into a local,
// moving a declaration or re-ordering calls does not change the facts.
//
// CliFlags.flags: every `….AddOpt(dst, short, long, …)` call of cmd/minify whose `dst` is (a once-defined local holding) the
//   address of a field of one of the library's `Minifier` option structs, as `long=pkg.Field` (long name by constant value;
//   the struct is identified by its type, not by the name of the variable).
// CliFlags.optionFields: the exported fields of the six `Minifier` structs.

import (
	"fmt"
	"go/ast"
	"go/token"
	"go/types"
	"sort"
	"strings"

	"golang.org/x/tools/go/packages"
)

var c16OptionPkgs = []string{"css", "html", "js", "json", "svg", "xml"}

// c16MinifierField: x is `&v.F` (possibly through once-defined locals) with v of type <pkg>.Minifier; returns "pkg.F"
func c16MinifierField(p *packages.Package, single map[types.Object]ast.Expr, x ast.Expr) string {
	info := p.TypesInfo
	for depth := 0; depth < 10; depth++ {
		x = unparen(x)
		if id, ok := x.(*ast.Ident); ok {
			if def, ok := single[info.Uses[id]]; ok {
				x = def
				continue
			}
		}
		break
	}
	u, ok := x.(*ast.UnaryExpr)
	if !ok || u.Op != token.AND {
		return ""
	}
	sel, ok := unparen(u.X).(*ast.SelectorExpr)
	if !ok {
		return ""
	}
	s, ok := info.Selections[sel]
	if !ok || s.Kind() != types.FieldVal {
		return ""
	}
	rt := s.Recv()
	if pt, ok := rt.Underlying().(*types.Pointer); ok {
		rt = pt.Elem()
	}
	nt, ok := types.Unalias(rt).(*types.Named)
	if !ok || nt.Obj().Name() != "Minifier" || nt.Obj().Pkg() == nil {
		return ""
	}
	for _, pk := range c16OptionPkgs {
		if nt.Obj().Pkg().Path() == modPath+"/"+pk {
			return pk + "." + s.Obj().Name()
		}
	}
	return ""
}

func init() {
	gen("CliFlags", func(r *Repo) (string, error) {
		e, err := r.TEnv()
		if err != nil {
			return "", err
		}
		p, err := e.Pkg("cmd/minify")
		if err != nil {
			return "", err
		}
		single := singleDefs(p)
		var flags []string
		var ferr error
		for _, f := range p.Syntax {
			if !isRepoFile(r.Fset, f) {
				continue
			}
			ast.Inspect(f, func(n ast.Node) bool {
				call, ok := n.(*ast.CallExpr)
				if !ok || len(call.Args) < 3 {
					return true
				}
				fn := calleeOf(p.TypesInfo, call)
				if fn == nil || fn.Name() != "AddOpt" {
					return true
				}
				field := c16MinifierField(p, single, call.Args[0])
				if field == "" {
					return true
				}
				long, err := e.Bytes(p, call.Args[2])
				if err != nil {
					ferr = fmt.Errorf("AddOpt(&%s, …): flag name is not a constant string: %v", field, err)
					return false
				}
				flags = append(flags, fmt.Sprintf("%s=%s", long, field))
				return true
			})
		}
		if ferr != nil {
			return "", ferr
		}
		if len(flags) == 0 {
			return "", fmt.Errorf("no AddOpt(&<Minifier>.Field, …) calls found in cmd/minify")
		}
		sort.Strings(flags)
		var fields []string
		for _, pkg := range c16OptionPkgs {
			lp, err := e.Pkg(pkg)
			if err != nil {
				return "", err
			}
			tn, ok := lp.Types.Scope().Lookup("Minifier").(*types.TypeName)
			if !ok {
				return "", fmt.Errorf("%s: type Minifier not found", pkg)
			}
			st, ok := tn.Type().Underlying().(*types.Struct)
			if !ok {
				return "", fmt.Errorf("%s.Minifier is not a struct any more", pkg)
			}
			for i := 0; i < st.NumFields(); i++ {
				if st.Field(i).Exported() {
					fields = append(fields, pkg+"."+st.Field(i).Name())
				}
			}
		}
		sort.Strings(fields)
		registry, err := c16Registry(e, p)
		if err != nil {
			return "", err
		}
		var b strings.Builder
		b.WriteString(header("CliFlags", "/repo/cmd/minify/main.go (AddOpt calls) and the Minifier option structs"))
		fmt.Fprintf(&b, "/-- `--flag=pkg.Field` for every CLI flag bound to a field of a library option struct -/\ndef flags : List String := %s\n\n", leanStrList(flags))
		fmt.Fprintf(&b, "/-- exported fields of the six `Minifier` option structs -/\ndef optionFields : List String := %s\n\n", leanStrList(fields))
		fmt.Fprintf(&b, "/-- the option-struct values of cmd/minify (`def id := …`; a copy is named after its origin and what is assigned to it) and the media types each is registered for (`reg key -> id`) -/\ndef registry : List String := %s\n", leanStrList(registry))
		b.WriteString(footer("CliFlags"))
		return b.String(), nil
	})
}

// c16Registry: the variables of cmd/minify whose type is one of the library's `Minifier` option structs, and their
// registrations with the minify.M registry (c16x: the template flavours must be copies of the html value the flags are bound
// to, so that every --html-* flag reaches them).  Variables are named by what they are, not by how they are spelled:
//   a value defined by a composite literal        <pkg>            (`def html := html.Minifier{}`)
//   a value defined as a copy of another one      <origin>+F=v,…   with the fields assigned to it afterwards
// registrations: calls of methods of minify.M (by object) whose second argument is (the address of) such a variable; the key
// is the constant string, or `regexp "<pattern>"` for regexp.MustCompile(<constant>).
func c16Registry(e *tenv, p *packages.Package) ([]string, error) {
	info := p.TypesInfo
	optPkg := func(t types.Type) string {
		nt, ok := types.Unalias(t).(*types.Named)
		if !ok || nt.Obj().Name() != "Minifier" || nt.Obj().Pkg() == nil {
			return ""
		}
		for _, pk := range c16OptionPkgs {
			if nt.Obj().Pkg().Path() == modPath+"/"+pk {
				return pk
			}
		}
		return ""
	}
	type optVar struct {
		obj    *types.Var
		pkg    string
		def    ast.Expr
		ndefs  int
		mods   []string
		id     string
		parent *optVar
	}
	vars := map[types.Object]*optVar{}
	var order []*optVar
	get := func(id *ast.Ident) *optVar {
		o := info.Defs[id]
		if o == nil {
			o = info.Uses[id]
		}
		v, ok := o.(*types.Var)
		if !ok || v.IsField() {
			return nil
		}
		pk := optPkg(v.Type())
		if pk == "" {
			return nil
		}
		ov, ok := vars[v]
		if !ok {
			ov = &optVar{obj: v, pkg: pk}
			vars[v] = ov
			order = append(order, ov)
		}
		return ov
	}
	for _, f := range p.Syntax {
		if !isRepoFile(e.r.Fset, f) {
			continue
		}
		ast.Inspect(f, func(n ast.Node) bool {
			switch s := n.(type) {
			case *ast.AssignStmt:
				if len(s.Lhs) != len(s.Rhs) {
					return true
				}
				for i, l := range s.Lhs {
					switch lv := unparen(l).(type) {
					case *ast.Ident:
						if ov := get(lv); ov != nil {
							ov.ndefs++
							ov.def = s.Rhs[i]
						}
					case *ast.SelectorExpr:
						if id, ok := unparen(lv.X).(*ast.Ident); ok {
							if ov := get(id); ov != nil {
								if sel, ok := info.Selections[lv]; ok && sel.Kind() == types.FieldVal {
									ov.mods = append(ov.mods, lv.Sel.Name+"="+c16Value(e, p, s.Rhs[i]))
								}
							}
						}
					}
				}
			case *ast.ValueSpec:
				for i, id := range s.Names {
					if ov := get(id); ov != nil {
						ov.ndefs++
						if len(s.Values) == len(s.Names) {
							ov.def = s.Values[i]
						}
					}
				}
			}
			return true
		})
	}
	var name func(ov *optVar, depth int) string
	name = func(ov *optVar, depth int) string {
		if ov.id != "" || depth > 5 {
			return ov.id
		}
		base := "?"
		if ov.ndefs == 1 && ov.def != nil {
			switch d := unparen(ov.def).(type) {
			case *ast.CompositeLit:
				base = ov.pkg
			case *ast.Ident:
				if src, ok := vars[info.Uses[d]]; ok && src != ov {
					ov.parent = src
					base = name(src, depth+1)
				}
			}
		} else if ov.def == nil && ov.ndefs == 1 {
			base = ov.pkg // var x pkg.Minifier
		}
		mods := append([]string(nil), ov.mods...)
		sort.Strings(mods)
		ov.id = base
		if len(mods) > 0 {
			ov.id += "+" + strings.Join(mods, ",")
		}
		return ov.id
	}
	var out []string
	seen := map[string]int{}
	for _, ov := range order {
		id := name(ov, 0)
		seen[id]++
		if seen[id] > 1 {
			ov.id = fmt.Sprintf("%s#%d", id, seen[id])
		}
	}
	for _, ov := range order {
		desc := "?"
		switch {
		case ov.ndefs != 1:
			desc = fmt.Sprintf("assigned %d times", ov.ndefs)
		case ov.parent != nil:
			desc = "copy of " + ov.parent.id
		case ov.def == nil:
			desc = ov.pkg + ".Minifier{}"
		default:
			if cl, ok := unparen(ov.def).(*ast.CompositeLit); ok {
				var fs []string
				for _, el := range cl.Elts {
					if kv, ok := el.(*ast.KeyValueExpr); ok {
						fs = append(fs, types.ExprString(kv.Key)+": "+c16Value(e, p, kv.Value))
					} else {
						fs = append(fs, c16Value(e, p, el))
					}
				}
				desc = ov.pkg + ".Minifier{" + strings.Join(fs, ", ") + "}"
			} else {
				desc = c16Value(e, p, ov.def)
			}
		}
		out = append(out, fmt.Sprintf("def %s := %s", ov.id, desc))
	}
	for _, f := range p.Syntax {
		if !isRepoFile(e.r.Fset, f) {
			continue
		}
		ast.Inspect(f, func(n ast.Node) bool {
			call, ok := n.(*ast.CallExpr)
			if !ok || len(call.Args) != 2 {
				return true
			}
			fn := calleeOf(info, call)
			if fn == nil || !strings.HasPrefix(shortFuncName(fn), "minify.M.Add") {
				return true
			}
			arg := unparen(call.Args[1])
			if u, ok := arg.(*ast.UnaryExpr); ok && u.Op == token.AND {
				arg = unparen(u.X)
			}
			id, ok := arg.(*ast.Ident)
			if !ok {
				return true
			}
			ov, ok := vars[info.Uses[id]]
			if !ok {
				return true
			}
			out = append(out, fmt.Sprintf("reg %s -> %s", c16Value(e, p, call.Args[0]), ov.id))
			return true
		})
	}
	sort.Strings(out)
	return out, nil
}

// c16Value: a constant by value, regexp.MustCompile(<constant>) as `regexp "<pattern>"`, otherwise the source text
func c16Value(e *tenv, p *packages.Package, x ast.Expr) string {
	if s, err := e.Bytes(p, x); err == nil {
		if t := p.TypesInfo.TypeOf(x); t != nil && isString(t) {
			return fmt.Sprintf("%q", s)
		}
	}
	if b, err := e.Bool(p, x); err == nil {
		return fmt.Sprint(b)
	}
	if n, err := e.Int(p, x); err == nil {
		return fmt.Sprint(n)
	}
	if call, ok := unparen(x).(*ast.CallExpr); ok && len(call.Args) == 1 {
		if fn := calleeOf(p.TypesInfo, call); fn != nil && fn.Pkg() != nil && fn.Pkg().Path() == "regexp" && fn.Name() == "MustCompile" {
			if s, err := e.Bytes(p, call.Args[0]); err == nil {
				return fmt.Sprintf("regexp %q", s)
			}
		}
	}
	if cl, ok := unparen(x).(*ast.CompositeLit); ok {
		var fs []string
		for _, el := range cl.Elts {
			if kv, ok := el.(*ast.KeyValueExpr); ok {
				fs = append(fs, types.ExprString(kv.Key)+": "+c16Value(e, p, kv.Value))
			} else {
				fs = append(fs, c16Value(e, p, el))
			}
		}
		return types.TypeString(p.TypesInfo.TypeOf(cl), func(q *types.Package) string { return q.Name() }) + "{" + strings.Join(fs, ", ") + "}"
	}
	return nodeText(e.r.Fset, x)
}

// ---------------------------------------------------------------------------------------------------------------------
// JsVersionGates.
//
// gate function   a function of package js with one int parameter p and a bool result whose body is
//                 `return V == 0 || p <= V` (either order, `V >= p`) with V the field `Version` of js.Minifier — today
//                 (*Minifier).minVersion; found by this shape, not by name.
// gate atom       a call of a gate function with a constant argument N, the same test written inline, or a once-defined
//                 local bool holding one.
// A statement is *gated N* when it can only execute if a gate atom with that N holds: it sits in the then-branch of an `if`
// whose condition implies the atom (conjunctions, negations and else-branches are followed; the right operand of `a && b`
// is gated by a), or behind an `if !atom { return }` in the same statement list.  Init statements and conditions of an `if`
// are NOT gated by that `if`'s own condition.  Likewise *input-flag Optional*: dominated by a test of a node's Optional field
// (the printer re-emits `?.` only for nodes that carry the flag).
//
// producers       places where syntax newer than ES5 is created rather than copied:
//                   bytes T        a call that is handed the byte string T ∈ {**, **=, ?., ??, ??=} (by value: named slice, literal, …)
//                   set Optional   `x.Optional = true` / `Optional: true` on a parse/v2/js node
//                   token T        a js.TokenType constant T ∈ {NullishToken, OptChainToken, ExpToken, …Eq variants} used as a value
//                                  (composite literal element, assigned, passed) — not as map key, case label or comparison operand
//                   template       `minifyString(x, allow)` with `allow` not the constant false (template literals are ES2015)
//                 A producer that is not gated inside its function makes that function a constructor: every call of it is a
//                 producer of the same kind (so the label of `toNullishExpr` is the gate around its call).  The fact is the
//                 set (sorted, no duplicates, no function names) of `kind: gated N | input-flag Optional | UNGATED in f`.
// gateVersions    the distinct N of all gate atoms.

type c16Ctx struct {
	gates []int64 // versions known to hold
	flag  bool    // a node's Optional flag is known to be set
}

func (c c16Ctx) with(atoms []c16Atom) c16Ctx {
	out := c16Ctx{append([]int64(nil), c.gates...), c.flag}
	for _, a := range atoms {
		if a.flag {
			out.flag = true
		} else {
			out.gates = append(out.gates, a.n)
		}
	}
	return out
}

func (c c16Ctx) label() string {
	if len(c.gates) > 0 {
		max := c.gates[0]
		for _, g := range c.gates {
			if g > max {
				max = g
			}
		}
		return fmt.Sprintf("gated %d", max)
	}
	if c.flag {
		return "input-flag Optional"
	}
	return ""
}

type c16Atom struct {
	n    int64
	flag bool
}

type c16State struct {
	e         *tenv
	p         *packages.Package
	single    map[types.Object]ast.Expr
	gateFns   map[*types.Func]bool
	versions  map[int64]bool
	producers map[string]bool
	// constructor functions: kind set; call sites collected per function for propagation
	ctor     map[*types.Func]map[string]bool
	cur      *types.Func
	curName  string
	changed  bool
	tokNames map[int64]string
	tokType  types.Type
}

var c16NewerBytes = map[string]bool{"**": true, "**=": true, "?.": true, "??": true, "??=": true, "||=": true, "&&=": true}
var c16NewerTokens = map[string]bool{"NullishToken": true, "OptChainToken": true, "ExpToken": true, "ExpEqToken": true, "NullishEqToken": true, "AndEqToken": true, "OrEqToken": true}

func (s *c16State) isVersionField(x ast.Expr) bool {
	sel, ok := unparen(x).(*ast.SelectorExpr)
	if !ok {
		return false
	}
	sl, ok := s.p.TypesInfo.Selections[sel]
	if !ok || sl.Kind() != types.FieldVal || sl.Obj().Name() != "Version" {
		return false
	}
	rt := sl.Recv()
	if pt, ok := rt.Underlying().(*types.Pointer); ok {
		rt = pt.Elem()
	}
	nt, ok := types.Unalias(rt).(*types.Named)
	return ok && nt.Obj().Name() == "Minifier" && nt.Obj().Pkg() == s.p.Types
}

// versionTest: x is `V == 0 || c <= V` for some expression c; returns c
func (s *c16State) versionTest(x ast.Expr) (ast.Expr, bool) {
	b, ok := unparen(x).(*ast.BinaryExpr)
	if !ok || b.Op != token.LOR {
		return nil, false
	}
	isZeroTest := func(y ast.Expr) bool {
		c, ok := unparen(y).(*ast.BinaryExpr)
		if !ok || c.Op != token.EQL {
			return false
		}
		for _, pr := range [][2]ast.Expr{{c.X, c.Y}, {c.Y, c.X}} {
			if s.isVersionField(pr[0]) {
				if n, err := s.e.Int(s.p, pr[1]); err == nil && n == 0 {
					return true
				}
			}
		}
		return false
	}
	atLeast := func(y ast.Expr) (ast.Expr, bool) {
		c, ok := unparen(y).(*ast.BinaryExpr)
		if !ok {
			return nil, false
		}
		if c.Op == token.LEQ && s.isVersionField(c.Y) {
			return c.X, true
		}
		if c.Op == token.GEQ && s.isVersionField(c.X) {
			return c.Y, true
		}
		return nil, false
	}
	for _, pr := range [][2]ast.Expr{{b.X, b.Y}, {b.Y, b.X}} {
		if isZeroTest(pr[0]) {
			if c, ok := atLeast(pr[1]); ok {
				return c, true
			}
		}
	}
	return nil, false
}

func (s *c16State) findGateFns() {
	info := s.p.TypesInfo
	for _, f := range s.p.Syntax {
		if !isRepoFile(s.e.r.Fset, f) {
			continue
		}
		for _, d := range f.Decls {
			fd, ok := d.(*ast.FuncDecl)
			if !ok || fd.Body == nil || len(fd.Body.List) != 1 {
				continue
			}
			fn, _ := info.Defs[fd.Name].(*types.Func)
			if fn == nil {
				continue
			}
			sig := fn.Type().(*types.Signature)
			if sig.Params().Len() != 1 || sig.Results().Len() != 1 || !types.Identical(sig.Results().At(0).Type(), types.Typ[types.Bool]) {
				continue
			}
			ret, ok := fd.Body.List[0].(*ast.ReturnStmt)
			if !ok || len(ret.Results) != 1 {
				continue
			}
			c, ok := s.versionTest(ret.Results[0])
			if !ok {
				continue
			}
			if id, ok := unparen(c).(*ast.Ident); ok && len(fd.Type.Params.List) == 1 && len(fd.Type.Params.List[0].Names) == 1 && info.Uses[id] == info.Defs[fd.Type.Params.List[0].Names[0]] {
				s.gateFns[fn] = true
			}
		}
	}
}

// atom: x is a gate atom / Optional-flag test
func (s *c16State) atom(x ast.Expr) (c16Atom, bool) {
	info := s.p.TypesInfo
	x = unparen(x)
	for depth := 0; depth < 10; depth++ {
		id, ok := x.(*ast.Ident)
		if !ok {
			break
		}
		def, ok := s.single[info.Uses[id]]
		if !ok {
			break
		}
		x = unparen(def)
	}
	switch v := x.(type) {
	case *ast.CallExpr:
		if fn := calleeOf(info, v); fn != nil && s.gateFns[fn.Origin()] && len(v.Args) == 1 {
			if n, err := s.e.Int(s.p, v.Args[0]); err == nil {
				s.versions[n] = true
				return c16Atom{n: n}, true
			}
		}
	case *ast.BinaryExpr:
		if c, ok := s.versionTest(v); ok {
			if n, err := s.e.Int(s.p, c); err == nil {
				s.versions[n] = true
				return c16Atom{n: n}, true
			}
		}
	case *ast.SelectorExpr:
		if sl, ok := info.Selections[v]; ok && sl.Kind() == types.FieldVal && sl.Obj().Name() == "Optional" && sl.Obj().Pkg() != nil && sl.Obj().Pkg().Path() == "github.com/tdewolff/parse/v2/js" {
			return c16Atom{flag: true}, true
		}
	}
	return c16Atom{}, false
}

func c16Intersect(a, b []c16Atom) []c16Atom {
	var out []c16Atom
	for _, x := range a {
		for _, y := range b {
			if x == y {
				out = append(out, x)
			}
		}
	}
	return out
}

// holds: the atoms that hold when cond evaluates to `truth`
func (s *c16State) holds(cond ast.Expr, truth bool) []c16Atom {
	cond = unparen(cond)
	if a, ok := s.atom(cond); ok {
		if truth {
			return []c16Atom{a}
		}
		return nil
	}
	switch v := cond.(type) {
	case *ast.UnaryExpr:
		if v.Op == token.NOT {
			return s.holds(v.X, !truth)
		}
	case *ast.BinaryExpr:
		if v.Op == token.LAND {
			if truth {
				return append(s.holds(v.X, true), s.holds(v.Y, true)...)
			}
			return c16Intersect(s.holds(v.X, false), s.holds(v.Y, false))
		}
		if v.Op == token.LOR {
			if truth {
				return c16Intersect(s.holds(v.X, true), s.holds(v.Y, true))
			}
			return append(s.holds(v.X, false), s.holds(v.Y, false)...)
		}
	}
	return nil
}

func (s *c16State) produce(kind string, ctx c16Ctx) {
	if l := ctx.label(); l != "" {
		s.producers[kind+": "+l] = true
		return
	}
	// not gated inside this function: the function constructs newer syntax
	if s.cur == nil {
		s.producers[kind+": UNGATED in "+s.curName] = true
		return
	}
	m := s.ctor[s.cur]
	if m == nil {
		m = map[string]bool{}
		s.ctor[s.cur] = m
	}
	if !m[kind] {
		m[kind] = true
		s.changed = true
	}
}

func (s *c16State) isTokenConst(x ast.Expr) (string, bool) {
	tv, ok := s.p.TypesInfo.Types[x]
	if !ok || tv.Value == nil || s.tokType == nil || !types.Identical(tv.Type, s.tokType) {
		return "", false
	}
	n, err := s.e.Int(s.p, x)
	if err != nil {
		return "", false
	}
	name, ok := s.tokNames[n]
	return name, ok && c16NewerTokens[name]
}

// expr walks an expression for producer sites, honouring short-circuit evaluation
func (s *c16State) expr(x ast.Expr, ctx c16Ctx) {
	info := s.p.TypesInfo
	switch v := x.(type) {
	case nil:
		return
	case *ast.ParenExpr:
		s.expr(v.X, ctx)
	case *ast.BinaryExpr:
		s.expr(v.X, ctx)
		switch v.Op {
		case token.LAND:
			s.expr(v.Y, ctx.with(s.holds(v.X, true)))
		case token.LOR:
			s.expr(v.Y, ctx.with(s.holds(v.X, false)))
		default:
			s.expr(v.Y, ctx)
		}
	case *ast.UnaryExpr:
		s.expr(v.X, ctx)
	case *ast.StarExpr:
		s.expr(v.X, ctx)
	case *ast.SelectorExpr:
		s.expr(v.X, ctx)
	case *ast.IndexExpr:
		s.expr(v.X, ctx)
		s.expr(v.Index, ctx)
	case *ast.SliceExpr:
		s.expr(v.X, ctx)
		s.expr(v.Low, ctx)
		s.expr(v.High, ctx)
		s.expr(v.Max, ctx)
	case *ast.TypeAssertExpr:
		s.expr(v.X, ctx)
	case *ast.KeyValueExpr:
		s.expr(v.Value, ctx)
	case *ast.FuncLit:
		s.block(v.Body.List, ctx)
	case *ast.CompositeLit:
		_, isMap := info.TypeOf(v).Underlying().(*types.Map)
		for _, el := range v.Elts {
			val := el
			if kv, ok := el.(*ast.KeyValueExpr); ok {
				val = kv.Value
				if !isMap {
					if id, ok := kv.Key.(*ast.Ident); ok && id.Name == "Optional" {
						if b, err := s.e.Bool(s.p, val); err != nil || b {
							if f, ok := info.Uses[id].(*types.Var); ok && f.IsField() && f.Pkg() != nil && f.Pkg().Path() == "github.com/tdewolff/parse/v2/js" {
								s.produce("set Optional", ctx)
							}
						}
					}
				} else {
					s.expr(kv.Key, ctx) // calls inside keys; token constants as keys are not values
				}
			}
			if name, ok := s.isTokenConst(val); ok && !isMap {
				s.produce("token "+name, ctx)
			}
			s.expr(val, ctx)
		}
	case *ast.CallExpr:
		s.expr(v.Fun, ctx)
		fn := calleeOf(info, v)
		for _, a := range v.Args {
			if t := info.TypeOf(a); t != nil && isByteSlice(t) {
				if b, err := s.e.Bytes(s.p, a); err == nil && c16NewerBytes[b] {
					s.produce("bytes "+b, ctx)
				}
			}
			if name, ok := s.isTokenConst(a); ok {
				s.produce("token "+name, ctx)
			}
			s.expr(a, ctx)
		}
		if fn != nil {
			if fn.Pkg() == s.p.Types && fn.Name() == "minifyString" && len(v.Args) == 2 {
				allow := v.Args[1]
				if b, err := s.e.Bool(s.p, allow); err == nil {
					if b {
						s.produce("template", ctx)
					}
				} else if a, ok := s.atom(allow); ok && !a.flag {
					s.producers[fmt.Sprintf("template: gated %d", a.n)] = true
				} else {
					s.produce("template", ctx)
				}
			}
			for kind := range s.ctor[fn.Origin()] {
				s.produce(kind, ctx)
			}
		}
	}
}

// shorthand: the ES2015 shorthand `{a}` is written when the `name:` prefix is skipped because the value is a variable of the
// same name, i.e. by an `if` whose condition asks `<x>.<Name|Key>.IsIdent(…)` (method IsIdent of parse/v2/js.PropertyName).
// Recorded: the struct the property name belongs to (js.Property: an object literal; js.BindingObjectItem: a destructuring
// pattern, which is ES2015 syntax of the input already) and whether that condition consults a gate atom.
func (s *c16State) shorthand(cond ast.Expr) {
	info := s.p.TypesInfo
	owner := ""
	ast.Inspect(cond, func(n ast.Node) bool {
		call, ok := n.(*ast.CallExpr)
		if !ok {
			return true
		}
		fn := calleeOf(info, call)
		if fn == nil || fn.Name() != "IsIdent" || fn.Pkg() == nil || fn.Pkg().Path() != "github.com/tdewolff/parse/v2/js" {
			return true
		}
		owner = "?"
		if sel, ok := unparen(call.Fun).(*ast.SelectorExpr); ok {
			if inner, ok := unparen(sel.X).(*ast.SelectorExpr); ok {
				if fs, ok := info.Selections[inner]; ok && fs.Kind() == types.FieldVal {
					rt := fs.Recv()
					if pt, ok := rt.Underlying().(*types.Pointer); ok {
						rt = pt.Elem()
					}
					owner = types.TypeString(rt, func(p *types.Package) string { return p.Name() })
				}
			}
		}
		return true
	})
	if owner == "" {
		return
	}
	var gates []int64
	var find func(x ast.Expr)
	find = func(x ast.Expr) {
		x = unparen(x)
		if a, ok := s.atom(x); ok && !a.flag {
			gates = append(gates, a.n)
			return
		}
		switch v := x.(type) {
		case *ast.BinaryExpr:
			find(v.X)
			find(v.Y)
		case *ast.UnaryExpr:
			find(v.X)
		}
	}
	find(cond)
	label := "no gate"
	if len(gates) > 0 {
		sort.Slice(gates, func(i, j int) bool { return gates[i] < gates[j] })
		label = fmt.Sprintf("condition consults gate %d", gates[len(gates)-1])
	}
	s.producers["property shorthand of "+owner+": "+label] = true
}

func c16Terminates(list []ast.Stmt) bool {
	if len(list) == 0 {
		return false
	}
	switch t := list[len(list)-1].(type) {
	case *ast.ReturnStmt:
		return true
	case *ast.BranchStmt:
		return t.Tok == token.BREAK || t.Tok == token.CONTINUE || t.Tok == token.GOTO
	case *ast.ExprStmt:
		if c, ok := t.X.(*ast.CallExpr); ok {
			if id, ok := c.Fun.(*ast.Ident); ok && id.Name == "panic" {
				return true
			}
		}
	case *ast.BlockStmt:
		return c16Terminates(t.List)
	}
	return false
}

func (s *c16State) block(list []ast.Stmt, ctx c16Ctx) {
	for _, st := range list {
		ctx = s.stmt(st, ctx)
	}
}

// stmt walks one statement and returns the context for the statements that follow it in the same list
func (s *c16State) stmt(st ast.Stmt, ctx c16Ctx) c16Ctx {
	info := s.p.TypesInfo
	switch v := st.(type) {
	case nil:
	case *ast.ExprStmt:
		s.expr(v.X, ctx)
	case *ast.AssignStmt:
		for i, l := range v.Lhs {
			if sel, ok := unparen(l).(*ast.SelectorExpr); ok && sel.Sel.Name == "Optional" && i < len(v.Rhs) {
				if sl, ok := info.Selections[sel]; ok && sl.Obj().Pkg() != nil && sl.Obj().Pkg().Path() == "github.com/tdewolff/parse/v2/js" {
					if b, err := s.e.Bool(s.p, v.Rhs[i]); err != nil || b {
						s.produce("set Optional", ctx)
					}
				}
			}
			s.expr(l, ctx)
		}
		for _, r := range v.Rhs {
			if name, ok := s.isTokenConst(r); ok {
				s.produce("token "+name, ctx)
			}
			s.expr(r, ctx)
		}
	case *ast.DeclStmt:
		if gd, ok := v.Decl.(*ast.GenDecl); ok {
			for _, sp := range gd.Specs {
				if vs, ok := sp.(*ast.ValueSpec); ok {
					for _, r := range vs.Values {
						s.expr(r, ctx)
					}
				}
			}
		}
	case *ast.ReturnStmt:
		for _, r := range v.Results {
			if name, ok := s.isTokenConst(r); ok {
				s.produce("token "+name, ctx)
			}
			s.expr(r, ctx)
		}
	case *ast.IncDecStmt:
		s.expr(v.X, ctx)
	case *ast.SendStmt:
		s.expr(v.Value, ctx)
	case *ast.GoStmt:
		s.expr(v.Call, ctx)
	case *ast.DeferStmt:
		s.expr(v.Call, ctx)
	case *ast.LabeledStmt:
		return s.stmt(v.Stmt, ctx)
	case *ast.BlockStmt:
		s.block(v.List, ctx)
	case *ast.IfStmt:
		inner := ctx
		if v.Init != nil {
			inner = s.stmt(v.Init, ctx)
		}
		s.shorthand(v.Cond)
		s.expr(v.Cond, inner)
		s.block(v.Body.List, inner.with(s.holds(v.Cond, true)))
		elseCtx := inner.with(s.holds(v.Cond, false))
		elseTerm := false
		switch e := v.Else.(type) {
		case *ast.BlockStmt:
			s.block(e.List, elseCtx)
			elseTerm = c16Terminates(e.List)
		case *ast.IfStmt:
			s.stmt(e, elseCtx)
		}
		if c16Terminates(v.Body.List) && !elseTerm {
			return ctx.with(s.holds(v.Cond, false))
		}
		if elseTerm && !c16Terminates(v.Body.List) {
			return ctx.with(s.holds(v.Cond, true))
		}
	case *ast.ForStmt:
		inner := ctx
		if v.Init != nil {
			inner = s.stmt(v.Init, ctx)
		}
		s.expr(v.Cond, inner)
		if v.Post != nil {
			s.stmt(v.Post, inner)
		}
		s.block(v.Body.List, inner)
	case *ast.RangeStmt:
		s.expr(v.X, ctx)
		s.block(v.Body.List, ctx)
	case *ast.SwitchStmt:
		inner := ctx
		if v.Init != nil {
			inner = s.stmt(v.Init, ctx)
		}
		s.expr(v.Tag, inner)
		for _, c := range v.Body.List {
			cc := c.(*ast.CaseClause)
			cctx := inner
			if v.Tag == nil && len(cc.List) == 1 {
				cctx = inner.with(s.holds(cc.List[0], true))
			}
			for _, x := range cc.List {
				s.expr(x, inner)
			}
			s.block(cc.Body, cctx)
		}
	case *ast.TypeSwitchStmt:
		inner := ctx
		if v.Init != nil {
			inner = s.stmt(v.Init, ctx)
		}
		s.stmt(v.Assign, inner)
		for _, c := range v.Body.List {
			s.block(c.(*ast.CaseClause).Body, inner)
		}
	case *ast.SelectStmt:
		for _, c := range v.Body.List {
			s.block(c.(*ast.CommClause).Body, ctx)
		}
	}
	return ctx
}

func init() {
	gen("JsVersionGates", func(r *Repo) (string, error) {
		e, err := r.TEnv()
		if err != nil {
			return "", err
		}
		p, err := e.Pkg("js")
		if err != nil {
			return "", err
		}
		s := &c16State{e: e, p: p, single: singleDefs(p), gateFns: map[*types.Func]bool{}, versions: map[int64]bool{}, producers: map[string]bool{},
			ctor: map[*types.Func]map[string]bool{}}
		if dep, ok := e.byPath["github.com/tdewolff/parse/v2/js"]; ok {
			if tn, ok := dep.Types.Scope().Lookup("TokenType").(*types.TypeName); ok {
				s.tokType = tn.Type()
				if s.tokNames, err = e.ConstNames(tn.Type()); err != nil {
					return "", err
				}
			}
		}
		if s.tokType == nil {
			return "", fmt.Errorf("dependency type parse/v2/js.TokenType not found")
		}
		s.findGateFns()
		type fdecl struct {
			fd *ast.FuncDecl
			fn *types.Func
		}
		var decls []fdecl
		for _, f := range p.Syntax {
			if !isRepoFile(r.Fset, f) {
				continue
			}
			for _, d := range f.Decls {
				if fd, ok := d.(*ast.FuncDecl); ok && fd.Body != nil {
					fn, _ := p.TypesInfo.Defs[fd.Name].(*types.Func)
					decls = append(decls, fdecl{fd, fn})
				}
			}
		}
		sort.Slice(decls, func(i, j int) bool { return funcName(decls[i].fd) < funcName(decls[j].fd) })
		// which functions are called from inside the package (a constructor nobody calls, or an exported one, is an
		// ungated producer in its own right)
		called := map[*types.Func]bool{}
		for _, d := range decls {
			ast.Inspect(d.fd.Body, func(n ast.Node) bool {
				if c, ok := n.(*ast.CallExpr); ok {
					if fn := calleeOf(p.TypesInfo, c); fn != nil {
						called[fn.Origin()] = true
					}
				}
				return true
			})
		}
		for round := 0; round < 10; round++ {
			s.changed = false
			s.producers = map[string]bool{}
			for _, d := range decls {
				s.cur, s.curName = d.fn, funcName(d.fd)
				if d.fn != nil && (d.fn.Exported() && d.fd.Recv == nil || !called[d.fn.Origin()] || round >= 8) {
					s.cur = nil // nothing above it to carry the gate
				}
				s.block(d.fd.Body.List, c16Ctx{})
			}
			if !s.changed {
				break
			}
		}
		var vs []int64
		for v := range s.versions {
			vs = append(vs, v)
		}
		sort.Slice(vs, func(i, j int) bool { return vs[i] < vs[j] })
		var vtxt []string
		for _, v := range vs {
			vtxt = append(vtxt, fmt.Sprint(v))
		}
		var prods []string
		for k := range s.producers {
			prods = append(prods, k)
		}
		sort.Strings(prods)
		var gfs []string
		for fn := range s.gateFns {
			gfs = append(gfs, shortFuncName(fn))
		}
		sort.Strings(gfs)
		var b strings.Builder
		b.WriteString(header("JsVersionGates", "/repo/js (version gates and producers of newer syntax; see harness/cmd/extract/c16_flags.go for the definitions)"))
		fmt.Fprintf(&b, "/-- number of functions of package js of the shape `return o.Version == 0 || v <= o.Version` (found by shape, not by name) -/\ndef gateFunctions : Nat := %d\n\n", len(gfs))
		fmt.Fprintf(&b, "/-- the distinct versions tested by gate atoms -/\ndef gateVersions : List Nat := [%s]\n\n", strings.Join(vtxt, ", "))
		fmt.Fprintf(&b, "/-- `kind: gated N | input-flag Optional | UNGATED in f` for every producer of newer syntax (a set: sorted, no duplicates) -/\ndef producers : List String := %s\n", leanStrList(prods))
		b.WriteString(footer("JsVersionGates"))
		return b.String(), nil
	})
}

// option reads: every place where a field of a Minifier option struct is read or written in the six minifier packages,
// with the enclosing function and the innermost context — so that a new consumer of an option, or an option check that
// disappears, changes the regenerated list (`option_sites_ok`).  Resolved through the type checker: the option struct is
// recognised by its type (whatever the receiver / local copy is called), the context is
//
//	`if-condition`                 the read occurs in the condition of an `if`
//	`arg N of <callee>`            it is (part of) argument N of a call; the callee by its resolved name (pkg.Func, pkg.Type.Method)
//	`assigned to field <T.f>` / `assigned to a local`      it feeds an assignment
//	`WRITE`                        the field is assigned
//	`returned` / `expr`
//
// Variable names, the text of conditions and the names of unexported functions are not part of the fact (the enclosing
// function is named only when it is an exported function / method of an exported type).
func init() {
	gen("OptionSites", func(r *Repo) (string, error) {
		e, err := r.TEnv()
		if err != nil {
			return "", err
		}
		var sites []string
		for _, pkg := range c16OptionPkgs {
			p, err := e.Pkg(pkg)
			if err != nil {
				return "", err
			}
			info := p.TypesInfo
			isOption := func(sel *ast.SelectorExpr) bool {
				s, ok := info.Selections[sel]
				if !ok || s.Kind() != types.FieldVal {
					return false
				}
				rt := s.Recv()
				if pt, ok := rt.Underlying().(*types.Pointer); ok {
					rt = pt.Elem()
				}
				nt, ok := types.Unalias(rt).(*types.Named)
				return ok && nt.Obj().Name() == "Minifier" && nt.Obj().Pkg() == p.Types
			}
			for _, f := range p.Syntax {
				if !isRepoFile(r.Fset, f) {
					continue
				}
				for _, d := range f.Decls {
					fd, ok := d.(*ast.FuncDecl)
					if !ok || fd.Body == nil {
						continue
					}
					// the enclosing function is part of the fact only when it is API (an exported function, or an exported method of an
					// exported type): unexported helpers may be renamed, split and merged freely
					fn := "(unexported)"
					if fd.Name.IsExported() {
						fn = funcName(fd)
						if fd.Recv != nil && !ast.IsExported(strings.SplitN(fn, ".", 2)[0]) {
							fn = "(unexported)"
						}
					}
					var stack []ast.Node
					ast.Inspect(fd.Body, func(n ast.Node) bool {
						if n == nil {
							stack = stack[:len(stack)-1]
							return true
						}
						stack = append(stack, n)
						sel, ok := n.(*ast.SelectorExpr)
						if !ok || !isOption(sel) {
							return true
						}
						ctx := "expr"
						for i := len(stack) - 2; i >= 0; i-- {
							switch t := stack[i].(type) {
							case *ast.CallExpr:
								for k, a := range t.Args {
									if a.Pos() <= sel.Pos() && sel.End() <= a.End() {
										callee := types.ExprString(t.Fun)
										if fo := calleeOf(info, t); fo != nil {
											callee = shortFuncName(fo)
											if fo.Pkg() == p.Types && !fo.Exported() {
												callee = "an unexported function of the package"
											}
										} else if id, ok := unparen(t.Fun).(*ast.Ident); ok {
											if _, isB := info.Uses[id].(*types.Builtin); !isB {
												callee = "a function value"
											}
										}
										ctx = fmt.Sprintf("arg %d of %s", k, callee)
									}
								}
							case *ast.IfStmt:
								if t.Cond.Pos() <= sel.Pos() && sel.End() <= t.Cond.End() {
									ctx = "if-condition"
								}
							case *ast.AssignStmt:
								onLeft := false
								for _, l := range t.Lhs {
									if l.Pos() <= sel.Pos() && sel.End() <= l.End() {
										onLeft = true
									}
								}
								if onLeft {
									ctx = "WRITE"
								} else {
									ctx = "assigned to a local"
									if ls, ok := unparen(t.Lhs[0]).(*ast.SelectorExpr); ok {
										if s, ok := info.Selections[ls]; ok && s.Kind() == types.FieldVal {
											rt := s.Recv()
											if pt, ok := rt.Underlying().(*types.Pointer); ok {
												rt = pt.Elem()
											}
											ctx = "assigned to field " + types.TypeString(rt, func(p *types.Package) string { return p.Name() }) + "." + s.Obj().Name()
										}
									}
								}
							case *ast.ReturnStmt:
								ctx = "returned"
							}
							if ctx != "expr" {
								break
							}
						}
						sites = append(sites, fmt.Sprintf("%s.%s: %s %s", pkg, fn, sel.Sel.Name, ctx))
						return true
					})
				}
			}
		}
		sort.Strings(sites)
		var b strings.Builder
		b.WriteString(header("OptionSites", "/repo/{css,html,js,json,svg,xml} (every read or write of an option field)"))
		fmt.Fprintf(&b, "def sites : List String := [\n")
		for i, s := range sites {
			sep := ","
			if i == len(sites)-1 {
				sep = ""
			}
			fmt.Fprintf(&b, "  %s%s\n", leanStr(s), sep)
		}
		b.WriteString("]\n")
		b.WriteString(footer("OptionSites"))
		return b.String(), nil
	})
}

package main

// C13 — structural facts about shared state in the library packages, extracted from the type-checked AST:
//   GlobalWrites  package-level variables written (assigned, element-assigned, address taken, copy destination) outside init
//   AppendBases   package-level slices used as first argument of append (safe only while cap == len; checked at run time via the verif hook)
//   GlobalArgs    package-level slices/maps passed as call arguments (callee, position) — the places where a callee could write through them
//   OptionWrites  writes through the receiver of a (*Minifier).Minify method, with whether a rebinding `o = &local` dominates them
//   MapRanges     every range over a map
//   Nondet        goroutine starts, select statements, uses of math/rand, time.Now, os.Getenv
//   LockUse       the lock/unlock skeleton of every function in package minify that touches the registry mutex

import (
	"fmt"
	"go/ast"
	"go/token"
	"go/types"
	"sort"
	"strings"

	"golang.org/x/tools/go/packages"
)

const modPath = "github.com/tdewolff/minify/v2"

var libPkgs = map[string]string{
	modPath: "minify", modPath + "/css": "css", modPath + "/html": "html", modPath + "/js": "js",
	modPath + "/json": "json", modPath + "/svg": "svg", modPath + "/xml": "xml", modPath + "/minify": "minifyall",
}

func exprText(fset *token.FileSet, e ast.Node) string {
	if x, ok := e.(ast.Expr); ok {
		return types.ExprString(x)
	}
	return fmt.Sprintf("%T", e)
}

func funcName(fd *ast.FuncDecl) string {
	if fd.Recv != nil && len(fd.Recv.List) == 1 {
		t := fd.Recv.List[0].Type
		if s, ok := t.(*ast.StarExpr); ok {
			t = s.X
		}
		if id, ok := t.(*ast.Ident); ok {
			return id.Name + "." + fd.Name.Name
		}
	}
	return fd.Name.Name
}

func init() {
	gen("ConcFacts", func(r *Repo) (string, error) {
		pkgs, err := r.Typed()
		if err != nil {
			return "", err
		}
		var globalWrites, appendBases, globalArgs, optionWrites, mapRanges, nondet, lockUse, byteGlobals, registryWrites []string
		seenPk := 0
		for _, p := range pkgs {
			short, ok := libPkgs[p.PkgPath]
			if !ok {
				continue
			}
			seenPk++
			c13Package(p, short, &globalWrites, &appendBases, &globalArgs, &optionWrites, &mapRanges, &nondet, &lockUse, &byteGlobals, &registryWrites)
		}
		if seenPk != len(libPkgs) {
			return "", fmt.Errorf("expected %d library packages, found %d", len(libPkgs), seenPk)
		}
		aliasViolations, leaves, err := c13Alias(r)
		if err != nil {
			return "", err
		}
		var b strings.Builder
		b.WriteString(header("ConcFacts", "type-checked AST of the library packages of /repo"))
		emit := func(name, doc string, xs []string) {
			sort.Strings(xs)
			{ // dedupe
				var u []string
				for i, x := range xs {
					if i == 0 || x != xs[i-1] {
						u = append(u, x)
					}
				}
				xs = u
			}
			fmt.Fprintf(&b, "/-- %s -/\ndef %s : List String := [\n", doc, name)
			for i, x := range xs {
				sep := ","
				if i == len(xs)-1 {
					sep = ""
				}
				fmt.Fprintf(&b, "  %s%s\n", leanStr(x), sep)
			}
			b.WriteString("]\n\n")
		}
		emit("globalWrites", "package-level variables written outside init: `pkg.var kind in func`", globalWrites)
		emit("appendBases", "package-level slices used as the base of append: `pkg.var` (their cap == len is checked at run time through the VerifGlobals hook)", appendBases)
		emit("globalArgs", "package-level slices/maps passed as call arguments: `pkg.var -> callee#argIndex`", globalArgs)
		{ // the distinct callee#argIndex set, separately, so that Lean needs no string splitting
			set := map[string]bool{}
			for _, g := range globalArgs {
				set[g[strings.Index(g, " -> ")+4:]] = true
			}
			var cs []string
			for c := range set {
				cs = append(cs, c)
			}
			emit("globalArgCallees", "distinct `callee#argIndex` receiving a package-level slice/map", cs)
		}
		emit("aliasViolations", "writes / escapes through anything derived from a package-level slice, map or pointer (local aliases, re-slices, struct fields, parameters of callees in the module and in parse/v2, returned values): must be empty", aliasViolations)
		{
			sort.Slice(leaves, func(i, j int) bool {
				if leaves[i].callee != leaves[j].callee {
					return leaves[i].callee < leaves[j].callee
				}
				return leaves[i].idx < leaves[j].idx
			})
			fmt.Fprintf(&b, "/-- calls that leave the analysed code (standard library, interface methods, values of named function types) with an argument derived from a package-level slice/map: `(callee, argument index)`, -1 = receiver -/\ndef globalArgLeaves : List (String × Int) := [\n")
			for i, l := range leaves {
				sep := ","
				if i == len(leaves)-1 {
					sep = ""
				}
				fmt.Fprintf(&b, "  (%s, %d)%s\n", leanStr(l.callee), l.idx, sep)
			}
			b.WriteString("]\n\n")
		}
		emit("optionWrites", "writes through the receiver of a Minify method: `pkg.Type.field dominated|UNDOMINATED`", optionWrites)
		emit("mapRanges", "range statements over maps: `pkg.func: expr`", mapRanges)
		emit("nondet", "sources of nondeterminism / concurrency: `pkg.func: kind`", nondet)
		emit("lockUse", "lock skeleton of registry methods: `func: op;op;…`", lockUse)
		emit("registryWrites", "assignments to the registry's own fields (literal map, pattern slice, URL) in package minify: `func: lhs`", registryWrites)
		emit("byteGlobals", "package-level []byte variables (runtime-checked through the VerifGlobals hook): `pkg.var`", byteGlobals)
		b.WriteString(footer("ConcFacts"))
		return b.String(), nil
	})
}

func c13Package(p *packages.Package, short string, globalWrites, appendBases, globalArgs, optionWrites, mapRanges, nondet, lockUse, byteGlobals, registryWrites *[]string) {
	info := p.TypesInfo
	scope := p.Types.Scope()
	isGlobal := func(e ast.Expr) (*types.Var, bool) {
		for {
			switch x := e.(type) {
			case *ast.ParenExpr:
				e = x.X
				continue
			case *ast.Ident:
				if v, ok := info.Uses[x].(*types.Var); ok && v.Parent() == scope {
					return v, true
				}
				return nil, false
			}
			return nil, false
		}
	}
	// base of an lvalue / slice expression: g, g[i], g[a:b], g.f, *g …
	var baseGlobal func(e ast.Expr) (*types.Var, bool)
	baseGlobal = func(e ast.Expr) (*types.Var, bool) {
		switch x := e.(type) {
		case *ast.ParenExpr:
			return baseGlobal(x.X)
		case *ast.IndexExpr:
			return baseGlobal(x.X)
		case *ast.SliceExpr:
			return baseGlobal(x.X)
		case *ast.SelectorExpr:
			if _, ok := info.Selections[x]; ok {
				return baseGlobal(x.X)
			}
			return nil, false
		case *ast.StarExpr:
			return baseGlobal(x.X)
		}
		return isGlobal(e)
	}
	for _, name := range scope.Names() {
		if v, ok := scope.Lookup(name).(*types.Var); ok {
			if sl, ok := v.Type().Underlying().(*types.Slice); ok {
				if b, ok := sl.Elem().Underlying().(*types.Basic); ok && b.Kind() == types.Uint8 {
					*byteGlobals = append(*byteGlobals, short+"."+name)
				}
			}
		}
	}
	for _, f := range p.Syntax {
		fn := p.Fset.Position(f.Pos()).Filename
		if strings.HasSuffix(fn, "_test.go") || strings.Contains(fn, "/verif_") {
			continue
		}
		for _, imp := range f.Imports {
			path := strings.Trim(imp.Path.Value, `"`)
			if path == "math/rand" || path == "math/rand/v2" || path == "crypto/rand" || path == "time" || path == "unsafe" {
				*nondet = append(*nondet, fmt.Sprintf("%s.(file %s): import %s", short, fn[strings.LastIndex(fn, "/")+1:], path))
			}
		}
		for _, d := range f.Decls {
			fd, ok := d.(*ast.FuncDecl)
			if !ok || fd.Body == nil {
				continue
			}
			fname := funcName(fd)
			if fd.Name.Name == "init" && fd.Recv == nil {
				continue
			}
			var locks []string
			ast.Inspect(fd.Body, func(n ast.Node) bool {
				switch x := n.(type) {
				case *ast.AssignStmt:
					if short == "minify" {
						for _, lhs := range x.Lhs {
							if f := c13RegistryField(info, lhs); f != "" {
								*registryWrites = append(*registryWrites, fmt.Sprintf("%s: %s", fname, f))
							}
						}
					}
					for _, lhs := range x.Lhs {
						if v, ok := isGlobal(lhs); ok {
							*globalWrites = append(*globalWrites, fmt.Sprintf("%s.%s assign in %s", short, v.Name(), fname))
						} else if v, ok := baseGlobal(lhs); ok {
							*globalWrites = append(*globalWrites, fmt.Sprintf("%s.%s elem-assign in %s", short, v.Name(), fname))
						}
					}
				case *ast.IncDecStmt:
					if v, ok := baseGlobal(x.X); ok {
						*globalWrites = append(*globalWrites, fmt.Sprintf("%s.%s incdec in %s", short, v.Name(), fname))
					}
				case *ast.UnaryExpr:
					if x.Op == token.AND {
						if v, ok := baseGlobal(x.X); ok {
							*globalWrites = append(*globalWrites, fmt.Sprintf("%s.%s addr in %s", short, v.Name(), fname))
						}
					}
				case *ast.RangeStmt:
					if t := info.TypeOf(x.X); t != nil {
						if _, ok := t.Underlying().(*types.Map); ok {
							kind := "ORDER-DEPENDENT"
							if c13OrderInsensitive(info, x.Body.List) {
								kind = "order-insensitive"
							}
							*mapRanges = append(*mapRanges, fmt.Sprintf("%s.%s: range over %s %s", short, fname, types.TypeString(t, func(p *types.Package) string { return p.Name() }), kind))
						}
					}
				case *ast.GoStmt:
					*nondet = append(*nondet, fmt.Sprintf("%s.%s: go", short, fname))
				case *ast.SelectStmt:
					*nondet = append(*nondet, fmt.Sprintf("%s.%s: select", short, fname))
				case *ast.CallExpr:
					callee := exprText(p.Fset, x.Fun)
					fnObj := calleeOf(info, x)
					if fnObj != nil {
						callee = shortFuncName(fnObj)
					}
					if id, ok := x.Fun.(*ast.Ident); ok {
						if _, isBuiltin := info.Uses[id].(*types.Builtin); isBuiltin {
							if id.Name == "append" && len(x.Args) > 0 {
								if v, ok := baseGlobal(x.Args[0]); ok {
									*appendBases = append(*appendBases, fmt.Sprintf("%s.%s", short, v.Name()))
								}
							}
							if id.Name == "copy" && len(x.Args) > 0 {
								if v, ok := baseGlobal(x.Args[0]); ok {
									*globalWrites = append(*globalWrites, fmt.Sprintf("%s.%s copy-dst in %s", short, v.Name(), fname))
								}
							}
							if id.Name == "delete" || id.Name == "clear" {
								if v, ok := baseGlobal(x.Args[0]); ok {
									*globalWrites = append(*globalWrites, fmt.Sprintf("%s.%s %s in %s", short, v.Name(), id.Name, fname))
								}
							}
							return true
						}
					}
					if fnObj != nil && fnObj.Pkg() != nil {
						pp := fnObj.Pkg().Path()
						if callee == "os.Getenv" || callee == "time.Now" || callee == "os.LookupEnv" || callee == "os.Environ" || pp == "math/rand" || pp == "math/rand/v2" || pp == "crypto/rand" {
							*nondet = append(*nondet, fmt.Sprintf("%s.%s: %s", short, fname, callee))
						}
					}
					if op := c13LockOp(info, x); short == "minify" && op != "" {
						locks = append(locks, op)
					}
					for i, a := range x.Args {
						if v, ok := baseGlobal(a); ok {
							// only arguments through which the callee could write to the global's storage
							if t := info.TypeOf(a); t != nil {
								switch t.Underlying().(type) {
								case *types.Slice, *types.Map, *types.Pointer:
									*globalArgs = append(*globalArgs, fmt.Sprintf("%s.%s -> %s#%d", short, v.Name(), callee, i))
								}
							}
						}
					}
					// method call on a global with pointer receiver counts as address-taken
					if sel, ok := x.Fun.(*ast.SelectorExpr); ok {
						if s, ok := info.Selections[sel]; ok && s.Kind() == types.MethodVal {
							if v, ok := baseGlobal(sel.X); ok {
								if sig, ok := s.Obj().Type().(*types.Signature); ok && sig.Recv() != nil {
									if _, ptr := sig.Recv().Type().(*types.Pointer); ptr {
										if _, isPtr := v.Type().Underlying().(*types.Pointer); !isPtr {
											*globalWrites = append(*globalWrites, fmt.Sprintf("%s.%s ptr-method %s in %s", short, v.Name(), sel.Sel.Name, fname))
										}
									}
								}
							}
						}
					}
				case *ast.DeferStmt:
					if op := c13LockOp(info, x.Call); short == "minify" && op != "" {
						locks = append(locks, "defer "+op)
						return false
					}
				}
				return true
			})
			if len(locks) > 0 {
				*lockUse = append(*lockUse, fmt.Sprintf("%s: %s", fname, strings.Join(locks, ";")))
			}
			// option writes through the receiver of Minify methods
			if strings.HasPrefix(fname, "Minifier.") && fd.Recv != nil && len(fd.Recv.List) == 1 && len(fd.Recv.List[0].Names) == 1 {
				// Minify itself and every helper method on the option struct: a write through the receiver must be
				// dominated by a rebinding of the receiver to a fresh local copy
				recv := fd.Recv.List[0].Names[0]
				robj := info.Defs[recv]
				c13OptionWrites(p, short, fname, fd.Body, robj, false, optionWrites)
			}
		}
	}
}

// c13OptionWrites walks a block in source order; `rebound` is true once `recv = &local` has been executed on every path reaching the statement
func c13OptionWrites(p *packages.Package, short, fname string, blk *ast.BlockStmt, robj types.Object, rebound bool, out *[]string) {
	info := p.TypesInfo
	isRecv := func(e ast.Expr) bool {
		id, ok := e.(*ast.Ident)
		return ok && info.Uses[id] == robj
	}
	fresh := map[types.Object]bool{} // locals holding a freshly allocated struct: tmp := &T{} / new(T)
	for _, st := range blk.List {
		switch x := st.(type) {
		case *ast.AssignStmt:
			if x.Tok == token.DEFINE && len(x.Lhs) == 1 && len(x.Rhs) == 1 {
				if id, ok := x.Lhs[0].(*ast.Ident); ok {
					switch r := x.Rhs[0].(type) {
					case *ast.UnaryExpr:
						if _, isLit := r.X.(*ast.CompositeLit); isLit && r.Op == token.AND {
							fresh[info.Defs[id]] = true
						}
					case *ast.CallExpr:
						if f, ok := r.Fun.(*ast.Ident); ok && f.Name == "new" {
							fresh[info.Defs[id]] = true
						}
					}
				}
			}
			for i, lhs := range x.Lhs {
				if isRecv(lhs) && i < len(x.Rhs) { // o = &tmp   or   o = tmp  (tmp := &T{} earlier in this block)
					if id, ok := x.Rhs[i].(*ast.Ident); ok && fresh[info.Uses[id]] {
						rebound = true
						continue
					}
					if u, ok := x.Rhs[i].(*ast.UnaryExpr); ok && u.Op == token.AND {
						if id, ok := u.X.(*ast.Ident); ok {
							if v, ok := info.Uses[id].(*types.Var); ok && v.Parent() != p.Types.Scope() {
								rebound = true
								continue
							}
						}
					}
					*out = append(*out, fmt.Sprintf("%s.%s: receiver rebound to non-local UNDOMINATED", short, fname))
					continue
				}
				var field string
				switch l := lhs.(type) {
				case *ast.SelectorExpr:
					if isRecv(l.X) {
						field = l.Sel.Name
					}
				case *ast.StarExpr:
					if isRecv(l.X) {
						field = "*"
					}
				case *ast.IndexExpr:
					if s, ok := l.X.(*ast.SelectorExpr); ok && isRecv(s.X) {
						field = s.Sel.Name + "[…]"
					}
				}
				if field != "" {
					tag := "UNDOMINATED"
					if rebound {
						tag = "dominated"
					}
					*out = append(*out, fmt.Sprintf("%s.%s.%s %s", short, fname, field, tag))
				}
			}
		case *ast.IncDecStmt:
			if s, ok := x.X.(*ast.SelectorExpr); ok && isRecv(s.X) {
				tag := "UNDOMINATED"
				if rebound {
					tag = "dominated"
				}
				*out = append(*out, fmt.Sprintf("%s.%s.%s %s", short, fname, s.Sel.Name, tag))
			}
		case *ast.IfStmt:
			c13OptionWrites(p, short, fname, x.Body, robj, rebound, out)
			if e, ok := x.Else.(*ast.BlockStmt); ok {
				c13OptionWrites(p, short, fname, e, robj, rebound, out)
			} else if e, ok := x.Else.(*ast.IfStmt); ok {
				c13OptionWrites(p, short, fname, &ast.BlockStmt{List: []ast.Stmt{e}}, robj, rebound, out)
			}
		case *ast.BlockStmt:
			c13OptionWrites(p, short, fname, x, robj, rebound, out)
		case *ast.ForStmt:
			c13OptionWrites(p, short, fname, x.Body, robj, rebound, out)
		case *ast.RangeStmt:
			c13OptionWrites(p, short, fname, x.Body, robj, rebound, out)
		case *ast.SwitchStmt:
			for _, cc := range x.Body.List {
				c13OptionWrites(p, short, fname, &ast.BlockStmt{List: cc.(*ast.CaseClause).Body}, robj, rebound, out)
			}
		case *ast.TypeSwitchStmt:
			for _, cc := range x.Body.List {
				c13OptionWrites(p, short, fname, &ast.BlockStmt{List: cc.(*ast.CaseClause).Body}, robj, rebound, out)
			}
		}
		// address of the receiver's fields handed out: &o.f
		ast.Inspect(st, func(n ast.Node) bool {
			if _, isBlock := n.(*ast.BlockStmt); isBlock {
				return false
			}
			if u, ok := n.(*ast.UnaryExpr); ok && u.Op == token.AND {
				if s, ok := u.X.(*ast.SelectorExpr); ok && isRecv(s.X) && !rebound {
					*out = append(*out, fmt.Sprintf("%s.%s.&%s UNDOMINATED", short, fname, s.Sel.Name))
				}
			}
			return true
		})
	}
}

// c13Alias runs the may-alias analysis (alias.go) with every package-level slice / map / pointer variable of the library
// packages as a source.
func c13Alias(r *Repo) ([]string, []aliasLeaf, error) {
	e, err := r.TEnv()
	if err != nil {
		return nil, nil, err
	}
	a := newAliasAnalysis(e)
	isLibGlobal := func(obj types.Object) bool {
		v, ok := obj.(*types.Var)
		if !ok || v.IsField() || v.Pkg() == nil || v.Parent() != v.Pkg().Scope() {
			return false
		}
		_, lib := libPkgs[v.Pkg().Path()]
		return lib
	}
	a.exemptAppendBase = func(info *types.Info, x ast.Expr) bool {
		for {
			switch v := unparen(x).(type) {
			case *ast.SliceExpr:
				x = v.X
				continue
			case *ast.Ident:
				return isLibGlobal(info.Uses[v])
			case *ast.SelectorExpr:
				return isLibGlobal(info.Uses[v.Sel])
			}
			return false
		}
	}
	var paths []string
	for path := range libPkgs {
		paths = append(paths, path)
	}
	sort.Strings(paths)
	for _, path := range paths {
		p, ok := e.byPath[path]
		if !ok {
			return nil, nil, fmt.Errorf("library package %s not loaded", path)
		}
		sc := p.Types.Scope()
		for _, n := range sc.Names() {
			v, ok := sc.Lookup(n).(*types.Var)
			if !ok {
				continue
			}
			switch v.Type().Underlying().(type) {
			case *types.Slice, *types.Map:
				label := libPkgs[path] + "." + n
				a.seed(v, lvD|lvG, label)
				if isByteSlice(v.Type()) && !e.reassigned(v) {
					if init, dp, err := e.Init(v); err == nil {
						if s, err := e.Bytes(dp, init); err == nil {
							a.seedLen[label] = len(s)
						}
					}
				}
			}
		}
	}
	a.run()
	var viol []string
	for v := range a.viol {
		viol = append(viol, v)
	}
	sort.Strings(viol)
	var leaves []aliasLeaf
	for l := range a.leaves {
		leaves = append(leaves, l)
	}
	return viol, leaves, nil
}

// c13RegistryField: the assigned location is (an element of) a field of the registry struct minify.M — whatever the receiver
// or key is called: `m.literal[mimetype] = …` gives "literal[_]", `m.pattern = …` gives "pattern"
func c13RegistryField(info *types.Info, lhs ast.Expr) string {
	suffix := ""
	for {
		switch v := unparen(lhs).(type) {
		case *ast.IndexExpr:
			suffix = "[_]"
			lhs = v.X
			continue
		case *ast.StarExpr:
			lhs = v.X
			continue
		case *ast.SelectorExpr:
			sel, ok := info.Selections[v]
			if !ok || sel.Kind() != types.FieldVal {
				return ""
			}
			rt := sel.Recv()
			if pt, ok := rt.Underlying().(*types.Pointer); ok {
				rt = pt.Elem()
			}
			if nt, ok := types.Unalias(rt).(*types.Named); ok && nt.Obj().Name() == "M" && nt.Obj().Pkg() != nil && nt.Obj().Pkg().Path() == modPath {
				if _, isMutex := sel.Obj().Type().Underlying().(*types.Struct); isMutex {
					return ""
				}
				return sel.Obj().Name() + suffix
			}
			return ""
		}
		return ""
	}
}

// c13LockOp: a Lock/Unlock/RLock/RUnlock call on a sync.Mutex / sync.RWMutex that is a field of the registry struct
func c13LockOp(info *types.Info, call *ast.CallExpr) string {
	sel, ok := unparen(call.Fun).(*ast.SelectorExpr)
	if !ok {
		return ""
	}
	s, ok := info.Selections[sel]
	if !ok || s.Kind() != types.MethodVal {
		return ""
	}
	fn, ok := s.Obj().(*types.Func)
	if !ok || fn.Pkg() == nil || fn.Pkg().Path() != "sync" {
		return ""
	}
	switch fn.Name() {
	case "Lock", "Unlock", "RLock", "RUnlock", "TryLock", "TryRLock":
	default:
		return ""
	}
	inner, ok := unparen(sel.X).(*ast.SelectorExpr)
	if !ok {
		return ""
	}
	fs, ok := info.Selections[inner]
	if !ok || fs.Kind() != types.FieldVal {
		return ""
	}
	rt := fs.Recv()
	if pt, ok := rt.Underlying().(*types.Pointer); ok {
		rt = pt.Elem()
	}
	if nt, ok := types.Unalias(rt).(*types.Named); ok && nt.Obj().Name() == "M" && nt.Obj().Pkg() != nil && nt.Obj().Pkg().Path() == modPath {
		return fn.Name()
	}
	return ""
}

// c13OrderInsensitive: the body of a range over a map only does things whose combined effect does not depend on the
// iteration order: stores into map elements, deletes, integer counters, `continue`, and ifs over such statements whose
// conditions call nothing but len/cap and conversions.
func c13OrderInsensitive(info *types.Info, list []ast.Stmt) bool {
	pure := func(e ast.Expr) bool {
		ok := true
		ast.Inspect(e, func(n ast.Node) bool {
			if c, isCall := n.(*ast.CallExpr); isCall {
				if tv, has := info.Types[c.Fun]; has && tv.IsType() {
					return true
				}
				if id, isId := unparen(c.Fun).(*ast.Ident); isId {
					if _, isB := info.Uses[id].(*types.Builtin); isB && (id.Name == "len" || id.Name == "cap") {
						return true
					}
				}
				ok = false
			}
			if _, isLit := n.(*ast.FuncLit); isLit {
				ok = false
			}
			return ok
		})
		return ok
	}
	isInt := func(e ast.Expr) bool {
		t := info.TypeOf(e)
		if t == nil {
			return false
		}
		b, ok := t.Underlying().(*types.Basic)
		return ok && b.Info()&types.IsInteger != 0
	}
	for _, st := range list {
		switch s := st.(type) {
		case *ast.AssignStmt:
			for i, l := range s.Lhs {
				l = unparen(l)
				if id, ok := l.(*ast.Ident); ok && id.Name == "_" {
					continue
				}
				if ix, ok := l.(*ast.IndexExpr); ok && s.Tok == token.ASSIGN {
					if t := info.TypeOf(ix.X); t != nil {
						if _, isMap := t.Underlying().(*types.Map); isMap && pure(ix.Index) && i < len(s.Rhs) && pure(s.Rhs[i]) {
							continue
						}
					}
				}
				if (s.Tok == token.ADD_ASSIGN || s.Tok == token.OR_ASSIGN || s.Tok == token.AND_ASSIGN || s.Tok == token.XOR_ASSIGN) && isInt(l) && i < len(s.Rhs) && pure(s.Rhs[i]) {
					if _, isId := l.(*ast.Ident); isId {
						continue
					}
				}
				return false
			}
		case *ast.IncDecStmt:
			if _, isId := unparen(s.X).(*ast.Ident); !isId || !isInt(s.X) {
				return false
			}
		case *ast.ExprStmt:
			c, ok := s.X.(*ast.CallExpr)
			if !ok {
				return false
			}
			id, ok := unparen(c.Fun).(*ast.Ident)
			if !ok {
				return false
			}
			if _, isB := info.Uses[id].(*types.Builtin); !isB || id.Name != "delete" {
				return false
			}
		case *ast.BranchStmt:
			if s.Tok != token.CONTINUE || s.Label != nil {
				return false
			}
		case *ast.IfStmt:
			if s.Init != nil || !pure(s.Cond) || !c13OrderInsensitive(info, s.Body.List) {
				return false
			}
			switch e := s.Else.(type) {
			case nil:
			case *ast.BlockStmt:
				if !c13OrderInsensitive(info, e.List) {
					return false
				}
			case *ast.IfStmt:
				if !c13OrderInsensitive(info, []ast.Stmt{e}) {
					return false
				}
			}
		case *ast.EmptyStmt:
		default:
			return false
		}
	}
	return true
}

package main

// C17 — translator for the built-in replacement tables.
//
// From /repo (re-read on every run):   EntitiesHtml, TextRevHtml, EntitiesXml, TextRevXml, TagTraits, AttrTraits,
//   JsMimetypes, ShortenColorHex, ShortenColorName, OptionalZeroDimension, SvgColorAttrs, HashNames.
// From sources that are NOT /repo (independent specification tables):
//   Html5Entities  ← $GOROOT/src/html/entity.go           (the HTML5 named character reference table)
//   CssColors      ← golang.org/x/image/colornames/table.go (+ rebeccapurple #663399, CSS Color 4)
//
// The translator knows nothing about what the "right" content is.  It only recognises the *shape* of the
// literals (map composite literals with string/char/Hash-constant keys and []byte("…") / bool / trait-or values)
// and fails when the shape is different.  Rows are written sorted by key (byte order).

import (
	"fmt"
	"go/ast"
	"go/constant"
	"go/parser"
	"go/token"
	"go/types"
	"os"
	"os/exec"
	"path/filepath"
	"sort"
	"strconv"
	"strings"

	"golang.org/x/tools/go/packages"
)

// ---------- Lean rendering of byte strings: `pk! "…"` (packed Latin-1 string, see lean/Verif/Base/Pack.lean) ----------

func leanPk(s string) string { return "pk! " + leanStr(s) }

// c17Header = header() plus the import of the `pk!` macro (imports must precede the module doc)
func c17Header(name, source string) string {
	return "import Verif.Base.Pack\n" + header(name, source) + "open Verif\n\n"
}

// ---------- tiny evaluators over go/ast ----------

// c17Str evaluates a constant string expression: "lit", a + b, (e), []byte(e), string(e).
func c17Str(e ast.Expr) (string, error) {
	switch x := e.(type) {
	case *ast.BasicLit:
		if x.Kind == token.STRING {
			return strconv.Unquote(x.Value)
		}
	case *ast.ParenExpr:
		return c17Str(x.X)
	case *ast.BinaryExpr:
		if x.Op == token.ADD {
			a, err := c17Str(x.X)
			if err != nil {
				return "", err
			}
			b, err := c17Str(x.Y)
			if err != nil {
				return "", err
			}
			return a + b, nil
		}
	case *ast.CallExpr:
		if len(x.Args) == 1 {
			switch f := x.Fun.(type) {
			case *ast.ArrayType: // []byte("…")
				if id, ok := f.Elt.(*ast.Ident); ok && id.Name == "byte" && f.Len == nil {
					return c17Str(x.Args[0])
				}
			case *ast.Ident:
				if f.Name == "string" {
					return c17Str(x.Args[0])
				}
			}
		}
	}
	return "", fmt.Errorf("not a constant string expression: %T", e)
}

type c17Row struct{ k, v string }

func c17Sort(rows []c17Row, what string) error {
	sort.Slice(rows, func(i, j int) bool { return rows[i].k < rows[j].k })
	for i := 1; i < len(rows); i++ {
		if rows[i].k == rows[i-1].k {
			return fmt.Errorf("%s: duplicate key %q", what, rows[i].k)
		}
	}
	return nil
}

// ---------- hash name tables (*/hash.go) ----------

// c17HashKey: the key expression is a constant of the package's Hash type (written as the constant's name, through an alias
// constant, or as a number); the row key is what Hash.String() returns for it.
func c17HashKey(e *tenv, p *packages.Package, h *hashInfo, x ast.Expr, what string) (string, error) {
	v, err := e.Int(p, x)
	if err != nil {
		return "", fmt.Errorf("%s: key is not a constant Hash: %v", what, err)
	}
	if !h.Real(v) {
		return "", fmt.Errorf("%s: key %d is not a value of the perfect hash table (ToHash never returns it)", what, v)
	}
	return h.Name(v), nil
}

// ---------- generators ----------

func c17PairsFile(name, source, doc, typ string, rows []c17Row, val func(string) string) string {
	var b strings.Builder
	b.WriteString(c17Header(name, source))
	b.WriteString("/-- " + doc + " -/\n")
	b.WriteString("def table : List (" + typ + ") := [\n")
	for i, r := range rows {
		sep := ","
		if i == len(rows)-1 {
			sep = ""
		}
		fmt.Fprintf(&b, "  (%s, %s)%s\n", leanPk(r.k), val(r.v), sep)
	}
	b.WriteString("]\n")
	b.WriteString(footer(name))
	return b.String()
}

// c17ByteFile writes a byte-keyed map: the key is the plain byte value (a `Nat`), the value a packed string
// (a packed string cannot represent the one-byte string NUL).
func c17ByteFile(name, source, doc string, rows []c17Row) string {
	var b strings.Builder
	b.WriteString(c17Header(name, source))
	b.WriteString("/-- " + doc + " -/\n")
	b.WriteString("def table : List (Nat × Nat) := [\n")
	for i, r := range rows {
		sep := ","
		if i == len(rows)-1 {
			sep = ""
		}
		fmt.Fprintf(&b, "  (%d, %s)%s  -- %s\n", r.k[0], leanPk(r.v), sep, strconv.QuoteToASCII(r.k))
	}
	b.WriteString("]\n")
	b.WriteString(footer(name))
	return b.String()
}

func c17NamesFile(name, source, doc string, keys []string) string {
	var b strings.Builder
	b.WriteString(c17Header(name, source))
	b.WriteString("/-- " + doc + " -/\n")
	b.WriteString("def table : List Nat := [\n")
	for i, k := range keys {
		sep := ","
		if i == len(keys)-1 {
			sep = ""
		}
		fmt.Fprintf(&b, "  %s%s\n", leanPk(k), sep)
	}
	b.WriteString("]\n")
	b.WriteString(footer(name))
	return b.String()
}

// string-keyed map[string][]byte
func c17StrBytesMap(r *Repo, rel, v string) ([]c17Row, error) {
	e, err := r.TEnv()
	if err != nil {
		return nil, err
	}
	kvs, p, _, err := e.MapVar(rel, v)
	if err != nil {
		return nil, err
	}
	rows := []c17Row{}
	for _, kv := range kvs {
		k, err := e.Bytes(p, kv.Key)
		if err != nil {
			return nil, fmt.Errorf("%s.%s key: %v", rel, v, err)
		}
		val, err := e.Bytes(p, kv.Val)
		if err != nil {
			return nil, fmt.Errorf("%s.%s[%q]: %v", rel, v, k, err)
		}
		rows = append(rows, c17Row{k, val})
	}
	return rows, c17Sort(rows, rel+"."+v)
}

// byte-keyed map[byte][]byte
func c17ByteBytesMap(r *Repo, rel, v string) ([]c17Row, error) {
	e, err := r.TEnv()
	if err != nil {
		return nil, err
	}
	kvs, p, _, err := e.MapVar(rel, v)
	if err != nil {
		return nil, err
	}
	rows := []c17Row{}
	for _, kv := range kvs {
		k, err := e.Int(p, kv.Key)
		if err != nil || k < 0 || k > 255 {
			return nil, fmt.Errorf("%s.%s key is not a constant byte: %v", rel, v, err)
		}
		val, err := e.Bytes(p, kv.Val)
		if err != nil {
			return nil, fmt.Errorf("%s.%s[%q]: %v", rel, v, k, err)
		}
		rows = append(rows, c17Row{string([]byte{byte(k)}), val})
	}
	return rows, c17Sort(rows, rel+"."+v)
}

// map[K]bool with K string or Hash: the keys whose value is true (a `false` row is the same as an absent one for `m[k]`)
func c17BoolSet(r *Repo, rel, v string, hashed bool) ([]string, error) {
	e, err := r.TEnv()
	if err != nil {
		return nil, err
	}
	kvs, p, _, err := e.MapVar(rel, v)
	if err != nil {
		return nil, err
	}
	var h *hashInfo
	if hashed {
		if h, err = e.HashInfo(rel); err != nil {
			return nil, err
		}
	}
	rows := []c17Row{}
	for _, kv := range kvs {
		var k string
		if hashed {
			k, err = c17HashKey(e, p, h, kv.Key, rel+"."+v)
		} else {
			k, err = e.Bytes(p, kv.Key)
		}
		if err != nil {
			return nil, err
		}
		b, err := e.Bool(p, kv.Val)
		if err != nil {
			return nil, fmt.Errorf("%s.%s[%q]: %v", rel, v, k, err)
		}
		if b {
			rows = append(rows, c17Row{k, ""})
		}
	}
	if err := c17Sort(rows, rel+"."+v); err != nil {
		return nil, err
	}
	keys := make([]string, len(rows))
	for i, r := range rows {
		keys[i] = r.k
	}
	return keys, nil
}

// c17TraitConsts: the constants declared in the same const block as `first`, in the order of their bit; each must be a
// distinct single bit (however the block writes that: `1 << iota`, explicit values, …).
func c17TraitConsts(e *tenv, rel, first string) ([]string, map[string]int64, error) {
	p, err := e.Pkg(rel)
	if err != nil {
		return nil, nil, err
	}
	obj, ok := p.Types.Scope().Lookup(first).(*types.Const)
	if !ok {
		return nil, nil, fmt.Errorf("%s: trait constant %s not found", rel, first)
	}
	ref, ok := e.specIndex(p)[obj.Pos()]
	if !ok {
		return nil, nil, fmt.Errorf("%s: declaration of %s not found", rel, first)
	}
	vals := map[string]int64{}
	var names []string
	for _, s := range ref.decl.Specs {
		for _, n := range s.(*ast.ValueSpec).Names {
			c, ok := p.TypesInfo.Defs[n].(*types.Const)
			if !ok || !types.Identical(c.Type(), obj.Type()) {
				continue // a constant of another type in the same block is not a trait bit
			}
			v, exact := constant.Int64Val(constant.ToInt(c.Val()))
			if !exact || v <= 0 || v&(v-1) != 0 {
				continue // a named combination of bits (or zero) is not a bit of its own
			}
			for _, o := range names {
				if vals[o] == v {
					return nil, nil, fmt.Errorf("%s: trait constants %s and %s share a bit", rel, o, n.Name)
				}
			}
			vals[n.Name] = v
			names = append(names, n.Name)
		}
	}
	sort.SliceStable(names, func(i, j int) bool { return vals[names[i]] < vals[names[j]] })
	return names, vals, nil
}

func c17Traits(r *Repo, genName, mapVar, firstConst, indName, doc string) (string, error) {
	e, err := r.TEnv()
	if err != nil {
		return "", err
	}
	h, err := e.HashInfo("html")
	if err != nil {
		return "", err
	}
	traitNames, bits, err := c17TraitConsts(e, "html", firstConst)
	if err != nil {
		return "", err
	}
	kvs, p, _, err := e.MapVar("html", mapVar)
	if err != nil {
		return "", err
	}
	rows := []c17Row{}
	for _, kv := range kvs {
		k, err := c17HashKey(e, p, h, kv.Key, "html."+mapVar)
		if err != nil {
			return "", err
		}
		v, err := e.Int(p, kv.Val)
		if err != nil {
			return "", fmt.Errorf("html.%s[%s]: %v", mapVar, k, err)
		}
		uniq := []string{}
		for _, n := range traitNames {
			if v&bits[n] != 0 {
				uniq = append(uniq, "."+n)
				v &^= bits[n]
			}
		}
		if v != 0 {
			return "", fmt.Errorf("html.%s[%s]: value has bits (%#x) that are not constants of the %s… block", mapVar, k, v, firstConst)
		}
		rows = append(rows, c17Row{k, "[" + strings.Join(uniq, ", ") + "]"})
	}
	if err := c17Sort(rows, "html."+mapVar); err != nil {
		return "", err
	}
	var b strings.Builder
	b.WriteString(c17Header(genName, "/repo/html/table.go ("+mapVar+"), names through /repo/html/hash.go"))
	fmt.Fprintf(&b, "/-- the trait bits of `html/table.go` (const block starting with `%s`), by name -/\ninductive %s where\n", firstConst, indName)
	for _, n := range traitNames {
		fmt.Fprintf(&b, "  | %s\n", n)
	}
	b.WriteString("  deriving DecidableEq, Repr\n\n")
	b.WriteString("/-- " + doc + " -/\n")
	fmt.Fprintf(&b, "def table : List (Nat × List %s) := [\n", indName)
	for i, r := range rows {
		sep := ","
		if i == len(rows)-1 {
			sep = ""
		}
		fmt.Fprintf(&b, "  (%s, %s)%s\n", leanPk(r.k), r.v, sep)
	}
	b.WriteString("]\n")
	b.WriteString(footer(genName))
	return b.String(), nil
}

var c17EnvOnce struct {
	done             bool
	goroot, modcache string
	err              error
}

func c17GoEnv() (string, string, error) {
	if !c17EnvOnce.done {
		c17EnvOnce.done = true
		cmd := exec.Command("go", "env", "GOROOT", "GOMODCACHE")
		cmd.Env = append(os.Environ(), "GOFLAGS=-mod=mod", "GOPROXY=off", "GOSUMDB=off", "GOTOOLCHAIN=local")
		out, err := cmd.Output()
		if err != nil {
			c17EnvOnce.err = fmt.Errorf("go env: %v", err)
		} else {
			ls := strings.Split(strings.TrimSpace(string(out)), "\n")
			if len(ls) != 2 {
				c17EnvOnce.err = fmt.Errorf("go env: unexpected output %q", out)
			} else {
				c17EnvOnce.goroot, c17EnvOnce.modcache = ls[0], ls[1]
			}
		}
	}
	return c17EnvOnce.goroot, c17EnvOnce.modcache, c17EnvOnce.err
}

const c17ColornamesRel = "golang.org/x/image@v0.0.0-20190802002840-cff245a6509b/colornames/table.go"

func init() {
	gen("EntitiesHtml", func(r *Repo) (string, error) {
		rows, err := c17StrBytesMap(r, "html", "EntitiesMap")
		if err != nil {
			return "", err
		}
		return c17PairsFile("EntitiesHtml", "/repo/html/table.go (EntitiesMap)",
			"`html.EntitiesMap`: entity name (without `&`, `;`) ↦ replacement bytes; sorted by name",
			"Nat × Nat", rows, leanPk), nil
	})
	gen("TextRevHtml", func(r *Repo) (string, error) {
		rows, err := c17ByteBytesMap(r, "html", "TextRevEntitiesMap")
		if err != nil {
			return "", err
		}
		return c17ByteFile("TextRevHtml", "/repo/html/table.go (TextRevEntitiesMap)",
			"`html.TextRevEntitiesMap`: byte value ↦ the (packed) escape written in text when a reference decodes to that byte", rows), nil
	})
	gen("AttrRevHtml", func(r *Repo) (string, error) {
		rows, err := c17ByteBytesMap(r, "html", "AttrRevEntitiesMap")
		if err != nil {
			return "", err
		}
		return c17ByteFile("AttrRevHtml", "/repo/html/table.go (AttrRevEntitiesMap)",
			"`html.AttrRevEntitiesMap`: byte value ↦ the (packed) escape written in an attribute value when a reference decodes to that byte", rows), nil
	})
	gen("EntitiesXml", func(r *Repo) (string, error) {
		rows, err := c17StrBytesMap(r, "xml", "EntitiesMap")
		if err != nil {
			return "", err
		}
		return c17PairsFile("EntitiesXml", "/repo/xml/table.go (EntitiesMap)",
			"`xml.EntitiesMap`: entity name ↦ replacement bytes; sorted by name",
			"Nat × Nat", rows, leanPk), nil
	})
	gen("TextRevXml", func(r *Repo) (string, error) {
		rows, err := c17ByteBytesMap(r, "xml", "TextRevEntitiesMap")
		if err != nil {
			return "", err
		}
		return c17ByteFile("TextRevXml", "/repo/xml/table.go (TextRevEntitiesMap)",
			"`xml.TextRevEntitiesMap`: byte value ↦ the (packed) escape written in character data when a reference decodes to that byte", rows), nil
	})
	gen("AttrRevXml", func(r *Repo) (string, error) {
		rows, err := c17ByteBytesMap(r, "xml", "AttrRevEntitiesMap")
		if err != nil {
			return "", err
		}
		return c17ByteFile("AttrRevXml", "/repo/xml/table.go (AttrRevEntitiesMap)",
			"`xml.AttrRevEntitiesMap`: byte value ↦ the (packed) escape written in an attribute value when a reference decodes to that byte", rows), nil
	})
	gen("TagTraits", func(r *Repo) (string, error) {
		return c17Traits(r, "TagTraits", "tagMap", "normalTag", "TagTrait",
			"`html.tagMap`: tag name (`Hash.String()` of the key) ↦ its trait bits, by name; sorted by tag name")
	})
	gen("AttrTraits", func(r *Repo) (string, error) {
		return c17Traits(r, "AttrTraits", "attrMap", "booleanAttr", "AttrTrait",
			"`html.attrMap`: attribute name (`Hash.String()` of the key) ↦ its trait bits, by name; sorted by attribute name")
	})
	gen("JsMimetypes", func(r *Repo) (string, error) {
		keys, err := c17BoolSet(r, "html", "jsMimetypes", false)
		if err != nil {
			return "", err
		}
		return c17NamesFile("JsMimetypes", "/repo/html/table.go (jsMimetypes)",
			"`html.jsMimetypes`: the `type` values of `script` dropped as the default (keys mapped to `true`)", keys), nil
	})
	gen("OptionalZeroDimension", func(r *Repo) (string, error) {
		keys, err := c17BoolSet(r, "css", "optionalZeroDimension", false)
		if err != nil {
			return "", err
		}
		return c17NamesFile("OptionalZeroDimension", "/repo/css/table.go (optionalZeroDimension)",
			"`css.optionalZeroDimension`: units dropped from a zero dimension (keys mapped to `true`)", keys), nil
	})
	gen("ZeroAngleFuncs", func(r *Repo) (string, error) {
		keys, err := c17BoolSet(r, "css", "zeroAngleFuncs", false)
		if err != nil {
			return "", err
		}
		return c17NamesFile("ZeroAngleFuncs", "/repo/css/css.go (zeroAngleFuncs)",
			"`css.zeroAngleFuncs`: functions inside which a zero angle loses its unit (keys mapped to `true`)", keys), nil
	})
	gen("AngleDimension", func(r *Repo) (string, error) {
		keys, err := c17BoolSet(r, "css", "angleDimension", false)
		if err != nil {
			return "", err
		}
		return c17NamesFile("AngleDimension", "/repo/css/css.go (angleDimension)",
			"`css.angleDimension`: units whose zero keeps the unit outside `zeroAngleFuncs` (keys mapped to `true`)", keys), nil
	})
	gen("SvgColorAttrs", func(r *Repo) (string, error) {
		keys, err := c17BoolSet(r, "svg", "colorAttrMap", true)
		if err != nil {
			return "", err
		}
		return c17NamesFile("SvgColorAttrs", "/repo/svg/table.go (colorAttrMap), names through /repo/svg/hash.go",
			"`svg.colorAttrMap`: attributes whose value is rewritten as a colour (keys mapped to `true`)", keys), nil
	})
	gen("ShortenColorHex", func(r *Repo) (string, error) {
		rows, err := c17StrBytesMap(r, "css", "ShortenColorHex")
		if err != nil {
			return "", err
		}
		return c17PairsFile("ShortenColorHex", "/repo/css/table.go (ShortenColorHex)",
			"`css.ShortenColorHex`: hex colour ↦ the keyword written instead; sorted by hex",
			"Nat × Nat", rows, leanPk), nil
	})
	gen("ShortenColorName", func(r *Repo) (string, error) {
		e, err := r.TEnv()
		if err != nil {
			return "", err
		}
		h, err := e.HashInfo("css")
		if err != nil {
			return "", err
		}
		kvs, p, _, err := e.MapVar("css", "ShortenColorName")
		if err != nil {
			return "", err
		}
		rows := []c17Row{}
		for _, kv := range kvs {
			k, err := c17HashKey(e, p, h, kv.Key, "css.ShortenColorName")
			if err != nil {
				return "", err
			}
			v, err := e.Bytes(p, kv.Val)
			if err != nil {
				return "", fmt.Errorf("css.ShortenColorName[%s]: %v", k, err)
			}
			rows = append(rows, c17Row{k, v})
		}
		if err := c17Sort(rows, "css.ShortenColorName"); err != nil {
			return "", err
		}
		return c17PairsFile("ShortenColorName", "/repo/css/table.go (ShortenColorName), names through /repo/css/hash.go",
			"`css.ShortenColorName`: colour keyword (`Hash.String()` of the key) ↦ the hex colour written instead; sorted by keyword",
			"Nat × Nat", rows, leanPk), nil
	})
	gen("HashNames", func(r *Repo) (string, error) {
		var b strings.Builder
		b.WriteString(c17Header("HashNames", "/repo/html/hash.go, /repo/css/hash.go, /repo/svg/hash.go"))
		e, err := r.TEnv()
		if err != nil {
			return "", err
		}
		type hc struct{ constName, name string }
		for _, pkg := range []string{"html", "css", "svg"} {
			h, err := e.HashInfo(pkg)
			if err != nil {
				return "", err
			}
			// the constants that name a row of the perfect hash table (pseudo hashes such as css.zeroAngleFunc do not)
			// … and that are declared with a number of their own: a constant defined as another constant (`const blackKeyword = Black`)
			// is an alias, not a row of the generated table (the identifier ↔ name check of Spec/TableChecks is about the generator's output)
			hp, err := e.Pkg(pkg)
			if err != nil {
				return "", err
			}
			var consts []hc
			for n, v := range h.consts {
				if !h.Real(v) {
					continue
				}
				if init, _, err := e.Init(hp.Types.Scope().Lookup(n)); err == nil {
					if _, isLit := unparen(init).(*ast.BasicLit); !isLit {
						continue
					}
				}
				consts = append(consts, hc{n, h.Name(v)})
			}
			sort.Slice(consts, func(i, j int) bool { return consts[i].constName < consts[j].constName })
			if len(consts) == 0 {
				return "", fmt.Errorf("%s: no Hash constants found", pkg)
			}
			fmt.Fprintf(&b, "/-- `%s/hash.go`: (constant identifier, `Hash.String()` = its slice of `_Hash_text`); sorted by identifier -/\n", pkg)
			fmt.Fprintf(&b, "def %s : List (Nat × Nat) := [\n", pkg)
			for i, c := range consts {
				sep := ","
				if i == len(consts)-1 {
					sep = ""
				}
				fmt.Fprintf(&b, "  (%s, %s)%s\n", leanPk(c.constName), leanPk(c.name), sep)
			}
			b.WriteString("]\n\n")
		}
		b.WriteString(footer("HashNames"))
		return b.String(), nil
	})

	// ---------- independent specification tables (sources outside /repo) ----------

	gen("Html5Entities", func(r *Repo) (string, error) {
		goroot, _, err := c17GoEnv()
		if err != nil {
			return "", err
		}
		path := filepath.Join(goroot, "src", "html", "entity.go")
		f, err := parser.ParseFile(token.NewFileSet(), path, nil, 0)
		if err != nil {
			return "", err
		}
		type ent struct {
			name string
			cps  []rune
		}
		ents := []ent{}
		found := map[string]bool{}
		ast.Inspect(f, func(n ast.Node) bool {
			as, ok := n.(*ast.AssignStmt)
			if !ok || len(as.Lhs) != 1 || len(as.Rhs) != 1 {
				return true
			}
			id, ok := as.Lhs[0].(*ast.Ident)
			if !ok || (id.Name != "entity" && id.Name != "entity2") {
				return true
			}
			cl, ok := as.Rhs[0].(*ast.CompositeLit)
			if !ok {
				return true
			}
			found[id.Name] = true
			for _, el := range cl.Elts {
				kv := el.(*ast.KeyValueExpr)
				k, e1 := c17Str(kv.Key)
				if e1 != nil {
					err = e1
					return false
				}
				var cps []rune
				rd := func(e ast.Expr) {
					bl, ok := e.(*ast.BasicLit)
					if !ok || bl.Kind != token.CHAR {
						err = fmt.Errorf("entity.go: value of %q is not a rune literal", k)
						return
					}
					c, _, _, e2 := strconv.UnquoteChar(bl.Value[1:len(bl.Value)-1], '\'')
					if e2 != nil {
						err = e2
						return
					}
					cps = append(cps, c)
				}
				if id.Name == "entity" {
					rd(kv.Value)
				} else {
					v2, ok := kv.Value.(*ast.CompositeLit)
					if !ok || len(v2.Elts) != 2 {
						err = fmt.Errorf("entity.go: entity2[%q] is not a pair", k)
						return false
					}
					rd(v2.Elts[0])
					rd(v2.Elts[1])
				}
				if err != nil {
					return false
				}
				ents = append(ents, ent{k, cps})
			}
			return true
		})
		if err != nil {
			return "", err
		}
		if !found["entity"] || !found["entity2"] || len(ents) < 2000 {
			return "", fmt.Errorf("%s: shape not recognised", path)
		}
		sort.Slice(ents, func(i, j int) bool { return ents[i].name < ents[j].name })
		for i := 1; i < len(ents); i++ {
			if ents[i].name == ents[i-1].name {
				return "", fmt.Errorf("entity.go: duplicate name %q", ents[i].name)
			}
		}
		var b strings.Builder
		b.WriteString(c17Header("Html5Entities", "$GOROOT/src/html/entity.go (Go standard library; NOT /repo)"))
		b.WriteString("/-- The HTML5 named character reference table (https://html.spec.whatwg.org/multipage/named-characters.html):\n")
		b.WriteString("    identifier after `&` (the trailing `;` is part of the identifier; 106 legacy names also exist without it)\n")
		b.WriteString("    ↦ code points.  Organised in buckets by first character so that a lookup is cheap for the kernel;\n")
		b.WriteString("    `table` is the flat list, sorted by name. -/\n")
		b.WriteString("def buckets : List (Nat × List (Nat × List Nat)) := [\n")
		i := 0
		first := true
		for i < len(ents) {
			j := i
			for j < len(ents) && ents[j].name[0] == ents[i].name[0] {
				j++
			}
			if !first {
				b.WriteString(",\n")
			}
			first = false
			fmt.Fprintf(&b, "  (%s, [\n", leanPk(ents[i].name[:1]))
			for k := i; k < j; k++ {
				cps := make([]string, len(ents[k].cps))
				for m, c := range ents[k].cps {
					cps[m] = strconv.Itoa(int(c))
				}
				sep := ","
				if k == j-1 {
					sep = ""
				}
				fmt.Fprintf(&b, "    (%s, [%s])%s\n", leanPk(ents[k].name), strings.Join(cps, ","), sep)
			}
			b.WriteString("  ])")
			i = j
		}
		b.WriteString("\n]\n\n")
		b.WriteString("/-- the flat table, sorted by name -/\ndef table : List (Nat × List Nat) := buckets.flatMap (·.2)\n")
		b.WriteString(footer("Html5Entities"))
		return b.String(), nil
	})

	gen("CssColors", func(r *Repo) (string, error) {
		_, modcache, err := c17GoEnv()
		if err != nil {
			return "", err
		}
		path := filepath.Join(modcache, c17ColornamesRel)
		f, err := parser.ParseFile(token.NewFileSet(), path, nil, 0)
		if err != nil {
			return "", err
		}
		type col struct {
			name    string
			r, g, b uint64
		}
		cols := []col{{"rebeccapurple", 0x66, 0x33, 0x99}} // CSS Color Level 4, added by hand (x/image has the SVG 1.1 list)
		ok := false
		for _, d := range f.Decls {
			gd, isGd := d.(*ast.GenDecl)
			if !isGd || gd.Tok != token.VAR {
				continue
			}
			for _, s := range gd.Specs {
				vs := s.(*ast.ValueSpec)
				if len(vs.Names) != 1 || vs.Names[0].Name != "Map" || len(vs.Values) != 1 {
					continue
				}
				cl, isCl := vs.Values[0].(*ast.CompositeLit)
				if !isCl {
					continue
				}
				ok = true
				for _, el := range cl.Elts {
					kv := el.(*ast.KeyValueExpr)
					k, err := c17Str(kv.Key)
					if err != nil {
						return "", err
					}
					v, isV := kv.Value.(*ast.CompositeLit)
					if !isV || len(v.Elts) != 4 {
						return "", fmt.Errorf("colornames.Map[%q]: not an RGBA literal", k)
					}
					var comp [4]uint64
					for i, e := range v.Elts {
						bl, isBl := e.(*ast.BasicLit)
						if !isBl || bl.Kind != token.INT {
							return "", fmt.Errorf("colornames.Map[%q]: component not an integer literal", k)
						}
						comp[i], err = strconv.ParseUint(bl.Value, 0, 8)
						if err != nil {
							return "", err
						}
					}
					if comp[3] != 0xff {
						return "", fmt.Errorf("colornames.Map[%q]: alpha is not 0xff", k)
					}
					cols = append(cols, col{k, comp[0], comp[1], comp[2]})
				}
			}
		}
		if !ok || len(cols) < 140 {
			return "", fmt.Errorf("%s: shape not recognised", path)
		}
		sort.Slice(cols, func(i, j int) bool { return cols[i].name < cols[j].name })
		for i := 1; i < len(cols); i++ {
			if cols[i].name == cols[i-1].name {
				return "", fmt.Errorf("colornames: duplicate name %q", cols[i].name)
			}
		}
		var b strings.Builder
		b.WriteString(c17Header("CssColors", "golang.org/x/image/colornames/table.go (NOT /repo) + rebeccapurple (CSS Color 4), added by hand"))
		b.WriteString("/-- the CSS named colours (<named-color> of CSS Color 4 = the SVG 1.1 keywords + `rebeccapurple`):\n    lower-case keyword ↦ (red, green, blue), each 0‥255; sorted by keyword -/\n")
		b.WriteString("def table : List (Nat × Nat × Nat × Nat) := [\n")
		for i, c := range cols {
			sep := ","
			if i == len(cols)-1 {
				sep = ""
			}
			fmt.Fprintf(&b, "  (%s, %d, %d, %d)%s\n", leanPk(c.name), c.r, c.g, c.b, sep)
		}
		b.WriteString("]\n")
		b.WriteString(footer("CssColors"))
		return b.String(), nil
	})
}

package main

// C03 translator: regenerates
//   lean/Verif/Gen/C03Html5Entities.lean  — the HTML5 named character reference table (independent statement:
//                                            Go's stdlib html/entity.go), sorted by name
//   lean/Verif/Gen/C03Tables.lean         — /repo/html/table.go: EntitiesMap, TextRevEntitiesMap, tagMap, attrMap,
//                                            jsMimetypes, trait bit constants; hash constants resolved to names
//                                            through /repo/html/hash.go (`_Hash_text[h>>8 : h>>8 + h&0xff]`)
// All names are emitted as explicit `List Char` literals so that kernel evaluation (`decide`) never has to
// unpack a `String`.

import (
	"fmt"
	"go/ast"
	"go/parser"
	"go/token"
	"os/exec"
	"path/filepath"
	"sort"
	"strconv"
	"strings"
)

func c03Chars(s string) string {
	var b strings.Builder
	b.WriteByte('[')
	for i := 0; i < len(s); i++ {
		if i > 0 {
			b.WriteByte(',')
		}
		c := s[i]
		switch {
		case c == '\'':
			b.WriteString(`'\''`)
		case c == '\\':
			b.WriteString(`'\\'`)
		case c == '\n':
			b.WriteString(`'\n'`)
		case c == '\t':
			b.WriteString(`'\t'`)
		case c == '\r':
			b.WriteString(`'\r'`)
		case c >= 0x20 && c < 0x7f:
			b.WriteByte('\'')
			b.WriteByte(c)
			b.WriteByte('\'')
		default:
			fmt.Fprintf(&b, "Char.ofNat %d", c)
		}
	}
	b.WriteByte(']')
	return b.String()
}

func c03Nats(xs []int) string {
	p := make([]string, len(xs))
	for i, x := range xs {
		p[i] = strconv.Itoa(x)
	}
	return "[" + strings.Join(p, ",") + "]"
}

func c03StrLit(e ast.Expr) (string, error) {
	bl, ok := e.(*ast.BasicLit)
	if ok && bl.Kind == token.INT { // byte key written as a number, e.g. `0: []byte("&#0;")`
		v, err := strconv.ParseInt(bl.Value, 0, 16)
		if err != nil || v < 0 || v > 255 {
			return "", fmt.Errorf("integer literal %s is not a byte at %v", bl.Value, e.Pos())
		}
		return string([]byte{byte(v)}), nil
	}
	if !ok || (bl.Kind != token.STRING && bl.Kind != token.CHAR) {
		return "", fmt.Errorf("expected string/char literal at %v", e.Pos())
	}
	if bl.Kind == token.CHAR {
		r, _, _, err := strconv.UnquoteChar(bl.Value[1:len(bl.Value)-1], '\'')
		if err != nil {
			return "", err
		}
		return string(r), nil
	}
	return strconv.Unquote(bl.Value)
}

// []byte("…") → string
func c03BytesLit(e ast.Expr) (string, error) {
	ce, ok := e.(*ast.CallExpr)
	if !ok || len(ce.Args) != 1 {
		return "", fmt.Errorf("expected []byte(\"…\") at %v", e.Pos())
	}
	if at, ok := ce.Fun.(*ast.ArrayType); !ok || at.Len != nil {
		return "", fmt.Errorf("expected []byte conversion at %v", e.Pos())
	}
	return c03StrLit(ce.Args[0])
}

// concatenated string constant expression
func c03ConstString(e ast.Expr) (string, error) {
	switch x := e.(type) {
	case *ast.BasicLit:
		return c03StrLit(x)
	case *ast.BinaryExpr:
		if x.Op != token.ADD {
			return "", fmt.Errorf("unexpected operator in constant string")
		}
		a, err := c03ConstString(x.X)
		if err != nil {
			return "", err
		}
		b, err := c03ConstString(x.Y)
		if err != nil {
			return "", err
		}
		return a + b, nil
	case *ast.ParenExpr:
		return c03ConstString(x.X)
	}
	return "", fmt.Errorf("unexpected constant string expression %T", e)
}

// c03Hashes: constant name → attribute/tag name, from html/hash.go
func c03Hashes(r *Repo) (map[string]string, error) {
	fs, err := r.Files("html")
	if err != nil {
		return nil, err
	}
	vals := map[string]uint64{}
	text := ""
	for _, f := range fs {
		for _, d := range f.Decls {
			gd, ok := d.(*ast.GenDecl)
			if !ok || gd.Tok != token.CONST {
				continue
			}
			for _, s := range gd.Specs {
				vs := s.(*ast.ValueSpec)
				for i, n := range vs.Names {
					if i >= len(vs.Values) {
						continue
					}
					if n.Name == "_Hash_text" {
						t, err := c03ConstString(vs.Values[i])
						if err != nil {
							return nil, err
						}
						text = t
						continue
					}
					if id, ok := vs.Type.(*ast.Ident); ok && id.Name == "Hash" {
						bl, ok := vs.Values[i].(*ast.BasicLit)
						if !ok {
							return nil, fmt.Errorf("hash constant %s is not a literal", n.Name)
						}
						v, err := strconv.ParseUint(bl.Value, 0, 32)
						if err != nil {
							return nil, err
						}
						vals[n.Name] = v
					}
				}
			}
		}
	}
	if text == "" || len(vals) == 0 {
		return nil, fmt.Errorf("html/hash.go: _Hash_text or Hash constants not found")
	}
	out := map[string]string{}
	for k, v := range vals {
		st, n := int(v>>8), int(v&0xff)
		if st+n > len(text) {
			return nil, fmt.Errorf("hash constant %s out of range", k)
		}
		out[k] = text[st : st+n]
	}
	return out, nil
}

// c03TraitConsts evaluates the two `1 << iota` const blocks of html/table.go
func c03TraitConsts(r *Repo) (map[string]int, []string, error) {
	fs, err := r.Files("html")
	if err != nil {
		return nil, nil, err
	}
	out := map[string]int{}
	var order []string
	for _, f := range fs {
		for _, d := range f.Decls {
			gd, ok := d.(*ast.GenDecl)
			if !ok || gd.Tok != token.CONST || len(gd.Specs) == 0 {
				continue
			}
			first := gd.Specs[0].(*ast.ValueSpec)
			id, ok := first.Type.(*ast.Ident)
			if !ok || id.Name != "traits" {
				continue
			}
			be, ok := first.Values[0].(*ast.BinaryExpr)
			if !ok || be.Op != token.SHL {
				return nil, nil, fmt.Errorf("traits const block: expected `1 << iota`")
			}
			if one, ok := be.X.(*ast.BasicLit); !ok || one.Value != "1" {
				return nil, nil, fmt.Errorf("traits const block: expected `1 << iota`")
			}
			if io, ok := be.Y.(*ast.Ident); !ok || io.Name != "iota" {
				return nil, nil, fmt.Errorf("traits const block: expected `1 << iota`")
			}
			for i, s := range gd.Specs {
				vs := s.(*ast.ValueSpec)
				if i > 0 && (len(vs.Values) != 0 || vs.Type != nil) {
					return nil, nil, fmt.Errorf("traits const block: unexpected explicit value for %s", vs.Names[0].Name)
				}
				if len(vs.Names) != 1 {
					return nil, nil, fmt.Errorf("traits const block: multiple names")
				}
				out[vs.Names[0].Name] = 1 << i
				order = append(order, vs.Names[0].Name)
			}
		}
	}
	for _, want := range []string{"normalTag", "rawTag", "blockTag", "objectTag", "omitPTag", "keepPTag", "booleanAttr", "urlAttr", "trimAttr"} {
		if _, ok := out[want]; !ok {
			return nil, nil, fmt.Errorf("html/table.go: trait constant %s not found", want)
		}
	}
	return out, order, nil
}

func c03EvalTraits(e ast.Expr, consts map[string]int) (int, error) {
	switch x := e.(type) {
	case *ast.Ident:
		v, ok := consts[x.Name]
		if !ok {
			return 0, fmt.Errorf("unknown trait %s", x.Name)
		}
		return v, nil
	case *ast.BinaryExpr:
		if x.Op != token.OR {
			return 0, fmt.Errorf("unexpected operator in traits")
		}
		a, err := c03EvalTraits(x.X, consts)
		if err != nil {
			return 0, err
		}
		b, err := c03EvalTraits(x.Y, consts)
		if err != nil {
			return 0, err
		}
		return a | b, nil
	case *ast.ParenExpr:
		return c03EvalTraits(x.X, consts)
	case *ast.BasicLit:
		v, err := strconv.Atoi(x.Value)
		return v, err
	}
	return 0, fmt.Errorf("unexpected traits expression %T", e)
}

func c03MapLit(r *Repo, name string) (*ast.CompositeLit, error) {
	e, err := r.FindVar("html", name)
	if err != nil {
		return nil, err
	}
	cl, ok := e.(*ast.CompositeLit)
	if !ok {
		return nil, fmt.Errorf("html.%s is not a composite literal any more", name)
	}
	if _, ok := cl.Type.(*ast.MapType); !ok {
		return nil, fmt.Errorf("html.%s is not a map literal any more", name)
	}
	return cl, nil
}

type c03kv struct {
	k string
	v string
	n int
}

func c03TraitTable(r *Repo, name string, hashes map[string]string, consts map[string]int) ([]c03kv, error) {
	cl, err := c03MapLit(r, name)
	if err != nil {
		return nil, err
	}
	var rows []c03kv
	seen := map[string]bool{}
	for _, el := range cl.Elts {
		kv := el.(*ast.KeyValueExpr)
		id, ok := kv.Key.(*ast.Ident)
		if !ok {
			return nil, fmt.Errorf("%s: key is not a hash constant", name)
		}
		nm, ok := hashes[id.Name]
		if !ok {
			return nil, fmt.Errorf("%s: unknown hash constant %s", name, id.Name)
		}
		v, err := c03EvalTraits(kv.Value, consts)
		if err != nil {
			return nil, fmt.Errorf("%s[%s]: %v", name, id.Name, err)
		}
		if seen[nm] {
			return nil, fmt.Errorf("%s: duplicate key %s", name, nm)
		}
		seen[nm] = true
		rows = append(rows, c03kv{k: nm, n: v})
	}
	sort.Slice(rows, func(i, j int) bool { return rows[i].k < rows[j].k })
	return rows, nil
}

func init() {
	gen("C03Html5Entities", func(r *Repo) (string, error) {
		out, err := exec.Command("go", "env", "GOROOT").Output()
		if err != nil {
			return "", err
		}
		path := filepath.Join(strings.TrimSpace(string(out)), "src", "html", "entity.go")
		f, err := parser.ParseFile(token.NewFileSet(), path, nil, 0)
		if err != nil {
			return "", err
		}
		type row struct {
			name string
			cps  []int
		}
		var rows []row
		ast.Inspect(f, func(n ast.Node) bool {
			as, ok := n.(*ast.AssignStmt)
			if !ok || len(as.Lhs) != 1 || len(as.Rhs) != 1 {
				return true
			}
			id, ok := as.Lhs[0].(*ast.Ident)
			if !ok || (id.Name != "entity" && id.Name != "entity2") {
				return true
			}
			cl, ok := as.Rhs[0].(*ast.CompositeLit)
			if !ok {
				return true
			}
			for _, el := range cl.Elts {
				kv := el.(*ast.KeyValueExpr)
				k, e := c03StrLit(kv.Key)
				if e != nil {
					err = e
					return false
				}
				var cps []int
				if id.Name == "entity" {
					s, e := c03StrLit(kv.Value)
					if e != nil {
						err = e
						return false
					}
					cps = []int{int([]rune(s)[0])}
				} else {
					cl2, ok := kv.Value.(*ast.CompositeLit)
					if !ok || len(cl2.Elts) != 2 {
						err = fmt.Errorf("entity2: unexpected value")
						return false
					}
					for _, x := range cl2.Elts {
						s, e := c03StrLit(x)
						if e != nil {
							err = e
							return false
						}
						cps = append(cps, int([]rune(s)[0]))
					}
				}
				rows = append(rows, row{k, cps})
			}
			return true
		})
		if err != nil {
			return "", err
		}
		if len(rows) < 2000 {
			return "", fmt.Errorf("html/entity.go: only %d entities found", len(rows))
		}
		sort.Slice(rows, func(i, j int) bool { return rows[i].name < rows[j].name })
		var b strings.Builder
		b.WriteString(header("C03Html5Entities", "$GOROOT/src/html/entity.go (statement of the HTML5 named character reference table)"))
		b.WriteString("/-- (name including the trailing `;` when the table entry has one — as the list of its ASCII codes, so that\n    the kernel compares keys with `Nat.beq` —, code points), sorted by name -/\n")
		b.WriteString("def entities : List (List Nat × List Nat) := [\n")
		for i, rw := range rows {
			sep := ","
			if i == len(rows)-1 {
				sep = ""
			}
			codes := make([]int, len(rw.name))
			for j := 0; j < len(rw.name); j++ {
				codes[j] = int(rw.name[j])
			}
			fmt.Fprintf(&b, "  (%s, %s)%s -- %s\n", c03Nats(codes), c03Nats(rw.cps), sep, rw.name)
		}
		b.WriteString("]\n")
		b.WriteString(footer("C03Html5Entities"))
		return b.String(), nil
	})

	gen("C03Tables", func(r *Repo) (string, error) {
		hashes, err := c03Hashes(r)
		if err != nil {
			return "", err
		}
		consts, order, err := c03TraitConsts(r)
		if err != nil {
			return "", err
		}
		var b strings.Builder
		b.WriteString(header("C03Tables", "/repo/html/table.go (hash constants resolved through /repo/html/hash.go)"))
		for _, n := range order {
			fmt.Fprintf(&b, "def %s : Nat := %d\n", n, consts[n])
		}
		for _, tn := range []string{"tagMap", "attrMap"} {
			rows, err := c03TraitTable(r, tn, hashes, consts)
			if err != nil {
				return "", err
			}
			fmt.Fprintf(&b, "\n/-- html.%s: (name, traits), sorted by name -/\ndef %s : List (List Char × Nat) := [\n", tn, tn)
			for i, rw := range rows {
				sep := ","
				if i == len(rows)-1 {
					sep = ""
				}
				fmt.Fprintf(&b, "  (%s, %d)%s -- %s\n", c03Chars(rw.k), rw.n, sep, rw.k)
			}
			b.WriteString("]\n")
		}
		// all hash names (the names ToHash recognises)
		{
			var names []string
			for _, v := range hashes {
				names = append(names, v)
			}
			sort.Strings(names)
			b.WriteString("\n/-- every name known to html.ToHash -/\ndef hashNames : List (List Char) := [\n")
			for i, n := range names {
				sep := ","
				if i == len(names)-1 {
					sep = ""
				}
				fmt.Fprintf(&b, "  %s%s\n", c03Chars(n), sep)
			}
			b.WriteString("]\n")
		}
		// jsMimetypes
		{
			cl, err := c03MapLit(r, "jsMimetypes")
			if err != nil {
				return "", err
			}
			var names []string
			for _, el := range cl.Elts {
				kv := el.(*ast.KeyValueExpr)
				k, err := c03StrLit(kv.Key)
				if err != nil {
					return "", err
				}
				if id, ok := kv.Value.(*ast.Ident); !ok || id.Name != "true" {
					return "", fmt.Errorf("jsMimetypes[%s] is not `true`", k)
				}
				names = append(names, k)
			}
			sort.Strings(names)
			b.WriteString("\ndef jsMimetypes : List (List Char) := [")
			for i, n := range names {
				if i > 0 {
					b.WriteString(", ")
				}
				b.WriteString(c03Chars(n))
			}
			b.WriteString("]\n")
		}
		// EntitiesMap
		{
			cl, err := c03MapLit(r, "EntitiesMap")
			if err != nil {
				return "", err
			}
			var rows []c03kv
			seen := map[string]bool{}
			for _, el := range cl.Elts {
				kv := el.(*ast.KeyValueExpr)
				k, err := c03StrLit(kv.Key)
				if err != nil {
					return "", err
				}
				v, err := c03BytesLit(kv.Value)
				if err != nil {
					return "", err
				}
				if seen[k] {
					return "", fmt.Errorf("EntitiesMap: duplicate key %s", k)
				}
				seen[k] = true
				rows = append(rows, c03kv{k: k, v: v})
			}
			// sorted by `name;` (the order of the HTML5 table's `;`-terminated keys) so that one forward merge relates the tables
			sort.Slice(rows, func(i, j int) bool { return rows[i].k+";" < rows[j].k+";" })
			b.WriteString("\n/-- html.EntitiesMap: (name without `&`/`;`, replacement bytes), sorted by `name;` -/\ndef entitiesMap : List (List Char × List Char) := [\n")
			for i, rw := range rows {
				sep := ","
				if i == len(rows)-1 {
					sep = ""
				}
				fmt.Fprintf(&b, "  (%s, %s)%s\n", c03Chars(rw.k), c03Chars(rw.v), sep)
			}
			b.WriteString("]\n")
		}
		// TextRevEntitiesMap, AttrRevEntitiesMap
		for _, mp := range [][2]string{{"TextRevEntitiesMap", "textRevEntitiesMap"}, {"AttrRevEntitiesMap", "attrRevEntitiesMap"}} {
			cl, err := c03MapLit(r, mp[0])
			if err != nil {
				return "", err
			}
			var rows []c03kv
			for _, el := range cl.Elts {
				kv := el.(*ast.KeyValueExpr)
				k, err := c03StrLit(kv.Key)
				if err != nil {
					return "", err
				}
				v, err := c03BytesLit(kv.Value)
				if err != nil {
					return "", err
				}
				if len(k) != 1 {
					return "", fmt.Errorf("%s: key is not one byte", mp[0])
				}
				rows = append(rows, c03kv{k: k, v: v})
			}
			sort.Slice(rows, func(i, j int) bool { return rows[i].k < rows[j].k })
			fmt.Fprintf(&b, "\n/-- html.%s: (byte, replacement) -/\ndef %s : List (Char × List Char) := [", mp[0], mp[1])
			for i, rw := range rows {
				if i > 0 {
					b.WriteString(", ")
				}
				fmt.Fprintf(&b, "(%s, %s)", strings.Trim(c03Chars(rw.k), "[]"), c03Chars(rw.v))
			}
			b.WriteString("]\n")
		}
		b.WriteString(footer("C03Tables"))
		return b.String(), nil
	})
}

package main

// C03 translator: regenerates
//   lean/Verif/Gen/C03Html5Entities.lean  — the HTML5 named character reference table (independent statement:
//                                            Go's stdlib html/entity.go), sorted by name
//   lean/Verif/Gen/C03Tables.lean         — /repo/html/table.go: EntitiesMap, TextRevEntitiesMap, tagMap, attrMap,
//                                            jsMimetypes, trait bit constants; hash constants resolved to names
//                                            through /repo/html/hash.go (`_Hash_text[h>>8 : h>>8 + h&0xff]`)
// All names are emitted as explicit `List Char` literals so that kernel evaluation (`decide`) never has to
// unpack a `String`.

import (
	"fmt"
	"go/ast"
	"go/parser"
	"go/token"
	"os/exec"
	"path/filepath"
	"sort"
	"strconv"
	"strings"
)

func c03Chars(s string) string {
	var b strings.Builder
	b.WriteByte('[')
	for i := 0; i < len(s); i++ {
		if i > 0 {
			b.WriteByte(',')
		}
		c := s[i]
		switch {
		case c == '\'':
			b.WriteString(`'\''`)
		case c == '\\':
			b.WriteString(`'\\'`)
		case c == '\n':
			b.WriteString(`'\n'`)
		case c == '\t':
			b.WriteString(`'\t'`)
		case c == '\r':
			b.WriteString(`'\r'`)
		case c >= 0x20 && c < 0x7f:
			b.WriteByte('\'')
			b.WriteByte(c)
			b.WriteByte('\'')
		default:
			fmt.Fprintf(&b, "Char.ofNat %d", c)
		}
	}
	b.WriteByte(']')
	return b.String()
}

func c03Nats(xs []int) string {
	p := make([]string, len(xs))
	for i, x := range xs {
		p[i] = strconv.Itoa(x)
	}
	return "[" + strings.Join(p, ",") + "]"
}

func c03StrLit(e ast.Expr) (string, error) {
	bl, ok := e.(*ast.BasicLit)
	if ok && bl.Kind == token.INT { // byte key written as a number, e.g. `0: []byte("&#0;")`
		v, err := strconv.ParseInt(bl.Value, 0, 16)
		if err != nil || v < 0 || v > 255 {
			return "", fmt.Errorf("integer literal %s is not a byte at %v", bl.Value, e.Pos())
		}
		return string([]byte{byte(v)}), nil
	}
	if !ok || (bl.Kind != token.STRING && bl.Kind != token.CHAR) {
		return "", fmt.Errorf("expected string/char literal at %v", e.Pos())
	}
	if bl.Kind == token.CHAR {
		r, _, _, err := strconv.UnquoteChar(bl.Value[1:len(bl.Value)-1], '\'')
		if err != nil {
			return "", err
		}
		return string(r), nil
	}
	return strconv.Unquote(bl.Value)
}

// []byte("…") → string
func c03BytesLit(e ast.Expr) (string, error) {
	ce, ok := e.(*ast.CallExpr)
	if !ok || len(ce.Args) != 1 {
		return "", fmt.Errorf("expected []byte(\"…\") at %v", e.Pos())
	}
	if at, ok := ce.Fun.(*ast.ArrayType); !ok || at.Len != nil {
		return "", fmt.Errorf("expected []byte conversion at %v", e.Pos())
	}
	return c03StrLit(ce.Args[0])
}

// The tables of /repo are read through the type checker (eval.go): keys and values may be literals of any form, named
// constants / package-level variables, constant expressions; declarations may live in any file of the package.

// c03TraitConsts: the trait bits of the two const blocks of html/table.go (tag traits, attribute traits), name ↦ bit
func c03TraitConsts(e *tenv) (map[string]int, []string, error) {
	out := map[string]int{}
	var order []string
	for _, first := range []string{"normalTag", "booleanAttr"} {
		names, bits, err := c17TraitConsts(e, "html", first)
		if err != nil {
			return nil, nil, err
		}
		for _, n := range names {
			out[n] = int(bits[n])
			order = append(order, n)
		}
	}
	for _, want := range []string{"normalTag", "rawTag", "blockTag", "objectTag", "omitPTag", "keepPTag", "booleanAttr", "urlAttr", "trimAttr"} {
		if _, ok := out[want]; !ok {
			return nil, nil, fmt.Errorf("html/table.go: trait constant %s not found", want)
		}
	}
	return out, order, nil
}

type c03kv struct {
	k string
	v string
	n int
}

func c03TraitTable(e *tenv, h *hashInfo, name string) ([]c03kv, error) {
	kvs, p, _, err := e.MapVar("html", name)
	if err != nil {
		return nil, err
	}
	var rows []c03kv
	seen := map[string]bool{}
	for _, kv := range kvs {
		nm, err := c17HashKey(e, p, h, kv.Key, name)
		if err != nil {
			return nil, err
		}
		v, err := e.Int(p, kv.Val)
		if err != nil {
			return nil, fmt.Errorf("%s[%s]: %v", name, nm, err)
		}
		if seen[nm] {
			return nil, fmt.Errorf("%s: duplicate key %s", name, nm)
		}
		seen[nm] = true
		rows = append(rows, c03kv{k: nm, n: int(v)})
	}
	sort.Slice(rows, func(i, j int) bool { return rows[i].k < rows[j].k })
	return rows, nil
}

func init() {
	gen("C03Html5Entities", func(r *Repo) (string, error) {
		out, err := exec.Command("go", "env", "GOROOT").Output()
		if err != nil {
			return "", err
		}
		path := filepath.Join(strings.TrimSpace(string(out)), "src", "html", "entity.go")
		f, err := parser.ParseFile(token.NewFileSet(), path, nil, 0)
		if err != nil {
			return "", err
		}
		type row struct {
			name string
			cps  []int
		}
		var rows []row
		ast.Inspect(f, func(n ast.Node) bool {
			as, ok := n.(*ast.AssignStmt)
			if !ok || len(as.Lhs) != 1 || len(as.Rhs) != 1 {
				return true
			}
			id, ok := as.Lhs[0].(*ast.Ident)
			if !ok || (id.Name != "entity" && id.Name != "entity2") {
				return true
			}
			cl, ok := as.Rhs[0].(*ast.CompositeLit)
			if !ok {
				return true
			}
			for _, el := range cl.Elts {
				kv := el.(*ast.KeyValueExpr)
				k, e := c03StrLit(kv.Key)
				if e != nil {
					err = e
					return false
				}
				var cps []int
				if id.Name == "entity" {
					s, e := c03StrLit(kv.Value)
					if e != nil {
						err = e
						return false
					}
					cps = []int{int([]rune(s)[0])}
				} else {
					cl2, ok := kv.Value.(*ast.CompositeLit)
					if !ok || len(cl2.Elts) != 2 {
						err = fmt.Errorf("entity2: unexpected value")
						return false
					}
					for _, x := range cl2.Elts {
						s, e := c03StrLit(x)
						if e != nil {
							err = e
							return false
						}
						cps = append(cps, int([]rune(s)[0]))
					}
				}
				rows = append(rows, row{k, cps})
			}
			return true
		})
		if err != nil {
			return "", err
		}
		if len(rows) < 2000 {
			return "", fmt.Errorf("html/entity.go: only %d entities found", len(rows))
		}
		sort.Slice(rows, func(i, j int) bool { return rows[i].name < rows[j].name })
		var b strings.Builder
		b.WriteString(header("C03Html5Entities", "$GOROOT/src/html/entity.go (statement of the HTML5 named character reference table)"))
		b.WriteString("/-- (name including the trailing `;` when the table entry has one — as the list of its ASCII codes, so that\n    the kernel compares keys with `Nat.beq` —, code points), sorted by name -/\n")
		b.WriteString("def entities : List (List Nat × List Nat) := [\n")
		for i, rw := range rows {
			sep := ","
			if i == len(rows)-1 {
				sep = ""
			}
			codes := make([]int, len(rw.name))
			for j := 0; j < len(rw.name); j++ {
				codes[j] = int(rw.name[j])
			}
			fmt.Fprintf(&b, "  (%s, %s)%s -- %s\n", c03Nats(codes), c03Nats(rw.cps), sep, rw.name)
		}
		b.WriteString("]\n")
		b.WriteString(footer("C03Html5Entities"))
		return b.String(), nil
	})

	gen("C03Tables", func(r *Repo) (string, error) {
		e, err := r.TEnv()
		if err != nil {
			return "", err
		}
		h, err := e.HashInfo("html")
		if err != nil {
			return "", err
		}
		consts, order, err := c03TraitConsts(e)
		if err != nil {
			return "", err
		}
		var b strings.Builder
		b.WriteString(header("C03Tables", "/repo/html/table.go (hash constants resolved through /repo/html/hash.go)"))
		for _, n := range order {
			fmt.Fprintf(&b, "def %s : Nat := %d\n", n, consts[n])
		}
		for _, tn := range []string{"tagMap", "attrMap"} {
			rows, err := c03TraitTable(e, h, tn)
			if err != nil {
				return "", err
			}
			fmt.Fprintf(&b, "\n/-- html.%s: (name, traits), sorted by name -/\ndef %s : List (List Char × Nat) := [\n", tn, tn)
			for i, rw := range rows {
				sep := ","
				if i == len(rows)-1 {
					sep = ""
				}
				fmt.Fprintf(&b, "  (%s, %d)%s -- %s\n", c03Chars(rw.k), rw.n, sep, rw.k)
			}
			b.WriteString("]\n")
		}
		// all hash names (the names ToHash recognises)
		{
			var names []string
			for v := range h.table {
				names = append(names, h.Name(int64(v)))
			}
			sort.Strings(names)
			b.WriteString("\n/-- every name known to html.ToHash -/\ndef hashNames : List (List Char) := [\n")
			for i, n := range names {
				sep := ","
				if i == len(names)-1 {
					sep = ""
				}
				fmt.Fprintf(&b, "  %s%s\n", c03Chars(n), sep)
			}
			b.WriteString("]\n")
		}
		// jsMimetypes
		{
			kvs, p, _, err := e.MapVar("html", "jsMimetypes")
			if err != nil {
				return "", err
			}
			var names []string
			for _, kv := range kvs {
				k, err := e.Bytes(p, kv.Key)
				if err != nil {
					return "", err
				}
				on, err := e.Bool(p, kv.Val)
				if err != nil {
					return "", fmt.Errorf("jsMimetypes[%s]: %v", k, err)
				}
				if on { // a row mapped to false reads like an absent one
					names = append(names, k)
				}
			}
			sort.Strings(names)
			b.WriteString("\ndef jsMimetypes : List (List Char) := [")
			for i, n := range names {
				if i > 0 {
					b.WriteString(", ")
				}
				b.WriteString(c03Chars(n))
			}
			b.WriteString("]\n")
		}
		// EntitiesMap
		{
			kvs, p, _, err := e.MapVar("html", "EntitiesMap")
			if err != nil {
				return "", err
			}
			var rows []c03kv
			seen := map[string]bool{}
			for _, kv := range kvs {
				k, err := e.Bytes(p, kv.Key)
				if err != nil {
					return "", err
				}
				v, err := e.Bytes(p, kv.Val)
				if err != nil {
					return "", fmt.Errorf("EntitiesMap[%s]: %v", k, err)
				}
				if seen[k] {
					return "", fmt.Errorf("EntitiesMap: duplicate key %s", k)
				}
				seen[k] = true
				rows = append(rows, c03kv{k: k, v: v})
			}
			// sorted by `name;` (the order of the HTML5 table's `;`-terminated keys) so that one forward merge relates the tables
			sort.Slice(rows, func(i, j int) bool { return rows[i].k+";" < rows[j].k+";" })
			b.WriteString("\n/-- html.EntitiesMap: (name without `&`/`;`, replacement bytes), sorted by `name;` -/\ndef entitiesMap : List (List Char × List Char) := [\n")
			for i, rw := range rows {
				sep := ","
				if i == len(rows)-1 {
					sep = ""
				}
				fmt.Fprintf(&b, "  (%s, %s)%s\n", c03Chars(rw.k), c03Chars(rw.v), sep)
			}
			b.WriteString("]\n")
		}
		// TextRevEntitiesMap, AttrRevEntitiesMap
		for _, mp := range [][2]string{{"TextRevEntitiesMap", "textRevEntitiesMap"}, {"AttrRevEntitiesMap", "attrRevEntitiesMap"}} {
			kvs, p, _, err := e.MapVar("html", mp[0])
			if err != nil {
				return "", err
			}
			var rows []c03kv
			for _, kv := range kvs {
				c, err := e.Int(p, kv.Key)
				if err != nil || c < 0 || c > 255 {
					return "", fmt.Errorf("%s: key is not one constant byte (%v)", mp[0], err)
				}
				k := string([]byte{byte(c)})
				v, err := e.Bytes(p, kv.Val)
				if err != nil {
					return "", fmt.Errorf("%s[%q]: %v", mp[0], k, err)
				}
				rows = append(rows, c03kv{k: k, v: v})
			}
			sort.Slice(rows, func(i, j int) bool { return rows[i].k < rows[j].k })
			fmt.Fprintf(&b, "\n/-- html.%s: (byte, replacement) -/\ndef %s : List (Char × List Char) := [", mp[0], mp[1])
			for i, rw := range rows {
				if i > 0 {
					b.WriteString(", ")
				}
				fmt.Fprintf(&b, "(%s, %s)", strings.Trim(c03Chars(rw.k), "[]"), c03Chars(rw.v))
			}
			b.WriteString("]\n")
		}
		b.WriteString(footer("C03Tables"))
		return b.String(), nil
	})
}

package main

// C10 — facts about the Bytes/String convenience wrappers and the observable size limits, read from the type-checked AST.
//
//   bytesInput / stringInput: how the bytes the minifier reads are derived from the caller's data:
//     "copy"  = parse.Copy(v) / bytes.Clone(v) / slices.Clone(v) / append(<empty slice>, v...)   (a private copy)
//     "conv"  = []byte(v) of a string (always a fresh copy)
//     "alias" = the caller's slice itself, also when re-sliced (v[:], v[:len(v):len(v)]) or handed through locals
//   The argument of m.Minify is followed through locals that are defined once (`in := buffer.NewReader(private)`), so hoisting
//   a sub-expression into a variable does not change the fact, and handing the caller's array over in disguise does not hide it.
//   bytesOnErr / stringOnErr: "orig" when every `return x, err` whose error result is not the literal nil returns the
//   parameter itself as x (whatever the statements around it look like).
//
//   limitKeys: the size / recursion limits as `pkg: boundary N` with a count: a comparison between a non-constant int
//   expression X and an integer constant (literal, named constant, constant expression — by value, through go/constant)
//   that separates X <= N from X > N with N >= 49, in whatever spelling (`N < X`, `X > N`, `X >= N+1`, `N+1 <= X`, `!(…)` of
//   those, `N < X+1` is boundary N-1).  The function the comparison sits in, the names of the variables and whether the limit
//   is tested inline or in a helper predicate are not part of the key; `limits` lists them with their functions for the reader.
//   The Lean side demands that every limit it knows is still present (Props/C10 limits_ok); additional comparisons are
//   ignored, so an unrelated numeric comparison is not an alarm, while removing a limit or changing its value is.

import (
	"fmt"
	"go/ast"
	"go/constant"
	"go/token"
	"go/types"
	"sort"
	"strings"

	"golang.org/x/tools/go/packages"
)

func c10Wrapper(e *tenv, name string) (string, string, error) {
	fd, p, err := e.FuncDecl(".", "M", name)
	if err != nil {
		return "", "", err
	}
	info := p.TypesInfo
	var params []*types.Var
	for _, f := range fd.Type.Params.List {
		for _, n := range f.Names {
			v, _ := info.Defs[n].(*types.Var)
			params = append(params, v)
		}
	}
	if len(params) != 2 || params[1] == nil {
		return "", "", fmt.Errorf("%s: unexpected parameters", name)
	}
	v := params[1]
	single := singleDefs(p)
	// resolve: follow once-defined locals
	var resolve func(x ast.Expr, depth int) ast.Expr
	resolve = func(x ast.Expr, depth int) ast.Expr {
		x = unparen(x)
		if id, ok := x.(*ast.Ident); ok && depth < 10 {
			if obj := info.Uses[id]; obj != nil {
				if def, ok := single[obj]; ok {
					return resolve(def, depth+1)
				}
			}
		}
		return x
	}
	// isParam: x is the parameter itself, possibly re-sliced / through locals
	var isParam func(x ast.Expr, depth int) bool
	isParam = func(x ast.Expr, depth int) bool {
		x = resolve(x, 0)
		switch t := x.(type) {
		case *ast.Ident:
			return info.Uses[t] == v
		case *ast.SliceExpr:
			return depth < 10 && isParam(t.X, depth+1)
		}
		return false
	}
	isFuncNamed := func(call *ast.CallExpr, names ...string) bool {
		fn := calleeOf(info, call)
		if fn == nil || fn.Pkg() == nil {
			return false
		}
		full := fn.Pkg().Path() + "." + fn.Name()
		for _, n := range names {
			if full == n {
				return true
			}
		}
		return false
	}
	isEmptyByteSlice := func(x ast.Expr) bool {
		x = resolve(x, 0)
		switch t := x.(type) {
		case *ast.Ident:
			_, isNil := info.Uses[t].(*types.Nil)
			return isNil
		case *ast.CallExpr:
			if tv, ok := info.Types[t.Fun]; ok && tv.IsType() && len(t.Args) == 1 { // []byte(nil)
				if id, ok := unparen(t.Args[0]).(*ast.Ident); ok {
					_, isNil := info.Uses[id].(*types.Nil)
					return isNil
				}
			}
			if id, ok := unparen(t.Fun).(*ast.Ident); ok && id.Name == "make" && len(t.Args) >= 2 {
				if _, isB := info.Uses[id].(*types.Builtin); isB {
					n, err := e.Int(p, t.Args[1])
					return err == nil && n == 0
				}
			}
		case *ast.CompositeLit:
			return len(t.Elts) == 0
		}
		return false
	}
	classify := func(x ast.Expr) string {
		if isParam(x, 0) {
			return "alias"
		}
		x = resolve(x, 0)
		call, ok := x.(*ast.CallExpr)
		if !ok {
			return "unknown"
		}
		if tv, ok := info.Types[call.Fun]; ok && tv.IsType() && len(call.Args) == 1 {
			if isByteSlice(tv.Type) && isParam(call.Args[0], 0) {
				if isString(v.Type()) {
					return "conv"
				}
				return "alias" // []byte(v) of a byte slice is v
			}
			return "unknown"
		}
		if isFuncNamed(call, "github.com/tdewolff/parse/v2.Copy", "bytes.Clone", "slices.Clone") && len(call.Args) == 1 && isParam(call.Args[0], 0) {
			return "copy"
		}
		if id, ok := unparen(call.Fun).(*ast.Ident); ok && id.Name == "append" {
			if _, isB := info.Uses[id].(*types.Builtin); isB && len(call.Args) == 2 && call.Ellipsis != token.NoPos && isEmptyByteSlice(call.Args[0]) && isParam(call.Args[1], 0) {
				return "copy"
			}
		}
		return "unknown"
	}
	input, onErr := "unknown", "unknown"
	nMinify := 0
	ast.Inspect(fd.Body, func(n ast.Node) bool {
		switch x := n.(type) {
		case *ast.FuncLit:
			return false
		case *ast.CallExpr:
			fn := calleeOf(info, x)
			if fn == nil || fn.Name() != "Minify" || len(x.Args) != 3 {
				return true
			}
			if sig, ok := fn.Type().(*types.Signature); !ok || sig.Recv() == nil || shortFuncName(fn) != "minify.M.Minify" {
				return true
			}
			nMinify++
			rd := resolve(x.Args[2], 0)
			if rc, ok := rd.(*ast.CallExpr); ok && isFuncNamed(rc, "github.com/tdewolff/parse/v2/buffer.NewReader", "bytes.NewReader", "bytes.NewBuffer") && len(rc.Args) == 1 {
				input = classify(rc.Args[0])
			} else {
				input = "unknown"
			}
		case *ast.ReturnStmt:
			if len(x.Results) != 2 {
				return true
			}
			if id, ok := unparen(x.Results[1]).(*ast.Ident); ok {
				if _, isNil := info.Uses[id].(*types.Nil); isNil {
					return true
				}
			}
			if id, ok := resolve(x.Results[0], 0).(*ast.Ident); ok && info.Uses[id] == v {
				if onErr == "unknown" {
					onErr = "orig"
				}
			} else {
				onErr = "other:" + types.ExprString(x.Results[0])
			}
		}
		return true
	})
	if nMinify != 1 {
		return "", "", fmt.Errorf("M.%s: expected exactly one call of m.Minify, found %d", name, nMinify)
	}
	return input, onErr, nil
}

type c10Limit struct {
	pkg, fn  string
	boundary int64
	text     string
}

// c10Boundary: cmp is `L op R` with exactly one constant side; returns N such that the comparison separates X <= N from X > N
// for the non-constant side X (after folding a constant addend of X), and X.
func c10Boundary(e *tenv, p *packages.Package, cmp *ast.BinaryExpr) (int64, ast.Expr, bool) {
	info := p.TypesInfo
	constOf := func(x ast.Expr) (int64, bool) {
		tv, ok := info.Types[x]
		if !ok || tv.Value == nil {
			return 0, false
		}
		v := constant.ToInt(tv.Value)
		if v.Kind() != constant.Int {
			return 0, false
		}
		n, exact := constant.Int64Val(v)
		return n, exact
	}
	op := cmp.Op
	l, r := unparen(cmp.X), unparen(cmp.Y)
	lc, lok := constOf(l)
	rc, rok := constOf(r)
	if lok == rok {
		return 0, nil, false
	}
	var x ast.Expr
	var c int64
	if lok { // c op X  ==  X op' c
		x, c = r, lc
		switch op {
		case token.LSS:
			op = token.GTR
		case token.GTR:
			op = token.LSS
		case token.LEQ:
			op = token.GEQ
		case token.GEQ:
			op = token.LEQ
		}
	} else {
		x, c = l, rc
	}
	// X + k op c  ==  X op c - k
	for {
		b, ok := unparen(x).(*ast.BinaryExpr)
		if !ok || (b.Op != token.ADD && b.Op != token.SUB) {
			break
		}
		if k, ok := constOf(b.Y); ok {
			if b.Op == token.ADD {
				c -= k
			} else {
				c += k
			}
			x = b.X
			continue
		}
		if k, ok := constOf(b.X); ok && b.Op == token.ADD {
			c -= k
			x = b.Y
			continue
		}
		break
	}
	switch op {
	case token.GTR, token.LEQ: // X > c, X <= c
		return c, unparen(x), true
	case token.GEQ, token.LSS: // X >= c, X < c
		if c == -1<<63 {
			return 0, nil, false
		}
		return c - 1, unparen(x), true
	}
	return 0, nil, false
}

func init() {
	gen("ApiFacts", func(r *Repo) (string, error) {
		e, err := r.TEnv()
		if err != nil {
			return "", err
		}
		bi, be, err := c10Wrapper(e, "Bytes")
		if err != nil {
			return "", err
		}
		si, se, err := c10Wrapper(e, "String")
		if err != nil {
			return "", err
		}
		var limits []c10Limit
		for _, rel := range []string{".", "css", "html", "js", "json", "svg", "xml"} {
			p, err := e.Pkg(rel)
			if err != nil {
				return "", err
			}
			pkg := rel
			if rel == "." {
				pkg = "minify"
			}
			info := p.TypesInfo
			for _, f := range p.Syntax {
				if !isRepoFile(r.Fset, f) {
					continue
				}
				for _, d := range f.Decls {
					fd, ok := d.(*ast.FuncDecl)
					if !ok || fd.Body == nil {
						continue
					}
					ast.Inspect(fd.Body, func(n ast.Node) bool {
						cmp, ok := n.(*ast.BinaryExpr)
						if !ok {
							return true
						}
						switch cmp.Op {
						case token.LSS, token.GTR, token.LEQ, token.GEQ:
						default:
							return true
						}
						b, x, ok := c10Boundary(e, p, cmp)
						if !ok || b < 49 {
							return true
						}
						// sizes, counts and depths are ints; bytes and runes compared with constants are character classes
						t := info.TypeOf(x)
						if t == nil {
							return true
						}
						bt, isBasic := t.Underlying().(*types.Basic)
						if !isBasic {
							return true
						}
						switch bt.Kind() {
						case types.Int, types.Int64, types.Uint, types.Uint64, types.UntypedInt:
						default:
							return true
						}
						limits = append(limits, c10Limit{pkg, funcName(fd), b, types.ExprString(cmp)})
						return true
					})
				}
			}
		}
		sort.Slice(limits, func(i, j int) bool {
			a, b := limits[i], limits[j]
			if a.pkg != b.pkg {
				return a.pkg < b.pkg
			}
			if a.boundary != b.boundary {
				return a.boundary < b.boundary
			}
			if a.fn != b.fn {
				return a.fn < b.fn
			}
			return a.text < b.text
		})
		var b strings.Builder
		b.WriteString(header("ApiFacts", "/repo/minify.go (Bytes, String) and comparisons with integer constants in the library packages"))
		fmt.Fprintf(&b, "/-- how `M.Bytes` derives the minifier's input from the caller's slice -/\ndef bytesInput : String := %s\n", leanStr(bi))
		fmt.Fprintf(&b, "/-- what `M.Bytes` returns when the minifier fails -/\ndef bytesOnErr : String := %s\n", leanStr(be))
		fmt.Fprintf(&b, "def stringInput : String := %s\ndef stringOnErr : String := %s\n\n", leanStr(si), leanStr(se))
		counts := map[string]int{}
		var keys []string
		for _, l := range limits {
			k := fmt.Sprintf("%s: boundary %d", l.pkg, l.boundary)
			if counts[k] == 0 {
				keys = append(keys, k)
			}
			counts[k]++
		}
		b.WriteString("/-- `pkg: boundary N` ↦ number of comparisons in that package that separate `X <= N` from `X > N` for an int expression X\n    (N >= 49; constants by value; spelling, variable and function names do not matter) -/\ndef limitKeys : List (String × Nat) := [\n")
		for i, k := range keys {
			sep := ","
			if i == len(keys)-1 {
				sep = ""
			}
			fmt.Fprintf(&b, "  (%s, %d)%s\n", leanStr(k), counts[k], sep)
		}
		b.WriteString("]\n\n")
		var ls []string
		for _, l := range limits {
			ls = append(ls, fmt.Sprintf("%s.%s: boundary %d: %s", l.pkg, l.fn, l.boundary, l.text))
		}
		fmt.Fprintf(&b, "/-- the same comparisons with their functions and source text (for the reader; no theorem depends on it) -/\ndef limits : List String := [\n")
		for i, l := range ls {
			sep := ","
			if i == len(ls)-1 {
				sep = ""
			}
			fmt.Fprintf(&b, "  %s%s\n", leanStr(l), sep)
		}
		b.WriteString("]\n")
		b.WriteString(footer("ApiFacts"))
		return b.String(), nil
	})
}

package main

// C10 — facts about the Bytes/String convenience wrappers and the observable size limits.
//   bytesWrapper / stringWrapper: how the minifier's input is derived from the caller's data
//     ("copy" = parse.Copy(v) / append([]byte(nil), v...), "conv" = []byte(v) of a string (always a fresh copy),
//      "alias" = the caller's slice itself) and what is returned on error ("orig" = the parameter v itself).
//   limits: every comparison against an integer literal >= 50 in the library packages (recursion and size limits).

import (
	"fmt"
	"go/ast"
	"go/token"
	"sort"
	"strconv"
	"strings"
)

func c10Wrapper(r *Repo, name string) (string, string, error) {
	fd, err := r.FindFunc(".", "*M", name)
	if err != nil {
		return "", "", err
	}
	if len(fd.Type.Params.List) != 2 || len(fd.Type.Params.List[1].Names) != 1 {
		return "", "", fmt.Errorf("%s: unexpected parameters", name)
	}
	v := fd.Type.Params.List[1].Names[0].Name
	input, onErr := "unknown", "unknown"
	ast.Inspect(fd.Body, func(n ast.Node) bool {
		switch x := n.(type) {
		case *ast.CallExpr:
			if exprText(r.Fset, x.Fun) == "buffer.NewReader" && len(x.Args) == 1 {
				a := x.Args[0]
				switch t := a.(type) {
				case *ast.Ident:
					if t.Name == v {
						input = "alias"
					}
				case *ast.CallExpr:
					ft := exprText(r.Fset, t.Fun)
					if ft == "parse.Copy" && len(t.Args) == 1 && exprText(r.Fset, t.Args[0]) == v {
						input = "copy"
					} else if at, ok := t.Fun.(*ast.ArrayType); ok && at.Len == nil && len(t.Args) == 1 && exprText(r.Fset, t.Args[0]) == v {
						input = "conv"
					} else if ft == "append" && len(t.Args) == 2 && t.Ellipsis != token.NoPos && exprText(r.Fset, t.Args[1]) == v {
						input = "copy"
					} else if ft == "bytes.Clone" && len(t.Args) == 1 && exprText(r.Fset, t.Args[0]) == v {
						input = "copy"
					}
				}
			}
		case *ast.IfStmt:
			// if err := m.Minify(…); err != nil { return v, err }
			if len(x.Body.List) == 1 {
				if ret, ok := x.Body.List[0].(*ast.ReturnStmt); ok && len(ret.Results) == 2 {
					if exprText(r.Fset, ret.Results[0]) == v && exprText(r.Fset, ret.Results[1]) == "err" {
						onErr = "orig"
					} else {
						onErr = "other:" + exprText(r.Fset, ret.Results[0])
					}
				}
			}
		}
		return true
	})
	return input, onErr, nil
}

func init() {
	gen("ApiFacts", func(r *Repo) (string, error) {
		bi, be, err := c10Wrapper(r, "Bytes")
		if err != nil {
			return "", err
		}
		si, se, err := c10Wrapper(r, "String")
		if err != nil {
			return "", err
		}
		var limits []string
		for _, rel := range []string{".", "css", "html", "js", "json", "svg", "xml"} {
			fs, err := r.Files(rel)
			if err != nil {
				return "", err
			}
			pkg := rel
			if rel == "." {
				pkg = "minify"
			}
			for _, f := range fs {
				if strings.HasSuffix(r.Fset.Position(f.Pos()).Filename, "hash.go") {
					continue
				}
				for _, d := range f.Decls {
					fd, ok := d.(*ast.FuncDecl)
					if !ok || fd.Body == nil {
						continue
					}
					ast.Inspect(fd.Body, func(n ast.Node) bool {
						be, ok := n.(*ast.BinaryExpr)
						if !ok {
							return true
						}
						switch be.Op {
						case token.LSS, token.GTR, token.LEQ, token.GEQ:
						default:
							return true
						}
						for _, side := range []ast.Expr{be.X, be.Y} {
							if lit, ok := side.(*ast.BasicLit); ok && lit.Kind == token.INT && !strings.HasPrefix(lit.Value, "0x") && !strings.HasPrefix(lit.Value, "0X") { // hex literals are byte classes, not size limits
								if v, err := strconv.ParseInt(lit.Value, 0, 64); err == nil && v >= 50 {
									l, rr := exprText(r.Fset, be.X), exprText(r.Fset, be.Y)
									if x, ok := be.X.(*ast.BasicLit); ok {
										l = x.Value
									}
									if y, ok := be.Y.(*ast.BasicLit); ok {
										rr = y.Value
									}
									limits = append(limits, fmt.Sprintf("%s.%s: %s %s %s", pkg, funcName(fd), l, be.Op, rr))
								}
							}
						}
						return true
					})
				}
			}
		}
		sort.Strings(limits)
		var b strings.Builder
		b.WriteString(header("ApiFacts", "/repo/minify.go (Bytes, String) and integer-literal comparisons in the library packages"))
		fmt.Fprintf(&b, "/-- how `M.Bytes` derives the minifier's input from the caller's slice -/\ndef bytesInput : String := %s\n", leanStr(bi))
		fmt.Fprintf(&b, "/-- what `M.Bytes` returns when the minifier fails -/\ndef bytesOnErr : String := %s\n", leanStr(be))
		fmt.Fprintf(&b, "def stringInput : String := %s\ndef stringOnErr : String := %s\n\n", leanStr(si), leanStr(se))
		fmt.Fprintf(&b, "/-- comparisons against integer literals >= 50: the observable recursion/size limits -/\ndef limits : List String := %s\n", leanStrList(limits))
		b.WriteString(footer("ApiFacts"))
		return b.String(), nil
	})
}

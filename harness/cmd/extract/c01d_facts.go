package main

// C01D: the side conditions that the declaration handling of /repo/js checks, read from the source
// (lean/Verif/Gen/JsHoistFacts.lean).  The Lean model branches on them, so that it follows the code when one of the
// repairs docs/C01D-fix-{1..5}.patch (or an equivalent one) is committed:
//   * mergeChecksOwnFunction: the two tests of the assignment target in mergeVarDeclExprStmt
//     (`if v, ok := <e>.X.(*js.Var); …`) consist of {ok, v.Decl == …VariableDecl} (false) or additionally a call
//     f(<decl>, v) of a function that looks through `….Scope.Func.Declared` (true);
//   * isShadowedKnowsWhile: isShadowed has two parameters (false) or a third one and there is a visitor type with an
//     Enter method that compares `d.Scope != &n.Body.Scope` (true);
//   * catchKeepsAssignedByVar: the condition under which minifyStmt drops a catch binding
//     (`if v, ok := <e>.Binding.(*js.Var); …`) consists of {ok, v.Uses == 1, <version gate>(2019)} (false) or additionally
//     `!f(<e>.Catch, v.Data)` (true);
//   * endsInIfOptimizesLoops: the ForStmt case of endsInIf is `return endsInIf(<s>.Body)` (false) or first assigns
//     `<s>.Body.List = f(<s>.Body.List, …)` (true);
//   * emptyDeclBodyWritesSemicolon: minifyBlockAsStmt has a branch for a `*js.VarDecl` with `len(….List) == 0`.
// The recognisers go by the SHAPE of the syntax (which field of which bound variable is compared with what), not by
// the spelling of local variables, receivers or helper functions.  Any other shape is an error: the model does not know
// what the code checks.

import (
	"fmt"
	"go/ast"
	"go/token"
	"go/types"
	"strings"
)

func c01dConjuncts(e ast.Expr) []ast.Expr {
	switch x := e.(type) {
	case *ast.BinaryExpr:
		if x.Op == token.LAND {
			return append(c01dConjuncts(x.X), c01dConjuncts(x.Y)...)
		}
	case *ast.ParenExpr:
		return c01dConjuncts(x.X)
	}
	return []ast.Expr{e}
}

func c01dIdent(e ast.Expr, name string) bool {
	id, ok := e.(*ast.Ident)
	return ok && id.Name == name
}

// c01dSel: e is `<x>.<field>` with x the identifier `of` ("" = any expression)
func c01dSel(e ast.Expr, of, field string) bool {
	s, ok := e.(*ast.SelectorExpr)
	if !ok || s.Sel.Name != field {
		return false
	}
	return of == "" || c01dIdent(s.X, of)
}

// c01dVarAssert: `v, ok := <e>.<field>.(*js.Var)`; returns the names of v and ok
func c01dVarAssert(st ast.Stmt, field string) (v, ok string, found bool) {
	as, isAs := st.(*ast.AssignStmt)
	if !isAs || as.Tok != token.DEFINE || len(as.Lhs) != 2 || len(as.Rhs) != 1 {
		return
	}
	ta, isTa := as.Rhs[0].(*ast.TypeAssertExpr)
	if !isTa || ta.Type == nil || !c01dSel(ta.X, "", field) {
		return
	}
	star, isStar := ta.Type.(*ast.StarExpr)
	if !isStar || !c01dSel(star.X, "", "Var") {
		return
	}
	a, okA := as.Lhs[0].(*ast.Ident)
	b, okB := as.Lhs[1].(*ast.Ident)
	if !okA || !okB {
		return
	}
	return a.Name, b.Name, true
}

// c01dCmp: `<v>.<field> == <rhs>` (either order); returns the other side
func c01dCmp(e ast.Expr, v, field string) (ast.Expr, bool) {
	b, ok := e.(*ast.BinaryExpr)
	if !ok || b.Op != token.EQL {
		return nil, false
	}
	if c01dSel(b.X, v, field) {
		return b.Y, true
	}
	if c01dSel(b.Y, v, field) {
		return b.X, true
	}
	return nil, false
}

func c01dFuncByName(r *Repo, name string) *ast.FuncDecl {
	fd, err := r.FindFunc("js", "", name)
	if err != nil {
		return nil
	}
	return fd
}

func c01dBodyText(fd *ast.FuncDecl) string {
	var sb strings.Builder
	ast.Inspect(fd.Body, func(n ast.Node) bool {
		if e, ok := n.(ast.Expr); ok {
			sb.WriteString(types.ExprString(e))
			sb.WriteByte('\n')
		}
		return true
	})
	return sb.String()
}

func init() {
	gen("JsHoistFacts", func(r *Repo) (string, error) {
		// 1. mergeVarDeclExprStmt: the tests of the assignment target
		fd, err := r.FindFunc("js", "", "mergeVarDeclExprStmt")
		if err != nil {
			return "", err
		}
		declParam := ""
		if fd.Type.Params != nil && len(fd.Type.Params.List) > 0 && len(fd.Type.Params.List[0].Names) > 0 {
			declParam = fd.Type.Params.List[0].Names[0].Name
		}
		nTests, nOwn := 0, 0
		var ferr error
		ast.Inspect(fd.Body, func(n ast.Node) bool {
			ifs, ok := n.(*ast.IfStmt)
			if !ok || ifs.Init == nil {
				return true
			}
			v, okName, found := c01dVarAssert(ifs.Init, "X")
			if !found {
				return true
			}
			nTests++
			seenOk, seenDecl, seenOwn := false, false, false
			for _, c := range c01dConjuncts(ifs.Cond) {
				if c01dIdent(c, okName) {
					seenOk = true
				} else if rhs, ok := c01dCmp(c, v, "Decl"); ok && c01dSel(rhs, "", "VariableDecl") {
					seenDecl = true
				} else if call, ok := c.(*ast.CallExpr); ok && len(call.Args) == 2 && c01dIdent(call.Args[0], declParam) && c01dIdent(call.Args[1], v) {
					callee, isId := call.Fun.(*ast.Ident)
					var cf *ast.FuncDecl
					if isId {
						cf = c01dFuncByName(r, callee.Name)
					}
					if cf == nil || !strings.Contains(c01dBodyText(cf), ".Scope.Func.Declared") {
						ferr = fmt.Errorf("mergeVarDeclExprStmt: the function called on (declaration, target) does not look through ….Scope.Func.Declared")
					}
					seenOwn = true
				} else {
					ferr = fmt.Errorf("mergeVarDeclExprStmt: unknown side condition %q", types.ExprString(c))
				}
			}
			if !seenOk || !seenDecl {
				ferr = fmt.Errorf("mergeVarDeclExprStmt: a test of the assignment target lacks `ok` or `Decl == VariableDecl`")
			}
			if seenOwn {
				nOwn++
			}
			return true
		})
		if ferr != nil {
			return "", ferr
		}
		if nTests != 2 {
			return "", fmt.Errorf("mergeVarDeclExprStmt: expected 2 tests of the assignment target, found %d", nTests)
		}
		if nOwn != 0 && nOwn != 2 {
			return "", fmt.Errorf("mergeVarDeclExprStmt: the two tests of the assignment target differ")
		}
		own := nOwn == 2

		// 2. isShadowed
		sf, err := r.FindFunc("js", "", "isShadowed")
		if err != nil {
			return "", err
		}
		np := 0
		for _, f := range sf.Type.Params.List {
			np += len(f.Names)
		}
		while := false
		switch np {
		case 2:
		case 3:
			files, err := r.Files("js")
			if err != nil {
				return "", err
			}
			found := false
			for _, f := range files {
				for _, d := range f.Decls {
					m, ok := d.(*ast.FuncDecl)
					if !ok || m.Recv == nil || m.Name.Name != "Enter" || m.Body == nil {
						continue
					}
					ast.Inspect(m.Body, func(n ast.Node) bool {
						b, ok := n.(*ast.BinaryExpr)
						if !ok || b.Op != token.NEQ {
							return true
						}
						u, isU := b.Y.(*ast.UnaryExpr)
						if c01dSel(b.X, "", "Scope") && isU && u.Op == token.AND && c01dSel(u.X, "", "Scope") {
							if inner, ok := u.X.(*ast.SelectorExpr); ok && c01dSel(inner.X, "", "Body") {
								found = true
							}
						}
						return true
					})
				}
			}
			if !found {
				return "", fmt.Errorf("isShadowed has a third parameter but no visitor compares a declaration's scope with the scope of a loop body")
			}
			while = true
		default:
			return "", fmt.Errorf("isShadowed: %d parameters", np)
		}

		// 3. the catch binding
		mf, err := r.FindFunc("js", "*jsMinifier", "minifyStmt")
		if err != nil {
			return "", err
		}
		nCatch := 0
		assigned := false
		ast.Inspect(mf.Body, func(n ast.Node) bool {
			ifs, ok := n.(*ast.IfStmt)
			if !ok || ifs.Init == nil {
				return true
			}
			v, okName, found := c01dVarAssert(ifs.Init, "Binding")
			if !found {
				return true
			}
			nCatch++
			seenOk, seenUses, seenGate := false, false, false
			for _, c := range c01dConjuncts(ifs.Cond) {
				if c01dIdent(c, okName) {
					seenOk = true
					continue
				}
				if rhs, ok := c01dCmp(c, v, "Uses"); ok {
					if lit, isLit := rhs.(*ast.BasicLit); isLit && lit.Value == "1" {
						seenUses = true
						continue
					}
				}
				if call, ok := c.(*ast.CallExpr); ok && len(call.Args) == 1 {
					if lit, isLit := call.Args[0].(*ast.BasicLit); isLit && lit.Value == "2019" {
						seenGate = true
						continue
					}
				}
				if u, ok := c.(*ast.UnaryExpr); ok && u.Op == token.NOT {
					if call, ok := u.X.(*ast.CallExpr); ok && len(call.Args) == 2 && c01dSel(call.Args[0], "", "Catch") && c01dSel(call.Args[1], v, "Data") {
						assigned = true
						continue
					}
				}
				ferr = fmt.Errorf("minifyStmt: unknown condition for dropping the catch binding %q", types.ExprString(c))
			}
			if !seenOk || !seenUses || !seenGate {
				ferr = fmt.Errorf("minifyStmt: the condition for dropping the catch binding lacks `ok`, `Uses == 1` or the version gate 2019")
			}
			return true
		})
		if ferr != nil {
			return "", ferr
		}
		if nCatch != 1 {
			return "", fmt.Errorf("minifyStmt: expected 1 test of the catch binding, found %d", nCatch)
		}

		// 4. endsInIf
		ef, err := r.FindFunc("js", "", "endsInIf")
		if err != nil {
			return "", err
		}
		loops := false
		foundFor := false
		ast.Inspect(ef.Body, func(n ast.Node) bool {
			cc, ok := n.(*ast.CaseClause)
			if !ok || len(cc.List) != 1 {
				return true
			}
			star, isStar := cc.List[0].(*ast.StarExpr)
			if !isStar || !c01dSel(star.X, "", "ForStmt") {
				return true
			}
			foundFor = true
			shape := []string{}
			for _, st := range cc.Body {
				switch x := st.(type) {
				case *ast.ReturnStmt:
					if len(x.Results) == 1 {
						if call, ok := x.Results[0].(*ast.CallExpr); ok && c01dIdent(call.Fun, ef.Name.Name) && len(call.Args) == 1 && c01dSel(call.Args[0], "", "Body") {
							shape = append(shape, "return-rec-body")
							continue
						}
					}
				case *ast.AssignStmt:
					if len(x.Lhs) == 1 && len(x.Rhs) == 1 && x.Tok == token.ASSIGN {
						lhs, okL := x.Lhs[0].(*ast.SelectorExpr)
						call, okC := x.Rhs[0].(*ast.CallExpr)
						if okL && okC && lhs.Sel.Name == "List" && c01dSel(lhs.X, "", "Body") && len(call.Args) >= 1 &&
							types.ExprString(call.Args[0]) == types.ExprString(x.Lhs[0]) {
							shape = append(shape, "optimize-body")
							continue
						}
					}
				}
				ferr = fmt.Errorf("endsInIf: unknown statement in the ForStmt case")
			}
			switch strings.Join(shape, ";") {
			case "return-rec-body":
			case "optimize-body;return-rec-body":
				loops = true
			default:
				ferr = fmt.Errorf("endsInIf: unknown ForStmt case %q", strings.Join(shape, ";"))
			}
			return false
		})
		if ferr != nil {
			return "", ferr
		}
		if !foundFor {
			return "", fmt.Errorf("endsInIf: no ForStmt case")
		}

		// 5. minifyBlockAsStmt: a branch for a var declaration without items
		bf, err := r.FindFunc("js", "*jsMinifier", "minifyBlockAsStmt")
		if err != nil {
			return "", err
		}
		emptyBody := false
		ast.Inspect(bf.Body, func(n ast.Node) bool {
			ifs, ok := n.(*ast.IfStmt)
			if !ok || ifs.Init == nil {
				return true
			}
			as, isAs := ifs.Init.(*ast.AssignStmt)
			if !isAs || len(as.Lhs) != 2 || len(as.Rhs) != 1 {
				return true
			}
			ta, isTa := as.Rhs[0].(*ast.TypeAssertExpr)
			if !isTa || ta.Type == nil {
				return true
			}
			star, isStar := ta.Type.(*ast.StarExpr)
			d, isId := as.Lhs[0].(*ast.Ident)
			if !isStar || !c01dSel(star.X, "", "VarDecl") || !isId {
				return true
			}
			for _, c := range c01dConjuncts(ifs.Cond) {
				b, ok := c.(*ast.BinaryExpr)
				if !ok || b.Op != token.EQL {
					continue
				}
				call, isCall := b.X.(*ast.CallExpr)
				lit, isLit := b.Y.(*ast.BasicLit)
				if isCall && isLit && lit.Value == "0" && c01dIdent(call.Fun, "len") && len(call.Args) == 1 && c01dSel(call.Args[0], d.Name, "List") {
					emptyBody = true
				}
			}
			return true
		})

		b := func(x bool) string {
			if x {
				return "true"
			}
			return "false"
		}
		return "/-! generated by harness/cmd/extract/c01d_facts.go from /repo/js/vars.go, js.go, util.go: the side conditions of the\n" +
			"declaration handling (see the generator for the accepted shapes) -/\n" +
			"namespace Verif.Gen.JsHoistFacts\n\n" +
			"/-- `mergeVarDeclExprStmt` also requires the assignment target to be declared in the function of the declaration -/\n" +
			"def mergeChecksOwnFunction : Bool := " + b(own) + "\n\n" +
			"/-- `isShadowed` does not skip the scope around a `while` loop -/\n" +
			"def isShadowedKnowsWhile : Bool := " + b(while) + "\n\n" +
			"/-- a catch binding is kept when a `var` of the catch block initialises its name -/\n" +
			"def catchKeepsAssignedByVar : Bool := " + b(assigned) + "\n\n" +
			"/-- `minifyBlockAsStmt` writes `;` for a body that is one `var` declaration without items -/\n" +
			"def emptyDeclBodyWritesSemicolon : Bool := " + b(emptyBody) + "\n\n" +
			"/-- `endsInIf` optimizes the body of a loop before it looks at its last statement -/\n" +
			"def endsInIfOptimizesLoops : Bool := " + b(loops) + "\n\n" +
			"end Verif.Gen.JsHoistFacts\n", nil
	})
}

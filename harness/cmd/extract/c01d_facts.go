package main

// C01D: the side conditions that the declaration handling of /repo/js checks, read from the source
// (lean/Verif/Gen/JsHoistFacts.lean).  The Lean model branches on them, so that it follows the code when one of the
// repairs docs/C01D-fix-{1,2,3}.patch (or an equivalent one) is committed:
//   * mergeChecksOwnFunction: the conditions of the two `if v, ok := binaryExpr.X.(*js.Var); …` in
//     mergeVarDeclExprStmt are {ok, v.Decl == js.VariableDecl} (false) or additionally declaredInFunc(decl, v) (true);
//   * isShadowedKnowsWhile: isShadowed has two parameters (false) or a third one fed from whileHeadVisitor (true);
//   * endsInIfOptimizesLoops: the ForStmt case of endsInIf is `return endsInIf(stmt.Body)` (false) or first assigns
//     `stmt.Body.List = optimizeStmtList(stmt.Body.List, iterationBlock)` (true);
//   * emptyDeclBodyWritesSemicolon: minifyBlockAsStmt writes `;` for a body that is a single var declaration without
//     items (it calls onlyStmt) or not;
//   * catchKeepsAssignedByVar: the condition under which minifyStmt drops a catch binding is
//     {ok, v.Uses == 1, m.o.minVersion(2019)} (false) or additionally !assignedByVar(stmt.Catch, v.Data) (true).
// Any other shape is an error: the model does not know what the code checks.

import (
	"fmt"
	"go/ast"
	"go/token"
	"go/types"
	"sort"
	"strings"
)

func c01dConjuncts(e ast.Expr) []string {
	if b, ok := e.(*ast.BinaryExpr); ok && b.Op == token.LAND {
		return append(c01dConjuncts(b.X), c01dConjuncts(b.Y)...)
	}
	if p, ok := e.(*ast.ParenExpr); ok {
		return c01dConjuncts(p.X)
	}
	return []string{types.ExprString(e)}
}

func c01dSame(a []string, b ...string) bool {
	a = append([]string{}, a...)
	sort.Strings(a)
	sort.Strings(b)
	return strings.Join(a, " && ") == strings.Join(b, " && ")
}

func init() {
	gen("JsHoistFacts", func(r *Repo) (string, error) {
		// 1. mergeVarDeclExprStmt
		fd, err := r.FindFunc("js", "", "mergeVarDeclExprStmt")
		if err != nil {
			return "", err
		}
		var conds [][]string
		ast.Inspect(fd.Body, func(n ast.Node) bool {
			ifs, ok := n.(*ast.IfStmt)
			if !ok || ifs.Init == nil {
				return true
			}
			as, ok := ifs.Init.(*ast.AssignStmt)
			if !ok || len(as.Rhs) != 1 || types.ExprString(as.Rhs[0]) != "binaryExpr.X.(*js.Var)" {
				return true
			}
			conds = append(conds, c01dConjuncts(ifs.Cond))
			return true
		})
		if len(conds) != 2 {
			return "", fmt.Errorf("mergeVarDeclExprStmt: expected 2 tests of the assignment target, found %d", len(conds))
		}
		own := false
		for i, c := range conds {
			switch {
			case c01dSame(c, "ok", "v.Decl == js.VariableDecl"):
				if i > 0 && own {
					return "", fmt.Errorf("mergeVarDeclExprStmt: the two tests of the assignment target differ")
				}
			case c01dSame(c, "ok", "v.Decl == js.VariableDecl", "declaredInFunc(decl, v)"):
				if i > 0 && !own {
					return "", fmt.Errorf("mergeVarDeclExprStmt: the two tests of the assignment target differ")
				}
				own = true
			default:
				return "", fmt.Errorf("mergeVarDeclExprStmt: unknown side condition %q", strings.Join(c, " && "))
			}
		}
		if own {
			df, err := r.FindFunc("js", "", "declaredInFunc")
			if err != nil {
				return "", err
			}
			if !strings.Contains(c01dBodyText(df), "decl.Scope.Func.Declared") {
				return "", fmt.Errorf("declaredInFunc: does not look through decl.Scope.Func.Declared")
			}
		}
		// 2. isShadowed
		sf, err := r.FindFunc("js", "", "isShadowed")
		if err != nil {
			return "", err
		}
		np := 0
		for _, f := range sf.Type.Params.List {
			np += len(f.Names)
		}
		while := false
		switch np {
		case 2:
		case 3:
			if _, err := r.FindFunc("js", "whileHeadVisitor", "Enter"); err != nil {
				return "", fmt.Errorf("isShadowed has a third parameter but there is no whileHeadVisitor")
			}
			while = true
		default:
			return "", fmt.Errorf("isShadowed: %d parameters", np)
		}
		// 3. the catch binding
		mf, err := r.FindFunc("js", "*jsMinifier", "minifyStmt")
		if err != nil {
			return "", err
		}
		var catchConds [][]string
		ast.Inspect(mf.Body, func(n ast.Node) bool {
			ifs, ok := n.(*ast.IfStmt)
			if !ok || ifs.Init == nil {
				return true
			}
			as, ok := ifs.Init.(*ast.AssignStmt)
			if !ok || len(as.Rhs) != 1 || types.ExprString(as.Rhs[0]) != "stmt.Binding.(*js.Var)" {
				return true
			}
			catchConds = append(catchConds, c01dConjuncts(ifs.Cond))
			return true
		})
		if len(catchConds) != 1 {
			return "", fmt.Errorf("minifyStmt: expected 1 test of the catch binding, found %d", len(catchConds))
		}
		assigned := false
		switch {
		case c01dSame(catchConds[0], "ok", "v.Uses == 1", "m.o.minVersion(2019)"):
		case c01dSame(catchConds[0], "ok", "v.Uses == 1", "m.o.minVersion(2019)", "!assignedByVar(stmt.Catch, v.Data)"):
			assigned = true
		default:
			return "", fmt.Errorf("minifyStmt: unknown condition for dropping the catch binding %q", strings.Join(catchConds[0], " && "))
		}
		// 4. endsInIf
		ef, err := r.FindFunc("js", "", "endsInIf")
		if err != nil {
			return "", err
		}
		loops := false
		foundFor := false
		var ferr error
		ast.Inspect(ef.Body, func(n ast.Node) bool {
			cc, ok := n.(*ast.CaseClause)
			if !ok || len(cc.List) != 1 || types.ExprString(cc.List[0]) != "*js.ForStmt" {
				return true
			}
			foundFor = true
			var texts []string
			for _, st := range cc.Body {
				switch x := st.(type) {
				case *ast.ReturnStmt:
					if len(x.Results) == 1 {
						texts = append(texts, "return "+types.ExprString(x.Results[0]))
						continue
					}
				case *ast.AssignStmt:
					if len(x.Lhs) == 1 && len(x.Rhs) == 1 {
						texts = append(texts, types.ExprString(x.Lhs[0])+" = "+types.ExprString(x.Rhs[0]))
						continue
					}
				}
				ferr = fmt.Errorf("endsInIf: unknown statement in the ForStmt case")
			}
			switch strings.Join(texts, "; ") {
			case "return endsInIf(stmt.Body)":
			case "stmt.Body.List = optimizeStmtList(stmt.Body.List, iterationBlock); return endsInIf(stmt.Body)":
				loops = true
			default:
				ferr = fmt.Errorf("endsInIf: unknown ForStmt case %q", strings.Join(texts, "; "))
			}
			return false
		})
		if ferr != nil {
			return "", ferr
		}
		if !foundFor {
			return "", fmt.Errorf("endsInIf: no ForStmt case")
		}
		// 5. minifyBlockAsStmt
		bf, err := r.FindFunc("js", "*jsMinifier", "minifyBlockAsStmt")
		if err != nil {
			return "", err
		}
		emptyBody := strings.Contains(c01dBodyText(bf), "onlyStmt(blockStmt)")
		if emptyBody {
			if _, err := r.FindFunc("js", "", "onlyStmt"); err != nil {
				return "", err
			}
		}
		b := func(x bool) string {
			if x {
				return "true"
			}
			return "false"
		}
		return "/-! generated by harness/cmd/extract/c01d_facts.go from /repo/js/vars.go and /repo/js/js.go: the side conditions of the\n" +
			"declaration handling (see the generator for the accepted shapes) -/\n" +
			"namespace Verif.Gen.JsHoistFacts\n\n" +
			"/-- `mergeVarDeclExprStmt` also requires the assignment target to be declared in the function of the declaration -/\n" +
			"def mergeChecksOwnFunction : Bool := " + b(own) + "\n\n" +
			"/-- `isShadowed` does not skip the scope around a `while` loop -/\n" +
			"def isShadowedKnowsWhile : Bool := " + b(while) + "\n\n" +
			"/-- a catch binding is kept when a `var` of the catch block initialises its name -/\n" +
			"def catchKeepsAssignedByVar : Bool := " + b(assigned) + "\n\n" +
			"/-- `minifyBlockAsStmt` writes `;` for a body that is one `var` declaration without items -/\n" +
			"def emptyDeclBodyWritesSemicolon : Bool := " + b(emptyBody) + "\n\n" +
			"/-- `endsInIf` optimizes the body of a loop before it looks at its last statement -/\n" +
			"def endsInIfOptimizesLoops : Bool := " + b(loops) + "\n\n" +
			"end Verif.Gen.JsHoistFacts\n", nil
	})
}

func c01dBodyText(fd *ast.FuncDecl) string {
	var sb strings.Builder
	ast.Inspect(fd.Body, func(n ast.Node) bool {
		if e, ok := n.(ast.Expr); ok {
			sb.WriteString(types.ExprString(e))
			sb.WriteByte('\n')
		}
		return true
	})
	return sb.String()
}

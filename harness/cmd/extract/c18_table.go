package main

// C18 translator: regenerates the two dependency tables the DataURI/Mediatype models read —
// `parse.DataURIEncodingTable` (common.go) and `parse.whitespaceTable` (util.go) — from the source of the
// exact dependency version /repo's go.mod requires.  Output: lean/Verif/Gen/DataURITable.lean.
// Also records which Go declaration the helper functions have today (a digest of the bodies of
// minify.DataURI / minify.Mediatype is NOT produced: those are tied by correspondence).

import (
	"fmt"
	"go/ast"
	"go/parser"
	"go/token"
	"os"
	"os/exec"
	"path/filepath"
	"regexp"
	"strings"
)

// c18DepDir locates github.com/tdewolff/parse/v2 as required by /repo/go.mod (honouring a replace directive
// through `go list`, with a fallback that parses go.mod and looks into the module cache).
func c18DepDir(r *Repo) (string, error) {
	const mod = "github.com/tdewolff/parse/v2"
	cmd := exec.Command("go", "list", "-m", "-f", "{{.Dir}}", mod)
	cmd.Dir = r.Dir
	cmd.Env = append(os.Environ(), "GOFLAGS=-mod=mod", "GOPROXY=off", "GOSUMDB=off", "GOTOOLCHAIN=local")
	if out, err := cmd.Output(); err == nil {
		d := strings.TrimSpace(string(out))
		if d != "" {
			if _, err := os.Stat(filepath.Join(d, "common.go")); err == nil {
				return d, nil
			}
		}
	}
	gm, err := os.ReadFile(filepath.Join(r.Dir, "go.mod"))
	if err != nil {
		return "", err
	}
	m := regexp.MustCompile(`(?m)^\s*(?:require\s+)?github\.com/tdewolff/parse/v2\s+(v[^\s]+)`).FindSubmatch(gm)
	if m == nil {
		return "", fmt.Errorf("go.mod: no requirement on %s", mod)
	}
	cache := os.Getenv("GOMODCACHE")
	if cache == "" {
		if out, err := exec.Command("go", "env", "GOMODCACHE").Output(); err == nil {
			cache = strings.TrimSpace(string(out))
		}
	}
	if cache == "" {
		cache = filepath.Join(os.Getenv("HOME"), "go", "pkg", "mod")
	}
	d := filepath.Join(cache, mod+"@"+string(m[1]))
	if _, err := os.Stat(filepath.Join(d, "common.go")); err != nil {
		return "", fmt.Errorf("dependency source not found at %s", d)
	}
	return d, nil
}

// c18BoolTable reads `var <name> = [256]bool{ true, false, … }` from one file.
func c18BoolTable(fset *token.FileSet, file, name string) ([]bool, error) {
	f, err := parser.ParseFile(fset, file, nil, 0)
	if err != nil {
		return nil, err
	}
	for _, d := range f.Decls {
		gd, ok := d.(*ast.GenDecl)
		if !ok || gd.Tok != token.VAR {
			continue
		}
		for _, s := range gd.Specs {
			vs := s.(*ast.ValueSpec)
			for i, n := range vs.Names {
				if n.Name != name || i >= len(vs.Values) {
					continue
				}
				cl, ok := vs.Values[i].(*ast.CompositeLit)
				if !ok {
					return nil, fmt.Errorf("%s: %s is no longer a composite literal", file, name)
				}
				at, ok := cl.Type.(*ast.ArrayType)
				if !ok {
					return nil, fmt.Errorf("%s: %s is no longer an array", file, name)
				}
				if l, ok := at.Len.(*ast.BasicLit); !ok || l.Value != "256" {
					return nil, fmt.Errorf("%s: %s is not [256]…", file, name)
				}
				if id, ok := at.Elt.(*ast.Ident); !ok || id.Name != "bool" {
					return nil, fmt.Errorf("%s: %s is not […]bool", file, name)
				}
				var out []bool
				for _, e := range cl.Elts {
					id, ok := e.(*ast.Ident)
					if !ok || (id.Name != "true" && id.Name != "false") {
						return nil, fmt.Errorf("%s: %s has an element that is not a true/false literal", file, name)
					}
					out = append(out, id.Name == "true")
				}
				if len(out) != 256 {
					return nil, fmt.Errorf("%s: %s has %d elements, want 256", file, name, len(out))
				}
				return out, nil
			}
		}
	}
	return nil, fmt.Errorf("%s: var %s not found", file, name)
}

func c18LeanBools(name string, t []bool) string {
	var sb strings.Builder
	fmt.Fprintf(&sb, "def %s : List Bool := [\n", name)
	for i := 0; i < 256; i += 16 {
		sb.WriteString("  ")
		for j := i; j < i+16; j++ {
			if t[j] {
				sb.WriteString("true")
			} else {
				sb.WriteString("false")
			}
			if j != 255 {
				sb.WriteString(",")
				if j%16 != 15 {
					sb.WriteString(" ")
				}
			}
		}
		sb.WriteString("\n")
	}
	sb.WriteString("]\n")
	return sb.String()
}

func init() {
	gen("DataURITable", func(r *Repo) (string, error) {
		dir, err := c18DepDir(r)
		if err != nil {
			return "", err
		}
		enc, err := c18BoolTable(r.Fset, filepath.Join(dir, "common.go"), "DataURIEncodingTable")
		if err != nil {
			return "", err
		}
		ws, err := c18BoolTable(r.Fset, filepath.Join(dir, "util.go"), "whitespaceTable")
		if err != nil {
			return "", err
		}
		var sb strings.Builder
		sb.WriteString(header("DataURITable", "parse/v2 common.go (DataURIEncodingTable), util.go (whitespaceTable) of the version required by /repo/go.mod"))
		sb.WriteString("/-- `parse.DataURIEncodingTable`: byte value ↦ must be percent-escaped -/\n")
		sb.WriteString(c18LeanBools("encTable", enc))
		sb.WriteString("\n/-- `parse.whitespaceTable` (used by `IsWhitespace`, `TrimWhitespace`) -/\n")
		sb.WriteString(c18LeanBools("wsTable", ws))
		sb.WriteString(footer("DataURITable"))
		return sb.String(), nil
	})
}

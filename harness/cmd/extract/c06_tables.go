package main

// C06 — regenerates the XML entity tables of /repo/xml/table.go (`EntitiesMap`, `TextRevEntitiesMap`, `AttrRevEntitiesMap`)
// as explicit character lists in lean/Verif/Gen/XmlTables.lean.  The generator knows nothing about what
// the tables should contain; theorems in Props/C06.lean about the tables (`entities_sound`,
// `textRev_sound`) are re-checked by the Lean kernel against what the source says now.

import (
	"fmt"
	"sort"
	"strings"
)

func c06CharList(s string) string {
	if len(s) == 0 {
		return "[]"
	}
	parts := make([]string, 0, len(s))
	for _, c := range []byte(s) {
		parts = append(parts, fmt.Sprintf("Char.ofNat %d", c))
	}
	return "[" + strings.Join(parts, ", ") + "]"
}

func init() {
	gen("XmlTables", func(r *Repo) (string, error) {
		type row struct{ k, v string }
		e, err := r.TEnv()
		if err != nil {
			return "", err
		}
		// byteKey: the map is keyed by bytes (any constant byte expression: 'x', 0x3c, 60, a named constant) rather than strings
		read := func(name string, byteKey bool) ([]row, error) {
			kvs, p, _, err := e.MapVar("xml", name)
			if err != nil {
				return nil, err
			}
			var rows []row
			for _, kv := range kvs {
				var k string
				if byteKey {
					c, err := e.Int(p, kv.Key)
					if err != nil || c < 0 || c > 255 {
						return nil, fmt.Errorf("xml.%s: key is not a constant byte (%v)", name, err)
					}
					k = string([]byte{byte(c)})
				} else if k, err = e.Bytes(p, kv.Key); err != nil {
					return nil, fmt.Errorf("xml.%s: %v", name, err)
				}
				v, err := e.Bytes(p, kv.Val)
				if err != nil {
					return nil, fmt.Errorf("xml.%s[%q]: %v", name, k, err)
				}
				rows = append(rows, row{k, v})
			}
			sort.Slice(rows, func(i, j int) bool { return rows[i].k < rows[j].k })
			for i := 1; i < len(rows); i++ {
				if rows[i].k == rows[i-1].k {
					return nil, fmt.Errorf("xml.%s: duplicate key %q", name, rows[i].k)
				}
			}
			return rows, nil
		}
		ents, err := read("EntitiesMap", false)
		if err != nil {
			return "", err
		}
		rev, err := read("TextRevEntitiesMap", true)
		if err != nil {
			return "", err
		}
		arev, err := read("AttrRevEntitiesMap", true)
		if err != nil {
			return "", err
		}
		var b strings.Builder
		b.WriteString(header("XmlTables", "xml/table.go"))
		b.WriteString("/-- `xml.EntitiesMap`: entity name ↦ replacement bytes (sorted by name) -/\n")
		b.WriteString("def entities : List (List Char × List Char) := [\n")
		for i, e := range ents {
			sep := ","
			if i == len(ents)-1 {
				sep = ""
			}
			fmt.Fprintf(&b, "  (%s, %s)%s -- %q -> %q\n", c06CharList(e.k), c06CharList(e.v), sep, e.k, e.v)
		}
		b.WriteString("]\n\n")
		b.WriteString("/-- `xml.TextRevEntitiesMap`: byte ↦ escape used in text (sorted by byte) -/\n")
		b.WriteString("def textRev : List (Char × List Char) := [\n")
		for i, e := range rev {
			sep := ","
			if i == len(rev)-1 {
				sep = ""
			}
			fmt.Fprintf(&b, "  (Char.ofNat %d, %s)%s -- %q -> %q\n", e.k[0], c06CharList(e.v), sep, e.k, e.v)
		}
		b.WriteString("]\n\n")
		b.WriteString("/-- `xml.AttrRevEntitiesMap`: byte ↦ escape used in attribute values (sorted by byte) -/\n")
		b.WriteString("def attrRev : List (Char × List Char) := [\n")
		for i, e := range arev {
			sep := ","
			if i == len(arev)-1 {
				sep = ""
			}
			fmt.Fprintf(&b, "  (Char.ofNat %d, %s)%s -- %q -> %q\n", e.k[0], c06CharList(e.v), sep, e.k, e.v)
		}
		b.WriteString("]\n")
		b.WriteString(footer("XmlTables"))
		return b.String(), nil
	})
}

package main

// C06 — regenerates the XML entity tables of /repo/xml/table.go (`EntitiesMap`, `TextRevEntitiesMap`, `AttrRevEntitiesMap`)
// as explicit character lists in lean/Verif/Gen/XmlTables.lean.  The generator knows nothing about what
// the tables should contain; theorems in Props/C06.lean about the tables (`entities_sound`,
// `textRev_sound`) are re-checked by the Lean kernel against what the source says now.

import (
	"fmt"
	"go/ast"
	"go/token"
	"sort"
	"strconv"
	"strings"
)

func c06CharList(s string) string {
	if len(s) == 0 {
		return "[]"
	}
	parts := make([]string, 0, len(s))
	for _, c := range []byte(s) {
		parts = append(parts, fmt.Sprintf("Char.ofNat %d", c))
	}
	return "[" + strings.Join(parts, ", ") + "]"
}

// c06Bytes evaluates `[]byte("…")`.
func c06Bytes(e ast.Expr) (string, error) {
	call, ok := e.(*ast.CallExpr)
	if !ok || len(call.Args) != 1 {
		return "", fmt.Errorf("value is not a []byte(\"…\") conversion")
	}
	at, ok := call.Fun.(*ast.ArrayType)
	if !ok || at.Len != nil {
		return "", fmt.Errorf("value is not a []byte conversion")
	}
	if id, ok := at.Elt.(*ast.Ident); !ok || id.Name != "byte" {
		return "", fmt.Errorf("value is not a []byte conversion")
	}
	lit, ok := call.Args[0].(*ast.BasicLit)
	if !ok || lit.Kind != token.STRING {
		return "", fmt.Errorf("value is not a string literal")
	}
	return strconv.Unquote(lit.Value)
}

func init() {
	gen("XmlTables", func(r *Repo) (string, error) {
		type row struct{ k, v string }
		read := func(name string, keyKind token.Token) ([]row, error) {
			e, err := r.FindVar("xml", name)
			if err != nil {
				return nil, err
			}
			cl, ok := e.(*ast.CompositeLit)
			if !ok {
				return nil, fmt.Errorf("xml.%s is not a composite literal", name)
			}
			if _, ok := cl.Type.(*ast.MapType); !ok {
				return nil, fmt.Errorf("xml.%s is not a map literal", name)
			}
			var rows []row
			for _, el := range cl.Elts {
				kv, ok := el.(*ast.KeyValueExpr)
				if !ok {
					return nil, fmt.Errorf("xml.%s: element is not key: value", name)
				}
				kl, ok := kv.Key.(*ast.BasicLit)
				if !ok || kl.Kind != keyKind {
					return nil, fmt.Errorf("xml.%s: unexpected key form", name)
				}
				var k string
				if keyKind == token.STRING {
					k, err = strconv.Unquote(kl.Value)
				} else {
					var c rune
					c, _, _, err = strconv.UnquoteChar(kl.Value[1:len(kl.Value)-1], '\'')
					if c > 255 {
						err = fmt.Errorf("key %s is not a byte", kl.Value)
					}
					k = string([]byte{byte(c)})
				}
				if err != nil {
					return nil, fmt.Errorf("xml.%s: %v", name, err)
				}
				v, err := c06Bytes(kv.Value)
				if err != nil {
					return nil, fmt.Errorf("xml.%s[%q]: %v", name, k, err)
				}
				rows = append(rows, row{k, v})
			}
			sort.Slice(rows, func(i, j int) bool { return rows[i].k < rows[j].k })
			for i := 1; i < len(rows); i++ {
				if rows[i].k == rows[i-1].k {
					return nil, fmt.Errorf("xml.%s: duplicate key %q", name, rows[i].k)
				}
			}
			return rows, nil
		}
		ents, err := read("EntitiesMap", token.STRING)
		if err != nil {
			return "", err
		}
		rev, err := read("TextRevEntitiesMap", token.CHAR)
		if err != nil {
			return "", err
		}
		arev, err := read("AttrRevEntitiesMap", token.CHAR)
		if err != nil {
			return "", err
		}
		var b strings.Builder
		b.WriteString(header("XmlTables", "xml/table.go"))
		b.WriteString("/-- `xml.EntitiesMap`: entity name ↦ replacement bytes (sorted by name) -/\n")
		b.WriteString("def entities : List (List Char × List Char) := [\n")
		for i, e := range ents {
			sep := ","
			if i == len(ents)-1 {
				sep = ""
			}
			fmt.Fprintf(&b, "  (%s, %s)%s -- %q -> %q\n", c06CharList(e.k), c06CharList(e.v), sep, e.k, e.v)
		}
		b.WriteString("]\n\n")
		b.WriteString("/-- `xml.TextRevEntitiesMap`: byte ↦ escape used in text (sorted by byte) -/\n")
		b.WriteString("def textRev : List (Char × List Char) := [\n")
		for i, e := range rev {
			sep := ","
			if i == len(rev)-1 {
				sep = ""
			}
			fmt.Fprintf(&b, "  (Char.ofNat %d, %s)%s -- %q -> %q\n", e.k[0], c06CharList(e.v), sep, e.k, e.v)
		}
		b.WriteString("]\n\n")
		b.WriteString("/-- `xml.AttrRevEntitiesMap`: byte ↦ escape used in attribute values (sorted by byte) -/\n")
		b.WriteString("def attrRev : List (Char × List Char) := [\n")
		for i, e := range arev {
			sep := ","
			if i == len(arev)-1 {
				sep = ""
			}
			fmt.Fprintf(&b, "  (Char.ofNat %d, %s)%s -- %q -> %q\n", e.k[0], c06CharList(e.v), sep, e.k, e.v)
		}
		b.WriteString("]\n")
		b.WriteString(footer("XmlTables"))
		return b.String(), nil
	})
}

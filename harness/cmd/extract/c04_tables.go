package main

// C04 — tables used by the CSS value model and its specification.
//
//   model side  (from /repo/css/table.go, /repo/css/hash.go):
//     shortenColorHex, shortenColorName (hash constants resolved through the name table of hash.go),
//     optionalZeroDimension, hashNames (every string for which css.ToHash is non-zero)
//   specification side (independent source: golang.org/x/image/colornames = SVG 1.1 / CSS colour keywords,
//     plus `rebeccapurple` (CSS Color 4) and `transparent`, added by hand here):
//     cssColors : name ↦ (r, g, b, a)
//
// All strings are rendered as `List Char` literals so that kernel evaluation (`decide`) over the whole
// tables does not have to unfold `String` primitives.

import (
	"fmt"
	"go/ast"
	"go/parser"
	"go/token"
	"os"
	"path/filepath"
	"sort"
	"strconv"
	"strings"
)

func c04Chars(s string) string {
	if len(s) == 0 {
		return "[]"
	}
	var b strings.Builder
	b.WriteByte('[')
	for i, c := range []byte(s) {
		if i > 0 {
			b.WriteByte(',')
		}
		switch {
		case c == '\'':
			b.WriteString(`'\''`)
		case c == '\\':
			b.WriteString(`'\\'`)
		case c < 0x20 || c >= 0x7f:
			fmt.Fprintf(&b, "Char.ofNat %d", c)
		default:
			b.WriteByte('\'')
			b.WriteByte(c)
			b.WriteByte('\'')
		}
	}
	b.WriteByte(']')
	return b.String()
}

func c04StrLit(e ast.Expr) (string, bool) {
	switch v := e.(type) {
	case *ast.BasicLit:
		if v.Kind != token.STRING {
			return "", false
		}
		s, err := strconv.Unquote(v.Value)
		return s, err == nil
	case *ast.BinaryExpr: // "" + "…" + "…"
		if v.Op != token.ADD {
			return "", false
		}
		a, ok1 := c04StrLit(v.X)
		b, ok2 := c04StrLit(v.Y)
		return a + b, ok1 && ok2
	case *ast.ParenExpr:
		return c04StrLit(v.X)
	}
	return "", false
}

type c04Pair struct{ k, v string }

func c04RenderPairs(name string, ps []c04Pair) string {
	var b strings.Builder
	fmt.Fprintf(&b, "def %s : List (List Char × List Char) := [\n", name)
	for i, p := range ps {
		sep := ","
		if i == len(ps)-1 {
			sep = ""
		}
		fmt.Fprintf(&b, "  (%s, %s)%s\n", c04Chars(p.k), c04Chars(p.v), sep)
	}
	b.WriteString("]\n\n")
	return b.String()
}

func c04RenderList(name string, xs []string) string {
	var b strings.Builder
	fmt.Fprintf(&b, "def %s : List (List Char) := [\n", name)
	for i, x := range xs {
		sep := ","
		if i == len(xs)-1 {
			sep = ""
		}
		fmt.Fprintf(&b, "  %s%s\n", c04Chars(x), sep)
	}
	b.WriteString("]\n\n")
	return b.String()
}

// c04ColorNames reads the independent colour keyword table (x/image/colornames).
func c04ColorNames() ([][5]string, error) {
	gopath := os.Getenv("GOMODCACHE")
	if gopath == "" {
		gp := os.Getenv("GOPATH")
		if gp == "" {
			home, _ := os.UserHomeDir()
			gp = filepath.Join(home, "go")
		}
		gopath = filepath.Join(gp, "pkg", "mod")
	}
	path := filepath.Join(gopath, "golang.org/x/image@v0.0.0-20190802002840-cff245a6509b/colornames/table.go")
	fset := token.NewFileSet()
	f, err := parser.ParseFile(fset, path, nil, 0)
	if err != nil {
		return nil, err
	}
	var rows [][5]string
	for _, d := range f.Decls {
		gd, ok := d.(*ast.GenDecl)
		if !ok || gd.Tok != token.VAR {
			continue
		}
		for _, s := range gd.Specs {
			vs := s.(*ast.ValueSpec)
			if len(vs.Names) != 1 || vs.Names[0].Name != "Map" || len(vs.Values) != 1 {
				continue
			}
			cl, ok := vs.Values[0].(*ast.CompositeLit)
			if !ok {
				return nil, fmt.Errorf("colornames.Map is not a composite literal")
			}
			for _, el := range cl.Elts {
				kv, ok := el.(*ast.KeyValueExpr)
				if !ok {
					return nil, fmt.Errorf("colornames.Map: unexpected element")
				}
				k, ok := c04StrLit(kv.Key)
				if !ok {
					return nil, fmt.Errorf("colornames.Map: key is not a string literal")
				}
				v, ok := kv.Value.(*ast.CompositeLit)
				if !ok || len(v.Elts) != 4 {
					return nil, fmt.Errorf("colornames.Map[%s]: value is not RGBA{r,g,b,a}", k)
				}
				row := [5]string{k}
				for i, c := range v.Elts {
					lit, ok := c.(*ast.BasicLit)
					if !ok || lit.Kind != token.INT {
						return nil, fmt.Errorf("colornames.Map[%s]: component is not an integer literal", k)
					}
					n, err := strconv.ParseUint(lit.Value, 0, 8)
					if err != nil {
						return nil, err
					}
					row[i+1] = strconv.FormatUint(n, 10)
				}
				rows = append(rows, row)
			}
		}
	}
	if len(rows) < 140 {
		return nil, fmt.Errorf("colornames.Map: only %d rows", len(rows))
	}
	// CSS Color 4 additions that the SVG 1.1 list lacks
	rows = append(rows, [5]string{"rebeccapurple", "102", "51", "153", "255"})
	rows = append(rows, [5]string{"transparent", "0", "0", "0", "0"})
	sort.Slice(rows, func(i, j int) bool { return rows[i][0] < rows[j][0] })
	return rows, nil
}

func init() {
	gen("C04Tables", func(r *Repo) (string, error) {
		e, err := r.TEnv()
		if err != nil {
			return "", err
		}
		h, err := e.HashInfo("css")
		if err != nil {
			return "", err
		}
		var b strings.Builder
		b.WriteString(header("C04Tables", "css/table.go, css/hash.go, golang.org/x/image/colornames/table.go"))

		// ShortenColorHex : map[string][]byte
		kvs, p, _, err := e.MapVar("css", "ShortenColorHex")
		if err != nil {
			return "", err
		}
		var hex []c04Pair
		for _, kv := range kvs {
			k, err1 := e.Bytes(p, kv.Key)
			v, err2 := e.Bytes(p, kv.Val)
			if err1 != nil || err2 != nil {
				return "", fmt.Errorf("ShortenColorHex: entry is not a statically known string: []byte pair (%v %v)", err1, err2)
			}
			hex = append(hex, c04Pair{k, v})
		}
		sort.Slice(hex, func(i, j int) bool { return hex[i].k < hex[j].k })
		b.WriteString("/-- `css.ShortenColorHex`: hex code ↦ shorter colour name -/\n")
		b.WriteString(c04RenderPairs("shortenColorHex", hex))

		// ShortenColorName : map[Hash][]byte
		kvs, p, _, err = e.MapVar("css", "ShortenColorName")
		if err != nil {
			return "", err
		}
		var nm []c04Pair
		for _, kv := range kvs {
			text, err := c17HashKey(e, p, h, kv.Key, "css.ShortenColorName")
			if err != nil {
				return "", err
			}
			v, err := e.Bytes(p, kv.Val)
			if err != nil {
				return "", fmt.Errorf("ShortenColorName[%s]: %v", text, err)
			}
			nm = append(nm, c04Pair{text, v})
		}
		sort.Slice(nm, func(i, j int) bool { return nm[i].k < nm[j].k })
		b.WriteString("/-- `css.ShortenColorName` with the Hash constants resolved to their text: colour name ↦ shorter hex code -/\n")
		b.WriteString(c04RenderPairs("shortenColorName", nm))

		// optionalZeroDimension : map[string]bool
		kvs, p, _, err = e.MapVar("css", "optionalZeroDimension")
		if err != nil {
			return "", err
		}
		var units []string
		for _, kv := range kvs {
			k, err := e.Bytes(p, kv.Key)
			if err != nil {
				return "", fmt.Errorf("optionalZeroDimension: %v", err)
			}
			on, err := e.Bool(p, kv.Val)
			if err != nil {
				return "", fmt.Errorf("optionalZeroDimension[%s]: %v", k, err)
			}
			if on {
				units = append(units, k)
			}
		}
		sort.Strings(units)
		b.WriteString("/-- keys of `css.optionalZeroDimension` mapped to true -/\n")
		b.WriteString(c04RenderList("optionalZeroDimension", units))

		// all hash names: every text for which ToHash returns non-zero = the non-zero entries of the perfect hash table
		var all []string
		seen := map[string]bool{}
		for v := range h.table {
			if t := h.Name(int64(v)); !seen[t] {
				seen[t] = true
				all = append(all, t)
			}
		}
		sort.Strings(all)
		if len(all) < 100 {
			return "", fmt.Errorf("css/hash.go: only %d names in the hash table", len(all))
		}
		b.WriteString("/-- every text for which `css.ToHash` returns a non-zero Hash (constants of css/hash.go) -/\n")
		b.WriteString(c04RenderList("hashNames", all))

		// independent colour keyword table
		rows, err := c04ColorNames()
		if err != nil {
			return "", err
		}
		b.WriteString("/-- CSS colour keywords (x/image/colornames = SVG 1.1 list, + rebeccapurple, transparent): name ↦ (r, g, b, a) -/\n")
		b.WriteString("def cssColors : List (List Char × (Nat × Nat × Nat × Nat)) := [\n")
		for i, row := range rows {
			sep := ","
			if i == len(rows)-1 {
				sep = ""
			}
			fmt.Fprintf(&b, "  (%s, (%s, %s, %s, %s))%s\n", c04Chars(row[0]), row[1], row[2], row[3], row[4], sep)
		}
		b.WriteString("]\n")
		b.WriteString(footer("C04Tables"))
		return b.String(), nil
	})
}

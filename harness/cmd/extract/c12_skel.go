package main

// C12 — skeleton IR of the wrapper functions of minify.go and the "input only via NewInput" fact
//   →  lean/Verif/Gen/Wrappers.lean
//
// Each statement of Reader, Writer, writer.Close, responseWriter.{WriteHeader,Write,Close}, ResponseWriter,
// Middleware, MiddlewareWithError, Bytes, String is mapped to an atom (Verif.Skel.WAtom) by AST shape +
// normalised source text of its leaves; compound statements (go func, first-write if, Match if, handler
// closure) become bracket atoms around the atoms of their bodies.  Unrecognised statements become
// `other "<text>"`; no Lean well-formedness predicate accepts those, and any re-ordering changes the value.
//
// InputUses: for every Minify method/function of the library the uses of its io.Reader parameter.
//
// RetFacts (ownership of returned memory): for Bytes and String, result 0 of every `return` (the input parameter,
// `X.Bytes()` of the output buffer, a copy of it, or something else) and where that buffer X comes from: a FRESH
// LOCAL (allocated in this call, never re-assigned, used only as the writer argument of m.Minify and as the receiver
// of Bytes/Len/String/Write*/Reset) or SHARED (package-level variable, sync.Pool, struct field, parameter, or a local
// that escapes into another call / defer / closure / assignment).  Model/Stream.lean demands a fresh local.

import (
	"fmt"
	"go/ast"
	"go/token"
	"regexp"
	"strings"
)

type c12Walker struct{ r *Repo }

var c12Leaf = map[string]string{
	"pr, pw := io.Pipe()":                            "pipeNew",
	"z := &writer{pw, sync.WaitGroup{}, false, nil}": "mkWriter",
	"z.wg.Add(1)":                                    "wgAdd",
	"defer z.wg.Done()":                              "deferWgDone",
	"z.wg.Done()":                                    "wgDone",
	"defer pr.Close()":                               "deferPipeReaderClose",
	"pr.Close()":                                     "pipeReaderClose",
	"return z":                                       "returnWriter",
	"return pr":                                      "returnPipeReader",
	"if z.closed { return nil }":                     "returnNilIfClosed",
	"z.closed = true":                                "setClosed",
	"err := z.WriteCloser.Close()":                   "pipeWriterClose",
	"z.wg.Wait()":                                    "wgWait",
	"w.z = z":                                        "setZWriter",
	"w.z = w.ResponseWriter":                         "setZPassthrough",
	"return w.z.Write(b)":                            "returnZWrite",
	"return nil":                                     "returnNil",
	"w.ResponseWriter.Header().Del(\"Content-Length\")":                               "delContentLength",
	"w.ResponseWriter.WriteHeader(status)":                                            "forwardWriteHeader",
	"mediatype := mime.TypeByExtension(path.Ext(r.RequestURI))":                       "mediatypeFromExt",
	"return &responseWriter{w, nil, m, mediatype}":                                    "returnResponseWriter",
	"mw := m.ResponseWriter(w, r)":                                                    "mkResponseWriter",
	"next.ServeHTTP(mw, r)":                                                           "serveNext",
	"mw.Close()":                                                                      "closeMw",
	"out := buffer.NewWriter(make([]byte, 0, len(v)))":                                "newOutBuffer",
	"return out.Bytes(), nil":                                                         "returnOut",
	"return string(out.Bytes()), nil":                                                 "returnOut",
	"if closer, ok := w.z.(interface{ Close() error }); ok { return closer.Close() }": "closeIfCloser",
	"if mediatype := w.ResponseWriter.Header().Get(\"Content-Type\"); mediatype != \"\" { w.mediatype = mediatype }": "pickContentType",
	"if err := mw.Close(); err != nil { errorFunc(w, r, err) return }":                                               "closeMwReportErr",
	"if err := m.Minify(mediatype, out, buffer.NewReader(parse.Copy(v))); err != nil { return v, err }":              "minifyBufOrReturnInput true",
	"if err := m.Minify(mediatype, out, buffer.NewReader([]byte(v))); err != nil { return v, err }":                  "minifyBufOrReturnInput true",
	"if err := m.Minify(mediatype, out, buffer.NewReader(v)); err != nil { return v, err }":                          "minifyBufOrReturnInput false",
}

var c12CallRe = regexp.MustCompile(`^err := (m\.Minify\(mediatype, (\w+), (\w+)\)|minifier\(w\.m, w\.ResponseWriter, (\w+), params\))$`)

func normText(fset *token.FileSet, n ast.Node) string {
	// like c14Src but never truncated
	s := c14SrcN(fset, n, 1<<20)
	return s
}

func (c *c12Walker) list(stmts []ast.Stmt) []string {
	var out []string
	for i := 0; i < len(stmts); i++ {
		s := stmts[i]
		txt := normText(c.r.Fset, s)
		// `if z.err == nil { return err }` + `return z.err`
		if txt == "if z.err == nil { return err }" && i+1 < len(stmts) && normText(c.r.Fset, stmts[i+1]) == "return z.err" {
			out = append(out, "returnStoredOrCloseErr")
			i++
			continue
		}
		if a, ok := c12Leaf[txt]; ok {
			out = append(out, a)
			continue
		}
		switch st := s.(type) {
		case *ast.GoStmt:
			if fl, ok := st.Call.Fun.(*ast.FuncLit); ok && len(st.Call.Args) == 0 && len(fl.Type.Params.List) == 0 {
				out = append(out, "goBegin")
				out = append(out, c.list(fl.Body.List)...)
				out = append(out, "goEnd")
				continue
			}
		case *ast.IfStmt:
			if st.Init != nil {
				it := normText(c.r.Fset, st.Init)
				cond := normText(c.r.Fset, st.Cond)
				if m := c12CallRe.FindStringSubmatch(it); m != nil && cond == "err != nil" {
					dst, src := m[2], m[3]
					if m[4] != "" {
						dst, src = "rw", m[4]
					}
					body := normText(c.r.Fset, st.Body)
					switch {
					case st.Else == nil && body == "{ z.err = err }":
						out = append(out, fmt.Sprintf("callMinify %s %s", leanStr(dst), leanStr(src)), "storeErr")
						continue
					case st.Else != nil && body == "{ pw.CloseWithError(err) }" && normText(c.r.Fset, st.Else) == "{ pw.Close() }":
						out = append(out, fmt.Sprintf("callMinify %s %s", leanStr(dst), leanStr(src)), "closeWithErrorElseClose")
						continue
					}
				}
				if it == "_, params, minifier := w.m.Match(w.mediatype)" && cond == "minifier != nil" {
					if els, ok := st.Else.(*ast.BlockStmt); ok {
						out = append(out, "matchBegin")
						out = append(out, c.list(st.Body.List)...)
						out = append(out, "matchElse")
						out = append(out, c.list(els.List)...)
						out = append(out, "matchEnd")
						continue
					}
				}
			} else if normText(c.r.Fset, st.Cond) == "w.z == nil" && st.Else == nil {
				out = append(out, "firstWriteBegin")
				out = append(out, c.list(st.Body.List)...)
				out = append(out, "firstWriteEnd")
				continue
			}
		case *ast.ReturnStmt:
			// return http.HandlerFunc(func(w http.ResponseWriter, r *http.Request) { … })
			if len(st.Results) == 1 {
				if call, ok := st.Results[0].(*ast.CallExpr); ok && len(call.Args) == 1 && normText(c.r.Fset, call.Fun) == "http.HandlerFunc" {
					if fl, ok := call.Args[0].(*ast.FuncLit); ok && normText(c.r.Fset, fl.Type) == "func(w http.ResponseWriter, r *http.Request)" {
						out = append(out, "handlerBegin")
						out = append(out, c.list(fl.Body.List)...)
						out = append(out, "handlerEnd")
						continue
					}
				}
			}
		}
		t := txt
		if len(t) > 100 {
			t = t[:100] + "…"
		}
		out = append(out, "other "+leanStr(t))
	}
	return out
}

// readerUses classifies every use of the io.Reader parameter `name` in the function body.
func (c *c12Walker) readerUses(fd *ast.FuncDecl, name string) []string {
	var uses []string
	var stack []ast.Node
	ast.Inspect(fd.Body, func(n ast.Node) bool {
		if n == nil {
			stack = stack[:len(stack)-1]
			return true
		}
		stack = append(stack, n)
		id, ok := n.(*ast.Ident)
		if !ok || id.Name != name {
			return true
		}
		// field selectors `x.r` are not uses of the parameter
		if len(stack) >= 2 {
			if sel, ok := stack[len(stack)-2].(*ast.SelectorExpr); ok && sel.Sel == id {
				return true
			}
		}
		kind := "other " + leanStr(c14Src(c.r.Fset, stack[max(0, len(stack)-3)]))
		if len(stack) >= 2 {
			if call, ok := stack[len(stack)-2].(*ast.CallExpr); ok {
				isArg := false
				for _, a := range call.Args {
					if a == ast.Expr(id) {
						isArg = true
					}
				}
				if isArg {
					fn := normText(c.r.Fset, call.Fun)
					switch {
					case fn == "parse.NewInput" && len(call.Args) == 1:
						kind = "newInput"
					default:
						kind = "passOn"
						if len(stack) >= 3 {
							if _, ok := stack[len(stack)-3].(*ast.ReturnStmt); ok {
								kind = "passOnReturn"
							}
						}
					}
				}
			}
		}
		uses = append(uses, kind)
		return true
	})
	return uses
}

// ---- ownership of returned memory ----

var c12FreshAlloc = regexp.MustCompile(`^(buffer\.NewWriter\(make\(\[\]byte, .*\)\)|bytes\.NewBuffer\((make\(\[\]byte, .*\)|nil)\)|&bytes\.Buffer\{\}|new\(bytes\.Buffer\)|&buffer\.Writer\{\}|bytes\.Buffer\{\})$`)

var c12BufMethods = map[string]bool{"Bytes": true, "Len": true, "String": true, "Write": true, "WriteByte": true, "WriteString": true, "Reset": true}

// bufOfBytesCall: e is `X.Bytes()` (or `X.String()` when str) with X an identifier
func c12BufOf(e ast.Expr, method string) (string, bool) {
	call, ok := e.(*ast.CallExpr)
	if !ok || len(call.Args) != 0 {
		return "", false
	}
	sel, ok := call.Fun.(*ast.SelectorExpr)
	if !ok || sel.Sel.Name != method {
		return "", false
	}
	id, ok := sel.X.(*ast.Ident)
	if !ok {
		return "", false
	}
	return id.Name, true
}

// c12RetExpr classifies result 0 of a return; buf is the buffer variable it refers to ("" if none)
func (c *c12Walker) retExpr(e ast.Expr, input string) (atom, buf string) {
	if id, ok := e.(*ast.Ident); ok && id.Name == input {
		return "RetExpr.input", ""
	}
	if x, ok := c12BufOf(e, "Bytes"); ok {
		return "RetExpr.bufBytes", x
	}
	if x, ok := c12BufOf(e, "String"); ok { // bytes.Buffer.String copies
		return "RetExpr.copyOfBuf", x
	}
	if call, ok := e.(*ast.CallExpr); ok {
		fn := normText(c.r.Fset, call.Fun)
		switch {
		case (fn == "string" || fn == "parse.Copy" || fn == "bytes.Clone" || fn == "slices.Clone") && len(call.Args) == 1:
			if x, ok := c12BufOf(call.Args[0], "Bytes"); ok {
				return "RetExpr.copyOfBuf", x
			}
		case fn == "append" && len(call.Args) == 2 && call.Ellipsis.IsValid():
			a0 := normText(c.r.Fset, call.Args[0])
			if x, ok := c12BufOf(call.Args[1], "Bytes"); ok && (a0 == "[]byte(nil)" || a0 == "[]byte{}") {
				return "RetExpr.copyOfBuf", x
			}
		}
	}
	return "RetExpr.other " + leanStr(c12Clip(normText(c.r.Fset, e))), ""
}

func c12Clip(t string) string {
	if len(t) > 100 {
		t = t[:100] + "…"
	}
	return t
}

// bufOrigin: where the local `name` of fd comes from and whether it stays inside the call
func (c *c12Walker) bufOrigin(fd *ast.FuncDecl, name string) string {
	shared := func(why string) string { return "BufOrigin.shared " + leanStr(c12Clip(why)) }
	if name == "" {
		return shared("no output buffer recognised")
	}
	declText, fresh, ndecl := "", false, 0
	var declIdent *ast.Ident
	var stack []ast.Node
	escape := ""
	ast.Inspect(fd.Body, func(n ast.Node) bool {
		if n == nil {
			stack = stack[:len(stack)-1]
			return true
		}
		stack = append(stack, n)
		switch st := n.(type) {
		case *ast.AssignStmt:
			for i, l := range st.Lhs {
				if id, ok := l.(*ast.Ident); ok && id.Name == name {
					if st.Tok == token.DEFINE && len(st.Lhs) == 1 && len(st.Rhs) == 1 && i == 0 {
						ndecl++
						declIdent = id
						declText = normText(c.r.Fset, st)
						fresh = c12FreshAlloc.MatchString(normText(c.r.Fset, st.Rhs[0]))
					} else if escape == "" {
						escape = "re-assigned: " + normText(c.r.Fset, st)
					}
				}
			}
		case *ast.ValueSpec:
			for _, id := range st.Names {
				if id.Name == name {
					ndecl++
					declIdent = id
					declText = "var " + normText(c.r.Fset, st)
					t := ""
					if st.Type != nil {
						t = normText(c.r.Fset, st.Type)
					}
					fresh = len(st.Values) == 0 && (t == "bytes.Buffer" || t == "buffer.Writer")
				}
			}
		}
		return true
	})
	if ndecl != 1 {
		return shared(fmt.Sprintf("%s is not a local declared once in this function (parameter, package-level variable or field)", name))
	}
	if !fresh {
		return shared(declText)
	}
	// every other use must keep the buffer inside the call
	stack = stack[:0]
	ast.Inspect(fd.Body, func(n ast.Node) bool {
		if n == nil {
			stack = stack[:len(stack)-1]
			return true
		}
		stack = append(stack, n)
		id, ok := n.(*ast.Ident)
		if !ok || id.Name != name || id == declIdent || escape != "" {
			return true
		}
		up := func(k int) ast.Node {
			if len(stack) > k {
				return stack[len(stack)-1-k]
			}
			return nil
		}
		stmt := func() string {
			for i := len(stack) - 1; i >= 0; i-- {
				if s, ok := stack[i].(ast.Stmt); ok {
					return normText(c.r.Fset, s)
				}
			}
			return name
		}
		for _, a := range stack {
			switch a.(type) {
			case *ast.FuncLit, *ast.DeferStmt, *ast.GoStmt:
				escape = "used in a closure / defer / go statement: " + stmt()
				return true
			}
		}
		cur, parent := ast.Node(id), up(1)
		if u, ok := parent.(*ast.UnaryExpr); ok && u.Op == token.AND { // &out
			cur, parent = u, up(2)
		}
		switch p := parent.(type) {
		case *ast.SelectorExpr:
			if p.X == cur && c12BufMethods[p.Sel.Name] {
				if call, ok := up(2).(*ast.CallExpr); ok && call.Fun == ast.Expr(p) {
					return true
				}
			}
			if p.Sel == id { // a field or method called `name` of something else
				return true
			}
		case *ast.CallExpr:
			fn := normText(c.r.Fset, p.Fun)
			if (fn == "m.Minify" && len(p.Args) == 3 || fn == "m.MinifyMimetype" && len(p.Args) == 4) && p.Args[1] == cur {
				return true
			}
		}
		escape = "escapes: " + stmt()
		return true
	})
	if escape != "" {
		return shared(escape)
	}
	return "BufOrigin.freshLocal " + leanStr(c12Clip(declText))
}

// retFact renders the RetFact of one of Bytes / String
func (c *c12Walker) retFact(fd *ast.FuncDecl, label string) (string, error) {
	if fd.Type.Params == nil || len(fd.Type.Params.List) != 2 || len(fd.Type.Params.List[1].Names) != 1 {
		return "", fmt.Errorf("%s: expected parameters (mediatype string, v T)", label)
	}
	input := fd.Type.Params.List[1].Names[0].Name
	var rets []string
	buf, mixed := "", false
	var walk func(n ast.Node) bool
	walk = func(n ast.Node) bool {
		switch st := n.(type) {
		case *ast.FuncLit:
			return false
		case *ast.ReturnStmt:
			if len(st.Results) == 0 {
				rets = append(rets, "RetExpr.other "+leanStr("naked return"))
				return true
			}
			a, b := c.retExpr(st.Results[0], input)
			rets = append(rets, a)
			if b != "" {
				if buf != "" && buf != b {
					mixed = true
				}
				buf = b
			}
		}
		return true
	}
	ast.Inspect(fd.Body, walk)
	origin := c.bufOrigin(fd, buf)
	if mixed {
		origin = "BufOrigin.shared " + leanStr("several different buffers are returned")
	}
	return fmt.Sprintf("  { func := %s, buf := %s, returns := [%s] }", leanStr(label), origin, strings.Join(rets, ", ")), nil
}

func init() {
	gen("Wrappers", func(r *Repo) (string, error) {
		c := &c12Walker{r: r}
		var sb strings.Builder
		sb.WriteString("import Verif.Base.SkelIR\nimport Verif.Base.SkelOwn\n")
		sb.WriteString(header("Wrappers", "/repo/minify.go (wrapper functions) and the Minify methods of all library packages"))
		sb.WriteString("open Verif.Skel Verif.Skel.WAtom\n\n")
		funcs := []struct{ field, recv, name string }{
			{"reader", "*M", "Reader"}, {"writer", "*M", "Writer"}, {"writerClose", "*writer", "Close"},
			{"rwWriteHeader", "*responseWriter", "WriteHeader"}, {"rwWrite", "*responseWriter", "Write"}, {"rwClose", "*responseWriter", "Close"},
			{"responseWriter", "*M", "ResponseWriter"}, {"middleware", "*M", "Middleware"}, {"middlewareWithError", "*M", "MiddlewareWithError"},
			{"bytes", "*M", "Bytes"}, {"string", "*M", "String"},
		}
		sb.WriteString("def skel : WSkel :=\n  {")
		for i, f := range funcs {
			fd, err := r.FindFunc(".", f.recv, f.name)
			if err != nil {
				return "", err
			}
			atoms := c.list(fd.Body.List)
			if i > 0 {
				sb.WriteString("\n   ")
			}
			fmt.Fprintf(&sb, " %s := [%s]", f.field, strings.Join(atoms, ", "))
		}
		sb.WriteString(" }\n\n")
		// InputUses
		type fn struct{ rel, recv, name, label string }
		var fns []fn
		for _, p := range c14Pkgs {
			fns = append(fns, fn{p, "*Minifier", "Minify", p + ".(*Minifier).Minify"}, fn{p, "", "Minify", p + ".Minify"})
		}
		fns = append(fns, fn{".", "*M", "Minify", "minify.(*M).Minify"}, fn{".", "*M", "MinifyMimetype", "minify.(*M).MinifyMimetype"}, fn{".", "MinifierFunc", "Minify", "minify.MinifierFunc.Minify"})
		sb.WriteString("def inputUses : List InputUse := [\n")
		for i, f := range fns {
			fd, err := r.FindFunc(f.rel, f.recv, f.name)
			if err != nil {
				return "", err
			}
			// the reader parameter: the one of type io.Reader
			rname := ""
			for _, p := range fd.Type.Params.List {
				if normText(r.Fset, p.Type) == "io.Reader" && len(p.Names) == 1 {
					rname = p.Names[0].Name
				}
			}
			if rname == "" {
				return "", fmt.Errorf("%s: no io.Reader parameter", f.label)
			}
			uses := c.readerUses(fd, rname)
			sep := ","
			if i == len(fns)-1 {
				sep = ""
			}
			fmt.Fprintf(&sb, "  { func := %s, uses := [%s] }%s\n", leanStr(f.label), strings.Join(prefixAll(uses, "RUse."), ", "), sep)
		}
		sb.WriteString("]\n\n")
		// RetFacts
		sb.WriteString("def retFacts : List RetFact := [\n")
		for i, name := range []string{"Bytes", "String"} {
			fd, err := r.FindFunc(".", "*M", name)
			if err != nil {
				return "", err
			}
			line, err := c.retFact(fd, name)
			if err != nil {
				return "", err
			}
			if i == 0 {
				line += ","
			}
			sb.WriteString(line + "\n")
		}
		sb.WriteString("]\n")
		sb.WriteString(footer("Wrappers"))
		return sb.String(), nil
	})
}

func prefixAll(xs []string, p string) []string {
	out := make([]string, len(xs))
	for i, x := range xs {
		out[i] = p + x
	}
	return out
}

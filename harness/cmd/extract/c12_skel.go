package main

// C12 — skeleton IR of the wrapper functions of minify.go and the "input only via NewInput" fact
//   →  lean/Verif/Gen/Wrappers.lean
//
// Each statement of Reader, Writer, writer.Close, responseWriter.{WriteHeader,Write,Close}, ResponseWriter,
// Middleware, MiddlewareWithError, Bytes, String is mapped to an atom (Verif.Skel.WAtom); compound statements (go func,
// first-write if, Match if, handler closure) become bracket atoms around the atoms of their bodies.  Unrecognised
// statements become `other "<text>"`; no Lean well-formedness predicate accepts those, and any re-ordering changes the value.
//
// The statements are matched on a NORMAL FORM of the function, computed on a private, separately type-checked copy of
// package minify (so that the copy can be rewritten freely):
//   * every identifier is replaced by a canonical name derived from what it denotes, not from how it is spelled: the receiver
//     by its type (m / z / w), parameters by their position, locals by their type (*io.PipeReader → pr, *io.PipeWriter → pw,
//     *writer → z, error → err, …), fields of the unexported structs writer and responseWriter by their type, package
//     qualifiers by the imported package's name.  Two different variables that would get the same name while both are in
//     scope keep a distinguishing suffix (and are then not recognised): a rename can never merge two variables;
//   * constants are replaced by their value ("Content-Length" through a named constant is "Content-Length");
//   * struct literals of the two unexported structs are written keyed, zero-valued fields dropped, fields in canonical order;
//   * `nil != x` is `x != nil`, `x == true` is `x`; `if e == nil { A } else { B }` is `if e != nil { B } else { A }`;
//     `e := f(); if e != nil {…}` is `if e := f(); e != nil {…}`;
//   * a local of no particular role that is defined once and used once, in the next statement, is replaced by its
//     definition (`private := parse.Copy(v); in := buffer.NewReader(private); m.Minify(…, in)`).
//
// InputUses: for every Minify method/function of the library the uses of its io.Reader parameter (by object, the parameter
// being the one whose type is io.Reader under whatever import name).
//
// RetFacts (ownership of returned memory, read from the same normal form): for Bytes and String, result 0 of every `return`
// (the input parameter, `X.Bytes()` of the output buffer, a copy of it, or something else) and where that buffer X comes
// from: a FRESH LOCAL (allocated in this call, never re-assigned, used only as the writer argument of m.Minify and as the
// receiver of Bytes/Len/String/Write*/Reset) or SHARED (package-level variable, sync.Pool, struct field, parameter, or a
// local that escapes into another call / defer / closure / assignment).  Model/Stream.lean demands a fresh local.

import (
	"fmt"
	"go/ast"
	"go/constant"
	"go/importer"
	"go/parser"
	"go/token"
	"go/types"
	"os"
	"path/filepath"
	"reflect"
	"regexp"
	"sort"
	"strconv"
	"strings"

	"golang.org/x/tools/go/ast/astutil"
	"golang.org/x/tools/go/packages"
)

var c12Leaf = map[string]string{
	"pr, pw := io.Pipe()":           "pipeNew",
	"z := &writer{WriteCloser: pw}": "mkWriter",
	"z.wg.Add(1)":                   "wgAdd",
	"defer z.wg.Done()":             "deferWgDone",
	"z.wg.Done()":                   "wgDone",
	"defer pr.Close()":              "deferPipeReaderClose",
	"pr.Close()":                    "pipeReaderClose",
	"return z":                      "returnWriter",
	"return pr":                     "returnPipeReader",
	"if z.closed { return nil }":    "returnNilIfClosed",
	"z.closed = true":               "setClosed",
	"err := z.WriteCloser.Close()":  "pipeWriterClose",
	"z.wg.Wait()":                   "wgWait",
	"w.z = z":                       "setZWriter",
	"w.z = w.ResponseWriter":        "setZPassthrough",
	"return w.z.Write(b)":           "returnZWrite",
	"return nil":                    "returnNil",
	"w.ResponseWriter.Header().Del(\"Content-Length\")":                                "delContentLength",
	"w.ResponseWriter.WriteHeader(status)":                                             "forwardWriteHeader",
	"mediatype := mime.TypeByExtension(path.Ext(r.RequestURI))":                        "mediatypeFromExt",
	"return &responseWriter{ResponseWriter: w, m: m, mediatype: mediatype}":            "returnResponseWriter",
	"mw := m.ResponseWriter(w, r)":                                                     "mkResponseWriter",
	"next.ServeHTTP(mw, r)":                                                            "serveNext",
	"mw.Close()":                                                                       "closeMw",
	"out := buffer.NewWriter(make([]byte, 0, len(v)))":                                 "newOutBuffer",
	"return out.Bytes(), nil":                                                          "returnOut",
	"return string(out.Bytes()), nil":                                                  "returnOut",
	"if closer, ok := w.z.(interface{ Close() error }); ok { return closer.Close() }":  "closeIfCloser",
	"if closer, ok := w.z.(interface { Close() error }); ok { return closer.Close() }": "closeIfCloser",
	"if closer, ok := w.z.(io.Closer); ok { return closer.Close() }":                   "closeIfCloser",
	"if mediatype := w.ResponseWriter.Header().Get(\"Content-Type\"); mediatype != \"\" { w.mediatype = mediatype }": "pickContentType",
	"if err := mw.Close(); err != nil { errorFunc(w, r, err) return }":                                               "closeMwReportErr",
	"if err := m.Minify(mediatype, out, buffer.NewReader(parse.Copy(v))); err != nil { return v, err }":              "minifyBufOrReturnInput true",
	"if err := m.Minify(mediatype, out, buffer.NewReader(bytes.Clone(v))); err != nil { return v, err }":             "minifyBufOrReturnInput true",
	"if err := m.Minify(mediatype, out, buffer.NewReader(append([]byte(nil), v...))); err != nil { return v, err }":  "minifyBufOrReturnInput true",
	"if err := m.Minify(mediatype, out, buffer.NewReader([]byte(v))); err != nil { return v, err }":                  "minifyBufOrReturnInput true",
	"if err := m.Minify(mediatype, out, buffer.NewReader(v)); err != nil { return v, err }":                          "minifyBufOrReturnInput false",
}

var c12CallRe = regexp.MustCompile(`^err := (m\.Minify\(mediatype, (\w+), (\w+)\)|minifier\(w\.m, w\.ResponseWriter, (\w+), params\))$`)

// ---- private typed copy of a package ----

type c12Copy struct {
	fset  *token.FileSet
	files []*ast.File
	info  *types.Info
	pkg   *types.Package
}

type c12Importer struct {
	deps map[string]*packages.Package
	def  types.Importer
}

func (i c12Importer) Import(path string) (*types.Package, error) {
	if p, ok := i.deps[path]; ok && p.Types != nil {
		return p.Types, nil
	}
	return i.def.Import(path)
}

func c12PrivateCopy(e *tenv, rel string) (*c12Copy, error) {
	p, err := e.Pkg(rel)
	if err != nil {
		return nil, err
	}
	dir := filepath.Join(e.r.Dir, rel)
	ents, err := os.ReadDir(dir)
	if err != nil {
		return nil, err
	}
	c := &c12Copy{fset: token.NewFileSet()}
	for _, en := range ents {
		n := en.Name()
		if !strings.HasSuffix(n, ".go") || strings.HasSuffix(n, "_test.go") || strings.HasPrefix(n, "verif_") {
			continue
		}
		f, err := parser.ParseFile(c.fset, filepath.Join(dir, n), nil, parser.SkipObjectResolution)
		if err != nil {
			return nil, err
		}
		c.files = append(c.files, f)
	}
	c.info = &types.Info{Types: map[ast.Expr]types.TypeAndValue{}, Defs: map[*ast.Ident]types.Object{}, Uses: map[*ast.Ident]types.Object{},
		Selections: map[*ast.SelectorExpr]*types.Selection{}, Scopes: map[ast.Node]*types.Scope{}, Implicits: map[ast.Node]types.Object{}}
	conf := types.Config{Importer: c12Importer{deps: p.Imports, def: importer.Default()}}
	c.pkg, err = conf.Check(p.PkgPath, c.fset, c.files, c.info)
	if err != nil {
		return nil, fmt.Errorf("type-checking the private copy of %s: %v", p.PkgPath, err)
	}
	return c, nil
}

func (c *c12Copy) funcDecl(recv, name string) (*ast.FuncDecl, error) {
	for _, f := range c.files {
		for _, d := range f.Decls {
			fd, ok := d.(*ast.FuncDecl)
			if !ok || fd.Name.Name != name || fd.Body == nil {
				continue
			}
			got := ""
			if fd.Recv != nil && len(fd.Recv.List) == 1 {
				t := fd.Recv.List[0].Type
				if s, ok := t.(*ast.StarExpr); ok {
					t = s.X
				}
				if id, ok := t.(*ast.Ident); ok {
					got = id.Name
				}
			}
			if got == recv {
				return fd, nil
			}
		}
	}
	return nil, fmt.Errorf("minify: func (%s).%s not found", recv, name)
}

// ---- normal form ----

var c12RecvNames = map[string]string{"M": "m", "writer": "z", "responseWriter": "w"}

var c12ParamNames = map[string][]string{
	"M.Reader": {"mediatype", "r"}, "M.Writer": {"mediatype", "w"}, "writer.Close": {}, "responseWriter.WriteHeader": {"status"},
	"responseWriter.Write": {"b"}, "responseWriter.Close": {}, "M.ResponseWriter": {"w", "r"}, "M.Middleware": {"next"},
	"M.MiddlewareWithError": {"next", "errorFunc"}, "M.Bytes": {"mediatype", "v"}, "M.String": {"mediatype", "v"},
}

// canonical names of locals and of the fields of the two unexported structs, by type
var c12TypeNames = map[string]string{
	"*io.PipeReader": "pr", "*io.PipeWriter": "pw", "*minify.writer": "z", "error": "err", "string": "mediatype",
	"*minify.responseWriter": "mw", "*buffer.Writer": "out", "map[string]string": "params", "minify.MinifierFunc": "minifier",
	"bool": "ok", "interface{Close() error}": "closer",
}
var c12FieldNames = map[string]map[string]string{
	"writer":         {"io.WriteCloser": "WriteCloser", "sync.WaitGroup": "wg", "bool": "closed", "error": "err"},
	"responseWriter": {"net/http.ResponseWriter": "ResponseWriter", "io.Writer": "z", "*minify.M": "m", "string": "mediatype"},
}

func c12TypeString(t types.Type) string {
	return types.TypeString(t, func(p *types.Package) string {
		if p.Path() == modPath {
			return "minify"
		}
		return p.Name()
	})
}

func c12FieldKey(t types.Type) string {
	return types.TypeString(t, func(p *types.Package) string {
		if p.Path() == modPath {
			return "minify"
		}
		if p.Path() == "net/http" {
			return "net/http"
		}
		return p.Name()
	})
}

type c12Norm struct {
	c      *c12Copy
	rename map[types.Object]string
}

// fieldName: canonical name of a field of writer / responseWriter
func (n *c12Norm) fieldName(f *types.Var, owner types.Type) string {
	if pt, ok := owner.Underlying().(*types.Pointer); ok {
		owner = pt.Elem()
	}
	nt, ok := types.Unalias(owner).(*types.Named)
	if !ok || nt.Obj().Pkg() != n.c.pkg {
		return ""
	}
	m, ok := c12FieldNames[nt.Obj().Name()]
	if !ok {
		return ""
	}
	st, ok := nt.Underlying().(*types.Struct)
	if !ok {
		return ""
	}
	key := c12FieldKey(f.Type())
	cnt := 0
	for i := 0; i < st.NumFields(); i++ {
		if c12FieldKey(st.Field(i).Type()) == key {
			cnt++
		}
	}
	if cnt != 1 {
		return "" // two fields of one type: no canonical name
	}
	return m[key]
}

func isZeroValueExpr(info *types.Info, x ast.Expr) bool {
	x = unparen(x)
	if tv, ok := info.Types[x]; ok && tv.Value != nil {
		switch tv.Value.Kind() {
		case constant.Bool:
			return !constant.BoolVal(tv.Value)
		case constant.String:
			return constant.StringVal(tv.Value) == ""
		case constant.Int, constant.Float:
			return constant.Sign(tv.Value) == 0
		}
	}
	if id, ok := x.(*ast.Ident); ok {
		_, isNil := info.Uses[id].(*types.Nil)
		return isNil
	}
	if cl, ok := x.(*ast.CompositeLit); ok {
		if _, isStruct := info.TypeOf(cl).Underlying().(*types.Struct); isStruct && len(cl.Elts) == 0 {
			return true
		}
	}
	return false
}

// normalise rewrites the function declaration in place (it belongs to the private copy)
func (n *c12Norm) normalise(fd *ast.FuncDecl, key string) {
	info := n.c.info
	n.rename = map[types.Object]string{}
	// receiver and parameters
	if fd.Recv != nil && len(fd.Recv.List) == 1 && len(fd.Recv.List[0].Names) == 1 {
		rn := strings.SplitN(key, ".", 2)[0]
		if cn, ok := c12RecvNames[rn]; ok {
			n.rename[info.Defs[fd.Recv.List[0].Names[0]]] = cn
		}
	}
	i := 0
	for _, f := range fd.Type.Params.List {
		for _, id := range f.Names {
			if names := c12ParamNames[key]; i < len(names) {
				n.rename[info.Defs[id]] = names[i]
			}
			i++
		}
	}
	// handler closures: func(w http.ResponseWriter, r *http.Request)
	ast.Inspect(fd.Body, func(x ast.Node) bool {
		if fl, ok := x.(*ast.FuncLit); ok && len(fl.Type.Params.List) > 0 {
			names := []string{"w", "r"}
			j := 0
			for _, f := range fl.Type.Params.List {
				for _, id := range f.Names {
					if j < len(names) {
						n.rename[info.Defs[id]] = names[j]
					}
					j++
				}
			}
		}
		return true
	})
	// locals by type
	var locals []types.Object
	ast.Inspect(fd.Body, func(x ast.Node) bool {
		if id, ok := x.(*ast.Ident); ok && id.Name != "_" {
			if o, ok := info.Defs[id].(*types.Var); ok && !o.IsField() {
				if _, done := n.rename[o]; !done {
					if cn, ok := c12TypeNames[c12TypeString(o.Type())]; ok {
						n.rename[o] = cn
						locals = append(locals, o)
					}
				}
			}
		}
		return true
	})
	// never merge two variables that are in scope together
	all := make([]types.Object, 0, len(n.rename))
	for o := range n.rename {
		all = append(all, o)
	}
	sort.Slice(all, func(i, j int) bool { return all[i].Pos() < all[j].Pos() })
	for i, a := range all {
		for _, b := range all[:i] {
			if n.rename[a] == n.rename[b] && b.Parent() != nil && b.Parent().Contains(a.Pos()) {
				n.rename[a] = n.rename[a] + "_" + strconv.Itoa(i)
			}
		}
	}
	// (a) inline role-less once-defined locals used once in the next statement; (b) hoisted if-init; (c) inverted if
	n.rewriteLists(fd.Body)
	// identifiers (the declaration's own parameter list included), constants, selectors, struct literals
	astutil.Apply(fd, func(c *astutil.Cursor) bool {
		switch x := c.Node().(type) {
		case *ast.CompositeLit:
			n.canonLit(x)
		case *ast.BinaryExpr:
			n.canonCmp(c, x)
		}
		return true
	}, func(c *astutil.Cursor) bool {
		switch x := c.Node().(type) {
		case *ast.SelectorExpr:
			if sel, ok := info.Selections[x]; ok && sel.Kind() == types.FieldVal {
				if f, ok := sel.Obj().(*types.Var); ok {
					if cn := n.fieldName(f, sel.Recv()); cn != "" {
						x.Sel = &ast.Ident{Name: cn, NamePos: x.Sel.Pos()}
					}
				}
			}
			if id, ok := x.X.(*ast.Ident); ok {
				if pn, ok := info.Uses[id].(*types.PkgName); ok {
					// a constant of another package by value, otherwise the package's own name as qualifier
					if tv, ok := info.Types[x]; ok && tv.Value != nil && tv.Value.Kind() == constant.String {
						c.Replace(&ast.BasicLit{Kind: token.STRING, Value: strconv.Quote(constant.StringVal(tv.Value)), ValuePos: x.Pos()})
						return true
					}
					x.X = &ast.Ident{Name: pn.Imported().Name(), NamePos: id.Pos()}
				}
			}
		case *ast.Ident:
			if _, isField := c.Parent().(*ast.SelectorExpr); isField && c.Name() == "Sel" {
				return true
			}
			if kv, ok := c.Parent().(*ast.KeyValueExpr); ok && kv.Key == x {
				return true
			}
			o := info.Uses[x]
			if o == nil {
				o = info.Defs[x]
			}
			if cst, ok := o.(*types.Const); ok && cst.Val().Kind() == constant.String && cst.Pkg() != nil {
				c.Replace(&ast.BasicLit{Kind: token.STRING, Value: strconv.Quote(constant.StringVal(cst.Val())), ValuePos: x.Pos()})
				return true
			}
			if cn, ok := n.rename[o]; ok {
				c.Replace(&ast.Ident{Name: cn, NamePos: x.Pos()})
			}
		}
		return true
	})
}

// canonLit: &writer{pw, sync.WaitGroup{}, false, nil}  →  &writer{WriteCloser: pw}
func (n *c12Norm) canonLit(cl *ast.CompositeLit) {
	info := n.c.info
	t := info.TypeOf(cl)
	if t == nil {
		return
	}
	nt, ok := types.Unalias(t).(*types.Named)
	if !ok || nt.Obj().Pkg() != n.c.pkg {
		return
	}
	if _, ok := c12FieldNames[nt.Obj().Name()]; !ok {
		return
	}
	st, ok := nt.Underlying().(*types.Struct)
	if !ok {
		return
	}
	type fv struct {
		name string
		val  ast.Expr
	}
	var out []fv
	for i, el := range cl.Elts {
		var f *types.Var
		val := el
		if kv, ok := el.(*ast.KeyValueExpr); ok {
			id, ok := kv.Key.(*ast.Ident)
			if !ok {
				return
			}
			f, _ = info.Uses[id].(*types.Var)
			val = kv.Value
		} else if i < st.NumFields() {
			f = st.Field(i)
		}
		if f == nil {
			return
		}
		name := n.fieldName(f, nt)
		if name == "" {
			name = f.Name()
		}
		if isZeroValueExpr(info, val) {
			continue
		}
		out = append(out, fv{name, val})
	}
	sort.Slice(out, func(i, j int) bool { return out[i].name < out[j].name })
	cl.Elts = nil
	for _, x := range out {
		cl.Elts = append(cl.Elts, &ast.KeyValueExpr{Key: &ast.Ident{Name: x.name, NamePos: x.val.Pos()}, Colon: x.val.Pos(), Value: x.val})
	}
}

// canonCmp: nil != x → x != nil;  x == true → x
func (n *c12Norm) canonCmp(c *astutil.Cursor, b *ast.BinaryExpr) {
	info := n.c.info
	isNil := func(x ast.Expr) bool {
		id, ok := unparen(x).(*ast.Ident)
		if !ok {
			return false
		}
		_, isN := info.Uses[id].(*types.Nil)
		return isN
	}
	if (b.Op == token.EQL || b.Op == token.NEQ) && isNil(b.X) && !isNil(b.Y) {
		b.X, b.Y = b.Y, b.X
	}
	if b.Op == token.EQL {
		for _, pr := range [][2]ast.Expr{{b.X, b.Y}, {b.Y, b.X}} {
			if tv, ok := info.Types[pr[1]]; ok && tv.Value != nil && tv.Value.Kind() == constant.Bool && constant.BoolVal(tv.Value) {
				c.Replace(pr[0])
				return
			}
		}
	}
}

func (n *c12Norm) errCmpNil(cond ast.Expr, op token.Token) types.Object {
	info := n.c.info
	b, ok := unparen(cond).(*ast.BinaryExpr)
	if !ok || b.Op != op {
		return nil
	}
	for _, pr := range [][2]ast.Expr{{b.X, b.Y}, {b.Y, b.X}} {
		if id, ok := unparen(pr[1]).(*ast.Ident); ok {
			if _, isN := info.Uses[id].(*types.Nil); isN {
				if v, ok := unparen(pr[0]).(*ast.Ident); ok {
					if o, ok := info.Uses[v].(*types.Var); ok && isErrorType(o.Type()) {
						return o
					}
				}
			}
		}
	}
	return nil
}

// rewriteLists applies the statement-level normalisations to every statement list of the body
func (n *c12Norm) rewriteLists(body *ast.BlockStmt) {
	info := n.c.info
	// uses of each object
	uses := map[types.Object]int{}
	ast.Inspect(body, func(x ast.Node) bool {
		if id, ok := x.(*ast.Ident); ok {
			if o := info.Uses[id]; o != nil {
				uses[o]++
			}
		}
		return true
	})
	var fix func(list []ast.Stmt) []ast.Stmt
	fix = func(list []ast.Stmt) []ast.Stmt {
		// (c') `if e == nil { S…; return … }; T…; return …`  →  `if e != nil { T…; return … }; S…; return …`
		for i, s := range list {
			st, ok := s.(*ast.IfStmt)
			if !ok || st.Else != nil || st.Init != nil || n.errCmpNil(st.Cond, token.EQL) == nil || i+1 >= len(list) || len(st.Body.List) == 0 {
				continue
			}
			if _, isRet := st.Body.List[len(st.Body.List)-1].(*ast.ReturnStmt); !isRet {
				continue
			}
			if _, isRet := list[len(list)-1].(*ast.ReturnStmt); !isRet {
				continue
			}
			rest := append([]ast.Stmt(nil), list[i+1:]...)
			unparen(st.Cond).(*ast.BinaryExpr).Op = token.NEQ
			then := st.Body.List
			st.Body = &ast.BlockStmt{List: rest}
			list = append(append(append([]ast.Stmt(nil), list[:i]...), st), then...)
			break
		}
		var out []ast.Stmt
		for i := 0; i < len(list); i++ {
			s := list[i]
			// (a) role-less local defined once, used once, in the next statement: substitute
			if a, ok := s.(*ast.AssignStmt); ok && a.Tok == token.DEFINE && len(a.Lhs) == 1 && len(a.Rhs) == 1 && i+1 < len(list) {
				if id, ok := a.Lhs[0].(*ast.Ident); ok {
					o := info.Defs[id]
					if _, hasRole := n.rename[o]; o != nil && !hasRole && uses[o] == 1 {
						replaced := false
						list[i+1] = astutil.Apply(list[i+1], func(c *astutil.Cursor) bool {
							if u, ok := c.Node().(*ast.Ident); ok && info.Uses[u] == o && !replaced {
								c.Replace(a.Rhs[0])
								replaced = true
								return false
							}
							return true
						}, nil).(ast.Stmt)
						if replaced {
							continue
						}
					}
				}
			}
			// (b) e := f(); if e != nil … → if e := f(); e != nil …
			if a, ok := s.(*ast.AssignStmt); ok && a.Tok == token.DEFINE && len(a.Lhs) == 1 && len(a.Rhs) == 1 && i+1 < len(list) {
				if id, ok := a.Lhs[0].(*ast.Ident); ok {
					if o, ok := info.Defs[id].(*types.Var); ok && isErrorType(o.Type()) {
						if is, ok := list[i+1].(*ast.IfStmt); ok && is.Init == nil && (n.errCmpNil(is.Cond, token.NEQ) == o || n.errCmpNil(is.Cond, token.EQL) == o) {
							// only when the variable is not used after the if
							usedLater := false
							for _, later := range list[i+2:] {
								ast.Inspect(later, func(x ast.Node) bool {
									if u, ok := x.(*ast.Ident); ok && info.Uses[u] == o {
										usedLater = true
									}
									return !usedLater
								})
							}
							if !usedLater {
								is.Init = a
								continue
							}
						}
					}
				}
			}
			out = append(out, s)
		}
		for _, s := range out {
			switch st := s.(type) {
			case *ast.IfStmt:
				// (c) if e == nil { A } else { B }  →  if e != nil { B } else { A }
				if eb, ok := st.Else.(*ast.BlockStmt); ok && n.errCmpNil(st.Cond, token.EQL) != nil {
					b := unparen(st.Cond).(*ast.BinaryExpr)
					b.Op = token.NEQ
					st.Body, st.Else = eb, st.Body
				}
				st.Body.List = fix(st.Body.List)
				if eb, ok := st.Else.(*ast.BlockStmt); ok {
					eb.List = fix(eb.List)
				}
			case *ast.BlockStmt:
				st.List = fix(st.List)
			case *ast.ForStmt:
				st.Body.List = fix(st.Body.List)
			case *ast.RangeStmt:
				st.Body.List = fix(st.Body.List)
			}
			ast.Inspect(s, func(x ast.Node) bool {
				if fl, ok := x.(*ast.FuncLit); ok {
					fl.Body.List = fix(fl.Body.List)
					return false
				}
				return true
			})
		}
		return out
	}
	body.List = fix(body.List)
}

// ---- atoms ----

type c12Walker struct{ fset *token.FileSet }

func (c *c12Walker) text(n ast.Node) string { return nodeText(c.fset, n) }

// stripPos makes every position below n the same: the rewritten tree mixes nodes from different places, and go/printer lays a
// node out by its positions; without positions it prints the canonical layout
func stripPos(n ast.Node) {
	ast.Inspect(n, func(x ast.Node) bool {
		if x == nil {
			return true
		}
		v := reflect.ValueOf(x)
		if v.Kind() != reflect.Ptr || v.IsNil() {
			return true
		}
		v = v.Elem()
		if v.Kind() != reflect.Struct {
			return true
		}
		for i := 0; i < v.NumField(); i++ {
			f := v.Field(i)
			if f.Type() == reflect.TypeOf(token.NoPos) && f.CanSet() && f.Int() != 0 {
				f.SetInt(1) // "present" (an Ellipsis, a parenthesis) but the same place for every node
			}
		}
		return true
	})
}

func (c *c12Walker) list(stmts []ast.Stmt) []string {
	var out []string
	for i := 0; i < len(stmts); i++ {
		s := stmts[i]
		txt := c.text(s)
		// `if z.err == nil { return err }` + `return z.err`   or   `if z.err != nil { return z.err }` + `return err`
		if i+1 < len(stmts) {
			nxt := c.text(stmts[i+1])
			if (txt == "if z.err == nil { return err }" && nxt == "return z.err") || (txt == "if z.err != nil { return z.err }" && nxt == "return err") {
				out = append(out, "returnStoredOrCloseErr")
				i++
				continue
			}
		}
		if a, ok := c12Leaf[txt]; ok {
			out = append(out, a)
			continue
		}
		// one-statement forms of the goroutine bodies: `pw.CloseWithError(<call>)` is `if err := <call>; err != nil { pw.CloseWithError(err) }
		// else { pw.Close() }` because io.PipeWriter.Close is CloseWithError(nil) (standard library, trusted base); `z.err = <call>` is
		// `if err := <call>; err != nil { z.err = err }` because z.err is nil in the writer mkWriter made and this is its only store
		for _, f := range [][3]string{{"pw.CloseWithError(", ")", "closeWithErrorElseClose"}, {"z.err = ", "", "storeErr"}} {
			if strings.HasPrefix(txt, f[0]) && strings.HasSuffix(txt, f[1]) {
				if m := c12CallRe.FindStringSubmatch("err := " + txt[len(f[0]):len(txt)-len(f[1])]); m != nil {
					dst, src := m[2], m[3]
					if m[4] != "" {
						dst, src = "rw", m[4]
					}
					out = append(out, fmt.Sprintf("callMinify %s %s", leanStr(dst), leanStr(src)), f[2])
					txt = ""
					break
				}
			}
		}
		if txt == "" {
			continue
		}
		// `_, params, minifier := w.m.Match(w.mediatype)` as its own statement followed by the two-armed if, either arm first
		if txt == "_, params, minifier := w.m.Match(w.mediatype)" && i+1 < len(stmts) {
			if st, ok := stmts[i+1].(*ast.IfStmt); ok && st.Init == nil {
				if els, ok := st.Else.(*ast.BlockStmt); ok {
					yes, no := st.Body.List, els.List
					cond := c.text(st.Cond)
					if cond == "minifier == nil" {
						yes, no, cond = no, yes, "minifier != nil"
					}
					if cond == "minifier != nil" {
						out = append(out, "matchBegin")
						out = append(out, c.list(yes)...)
						out = append(out, "matchElse")
						out = append(out, c.list(no)...)
						out = append(out, "matchEnd")
						i++
						continue
					}
				}
			}
		}
		// the closer assertion written with an early return
		if (txt == "closer, ok := w.z.(io.Closer)" || txt == "closer, ok := w.z.(interface{ Close() error })" || txt == "closer, ok := w.z.(interface { Close() error })") &&
			i+2 < len(stmts) && c.text(stmts[i+1]) == "if !ok { return nil }" && c.text(stmts[i+2]) == "return closer.Close()" {
			out = append(out, "closeIfCloser", "returnNil")
			i += 2
			continue
		}
		switch st := s.(type) {
		case *ast.GoStmt:
			if fl, ok := st.Call.Fun.(*ast.FuncLit); ok && len(st.Call.Args) == 0 && len(fl.Type.Params.List) == 0 {
				out = append(out, "goBegin")
				out = append(out, c.list(fl.Body.List)...)
				out = append(out, "goEnd")
				continue
			}
		case *ast.IfStmt:
			if st.Init != nil {
				it := c.text(st.Init)
				cond := c.text(st.Cond)
				if m := c12CallRe.FindStringSubmatch(it); m != nil && cond == "err != nil" {
					dst, src := m[2], m[3]
					if m[4] != "" {
						dst, src = "rw", m[4]
					}
					body := c.text(st.Body)
					switch {
					case st.Else == nil && body == "{ z.err = err }":
						out = append(out, fmt.Sprintf("callMinify %s %s", leanStr(dst), leanStr(src)), "storeErr")
						continue
					case st.Else != nil && body == "{ pw.CloseWithError(err) }" && c.text(st.Else) == "{ pw.Close() }":
						out = append(out, fmt.Sprintf("callMinify %s %s", leanStr(dst), leanStr(src)), "closeWithErrorElseClose")
						continue
					}
				}
				if it == "_, params, minifier := w.m.Match(w.mediatype)" && cond == "minifier != nil" {
					if els, ok := st.Else.(*ast.BlockStmt); ok {
						out = append(out, "matchBegin")
						out = append(out, c.list(st.Body.List)...)
						out = append(out, "matchElse")
						out = append(out, c.list(els.List)...)
						out = append(out, "matchEnd")
						continue
					}
				}
			} else if c.text(st.Cond) == "w.z == nil" && st.Else == nil {
				out = append(out, "firstWriteBegin")
				out = append(out, c.list(st.Body.List)...)
				out = append(out, "firstWriteEnd")
				continue
			}
		case *ast.ReturnStmt:
			// return http.HandlerFunc(func(w http.ResponseWriter, r *http.Request) { … })
			if len(st.Results) == 1 {
				if call, ok := st.Results[0].(*ast.CallExpr); ok && len(call.Args) == 1 && c.text(call.Fun) == "http.HandlerFunc" {
					if fl, ok := call.Args[0].(*ast.FuncLit); ok && c.text(fl.Type) == "func(w http.ResponseWriter, r *http.Request)" {
						out = append(out, "handlerBegin")
						out = append(out, c.list(fl.Body.List)...)
						out = append(out, "handlerEnd")
						continue
					}
				}
			}
		}
		t := txt
		if len(t) > 100 {
			t = t[:100] + "…"
		}
		out = append(out, "other "+leanStr(t))
	}
	return out
}

// ---- ownership of returned memory ----

var c12FreshAlloc = regexp.MustCompile(`^(buffer\.NewWriter\(make\(\[\]byte, .*\)\)|bytes\.NewBuffer\((make\(\[\]byte, .*\)|nil)\)|&bytes\.Buffer\{\}|new\(bytes\.Buffer\)|&buffer\.Writer\{\}|bytes\.Buffer\{\})$`)

var c12BufMethods = map[string]bool{"Bytes": true, "Len": true, "String": true, "Write": true, "WriteByte": true, "WriteString": true, "Reset": true}

// bufOfBytesCall: e is `X.Bytes()` (or `X.String()` when str) with X an identifier
func c12BufOf(e ast.Expr, method string) (string, bool) {
	call, ok := e.(*ast.CallExpr)
	if !ok || len(call.Args) != 0 {
		return "", false
	}
	sel, ok := call.Fun.(*ast.SelectorExpr)
	if !ok || sel.Sel.Name != method {
		return "", false
	}
	id, ok := sel.X.(*ast.Ident)
	if !ok {
		return "", false
	}
	return id.Name, true
}

// c12RetExpr classifies result 0 of a return; buf is the buffer variable it refers to ("" if none)
func (c *c12Walker) retExpr(e ast.Expr, input string) (atom, buf string) {
	if id, ok := e.(*ast.Ident); ok && id.Name == input {
		return "RetExpr.input", ""
	}
	if x, ok := c12BufOf(e, "Bytes"); ok {
		return "RetExpr.bufBytes", x
	}
	if x, ok := c12BufOf(e, "String"); ok { // bytes.Buffer.String copies
		return "RetExpr.copyOfBuf", x
	}
	if call, ok := e.(*ast.CallExpr); ok {
		fn := c.text(call.Fun)
		switch {
		case (fn == "string" || fn == "parse.Copy" || fn == "bytes.Clone" || fn == "slices.Clone") && len(call.Args) == 1:
			if x, ok := c12BufOf(call.Args[0], "Bytes"); ok {
				return "RetExpr.copyOfBuf", x
			}
		case fn == "append" && len(call.Args) == 2 && call.Ellipsis.IsValid():
			a0 := c.text(call.Args[0])
			if x, ok := c12BufOf(call.Args[1], "Bytes"); ok && (a0 == "[]byte(nil)" || a0 == "[]byte{}") {
				return "RetExpr.copyOfBuf", x
			}
		}
	}
	return "RetExpr.other " + leanStr(c12Clip(c.text(e))), ""
}

func c12Clip(t string) string {
	if len(t) > 100 {
		t = t[:100] + "…"
	}
	return t
}

// bufOrigin: where the local `name` of fd comes from and whether it stays inside the call
func (c *c12Walker) bufOrigin(fd *ast.FuncDecl, name string) string {
	shared := func(why string) string { return "BufOrigin.shared " + leanStr(c12Clip(why)) }
	if name == "" {
		return shared("no output buffer recognised")
	}
	declText, fresh, ndecl := "", false, 0
	var declIdent *ast.Ident
	var stack []ast.Node
	escape := ""
	ast.Inspect(fd.Body, func(n ast.Node) bool {
		if n == nil {
			stack = stack[:len(stack)-1]
			return true
		}
		stack = append(stack, n)
		switch st := n.(type) {
		case *ast.AssignStmt:
			for i, l := range st.Lhs {
				if id, ok := l.(*ast.Ident); ok && id.Name == name {
					if st.Tok == token.DEFINE && len(st.Lhs) == 1 && len(st.Rhs) == 1 && i == 0 {
						ndecl++
						declIdent = id
						declText = c.text(st)
						fresh = c12FreshAlloc.MatchString(c.text(st.Rhs[0]))
					} else if escape == "" {
						escape = "re-assigned: " + c.text(st)
					}
				}
			}
		case *ast.ValueSpec:
			for _, id := range st.Names {
				if id.Name == name {
					ndecl++
					declIdent = id
					declText = "var " + c.text(st)
					t := ""
					if st.Type != nil {
						t = c.text(st.Type)
					}
					fresh = len(st.Values) == 0 && (t == "bytes.Buffer" || t == "buffer.Writer")
				}
			}
		}
		return true
	})
	if ndecl != 1 {
		return shared(fmt.Sprintf("%s is not a local declared once in this function (parameter, package-level variable or field)", name))
	}
	if !fresh {
		return shared(declText)
	}
	// every other use must keep the buffer inside the call
	stack = stack[:0]
	ast.Inspect(fd.Body, func(n ast.Node) bool {
		if n == nil {
			stack = stack[:len(stack)-1]
			return true
		}
		stack = append(stack, n)
		id, ok := n.(*ast.Ident)
		if !ok || id.Name != name || id == declIdent || escape != "" {
			return true
		}
		up := func(k int) ast.Node {
			if len(stack) > k {
				return stack[len(stack)-1-k]
			}
			return nil
		}
		stmt := func() string {
			for i := len(stack) - 1; i >= 0; i-- {
				if s, ok := stack[i].(ast.Stmt); ok {
					return c.text(s)
				}
			}
			return name
		}
		for _, a := range stack {
			switch a.(type) {
			case *ast.FuncLit, *ast.DeferStmt, *ast.GoStmt:
				escape = "used in a closure / defer / go statement: " + stmt()
				return true
			}
		}
		cur, parent := ast.Node(id), up(1)
		if u, ok := parent.(*ast.UnaryExpr); ok && u.Op == token.AND { // &out
			cur, parent = u, up(2)
		}
		switch p := parent.(type) {
		case *ast.SelectorExpr:
			if p.X == cur && c12BufMethods[p.Sel.Name] {
				if call, ok := up(2).(*ast.CallExpr); ok && call.Fun == ast.Expr(p) {
					return true
				}
			}
			if p.Sel == id { // a field or method called `name` of something else
				return true
			}
		case *ast.CallExpr:
			fn := c.text(p.Fun)
			if (fn == "m.Minify" && len(p.Args) == 3 || fn == "m.MinifyMimetype" && len(p.Args) == 4) && p.Args[1] == cur {
				return true
			}
		}
		escape = "escapes: " + stmt()
		return true
	})
	if escape != "" {
		return shared(escape)
	}
	return "BufOrigin.freshLocal " + leanStr(c12Clip(declText))
}

// retFact renders the RetFact of one of Bytes / String
func (c *c12Walker) retFact(fd *ast.FuncDecl, label string) (string, error) {
	if fd.Type.Params == nil || len(fd.Type.Params.List) != 2 || len(fd.Type.Params.List[1].Names) != 1 {
		return "", fmt.Errorf("%s: expected parameters (mediatype string, v T)", label)
	}
	input := fd.Type.Params.List[1].Names[0].Name
	var rets []string
	buf, mixed := "", false
	var walk func(n ast.Node) bool
	walk = func(n ast.Node) bool {
		switch st := n.(type) {
		case *ast.FuncLit:
			return false
		case *ast.ReturnStmt:
			if len(st.Results) == 0 {
				rets = append(rets, "RetExpr.other "+leanStr("naked return"))
				return true
			}
			a, b := c.retExpr(st.Results[0], input)
			rets = append(rets, a)
			if b != "" {
				if buf != "" && buf != b {
					mixed = true
				}
				buf = b
			}
		}
		return true
	}
	ast.Inspect(fd.Body, walk)
	origin := c.bufOrigin(fd, buf)
	if mixed {
		origin = "BufOrigin.shared " + leanStr("several different buffers are returned")
	}
	return fmt.Sprintf("  { func := %s, buf := %s, returns := [%s] }", leanStr(label), origin, strings.Join(rets, ", ")), nil
}

// readerUses classifies every use of the io.Reader parameter in the function body (shared typed AST, by object).
func c12ReaderUses(e *tenv, p *packages.Package, fd *ast.FuncDecl, robj types.Object) []string {
	info := p.TypesInfo
	var uses []string
	var stack []ast.Node
	ast.Inspect(fd.Body, func(n ast.Node) bool {
		if n == nil {
			stack = stack[:len(stack)-1]
			return true
		}
		stack = append(stack, n)
		id, ok := n.(*ast.Ident)
		if !ok || info.Uses[id] != robj {
			return true
		}
		kind := "other " + leanStr(c14Src(e.r.Fset, stack[max(0, len(stack)-3)]))
		if len(stack) >= 2 {
			if call, ok := stack[len(stack)-2].(*ast.CallExpr); ok {
				isArg := false
				for _, a := range call.Args {
					if a == ast.Expr(id) {
						isArg = true
					}
				}
				if isArg {
					fn := calleeOf(info, call)
					switch {
					case fn != nil && fn.Pkg() != nil && fn.Pkg().Path() == "github.com/tdewolff/parse/v2" && fn.Name() == "NewInput" && len(call.Args) == 1:
						kind = "newInput"
					default:
						kind = "passOn"
						if len(stack) >= 3 {
							if _, ok := stack[len(stack)-3].(*ast.ReturnStmt); ok {
								kind = "passOnReturn"
							}
						}
					}
				}
			}
		}
		uses = append(uses, kind)
		return true
	})
	return uses
}

func init() {
	gen("Wrappers", func(r *Repo) (string, error) {
		e, err := r.TEnv()
		if err != nil {
			return "", err
		}
		cp, err := c12PrivateCopy(e, ".")
		if err != nil {
			return "", err
		}
		c := &c12Walker{fset: cp.fset}
		var sb strings.Builder
		sb.WriteString("import Verif.Base.SkelIR\nimport Verif.Base.SkelOwn\n")
		sb.WriteString(header("Wrappers", "/repo/minify.go (wrapper functions) and the Minify methods of all library packages"))
		sb.WriteString("open Verif.Skel Verif.Skel.WAtom\n\n")
		funcs := []struct{ field, recv, name string }{
			{"reader", "M", "Reader"}, {"writer", "M", "Writer"}, {"writerClose", "writer", "Close"},
			{"rwWriteHeader", "responseWriter", "WriteHeader"}, {"rwWrite", "responseWriter", "Write"}, {"rwClose", "responseWriter", "Close"},
			{"responseWriter", "M", "ResponseWriter"}, {"middleware", "M", "Middleware"}, {"middlewareWithError", "M", "MiddlewareWithError"},
			{"bytes", "M", "Bytes"}, {"string", "M", "String"},
		}
		normalised := map[string]*ast.FuncDecl{}
		sb.WriteString("def skel : WSkel :=\n  {")
		for i, f := range funcs {
			fd, err := cp.funcDecl(f.recv, f.name)
			if err != nil {
				return "", err
			}
			n := &c12Norm{c: cp}
			n.normalise(fd, f.recv+"."+f.name)
			stripPos(fd)
			normalised[f.name] = fd
			atoms := c.list(fd.Body.List)
			if i > 0 {
				sb.WriteString("\n   ")
			}
			fmt.Fprintf(&sb, " %s := [%s]", f.field, strings.Join(atoms, ", "))
		}
		sb.WriteString(" }\n\n")
		// InputUses
		type fn struct{ rel, recv, name, label string }
		var fns []fn
		for _, p := range c14Pkgs {
			fns = append(fns, fn{p, "Minifier", "Minify", p + ".(*Minifier).Minify"}, fn{p, "", "Minify", p + ".Minify"})
		}
		fns = append(fns, fn{".", "M", "Minify", "minify.(*M).Minify"}, fn{".", "M", "MinifyMimetype", "minify.(*M).MinifyMimetype"}, fn{".", "MinifierFunc", "Minify", "minify.MinifierFunc.Minify"})
		sb.WriteString("def inputUses : List InputUse := [\n")
		for i, f := range fns {
			fd, p, err := e.FuncDecl(f.rel, f.recv, f.name)
			if err != nil {
				return "", err
			}
			// the reader parameter: the one of type io.Reader
			var robj types.Object
			for _, pf := range fd.Type.Params.List {
				for _, id := range pf.Names {
					if o, ok := p.TypesInfo.Defs[id].(*types.Var); ok {
						if nt, ok := types.Unalias(o.Type()).(*types.Named); ok && nt.Obj().Name() == "Reader" && nt.Obj().Pkg() != nil && nt.Obj().Pkg().Path() == "io" {
							robj = o
						}
					}
				}
			}
			if robj == nil {
				return "", fmt.Errorf("%s: no io.Reader parameter", f.label)
			}
			uses := c12ReaderUses(e, p, fd, robj)
			sep := ","
			if i == len(fns)-1 {
				sep = ""
			}
			fmt.Fprintf(&sb, "  { func := %s, uses := [%s] }%s\n", leanStr(f.label), strings.Join(prefixAll(uses, "RUse."), ", "), sep)
		}
		sb.WriteString("]\n\n")
		// RetFacts (on the normal form: canonical names, so `m.Minify`, `out`, `v` are what they denote, not how they are spelled)
		sb.WriteString("def retFacts : List RetFact := [\n")
		for i, name := range []string{"Bytes", "String"} {
			line, err := c.retFact(normalised[name], name)
			if err != nil {
				return "", err
			}
			if i == 0 {
				line += ","
			}
			sb.WriteString(line + "\n")
		}
		sb.WriteString("]\n")
		sb.WriteString(footer("Wrappers"))
		return sb.String(), nil
	})
}

func prefixAll(xs []string, p string) []string {
	out := make([]string, len(xs))
	for i, x := range xs {
		out[i] = p + x
	}
	return out
}

package main

// C02: reserved words of the renamer.  `newRenamer` copies every key of the dependency's `js.Keywords` map
// (parse/v2/js/table.go) into `renamer.reserved`; the table is re-read from the module version that /repo's
// go.mod selects.  Output: lean/Verif/Gen/JsKeywords.lean (sorted).

import (
	"fmt"
	"go/ast"
	"go/parser"
	"go/token"
	"go/types"
	"os"
	"os/exec"
	"path/filepath"
	"sort"
	"strconv"
	"strings"

	"golang.org/x/tools/go/packages"
)

// depDir returns the source directory of a dependency module of /repo.
func depDir(r *Repo, module string) (string, error) {
	cmd := exec.Command("go", "list", "-m", "-f", "{{.Dir}}", module)
	cmd.Dir = r.Dir
	cmd.Env = append(os.Environ(), "GOFLAGS=-mod=mod", "GOPROXY=off", "GOSUMDB=off", "GOTOOLCHAIN=local")
	out, err := cmd.Output()
	if err != nil {
		return "", fmt.Errorf("go list -m %s: %v", module, err)
	}
	d := strings.TrimSpace(string(out))
	if d == "" {
		return "", fmt.Errorf("module %s has no directory", module)
	}
	return d, nil
}

func leanChars(s string) string {
	q := make([]string, 0, len(s))
	for _, c := range []byte(s) {
		switch {
		case c == '\'' || c == '\\':
			q = append(q, "'\\"+string(c)+"'")
		case c < 0x20 || c >= 0x7f:
			q = append(q, fmt.Sprintf("'\\x%02x'", c))
		default:
			q = append(q, "'"+string(c)+"'")
		}
	}
	return "[" + strings.Join(q, ",") + "]"
}

func init() {
	gen("JsKeywords", func(r *Repo) (string, error) {
		dir, err := depDir(r, "github.com/tdewolff/parse/v2")
		if err != nil {
			return "", err
		}
		// the renamer must still take its reserved words from js.Keywords: some `range` in newRenamer iterates over that
		// variable of the dependency — named through any import name, or handed through a local in-repo function whose body
		// is a single `return` of it (resolved with go/types, so a rename or a helper does not matter)
		te, err := r.TEnv()
		if err != nil {
			return "", err
		}
		fd, p, err := te.FuncDecl("js", "", "newRenamer")
		if err != nil {
			return "", err
		}
		var isKeywords func(p *packages.Package, x ast.Expr, depth int) bool
		isKeywords = func(p *packages.Package, x ast.Expr, depth int) bool {
			x = unparen(x)
			switch v := x.(type) {
			case *ast.Ident, *ast.SelectorExpr:
				id, _ := v.(*ast.Ident)
				if s, ok := v.(*ast.SelectorExpr); ok {
					id = s.Sel
				}
				o, ok := p.TypesInfo.Uses[id].(*types.Var)
				return ok && o.Name() == "Keywords" && o.Pkg() != nil && o.Pkg().Path() == "github.com/tdewolff/parse/v2/js" && o.Parent() == o.Pkg().Scope()
			case *ast.CallExpr:
				if fn := calleeOf(p.TypesInfo, v); fn != nil && depth < 4 {
					if ref, ok := te.funcIndex()[fn]; ok && ref.decl.Body != nil && len(ref.decl.Body.List) == 1 {
						if ret, ok := ref.decl.Body.List[0].(*ast.ReturnStmt); ok && len(ret.Results) == 1 {
							return isKeywords(ref.pkg, ret.Results[0], depth+1)
						}
					}
				}
			}
			return false
		}
		usesKeywords := false
		ast.Inspect(fd, func(n ast.Node) bool {
			if rs, ok := n.(*ast.RangeStmt); ok && isKeywords(p, rs.X, 0) {
				usesKeywords = true
			}
			return true
		})
		if !usesKeywords {
			return "", fmt.Errorf("js/vars.go newRenamer no longer ranges over js.Keywords")
		}
		f, err := parser.ParseFile(token.NewFileSet(), filepath.Join(dir, "js", "table.go"), nil, 0)
		if err != nil {
			return "", err
		}
		var keys []string
		for _, d := range f.Decls {
			gd, ok := d.(*ast.GenDecl)
			if !ok || gd.Tok != token.VAR {
				continue
			}
			for _, s := range gd.Specs {
				vs := s.(*ast.ValueSpec)
				for i, n := range vs.Names {
					if n.Name != "Keywords" || i >= len(vs.Values) {
						continue
					}
					cl, ok := vs.Values[i].(*ast.CompositeLit)
					if !ok {
						return "", fmt.Errorf("js.Keywords is not a composite literal")
					}
					for _, e := range cl.Elts {
						kv, ok := e.(*ast.KeyValueExpr)
						if !ok {
							return "", fmt.Errorf("js.Keywords: unexpected element")
						}
						bl, ok := kv.Key.(*ast.BasicLit)
						if !ok || bl.Kind != token.STRING {
							return "", fmt.Errorf("js.Keywords: non-literal key")
						}
						k, err := strconv.Unquote(bl.Value)
						if err != nil {
							return "", err
						}
						keys = append(keys, k)
					}
				}
			}
		}
		if len(keys) == 0 {
			return "", fmt.Errorf("js.Keywords not found in %s", dir)
		}
		sort.Strings(keys)
		var b strings.Builder
		b.WriteString(header("JsKeywords", "parse/v2 js/table.go (Keywords), used by /repo js/vars.go newRenamer"))
		b.WriteString("/-- keys of `js.Keywords`, sorted -/\ndef keywords : List (List Char) := [\n")
		for i, k := range keys {
			sep := ","
			if i == len(keys)-1 {
				sep = ""
			}
			fmt.Fprintf(&b, "  %s%s -- %s\n", leanChars(k), sep, k)
		}
		b.WriteString("]\n")
		b.WriteString(footer("JsKeywords"))
		return b.String(), nil
	})
}

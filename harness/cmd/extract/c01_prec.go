package main

// C01 — the operator precedence tables of js/util.go and the numeric order of js.OpPrec in the
// dependency parse/v2/js/table.go, regenerated as lean/Verif/Gen/JsPrecTables.lean.
// A Go map lookup of a missing key yields the zero value (OpExpr = 0); the Lean side reproduces
// that with `lookupD 0`, so a removed row changes the model's behaviour and the `decide` facts.

import (
	"fmt"
	"go/ast"
	"go/parser"
	"go/token"
	"os/exec"
	"path/filepath"
	"sort"
	"strings"
)

func c01DepDir(r *Repo) (string, error) {
	cmd := exec.Command("go", "list", "-m", "-f", "{{.Dir}}", "github.com/tdewolff/parse/v2")
	cmd.Dir = r.Dir
	cmd.Env = append(cmd.Environ(), "GOFLAGS=-mod=mod", "GOPROXY=off", "GOSUMDB=off", "GOTOOLCHAIN=local")
	out, err := cmd.Output()
	if err != nil {
		return "", fmt.Errorf("cannot locate dependency parse/v2: %v", err)
	}
	return strings.TrimSpace(string(out)), nil
}

// c01OpPrecOrder reads the `const ( OpExpr OpPrec = iota … )` block.
func c01OpPrecOrder(dep string) ([]string, error) {
	fset := token.NewFileSet()
	f, err := parser.ParseFile(fset, filepath.Join(dep, "js", "table.go"), nil, 0)
	if err != nil {
		return nil, err
	}
	for _, d := range f.Decls {
		gd, ok := d.(*ast.GenDecl)
		if !ok || gd.Tok != token.CONST || len(gd.Specs) == 0 {
			continue
		}
		first := gd.Specs[0].(*ast.ValueSpec)
		id, ok := first.Type.(*ast.Ident)
		if !ok || id.Name != "OpPrec" || len(first.Values) != 1 {
			continue
		}
		if v, ok := first.Values[0].(*ast.Ident); !ok || v.Name != "iota" {
			return nil, fmt.Errorf("OpPrec const block does not start with iota")
		}
		var names []string
		for i, s := range gd.Specs {
			vs := s.(*ast.ValueSpec)
			if len(vs.Names) != 1 || (i > 0 && (vs.Type != nil || len(vs.Values) != 0)) {
				return nil, fmt.Errorf("OpPrec const block: unexpected spec shape at %d", i)
			}
			names = append(names, vs.Names[0].Name)
		}
		return names, nil
	}
	return nil, fmt.Errorf("OpPrec const block not found in js/table.go")
}

func c01Map(r *Repo, name string, order map[string]int) (string, error) {
	e, err := r.FindVar("js", name)
	if err != nil {
		return "", err
	}
	cl, ok := e.(*ast.CompositeLit)
	if !ok {
		return "", fmt.Errorf("js.%s is not a composite literal", name)
	}
	if mt, ok := cl.Type.(*ast.MapType); !ok || fmt.Sprint(mt.Key.(*ast.SelectorExpr).Sel.Name) != "TokenType" {
		return "", fmt.Errorf("js.%s is not a map[js.TokenType]js.OpPrec literal", name)
	}
	type row struct {
		k string
		v int
	}
	var rows []row
	seen := map[string]bool{}
	for _, el := range cl.Elts {
		kv, ok := el.(*ast.KeyValueExpr)
		if !ok {
			return "", fmt.Errorf("js.%s: element is not key:value", name)
		}
		ks, ok1 := kv.Key.(*ast.SelectorExpr)
		vs, ok2 := kv.Value.(*ast.SelectorExpr)
		if !ok1 || !ok2 {
			return "", fmt.Errorf("js.%s: key/value is not a js.X selector", name)
		}
		p, ok := order[vs.Sel.Name]
		if !ok {
			return "", fmt.Errorf("js.%s: unknown precedence %s", name, vs.Sel.Name)
		}
		if seen[ks.Sel.Name] {
			return "", fmt.Errorf("js.%s: duplicate key %s", name, ks.Sel.Name)
		}
		seen[ks.Sel.Name] = true
		rows = append(rows, row{ks.Sel.Name, p})
	}
	sort.Slice(rows, func(i, j int) bool { return rows[i].k < rows[j].k })
	var sb strings.Builder
	fmt.Fprintf(&sb, "def %s : List (String × Nat) := [\n", name)
	for i, rw := range rows {
		sep := ","
		if i == len(rows)-1 {
			sep = ""
		}
		fmt.Fprintf(&sb, "  (%s, %d)%s\n", leanStr(rw.k), rw.v, sep)
	}
	sb.WriteString("]\n\n")
	return sb.String(), nil
}

func init() {
	gen("JsPrecTables", func(r *Repo) (string, error) {
		dep, err := c01DepDir(r)
		if err != nil {
			return "", err
		}
		names, err := c01OpPrecOrder(dep)
		if err != nil {
			return "", err
		}
		order := map[string]int{}
		for i, n := range names {
			order[n] = i
		}
		var sb strings.Builder
		sb.WriteString(header("JsPrecTables", "js/util.go (precedence maps) and parse/v2/js/table.go (OpPrec order)"))
		fmt.Fprintf(&sb, "/-- numeric precedence = index in this list (the iota order of js.OpPrec) -/\ndef opPrecOrder : List String := %s\n\n", leanStrList(names))
		for _, m := range []string{"unaryPrecMap", "binaryLeftPrecMap", "binaryRightPrecMap", "unaryOpPrecMap", "binaryOpPrecMap"} {
			s, err := c01Map(r, m, order)
			if err != nil {
				return "", err
			}
			sb.WriteString(s)
		}
		sb.WriteString(footer("JsPrecTables"))
		return sb.String(), nil
	})
}

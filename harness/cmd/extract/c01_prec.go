package main

// C01 — the operator precedence tables of js/util.go and the numeric order of js.OpPrec in the
// dependency parse/v2/js/table.go, regenerated as lean/Verif/Gen/JsPrecTables.lean.
// A Go map lookup of a missing key yields the zero value (OpExpr = 0); the Lean side reproduces
// that with `lookupD 0`, so a removed row changes the model's behaviour and the `decide` facts.

import (
	"fmt"
	"go/ast"
	"go/parser"
	"go/token"
	"go/types"
	"os/exec"
	"path/filepath"
	"sort"
	"strings"
)

func c01DepDir(r *Repo) (string, error) {
	cmd := exec.Command("go", "list", "-m", "-f", "{{.Dir}}", "github.com/tdewolff/parse/v2")
	cmd.Dir = r.Dir
	cmd.Env = append(cmd.Environ(), "GOFLAGS=-mod=mod", "GOPROXY=off", "GOSUMDB=off", "GOTOOLCHAIN=local")
	out, err := cmd.Output()
	if err != nil {
		return "", fmt.Errorf("cannot locate dependency parse/v2: %v", err)
	}
	return strings.TrimSpace(string(out)), nil
}

// c01OpPrecOrder reads the `const ( OpExpr OpPrec = iota … )` block.
func c01OpPrecOrder(dep string) ([]string, error) {
	fset := token.NewFileSet()
	f, err := parser.ParseFile(fset, filepath.Join(dep, "js", "table.go"), nil, 0)
	if err != nil {
		return nil, err
	}
	for _, d := range f.Decls {
		gd, ok := d.(*ast.GenDecl)
		if !ok || gd.Tok != token.CONST || len(gd.Specs) == 0 {
			continue
		}
		first := gd.Specs[0].(*ast.ValueSpec)
		id, ok := first.Type.(*ast.Ident)
		if !ok || id.Name != "OpPrec" || len(first.Values) != 1 {
			continue
		}
		if v, ok := first.Values[0].(*ast.Ident); !ok || v.Name != "iota" {
			return nil, fmt.Errorf("OpPrec const block does not start with iota")
		}
		var names []string
		for i, s := range gd.Specs {
			vs := s.(*ast.ValueSpec)
			if len(vs.Names) != 1 || (i > 0 && (vs.Type != nil || len(vs.Values) != 0)) {
				return nil, fmt.Errorf("OpPrec const block: unexpected spec shape at %d", i)
			}
			names = append(names, vs.Names[0].Name)
		}
		return names, nil
	}
	return nil, fmt.Errorf("OpPrec const block not found in js/table.go")
}

// c01Map: keys are constants of the dependency's js.TokenType (named through whatever import name, alias constant or
// value the source uses), values constants of js.OpPrec; the row is (name of the TokenType constant, numeric precedence).
func c01Map(r *Repo, name string, order map[string]int) (string, error) {
	e, err := r.TEnv()
	if err != nil {
		return "", err
	}
	kvs, p, mt, err := e.MapVar("js", name)
	if err != nil {
		return "", err
	}
	isDep := func(t types.Type, want string) bool {
		n, ok := types.Unalias(t).(*types.Named)
		return ok && n.Obj().Name() == want && n.Obj().Pkg() != nil && n.Obj().Pkg().Path() == "github.com/tdewolff/parse/v2/js"
	}
	if !isDep(mt.Key(), "TokenType") || !isDep(mt.Elem(), "OpPrec") {
		return "", fmt.Errorf("js.%s is not a map[js.TokenType]js.OpPrec any more (%s)", name, mt)
	}
	tokNames, err := e.ConstNames(mt.Key())
	if err != nil {
		return "", err
	}
	type row struct {
		k string
		v int
	}
	var rows []row
	seen := map[string]bool{}
	for _, kv := range kvs {
		kn, err := e.Int(p, kv.Key)
		if err != nil {
			return "", fmt.Errorf("js.%s: key: %v", name, err)
		}
		k, ok := tokNames[kn]
		if !ok {
			return "", fmt.Errorf("js.%s: key %d is not a js.TokenType constant", name, kn)
		}
		v, err := e.Int(p, kv.Val)
		if err != nil {
			return "", fmt.Errorf("js.%s[%s]: %v", name, k, err)
		}
		if v < 0 || int(v) >= len(order) {
			return "", fmt.Errorf("js.%s[%s]: precedence %d is outside the js.OpPrec constants", name, k, v)
		}
		if seen[k] {
			return "", fmt.Errorf("js.%s: duplicate key %s", name, k)
		}
		seen[k] = true
		rows = append(rows, row{k, int(v)})
	}
	sort.Slice(rows, func(i, j int) bool { return rows[i].k < rows[j].k })
	var sb strings.Builder
	fmt.Fprintf(&sb, "def %s : List (String × Nat) := [\n", name)
	for i, rw := range rows {
		sep := ","
		if i == len(rows)-1 {
			sep = ""
		}
		fmt.Fprintf(&sb, "  (%s, %d)%s\n", leanStr(rw.k), rw.v, sep)
	}
	sb.WriteString("]\n\n")
	return sb.String(), nil
}

func init() {
	gen("JsPrecTables", func(r *Repo) (string, error) {
		dep, err := c01DepDir(r)
		if err != nil {
			return "", err
		}
		names, err := c01OpPrecOrder(dep)
		if err != nil {
			return "", err
		}
		order := map[string]int{}
		for i, n := range names {
			order[n] = i
		}
		var sb strings.Builder
		sb.WriteString(header("JsPrecTables", "js/util.go (precedence maps) and parse/v2/js/table.go (OpPrec order)"))
		fmt.Fprintf(&sb, "/-- numeric precedence = index in this list (the iota order of js.OpPrec) -/\ndef opPrecOrder : List String := %s\n\n", leanStrList(names))
		for _, m := range []string{"unaryPrecMap", "binaryLeftPrecMap", "binaryRightPrecMap", "unaryOpPrecMap", "binaryOpPrecMap"} {
			s, err := c01Map(r, m, order)
			if err != nil {
				return "", err
			}
			sb.WriteString(s)
		}
		sb.WriteString(footer("JsPrecTables"))
		return sb.String(), nil
	})
}

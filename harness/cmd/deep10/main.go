// Command deep10 runs one deeply nested input through the matching minifier (C10: no unbounded recursion).
// It is a separate process because a Go stack overflow is fatal and cannot be recovered.
package main

import (
	"bytes"
	"fmt"
	"os"
	"strings"
	"time"

	"github.com/tdewolff/minify/v2"
	"github.com/tdewolff/minify/v2/css"
	"github.com/tdewolff/minify/v2/html"
	"github.com/tdewolff/minify/v2/js"
	"github.com/tdewolff/minify/v2/json"
	"github.com/tdewolff/minify/v2/svg"
	"github.com/tdewolff/minify/v2/xml"
)

func main() {
	n := 200000
	rep := strings.Repeat
	cases := map[string][2]string{
		"js-paren":    {"application/javascript", rep("(", n) + "1" + rep(")", n)},
		"js-array":    {"application/javascript", "x=" + rep("[", n) + rep("]", n)},
		"js-block":    {"application/javascript", rep("{", n) + rep("}", n)},
		"js-unary":    {"application/javascript", "x=" + rep("!", n) + "1"},
		"js-binary":   {"application/javascript", "x=1" + rep("+1", n)},
		"js-if":       {"application/javascript", rep("if(a)", n) + "b"},
		"js-fn":       {"application/javascript", rep("function f(){", n/10) + rep("}", n/10)},
		"js-tmpl":     {"application/javascript", "x=" + rep("`${", n/10) + "1" + rep("}`", n/10)},
		"json-array":  {"application/json", rep("[", n) + rep("]", n)},
		"json-object": {"application/json", rep(`{"a":`, n) + "1" + rep("}", n)},
		"css-block":   {"text/css", rep("@media x{", n) + rep("}", n)},
		"css-paren":   {"text/css", "a{b:" + rep("calc(", n) + "1" + rep(")", n) + "}"},
		"css-values":  {"text/css", "a{margin:" + rep("1px ", n) + "}"},
		"html-div":    {"text/html", rep("<div>", n) + rep("</div>", n)},
		"html-p":      {"text/html", rep("<p>x", n)},
		"xml-el":      {"text/xml", rep("<a>", n) + rep("</a>", n)},
		"svg-g":       {"image/svg+xml", "<svg>" + rep("<g>", n) + rep("</g>", n) + "</svg>"},
		"svg-path":    {"image/svg+xml", `<svg><path d="M0 0` + rep("l1 1", n) + `"/></svg>`},
	}
	c, ok := cases[os.Args[1]]
	if !ok {
		fmt.Println("unknown case")
		os.Exit(2)
	}
	m := minify.New()
	m.AddFunc("text/css", css.Minify)
	m.AddFunc("text/html", html.Minify)
	m.AddFunc("image/svg+xml", svg.Minify)
	m.AddFunc("application/javascript", js.Minify)
	m.AddFunc("application/json", json.Minify)
	m.AddFunc("text/xml", xml.Minify)
	t := time.Now()
	var w bytes.Buffer
	err := m.Minify(c[0], &w, strings.NewReader(c[1]))
	fmt.Println(os.Args[1], len(c[1]), w.Len(), err != nil, time.Since(t))
}

package main

// C04B — sub-check of C04: the grammar walk (minifyGrammar), minifySelectors, at-rule preludes and the `font` /
// `background` shorthands of /repo/css/css.go.
//
// Per case (a style sheet or an inline declaration list, KeepCSS2 on/off) the real css.Minify is called through its
// public API, then
//   (a) model:   bytes of `model.c04b.sheet` (Lean model fed with the event stream of the real dependency parser) vs the
//                real output,
//   (b) oracle:  rule trees of input and output built from raw lexer tokens by c04b_oracle.go (own CSS Syntax 3 rule /
//                declaration list reader, own selector normaliser + specificity, prelude comparison); every paired
//                declaration value through the Lean value judgement `spec.c04b.decl`,
//   (c) spec:    `spec.c04b.holds` (Lean) on the parser event streams of input and real output,
//   (d) shape:   `spec.c04b.tree`: every event stream reads as a tree and back; without parse errors the tree is
//                well-formed (the parser-shape contract the theorems quantify over).
// A failure of (b) or (c) is a `fail` finding unless the input falls under the narrow trigger of an open known finding
// whose clause it is; (a) and (d) give `diff`s.

import (
	"encoding/hex"
	"encoding/json"
	"fmt"
	"os"
	"path/filepath"
	"strings"

	"github.com/tdewolff/parse/v2"
	pcss "github.com/tdewolff/parse/v2/css"

	"verifharness/h"
)

type c04bCase struct {
	src    string
	inline bool
	css2   bool
	tag    string
	// a call of a history (several calls on one shared *css.Minifier): the output is the one that call produced, and a
	// finding records the whole history (JSON) so that the replay repeats it
	pre     *string
	hist    string
	histCfg string
}

func (k c04bCase) cfg() string {
	if k.hist != "" {
		return k.histCfg
	}
	return fmt.Sprintf("inline=%v KeepCSS2=%v Precision=0", k.inline, k.css2)
}
func (k c04bCase) key() string {
	if k.hist != "" {
		return k.hist + " " + k.histCfg
	}
	return fmt.Sprintf("%q %s", k.src, k.cfg())
}

// input is what a finding records: the case itself, or the history it is a call of
func (k c04bCase) input() string {
	if k.hist != "" {
		return k.hist
	}
	return k.src
}

// c04bParse: the event stream of the dependency parser (the contract the model is stated against).  For a raw token
// event (`<!--`, `-->`, content of an unknown at-rule block) `Values()` is undefined; vals is set to one white-space token
// iff the parser skipped a comment between the previous raw token event and this one, decided as css.go does it:
// Parser.Offset() of the previous raw token != Parser.Offset() - len(data).
func c04bParse(src string, inline bool) (evs []c04Event, perr bool) {
	p := pcss.NewParser(parse.NewInputString(src), inline)
	prevRawEnd := -1
	for {
		gt, tt, data := p.Next()
		if gt == pcss.ErrorGrammar && !p.HasParseError() {
			return evs, perr
		}
		if gt == pcss.ErrorGrammar {
			perr = true
		}
		ev := c04Event{gt: gt, tt: tt, data: append([]byte{}, data...)}
		rawEnd := -1
		if gt == pcss.TokenGrammar {
			rawEnd = p.Offset()
			if prevRawEnd != -1 && prevRawEnd != rawEnd-len(data) {
				ev.vals = []c04Tok{{pcss.WhitespaceToken, []byte(" ")}}
			}
		} else {
			for _, v := range p.Values() {
				ev.vals = append(ev.vals, c04Tok{v.TokenType, append([]byte{}, v.Data...)})
			}
		}
		prevRawEnd = rawEnd
		evs = append(evs, ev)
		if len(evs) > 2000000 {
			return evs, true
		}
	}
}

func c04bEvGroups(evs []c04Event) string {
	gs := make([][][]byte, len(evs))
	for i, e := range evs {
		g := [][]byte{[]byte(fmt.Sprint(int(e.gt))), e.data}
		for _, t := range e.vals {
			g = append(g, []byte(fmt.Sprint(int(t.tt))), t.data)
		}
		gs[i] = g
	}
	return h.Groups(gs)
}

// ---------- narrow triggers of the open known findings (decided on the parser tokens of the input) ----------

// c04bDeclTriggers: clauses "declaration value" and "crash"
func c04bDeclTriggers(prop string, vals []c04Tok, css2 bool, trig map[string]string) {
	if k := c04Trigger(prop, vals, css2); k != "" {
		trig["declaration value"] = k
	}
}

// c04bCommentGlue: a comment directly between two non-white-space tokens (decided on the lexer tokens of the source,
// comments included) inside the block of an at-rule the dependency parser does not know (raw), or in a selector /
// at-rule prelude (prelude); declaration values are fine (the parser turns such a comment into a space).
func c04bCommentGlue(src string, inline bool) (raw, prelude bool) {
	l := pcss.NewLexer(parse.NewInputString(src))
	type frame struct {
		kind    byte // 'r' rule list, 'd' declaration list, 'x' raw
		inValue bool
	}
	stack := []frame{{kind: 'r'}}
	if inline {
		stack[0].kind = 'd'
	}
	pendingKind := byte(0) // block kind of the at-rule whose prelude is being read
	var prev, prev2 pcss.TokenType
	for {
		tt, data := l.Next()
		if tt == pcss.ErrorToken {
			return
		}
		top := &stack[len(stack)-1]
		if prev == pcss.CommentToken && prev2 != pcss.WhitespaceToken && prev2 != pcss.CommentToken && prev2 != pcss.ErrorToken && tt != pcss.WhitespaceToken && tt != pcss.CommentToken {
			if top.kind == 'x' {
				raw = true
			} else if pendingKind != 0 || top.kind == 'r' || !top.inValue {
				// a comment around the colon of a declaration or next to a brace / semicolon separates nothing
				sep := func(t pcss.TokenType) bool {
					return t == pcss.ColonToken || t == pcss.SemicolonToken || t == pcss.LeftBraceToken || t == pcss.RightBraceToken || t == pcss.CommaToken
				}
				if !sep(prev2) && !sep(tt) {
					prelude = true
				}
			}
		}
		switch tt {
		case pcss.AtKeywordToken:
			if top.kind != 'x' {
				switch c04bBareName(string(data)) {
				case "media", "supports", "document", "keyframes":
					pendingKind = 'r'
				case "font-face", "page":
					pendingKind = 'd'
				default:
					pendingKind = 'x'
				}
			}
		case pcss.ColonToken:
			if top.kind == 'd' && pendingKind == 0 {
				top.inValue = true
			}
		case pcss.SemicolonToken:
			top.inValue = false
			pendingKind = 0
		case pcss.LeftBraceToken:
			k := byte('d')
			if top.kind == 'x' {
				k = 'x'
			} else if pendingKind != 0 {
				k = pendingKind
			}
			pendingKind = 0
			top.inValue = false
			stack = append(stack, frame{kind: k})
		case pcss.RightBraceToken:
			if len(stack) > 1 {
				stack = stack[:len(stack)-1]
			}
			stack[len(stack)-1].inValue = false
		}
		prev2, prev = prev, tt
	}
}

func c04bTriggers(evs []c04Event, css2 bool) map[string]string {
	trig := map[string]string{}
	for _, e := range evs {
		switch e.gt {
		case pcss.DeclarationGrammar:
			c04bDeclTriggers(string(e.data), e.vals, css2, trig)
		case pcss.BeginAtRuleGrammar:
			// the dependency parser drops white space in front of a colon in every at-rule prelude
			if strings.HasSuffix(string(e.data), "supports") {
				for i, t := range e.vals {
					if t.tt == pcss.FunctionToken && strings.EqualFold(string(t.data), "selector(") && i+1 < len(e.vals) {
						trig["at-rule prelude"] = "K-C04B-9" // supportsSelectorColon (only where a colon follows white space; decided by the oracle text)
					}
				}
			}
		}
	}
	return trig
}

func c04bClauseOf(problem string) string {
	for _, c := range []string{"selector", "specificity", "at-rule prelude", "at-rule name", "declaration value", "custom property", "!important", "property name", "raw token", "structure", "event kind"} {
		if strings.HasPrefix(problem, c) || strings.Contains(problem, ": "+c) {
			if c == "specificity" {
				return "selector"
			}
			return c
		}
	}
	return "structure"
}

// ---------- running cases ----------

type c04bJudged struct {
	k                    c04bCase
	out                  string
	perr                 bool
	trig                 map[string]string
	oracle               string
	pairs                []c04bDeclPair
	modelLine, holdsLine int
	treeLine, pairFirst  int
	junk                 bool
}

func c04bRun(c *Ctx, st *h.Stage, cases []c04bCase) error {
	var js []*c04bJudged
	var lines []string
	for _, k := range cases {
		var out, crash string
		var err error
		if k.pre != nil {
			out = *k.pre
		} else {
			out, err, crash = c04Minify(k.src, k.inline, k.css2)
		}
		inEv, perr := c04bParse(k.src, k.inline)
		trig := c04bTriggers(inEv, k.css2)
		if _, prelude := c04bCommentGlue(k.src, k.inline); prelude {
			id := "K-C04B-13" // preludeCommentGlue
			for _, cl := range []string{"raw token", "structure", "selector", "declaration value", "at-rule prelude", "at-rule name", "property name", "event kind"} {
				trig[cl] = id
			}
		}
		if crash != "" {
			st.Count(k.key(), true)
			if id := trig["crash"]; id != "" {
				c.R.ExcludedKnown++
				st.Tag("known=" + id)
				continue
			}
			c.R.Add(h.Finding{Stage: st.Name, Kind: "crash", What: crash, Input: k.input(), Hex: h.HexS(k.input()), Config: k.cfg()})
			continue
		}
		if err != nil {
			st.Count(k.key(), false)
			st.Tag("rejected")
			continue
		}
		outEv, _ := c04bParse(out, k.inline)
		j := &c04bJudged{k: k, out: out, perr: perr, trig: trig}
		// (b) independent oracle on lexer-level rule trees
		ta, tb := c04bTree(k.src, k.inline), c04bTree(out, k.inline)
		j.junk = c04bHasJunk(ta) || c04bUnbalanced(k.src)
		j.oracle = c04bSameTree(ta, tb, "", &j.pairs)
		if j.oracle != "" {
			j.pairs = nil
		}
		j.modelLine = len(lines)
		lines = append(lines, "model.c04b.sheet "+h.Bool(k.css2)+" "+c04bEvGroups(inEv))
		j.holdsLine = len(lines)
		lines = append(lines, "spec.c04b.holds "+h.Bool(true)+" "+c04bEvGroups(inEv)+" "+c04bEvGroups(outEv))
		j.treeLine = len(lines)
		lines = append(lines, "spec.c04b.tree "+c04bEvGroups(inEv))
		j.pairFirst = len(lines)
		for _, p := range j.pairs {
			lines = append(lines, "spec.c04b.decl "+h.HexS(p.prop)+" "+c04Groups(p.in)+" "+c04Groups(p.out))
		}
		js = append(js, j)
	}
	if f := os.Getenv("C04B_DUMP"); f != "" {
		os.WriteFile(f, []byte(strings.Join(lines, "\n")+"\n"), 0o644)
	}
	rep, err := h.Eval(lines)
	if err != nil {
		return err
	}
	for _, j := range js {
		k := j.k
		st.Count(k.key(), j.out != k.src)
		if k.tag != "" {
			st.Tag("shape=" + k.tag)
		}
		if j.perr {
			st.Tag("parse-error")
		}
		report := func(kind, what string) {
			c.R.Add(h.Finding{Stage: st.Name, Kind: kind, What: what, Input: k.input(), Hex: h.HexS(k.input()), Config: k.cfg(), Impl: j.out})
		}
		fail := func(source, problem string) {
			clause := c04bClauseOf(problem)
			if id := j.trig[clause]; id != "" {
				c.R.ExcludedKnown++
				st.Tag("known=" + id)
				return
			}
			if j.perr || j.junk {
				// after a parse error the minified text re-synchronises differently: outside the property
				st.Tag(source + "-differs-after-parse-error")
				return
			}
			report("fail", source+": "+problem)
		}
		// (a) model
		b, ok, msg := h.DecodeReply(rep[j.modelLine])
		if !ok {
			c.R.Add(h.Finding{Stage: st.Name, Kind: "diff", What: "model.c04b.sheet: model error " + msg, Input: k.input(), Hex: h.HexS(k.input()), Config: k.cfg(), Impl: j.out})
		} else {
			parts := h.DecodeListReply(b)
			if len(parts) == 0 || string(parts[0]) == "N" {
				st.Tag("model=outside")
			} else {
				st.Tag("model=compared")
				got := ""
				if len(parts) > 1 {
					got = string(parts[1])
				}
				if got != j.out {
					c.R.Add(h.Finding{Stage: st.Name, Kind: "diff", What: "model.c04b.sheet", Input: k.input(), Hex: h.HexS(k.input()), Config: k.cfg(), Impl: j.out, Model: got})
				}
			}
		}
		// (d) shape
		if b, ok, _ := h.DecodeReply(rep[j.treeLine]); ok {
			parts := h.DecodeListReply(b)
			if len(parts) == 2 {
				if string(parts[0]) != "1" {
					report("diff", "spec.c04b.tree: flatten (treeOf events) differs from the events")
				}
				if string(parts[1]) != "1" && !j.perr {
					report("diff", "parser contract: the event stream of a sheet without parse errors is not a well-formed tree")
				}
				if string(parts[1]) == "1" {
					st.Tag("tree=wf")
				}
			}
		}
		// (b) oracle
		if j.oracle != "" {
			fail("oracle", j.oracle)
		} else {
			for i, p := range j.pairs {
				b, ok, msg := h.DecodeReply(rep[j.pairFirst+i])
				if !ok {
					return fmt.Errorf("spec.c04b.decl: %s", msg)
				}
				switch string(b) {
				case "1":
				case "2":
					st.Tag("oracle=decl-not-judged")
					if f := os.Getenv("C04B_NJ"); f != "" {
						if fh, err := os.OpenFile(f, os.O_APPEND|os.O_CREATE|os.O_WRONLY, 0o644); err == nil {
							fmt.Fprintf(fh, "%s: %q -> %q\n", p.prop, c04TokStr(p.in), c04TokStr(p.out))
							fh.Close()
						}
					}
				default:
					fail("oracle", fmt.Sprintf("declaration value: %s %q -> %q", p.prop, c04TokStr(p.in), c04TokStr(p.out)))
				}
			}
		}
		// (c) Lean spec on the event streams
		b, ok, msg = h.DecodeReply(rep[j.holdsLine])
		if !ok {
			return fmt.Errorf("spec.c04b.holds: %s", msg)
		}
		for _, cl := range h.DecodeListReply(b) {
			fail("spec.c04b.holds", string(cl))
		}
	}
	return nil
}

// ---------- fixed corpus ----------

var c04bFixed = []string{
	"a{}", "a{;}", "@media screen{}", "@media screen{a{}}", "a{b{c:d}}", "a{ b c { c : d } e:f}", "a{c:d;;e:f;}",
	"a   >   b + c ~ d   e{c:d}", "a:not( .b , #C ){c:d}", "A:Hover::Before{c:d}", "a::BEFORE{c:d}",
	"@import url(foo.css);", "@import url( foo.css ) screen;", "@import url(\"foo.css\");", "@import 'foo.css';", "@IMPORT url(a b);",
	"@import url(xy);", "@import url();", "@import url(  );", "@import url('x');", "@import url(\"a\\\"b\");", "@import url(a\\)b);",
	"@media screen and (min-width: 100px) , print and ( orientation : landscape ){a{c:d}}",
	"@media (min-width:100px) and (max-width:200px){a{c:d}}", "@media not all and (monochrome){a{c:d}}",
	"@supports (display: grid) and (not (display: inline-grid)){a{c:d}}", "@charset \"utf-8\";a{c:d}",
	"@font-face{font-family:\"Foo\";src:url(a.woff)}", "@page :first{margin:1in}", "@keyframes K{FROM{top:0}50%{top:1px}TO{top:2px}}",
	"@unknown foo { a b  c }", "/*! bang   comment  */a{c:d}", "/* plain */a{c:d}/*# sourceMappingURL=x */", "<!-- a{c:d} -->",
	"a{--x: { a : b } ;--y:  ;--z:;c:d}", "a{c:d!important;e:f ! IMPORTANT}", "a{/*x*/c:d/*y*/;/*z*/}", "a,b , c{c:d}",
	"a{c:d}}b{e:f}", "a{c:d;e}", "a{c:d;e;f:g}", "*{c:d}", "*.a{c:d}", "a *{c:d}", ".A #B C{c:d}", "a:nth-child( 2N + 1 ){c:d}",
	"a:LANG(EN){c:d}", "a[B=C]{c:d}", "a[b=\"c d\"]{c:d}", "a[b=\"1c\"]{c:d}", "a[b=\"\"]{c:d}", "a[b='c']{c:d}", "a[b~=\"c\"]{c:d}",
	"a[ b = \"c\" ]{c:d}", "a[b=\"--c\"]{c:d}", "a[b=\"-c\"]{c:d}", "a[b=\"-\"]{c:d}", "a[b=\"c\\\"d\"]{c:d}", "a[b=\"\\63\"]{c:d}",
	"[a=\"b\" i]{c:d}", "[a=\"b c\" i]{c:d}", "[a=\"b\"I]{c:d}", "[i=x]{c:d}", "[a=i]{c:d}", "@import \"a\";}b{c:d}",
	"a{c:d;@media x{e{f:g}}h:i}", "@media x{a{c:d}@import \"x\";b{e:f}}", "@font-face{src:url(x);;font:12px a}",
	"@page{@top-left{content:\"x\"}margin:0}", "a{c:d}/*! keep */b{e:f}", "/*!*/a{c:d}", "/*!x*/a{c:d}", "/*@x*/", "/*a#*/",
	"a{background:url(x) center/50%}", "a{background:url(x) 0 0/auto auto}", "a{background:url(x) 0 0/10px auto}", "a{background:none}",
	"a{background:transparent}", "a{background:none transparent scroll repeat repeat padding-box border-box 0 0}", "a{background:0 0}",
	"a{background:#FF0000 url(x) no-repeat repeat}", "a{background:url(x) repeat no-repeat fixed border-box}",
	"a{background:url(x) left 10% top 20%}", "a{background:url(x) right 10% bottom 20%/cover}", "a{background:url(x),url(y) 0 0,#0000}",
	"a{background:rgba(0,0,0,0)}", "a{background:var(--a) 0 0}", "a{background:url(x) 50% 50%}", "a{background:url(x) top}",
	"a{font:normal normal 12px/normal \"Times New Roman\",serif}", "a{font:italic bold 12px/30px Georgia,serif}", "a{font:400 12px a}",
	"a{font:bold 12px -apple-system}", "a{font:12px \"Foo Bar\",\"A1\",'b c'}", "a{font:caption}", "a{font:12px/1.0 a}",
	"a{font:small-caps 700 condensed medium/1 sans-serif}", "a{font:normal small \"A\"}", "a{font:bold normal 1e1px/normal \"x y\"}",
	"a{font:12px normal,b}", "a{font:normal,b}", ".cla[id ^= L] { x:y; }", "input[type=\"radio\" i]{x:y}",
	"[class^=icon-] i[class^=icon-],i[class*=\" icon-\"]{x:y}", "@import url(", "@import url( ", "@import url(\n//url\n);",
	// a933f35: tokens that minification would glue, hexadecimal escapes in front of a space
	"a{background:linear-gradient(rgb(255,0,0)10%,blue)}", "a{width:foo(1.0.5)}", "a{width:foo(a1.0)}", "a{width:foo(8.24E3-255)}",
	"a{font-family:a\\31  b,c}", "a{animation-name:x\\41 y}", "a{content:\"\\31\\\n2\"}", "a{x:a\\31  (b)}", "a{grid-area:\\31 a / b\\32  c}",
	"a{transform:foo(1e1-+0.5)}", "a{width:calc(1px + 2px)}", "a{width:calc(1px - -2px)}",
}

var c04bFixedInline = []string{"c:d", "c:d;e:f;", "font:bold 12px a;background:none", "--x: 1 ;c:d", "c:d;e", "*zoom:1;_h:2", ";;c:d", "@media x{a{c:d}}e:f", "/* c */c:d", "c:d}e:f"}

func c04bSweepFiles(c *Ctx) []string {
	var files []string
	for _, pat := range []string{"_benchmarks/*.css", "tests/css/corpus/*", "tests/css/*.css", "css/*.css", "cmd/minify/testdata/*.css"} {
		m, _ := filepath.Glob(filepath.Join(c.Repo, pat))
		files = append(files, m...)
	}
	return files
}

func c04bKnown(c *Ctx) {
	for _, k := range h.Known("C04B") {
		in := k.ReplayStr("input")
		if k.Status != "open" || in == "" {
			continue
		}
		inline, _ := k.Replay["inline"].(bool)
		css2, _ := k.Replay["keepCSS2"].(bool)
		out, err, crash := c04Minify(in, inline, css2)
		observed := out
		if crash != "" {
			observed = "crash: " + strings.SplitN(crash, "\n", 2)[0]
		} else if err != nil {
			observed = "error: " + err.Error()
		}
		still := observed == k.ReplayStr("observed") || (crash != "" && strings.HasPrefix(k.ReplayStr("observed"), "crash"))
		if exp := k.ReplayStr("expected"); exp != "" && observed == exp {
			still = false
		}
		c.R.AddKnown(k.ID, still, k.What, observed)
	}
}

func init() {
	register("C04B", func(c *Ctx) error {
		shapes := c04Shapes()
		if c.Replay != "" {
			if b, err := os.ReadFile(c.Replay); err == nil {
				var obj struct {
					Finding struct {
						Hex    string `json:"input_hex"`
						Config string `json:"config"`
					} `json:"finding"`
				}
				if json.Unmarshal(b, &obj) == nil && obj.Finding.Hex != "" {
					src, _ := hex.DecodeString(obj.Finding.Hex)
					st := c.R.StartStage("replay", "the recorded failing input in its configuration")
					if strings.HasPrefix(obj.Finding.Config, "history") {
						var hs c04bHistory
						if err := json.Unmarshal(src, &hs); err != nil {
							return err
						}
						err := c04bRunHistories(c, st, []c04bHistory{hs})
						st.End()
						return err
					}
					k := c04bCase{src: string(src), inline: strings.Contains(obj.Finding.Config, "inline=true"), css2: strings.Contains(obj.Finding.Config, "KeepCSS2=true")}
					err := c04bRun(c, st, []c04bCase{k})
					st.End()
					return err
				}
			}
		}
		c04bKnown(c)

		st := c.R.StartStage("fixed", "hand-written style sheets and declaration lists (every branch of minifyGrammar / minifySelectors / @import / font / background; inputs of findings fixed in /repo), KeepCSS2 off/on; non-trivial = output differs from input")
		var cases []c04bCase
		fixed := append([]string{}, c04bFixed...)
		for _, k := range h.Known("C04B") {
			if k.Status == "fixed" && k.ReplayStr("input") != "" {
				fixed = append(fixed, k.ReplayStr("input"))
			}
		}
		// state that accumulates inside one sheet (seeded change C04-m6: a nesting level leaked per keyword-only value):
		// 100 / 150 such declarations in one rule and in one rule each, then fractional values with a leading zero
		for _, cnt := range []int{100, 150} {
			probe := ".x{" + strings.Join(c04ProbeDecls, ";") + ";font:bold 0.50em/1.0 a;background:url(a) 0.5px 0.5px}"
			fixed = append(fixed, "a{"+strings.Repeat("display:block;", cnt)+"}"+probe, strings.Repeat("a{content:counter(item)}", cnt)+probe)
		}
		for _, s := range fixed {
			for _, css2 := range []bool{false, true} {
				cases = append(cases, c04bCase{src: s, css2: css2})
			}
		}
		for _, s := range c04bFixedInline {
			cases = append(cases, c04bCase{src: s, inline: true})
		}
		if err := c04bRun(c, st, cases); err != nil {
			return err
		}
		st.End()

		mult := 1
		if c.Search {
			mult = 4
		}
		st = c.R.StartStage("selectors", "generated rules `SELECTOR-LIST{c:d}`: 1-3 complex selectors, all combinators and white-space variants, type/namespace/class/id, attribute selectors (6 matchers x quote forms x value shapes incl. escapes x flags), pseudo-classes with selector / An+B / keyword / custom-identifier arguments, nesting <= 2; non-trivial = output differs from input")
		cases = nil
		for i := 0; i < c.N(16000, 160000)*mult; i++ {
			r := c.Rng.Fork()
			cases = append(cases, c04bCase{src: c04bSelList(r, 0) + c04bWs(r) + "{c:d}", tag: "selector"})
		}
		if err := c04bRun(c, st, cases); err != nil {
			return err
		}
		st.End()

		st = c.R.StartStage("shorthand", "generated `font` and `background` declarations (grammar-derived values: optional components in any order, 1-3 layers, position/size/repeat/box/colour forms; off-grammar values), in a rule and inline, KeepCSS2 off/on, `!important` spellings; non-trivial = output differs from input")
		cases = nil
		for i := 0; i < c.N(20000, 200000)*mult; i++ {
			r := c.Rng.Fork()
			var d string
			if r.Bool() {
				d = "font:" + c04bFont(r)
			} else {
				d = "background:" + c04bBackground(r)
			}
			d += r.Pick([]string{"", "", "", "!important", " ! important"})
			k := c04bCase{src: d, inline: r.Chance(30), css2: r.Chance(30), tag: d[:4]}
			if !k.inline {
				k.src = "a{" + d + "}"
			}
			cases = append(cases, k)
		}
		if err := c04bRun(c, st, cases); err != nil {
			return err
		}
		st.End()

		st = c.R.StartStage("sheets", "generated style sheets: 1-4 items per level, nesting <= 3: rules, @media (media query grammar) / @supports / @import (every url form) / @charset / @namespace / @layer / @font-face / @keyframes / @page / @container / unknown at-rules, comments (plain, bang, source map) everywhere, CDO/CDC, custom properties, IE hacks, parse-error fragments, declarations of all C04 shapes + font/background; 15% inline declaration lists; KeepCSS2 random; non-trivial = output differs from input")
		cases = nil
		for i := 0; i < c.N(14000, 140000)*mult; i++ {
			r := c.Rng.Fork()
			if r.Chance(15) {
				cases = append(cases, c04bCase{src: c04bDeclList(r, shapes, 1), inline: true, css2: r.Chance(30), tag: "inline"})
			} else {
				cases = append(cases, c04bCase{src: c04bSheet(r, shapes, 0), css2: r.Chance(30), tag: "sheet"})
			}
		}
		if err := c04bRun(c, st, cases); err != nil {
			return err
		}
		st.End()

		st = c.R.StartStage("histories", "sequences of 2-4 calls on ONE shared *css.Minifier registered with m.Add in one M together with html.Minify (the cmd/minify set-up): direct Minify with params nil / inline=1, m.Minify(text/css), m.Minify(text/css;inline=1), m.Minify(text/html) of a page with style attributes and <style> elements; KeepCSS2 off/on; every output compared with the same call on a FRESH minifier, the option struct compared before/after every call, and every css output judged by model, oracle and Lean spec; non-trivial = output differs from input")
		if err := c04bHistories(c, st, shapes); err != nil {
			return err
		}
		st.End()

		st = c.R.StartStage("sweep", "every style sheet under /repo/_benchmarks and the test corpora: whole file, KeepCSS2 off/on, model bytes + both oracles; non-trivial = output differs from input")
		cases = nil
		for _, f := range c04bSweepFiles(c) {
			b, err := os.ReadFile(f)
			if err != nil || len(b) == 0 || (len(b) > 400000 && !c.Thorough() && !c.Search) {
				continue
			}
			for _, css2 := range []bool{false, true} {
				cases = append(cases, c04bCase{src: string(b), css2: css2, tag: "file"})
			}
		}
		if err := c04bRun(c, st, cases); err != nil {
			return err
		}
		st.End()
		return nil
	})
}

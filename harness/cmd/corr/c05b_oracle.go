package main

// C05B — the property itself on the real output, independent of the Lean model: encoding/xml trees of input and
// output compared modulo the documented removals (comments, `metadata` elements, elements in a foreign
// namespace, attributes with a prefix other than xml:/xlink:, default-valued attributes of `svg` elements, the
// XML declaration, a DOCTYPE without internal subset), attribute values at VALUE level:
// dimensions by exact numeric value (math/big) and canonical unit, viewBox number-wise, colours as sRGB triples
// (table of x/image/colornames read from the module cache, + rebeccapurple), identifiers and references byte-wise,
// everything else byte-wise up to XML attribute-value normalisation (white space collapsed and trimmed).
// Character data is compared as the sequence of its non-white-space characters (white space between text and
// child elements is the subject of K-C05-8 and judged by the C05 document oracle).

import (
	"bytes"
	"encoding/xml"
	"fmt"
	"io"
	"math/big"
	"os"
	"os/exec"
	"path/filepath"
	"regexp"
	"strings"
	"sync"
)

type c05bAttrT struct{ prefix, local, val string }

func (a c05bAttrT) name() string {
	if a.prefix != "" {
		return a.prefix + ":" + a.local
	}
	return a.local
}

type c05bNode struct {
	kind          byte // 'E' element, 'T' text, 'P' processing instruction, 'C' comment
	prefix, local string
	ns            string // resolved namespace URI of an element ("?" + prefix when the prefix is not bound)
	attrs         []c05bAttrT
	kids          []*c05bNode
	text          string // T: character data, P: target + " " + data, C: comment
	void          bool   // E: written as `<a/>` (start and end at the same input offset)
	inner         bool   // E (expectation): the content is copied verbatim (foreignObject)
	optional      bool   // E (expectation): may be missing in the output (shape of an open known finding)
}

func (n *c05bNode) name() string {
	if n.prefix != "" {
		return n.prefix + ":" + n.local
	}
	return n.local
}

type c05bDocT struct {
	root    *c05bNode // pseudo element holding the top-level items
	doctype string
}

var c05bEntRe = regexp.MustCompile(`&([A-Za-z_:][A-Za-z0-9_.:-]*);`)

// c05bParse reads a document with encoding/xml (raw names); references to entities other than the predefined ones
// are kept as opaque markers.  Error = not well-formed (encoding/xml syntax, element nesting).
func c05bParse(b []byte) (*c05bDocT, error) {
	dec := xml.NewDecoder(bytes.NewReader(b))
	dec.Strict = true
	dec.Entity = map[string]string{}
	for _, m := range c05bEntRe.FindAllSubmatch(b, -1) {
		nm := string(m[1])
		switch nm {
		case "lt", "gt", "amp", "quot", "apos":
		default:
			dec.Entity[nm] = "\x01" + nm + "\x02"
		}
	}
	dec.CharsetReader = func(label string, input io.Reader) (io.Reader, error) { return input, nil }
	doc := &c05bDocT{root: &c05bNode{kind: 'E', local: "#root"}}
	stack := []*c05bNode{doc.root}
	scopes := []map[string]string{{"xml": "http://www.w3.org/XML/1998/namespace"}}
	var startEnd int64 = -1
	for {
		t, err := dec.RawToken()
		if err != nil {
			if err.Error() == "EOF" {
				break
			}
			return nil, err
		}
		top := stack[len(stack)-1]
		switch v := t.(type) {
		case xml.StartElement:
			n := &c05bNode{kind: 'E', prefix: v.Name.Space, local: v.Name.Local}
			if v.Name.Local == "" || strings.Contains(v.Name.Local, ":") {
				return nil, fmt.Errorf("element name is not a QName")
			}
			sc := map[string]string{}
			for k, u := range scopes[len(scopes)-1] {
				sc[k] = u
			}
			for _, a := range v.Attr {
				if a.Name.Local == "" || strings.Contains(a.Name.Local, ":") {
					return nil, fmt.Errorf("attribute name is not a QName")
				}
				n.attrs = append(n.attrs, c05bAttrT{a.Name.Space, a.Name.Local, a.Value})
				if a.Name.Space == "xmlns" {
					sc[a.Name.Local] = a.Value
				} else if a.Name.Space == "" && a.Name.Local == "xmlns" {
					sc[""] = a.Value
				}
			}
			if u, ok := sc[n.prefix]; ok {
				n.ns = u
			} else if n.prefix != "" {
				n.ns = "?" + n.prefix
			}
			scopes = append(scopes, sc)
			top.kids = append(top.kids, n)
			stack = append(stack, n)
			startEnd = dec.InputOffset()
		case xml.EndElement:
			if len(stack) == 1 || top.prefix != v.Name.Space || top.local != v.Name.Local {
				return nil, fmt.Errorf("end tag </%s:%s> does not match <%s>", v.Name.Space, v.Name.Local, top.name())
			}
			top.void = len(top.kids) == 0 && dec.InputOffset() == startEnd
			stack = stack[:len(stack)-1]
			scopes = scopes[:len(scopes)-1]
		case xml.CharData:
			top.kids = append(top.kids, &c05bNode{kind: 'T', text: string(v)})
		case xml.ProcInst:
			top.kids = append(top.kids, &c05bNode{kind: 'P', local: v.Target, text: v.Target + " " + string(v.Inst)})
		case xml.Comment:
			top.kids = append(top.kids, &c05bNode{kind: 'C', text: string(v)})
		case xml.Directive:
			if bytes.HasPrefix(v, []byte("DOCTYPE")) {
				doc.doctype = string(v)
			}
		}
	}
	if len(stack) != 1 {
		return nil, fmt.Errorf("unclosed element <%s>", stack[len(stack)-1].name())
	}
	return doc, nil
}

// ---------- value level ----------

func c05bNormWs(s string) string {
	return strings.Join(strings.FieldsFunc(s, func(r rune) bool { return r == ' ' || r == '\t' || r == '\n' || r == '\r' }), " ")
}

var c05bDimRe = regexp.MustCompile(`^([+-]?)([0-9]*)(?:\.([0-9]*))?(?:[eE]([+-]?[0-9]+))?(%|[A-Za-z]+)?$`)

// c05bDimOf: number (SVG 1.1 grammar, trailing dot allowed) + optional unit (`%` or letters) → exact value, canonical unit
func c05bDimOf(s string) (*big.Rat, string, bool) {
	m := c05bDimRe.FindStringSubmatch(s)
	if m == nil || (m[2] == "" && m[3] == "") {
		return nil, "", false
	}
	// `1em`: the e belongs to the unit; the regexp cannot take `e` + digits as a unit start, which is parse.Number's reading too
	mant := new(big.Int)
	mant.SetString(m[2]+m[3]+"0", 10)
	mant.Quo(mant, big.NewInt(10))
	exp := -len(m[3])
	if m[4] != "" {
		e := new(big.Int)
		if _, ok := e.SetString(strings.TrimPrefix(m[4], "+"), 10); !ok || !e.IsInt64() || e.Int64() > 5000 || e.Int64() < -5000 {
			return nil, "", false
		}
		exp += int(e.Int64())
	}
	r := new(big.Rat).SetInt(mant)
	p := new(big.Int).Exp(big.NewInt(10), big.NewInt(int64(c05bAbs(exp))), nil)
	if exp >= 0 {
		r.Mul(r, new(big.Rat).SetInt(p))
	} else {
		r.Quo(r, new(big.Rat).SetInt(p))
	}
	if m[1] == "-" {
		r.Neg(r)
	}
	unit := strings.ToLower(m[5])
	if unit == "px" {
		unit = ""
	}
	return r, unit, true
}

func c05bAbs(i int) int {
	if i < 0 {
		return -i
	}
	return i
}

// c05bSameDim: same value, same unit up to case and px = user unit; a zero may lose its unit
func c05bSameDim(a, b string) bool {
	va, ua, oka := c05bDimOf(a)
	vb, ub, okb := c05bDimOf(b)
	if !oka || !okb || va.Cmp(vb) != 0 {
		return false
	}
	return ua == ub || (va.Sign() == 0 && ub == "")
}

var c05bColorOnce sync.Once
var c05bColorTable map[string]string

var c05bColorRowRe = regexp.MustCompile(`"([a-z]+)":\s+color\.RGBA\{0x([0-9a-f]{2}), 0x([0-9a-f]{2}), 0x([0-9a-f]{2}), 0xff\}`)

func c05bColors() map[string]string {
	c05bColorOnce.Do(func() {
		c05bColorTable = map[string]string{"rebeccapurple": "663399"}
		mc := os.Getenv("GOMODCACHE")
		if mc == "" {
			if out, err := exec.Command("go", "env", "GOMODCACHE").Output(); err == nil {
				mc = strings.TrimSpace(string(out))
			}
		}
		b, err := os.ReadFile(filepath.Join(mc, "golang.org/x/image@v0.0.0-20190802002840-cff245a6509b/colornames/table.go"))
		if err != nil {
			return
		}
		for _, m := range c05bColorRowRe.FindAllSubmatch(b, -1) {
			c05bColorTable[string(m[1])] = string(m[2]) + string(m[3]) + string(m[4])
		}
	})
	return c05bColorTable
}

// c05bColorOf: sRGB triple (6 lower-case hex digits) of a CSS/SVG colour keyword or #rgb / #rrggbb
func c05bColorOf(s string) (string, bool) {
	l := strings.ToLower(s)
	if hx, ok := c05bColors()[l]; ok {
		return hx, true
	}
	isHex := func(t string) bool {
		for _, c := range t {
			if !(c >= '0' && c <= '9' || c >= 'a' && c <= 'f') {
				return false
			}
		}
		return true
	}
	if len(l) == 4 && l[0] == '#' && isHex(l[1:]) {
		return string([]byte{l[1], l[1], l[2], l[2], l[3], l[3]}), true
	}
	if len(l) == 7 && l[0] == '#' && isHex(l[1:]) {
		return l[1:], true
	}
	return "", false
}

var c05bColorAttrSet = map[string]bool{"fill": true, "stroke": true, "color": true, "stop-color": true, "flood-color": true, "lighting-color": true}

// identifiers and references: byte-wise
var c05bLiteralAttrSet = map[string]bool{"id": true, "class": true, "href": true, "font-family": true, "version": true}

// attributes whose value is text, never a length (beyond those the code already treats literally)
var c05bTextAttrSet = map[string]bool{"unicode": true, "glyph-name": true, "result": true, "in": true, "in2": true, "name": true, "systemLanguage": true, "lang": true, "title": true}

func c05bMime(s string) string {
	return strings.ToLower(strings.Join(strings.Fields(s), ""))
}

// c05bSameValue: "" = same value; otherwise the failing clause
func c05bSameValue(elem, name, a, b string) string {
	na, nb := c05bNormWs(a), c05bNormWs(b)
	if na == nb {
		return ""
	}
	switch {
	case name == "style" || name == "d":
		return "" // the style sub-minifier (C04/C11) and the path half of C05 own these values
	case name == "contentStyleType" && elem == "svg":
		if c05bMime(a) == c05bMime(b) {
			return ""
		}
		return "attr-value"
	case c05bLiteralAttrSet[name] || strings.Contains(name, ":"):
		return "attr-value"
	case c05bTextAttrSet[name] || strings.HasPrefix(name, "data-") || strings.HasPrefix(name, "aria-"):
		return "attr-text"
	case name == "viewBox":
		sp := func(s string) []string { return strings.FieldsFunc(s, func(r rune) bool { return r == ' ' || r == ',' }) }
		fa, fb := sp(na), sp(nb)
		valid := len(fa) == 4
		for _, f := range fa {
			if _, u, ok := c05bDimOf(f); !ok || u != "" {
				valid = false
			}
		}
		if !valid {
			return "" // not a viewBox value (four numbers): nothing to preserve; the code rewrites the leading numbers
		}
		if len(fb) != 4 {
			return "attr-value"
		}
		for i := range fa {
			if !c05bSameDim(fa[i], fb[i]) {
				return "attr-value"
			}
		}
		return ""
	case c05bColorAttrSet[name]:
		ca, oka := c05bColorOf(na)
		cb, okb := c05bColorOf(nb)
		if oka && okb && ca == cb {
			return ""
		}
		if !oka && !okb && len(na) == 7 && len(nb) == 4 && na[0] == '#' && na[1] == na[2] && na[3] == na[4] && na[5] == na[6] &&
			nb == string([]byte{'#', na[1], na[3], na[5]}) {
			return "" // `#xxyyzz` -> `#xyz` also for non-hex digits: not a colour before, not a colour after
		}
	}
	if c05bSameDim(na, nb) {
		return ""
	}
	return "attr-value"
}

// ---------- what the property allows to disappear ----------

type c05bExpectCtx struct {
	cfg       c05bCfg
	styleType string          // effective contentStyleType in document order
	trig      map[string]bool // triggers of known findings seen while building the expectation
}

func c05bIsDefaultSvgAttr(name, val string) bool {
	v := c05bNormWs(val)
	switch name {
	case "version":
		return v == "1.1"
	case "x", "y":
		r, _, ok := c05bDimOf(v)
		return ok && r.Sign() == 0
	case "preserveAspectRatio":
		return v == "xMidYMid meet"
	case "baseProfile":
		return v == "none"
	case "contentScriptType":
		return v == "application/ecmascript"
	case "contentStyleType":
		return v == "text/css"
	}
	return false
}

func c05bStripAllWs(s string) string {
	return strings.Join(strings.FieldsFunc(s, func(r rune) bool { return r == ' ' || r == '\t' || r == '\n' || r == '\r' || r == '\f' }), "")
}

// c05bExpect rewrites the INPUT tree into what must still be there.  verbatim = inside foreignObject content.
func c05bExpect(n *c05bNode, x *c05bExpectCtx, verbatim bool) *c05bNode {
	out := &c05bNode{kind: 'E', prefix: n.prefix, local: n.local, ns: n.ns}
	if !verbatim && n.prefix == "svg" {
		out.prefix = ""
		x.trig["svgPrefix"] = true
	}
	raw := n.name()
	if verbatim && n.prefix != "" {
		x.trig["foPrefix"] = true
	}
	for _, a := range n.attrs {
		if verbatim {
			out.attrs = append(out.attrs, a)
			continue
		}
		nm := a.name()
		if strings.Contains(nm, ":") && a.prefix != "xlink" && a.prefix != "xml" && nm != "xmlns:xlink" {
			continue
		}
		if raw == "svg" {
			if x.cfg.inline && nm == "xmlns" {
				continue
			}
			if nm == "contentStyleType" {
				x.styleType = c05bMime(a.val)
			}
			if c05bIsDefaultSvgAttr(nm, a.val) {
				continue
			}
		}
		if nm == "style" && strings.IndexFunc(a.val, func(r rune) bool { return r == '&' || r == '<' || r == '\t' || r == '\n' || r == '\r' || r >= 128 }) >= 0 {
			x.trig["styleAmp"] = true
		}
		if raw == "style" && nm == "type" && c05bNormWs(a.val) == "text/css" {
			if x.styleType == "text/css" {
				continue
			}
			x.trig["styleType"] = true
		}
		out.attrs = append(out.attrs, a)
	}
	inner := verbatim || (n.prefix == "" && n.local == "foreignObject")
	out.inner = inner
	if n.prefix == "" && n.local == "foreignObject" && !n.void && c05bStripAllWs(c05bTextOf(n)) == "" && len(n.kids) <= 1 {
		x.trig["emptyFO"] = true
	}
	afterEmptyStyle := false
	for _, ch := range n.kids {
		switch ch.kind {
		case 'T':
			if !inner && (raw == "style" || afterEmptyStyle) {
				// handed to the style sub-minifier (also the text that follows `<style></style>`: `tag` is not reset)
				if c05bStripAllWs(ch.text) != "" {
					out.kids = append(out.kids, &c05bNode{kind: 'T', text: "\x00style"})
					for _, r := range ch.text {
						if r == '&' || r == '<' || r >= 128 {
							x.trig["styleAmp"] = true // the payload reaches the style minifier with references still escaped
						}
					}
				}
			} else {
				out.kids = append(out.kids, ch)
			}
		case 'C':
			if x.cfg.keepComments || inner {
				out.kids = append(out.kids, ch)
			}
		case 'P':
			if inner {
				out.kids = append(out.kids, ch)
			} else if ch.local != "xml" {
				x.trig["pi"] = true
				out.kids = append(out.kids, ch)
			}
		case 'E':
			afterEmptyStyle = false
			if !inner {
				if c05bDroppableElem(ch) {
					continue
				}
				if ch.prefix == "" && ch.local == "defs" && len(ch.kids) == 0 && len(ch.attrs) == 1 && ch.void {
					x.trig["defs1"] = true
					if c05bOpen["defs1"] != "" {
						// K-C05-7 (open): the code removes it (unless it is copied verbatim); the case is counted as excluded
						e := c05bExpect(ch, x, inner)
						e.optional = true
						out.kids = append(out.kids, e)
						continue
					}
				}
				if ch.prefix == "" && ch.local == "style" && !ch.void && c05bStripAllWs(c05bTextOf(ch)) == "" && len(ch.kids) <= 1 {
					afterEmptyStyle = true
				}
			}
			out.kids = append(out.kids, c05bExpect(ch, x, inner))
		}
	}
	return out
}

// the expected element (svg: prefix already removed) may also keep its svg: prefix in the output
func c05bSameElemName(want, got *c05bNode) bool {
	return want.local == got.local && (want.prefix == got.prefix || (want.prefix == "" && got.prefix == "svg"))
}

func c05bDroppableElem(n *c05bNode) bool {
	return ((n.prefix == "" || n.prefix == "svg") && n.local == "metadata") || (n.prefix != "" && n.prefix != "svg")
}

// an attribute of the OUTPUT that the property allows to be absent
func c05bDroppableAttr(elemRaw string, a c05bAttrT, cfg c05bCfg) bool {
	nm := a.name()
	if strings.Contains(nm, ":") && a.prefix != "xlink" && a.prefix != "xml" && nm != "xmlns:xlink" {
		return true
	}
	if elemRaw == "svg" && ((cfg.inline && nm == "xmlns") || c05bIsDefaultSvgAttr(nm, a.val)) {
		return true
	}
	return elemRaw == "style" && nm == "type" && c05bNormWs(a.val) == "text/css"
}

// trigger of K-C05B-8: a non-void foreignObject element without content, anywhere in the document
func c05bScanEmptyFO(n *c05bNode, trig map[string]bool) {
	if n.kind != 'E' {
		return
	}
	if n.prefix == "" && n.local == "foreignObject" && !n.void && c05bStripAllWs(c05bTextOf(n)) == "" && len(n.kids) <= 1 {
		trig["emptyFO"] = true
	}
	for _, k := range n.kids {
		c05bScanEmptyFO(k, trig)
	}
}

func c05bTextOf(n *c05bNode) string {
	var sb strings.Builder
	for _, k := range n.kids {
		if k.kind == 'T' {
			sb.WriteString(k.text)
		}
	}
	return sb.String()
}

// c05bItems: the children as comparable items; consecutive character data is merged and compared without white space
func c05bItems(n *c05bNode) []*c05bNode {
	var out []*c05bNode
	var pend strings.Builder
	style := false
	flush := func() {
		t := c05bStripAllWs(pend.String())
		pend.Reset()
		if style {
			out = append(out, &c05bNode{kind: 'T', text: "\x00style"})
		} else if t != "" {
			out = append(out, &c05bNode{kind: 'T', text: t})
		}
		style = false
	}
	for _, k := range n.kids {
		if k.kind == 'T' {
			if k.text == "\x00style" {
				style = true
			} else {
				pend.WriteString(k.text)
			}
			continue
		}
		flush()
		out = append(out, k)
	}
	flush()
	return out
}

// c05bTreeDiff: first difference between the expectation (rewritten input tree) and the output tree:
// (clause, description).  The expected items must occur in the output in order; additional output items are
// accepted only when they are themselves removable.
func c05bTreeDiff(path string, want, got *c05bNode, cfg c05bCfg, verbatim bool) (string, string) {
	p := path + "/" + want.name()
	if !c05bSameElemName(want, got) {
		return "tree", fmt.Sprintf("%s: element <%s> became <%s>", path, want.name(), got.name())
	}
	if !cfg.inline && want.local != "#root" && want.ns != got.ns {
		return "ns", fmt.Sprintf("%s: element namespace %q became %q", p, want.ns, got.ns)
	}
	k := 0
	for _, a := range want.attrs {
		for !verbatim && k < len(got.attrs) && got.attrs[k].name() != a.name() && c05bDroppableAttr(got.name(), got.attrs[k], cfg) {
			k++
		}
		if k >= len(got.attrs) || got.attrs[k].name() != a.name() {
			cl := "attr-lost"
			if want.name() == "style" && a.name() == "type" {
				cl = "attr-lost-type"
			}
			return cl, fmt.Sprintf("%s: attribute %s=%q lost", p, a.name(), a.val)
		}
		if verbatim {
			// the lexer replaces TAB, LF and CR inside quoted values by spaces (XML attribute-value normalisation; CR LF
			// gives two spaces: dependency finding K-C06-7)
			if c05bNormWs(a.val) != c05bNormWs(got.attrs[k].val) {
				return "attr-value", fmt.Sprintf("%s: attribute %s=%q became %q (foreignObject content)", p, a.name(), a.val, got.attrs[k].val)
			}
		} else if cl := c05bSameValue(want.name(), a.name(), a.val, got.attrs[k].val); cl != "" {
			return cl, fmt.Sprintf("%s: attribute %s=%q became %q", p, a.name(), a.val, got.attrs[k].val)
		}
		k++
	}
	for ; k < len(got.attrs); k++ {
		if verbatim || !c05bDroppableAttr(got.name(), got.attrs[k], cfg) {
			return "attr-extra", fmt.Sprintf("%s: attribute %s appeared", p, got.attrs[k].name())
		}
	}
	inner := want.inner
	wi, gi := c05bItems(want), c05bItems(got)
	// character data: per element, the sequence of non-white-space characters (style text excepted)
	if wt, gt := c05bTextItems(wi), c05bTextItems(gi); wt != gt && !strings.Contains(wt, "\x00") {
		return "text", fmt.Sprintf("%s: character data %q became %q", p, wt, gt)
	}
	wi, gi = c05bNonText(wi), c05bNonText(gi)
	clauseOf := map[byte]string{'E': "tree", 'T': "text", 'P': "pi", 'C': "comment"}
	extraOK := func(g *c05bNode) bool {
		if inner {
			return false
		}
		switch g.kind {
		case 'C':
			return true
		case 'P':
			return g.local == "xml"
		case 'E':
			return c05bDroppableElem(g)
		}
		return false
	}
	var match func(wi, gi []*c05bNode) (string, string)
	match = func(wi, gi []*c05bNode) (string, string) {
		if len(wi) == 0 {
			for _, g := range gi {
				if !extraOK(g) {
					return clauseOf[g.kind], fmt.Sprintf("%s: %s appeared", p, c05bItemStr(g))
				}
			}
			return "", ""
		}
		w := wi[0]
		if w.optional {
			// shape of an open known finding: the element may be missing — try without it first
			cl, d := match(wi[1:], gi)
			if cl == "" {
				return "", ""
			}
			w2 := *w
			w2.optional = false
			if cl2, _ := match(append([]*c05bNode{&w2}, wi[1:]...), gi); cl2 == "" {
				return "", ""
			}
			return cl, d
		}
		j := 0
		for j < len(gi) && (gi[j].kind != w.kind || (w.kind == 'E' && !c05bSameElemName(w, gi[j]))) && extraOK(gi[j]) {
			j++
		}
		if j >= len(gi) {
			return clauseOf[w.kind], fmt.Sprintf("%s: %s lost", p, c05bItemStr(w))
		}
		g := gi[j]
		if w.kind != g.kind {
			return clauseOf[w.kind], fmt.Sprintf("%s: %s lost or moved (found %s)", p, c05bItemStr(w), c05bItemStr(g))
		}
		switch w.kind {
		case 'E':
			if cl, d := c05bTreeDiff(p, w, g, cfg, inner); cl != "" {
				return cl, d
			}
		case 'P':
			if c05bStripAllWs(w.text) != c05bStripAllWs(g.text) {
				return "pi", fmt.Sprintf("%s: processing instruction %q became %q", p, w.text, g.text)
			}
		case 'C':
			if w.text != g.text {
				return "comment", fmt.Sprintf("%s: comment %q became %q", p, w.text, g.text)
			}
		}
		return match(wi[1:], gi[j+1:])
	}
	return match(wi, gi)
}

func c05bTextItems(items []*c05bNode) string {
	var sb strings.Builder
	for _, it := range items {
		if it.kind == 'T' {
			sb.WriteString(it.text)
		}
	}
	return sb.String()
}

func c05bNonText(items []*c05bNode) []*c05bNode {
	var out []*c05bNode
	for _, it := range items {
		if it.kind != 'T' {
			out = append(out, it)
		}
	}
	return out
}

func c05bItemStr(n *c05bNode) string {
	switch n.kind {
	case 'E':
		return "<" + n.name() + ">"
	case 'T':
		return fmt.Sprintf("text %q", n.text)
	case 'P':
		return "<?" + n.text + "?>"
	}
	return "<!--" + n.text + "-->"
}

// c05bJudgeTree: clause → description of the first failing clause ("" = holds); inputWF = the input is well-formed
func c05bJudgeTree(in, out []byte, cfg c05bCfg) (clause, desc string, trig map[string]bool, inputWF bool) {
	trig = map[string]bool{}
	di, err := c05bParse(in)
	if err != nil {
		return "", "", trig, false
	}
	x := &c05bExpectCtx{cfg: cfg, styleType: "text/css", trig: trig}
	c05bScanEmptyFO(di.root, trig)
	want := c05bExpect(di.root, x, false)
	do, err := c05bParse(out)
	if err != nil {
		return "wf", "output is not well-formed XML: " + err.Error(), trig, true
	}
	if strings.Contains(di.doctype, "[") {
		if !strings.HasSuffix(strings.TrimRight(di.doctype, " \t\r\n"), "]") || di.doctype != strings.TrimRight(di.doctype, " \t\r\n") {
			trig["doctypeSpace"] = true
		}
		if c05bStripAllWs(do.doctype) != c05bStripAllWs(di.doctype) {
			return "doctype", fmt.Sprintf("DOCTYPE with internal subset %q became %q", di.doctype, do.doctype), trig, true
		}
	}
	cl, d := c05bTreeDiff("", want, do.root, cfg, false)
	return cl, d, trig, true
}

package main

// C03 document level: real lexer (parse/v2/html through html.TokenBuffer) → token groups for the model,
// real html.Minifier runs (no sub-minifiers / recording stubs), the `ext` table of results of functions
// that belong to other properties, and the document generator.

import (
	"bytes"
	"fmt"
	"go/ast"
	goparser "go/parser"
	"go/token"
	"io"
	"os"
	"path/filepath"
	"regexp"
	"sort"
	"strconv"
	"strings"

	"github.com/tdewolff/minify/v2"
	mcss "github.com/tdewolff/minify/v2/css"
	mhtml "github.com/tdewolff/minify/v2/html"
	mjs "github.com/tdewolff/minify/v2/js"
	"github.com/tdewolff/parse/v2"
	"github.com/tdewolff/parse/v2/buffer"
	phtml "github.com/tdewolff/parse/v2/html"

	"verifharness/h"
)

// ---------- options ----------

type c03Opts struct {
	KeepComments, KeepSpecialComments, KeepDefaultAttrVals, KeepDocumentTags, KeepEndTags, KeepQuotes, KeepWhitespace bool
}

func c03OptsOf(mask int) c03Opts {
	return c03Opts{mask&1 != 0, mask&2 != 0, mask&4 != 0, mask&8 != 0, mask&16 != 0, mask&32 != 0, mask&64 != 0}
}
func (o c03Opts) String() string {
	var p []string
	for _, x := range []struct {
		b bool
		n string
	}{{o.KeepComments, "KeepComments"}, {o.KeepSpecialComments, "KeepSpecialComments"}, {o.KeepDefaultAttrVals, "KeepDefaultAttrVals"}, {o.KeepDocumentTags, "KeepDocumentTags"}, {o.KeepEndTags, "KeepEndTags"}, {o.KeepQuotes, "KeepQuotes"}, {o.KeepWhitespace, "KeepWhitespace"}} {
		if x.b {
			p = append(p, x.n)
		}
	}
	if len(p) == 0 {
		return "default"
	}
	return strings.Join(p, "+")
}
func (o c03Opts) minifier() *mhtml.Minifier {
	return &mhtml.Minifier{KeepComments: o.KeepComments, KeepSpecialComments: o.KeepSpecialComments, KeepDefaultAttrVals: o.KeepDefaultAttrVals,
		KeepDocumentTags: o.KeepDocumentTags, KeepEndTags: o.KeepEndTags, KeepQuotes: o.KeepQuotes, KeepWhitespace: o.KeepWhitespace}
}
func (o c03Opts) oracle() c03oOpts {
	return c03oOpts{o.KeepComments, o.KeepSpecialComments, o.KeepDefaultAttrVals, o.KeepDocumentTags, o.KeepEndTags, o.KeepQuotes, o.KeepWhitespace}
}

// ---------- the real minifier ----------

var c03StubLabels = []string{"text/css", "application/javascript", "text/javascript", "image/svg+xml", "application/mathml+xml", "text/html", "application/json", "application/ld+json", "module"}

func c03Stub(label string, dropBackslash bool) minify.MinifierFunc {
	return func(_ *minify.M, w io.Writer, r io.Reader, params map[string]string) error {
		b, err := io.ReadAll(r)
		if err != nil {
			return err
		}
		if dropBackslash {
			b = bytes.ReplaceAll(b, []byte{'\\'}, nil)
		}
		fl := "-"
		if params["inline"] == "1" {
			fl = "i"
		}
		_, err = w.Write([]byte("[" + label + "|" + fl + "|" + string(b) + "]"))
		return err
	}
}

// c03Registry: stub=false → no sub-minifier at all (everything embedded passes through);
// stub=true → a recording stub for every media type
func c03Registry(stub bool) *minify.M {
	if stub {
		return c03RegistryMode(1)
	}
	return c03RegistryMode(0)
}

// c03RegistryMode: 0 no sub-minifier, 1 recording stubs, 2 recording stubs that also drop every backslash of the
// payload (`<\/script>` → `</script>`, `<!\--` → `<!--`: results that html.go's rawTextEndsAtEnd must reject)
func c03RegistryMode(mode int) *minify.M {
	m := minify.New()
	if mode != 0 {
		for _, l := range c03StubLabels {
			m.AddFunc(l, c03Stub(l, mode == 2))
		}
		m.AddFuncRegexp(regexp.MustCompile(`.*`), c03Stub("?", mode == 2))
	}
	return m
}

func c03RunRealMode(in []byte, o c03Opts, mode int) (out []byte, err error, crash string) {
	crash = h.Safely(20e9, func() {
		var w bytes.Buffer
		err = o.minifier().Minify(c03RegistryMode(mode), &w, bytes.NewReader(parse.Copy(in)), nil)
		out = w.Bytes()
	})
	return
}

func c03RunReal(in []byte, o c03Opts, stub bool) (out []byte, err error, crash string) {
	crash = h.Safely(20e9, func() {
		var w bytes.Buffer
		err = o.minifier().Minify(c03Registry(stub), &w, bytes.NewReader(parse.Copy(in)), nil)
		out = w.Bytes()
	})
	return
}

// ---------- tokens ----------

type c03Attr struct {
	name, val, data []byte
	tmpl            bool
}
type c03Tok struct {
	kind  byte // T S E C D V M P
	data  []byte
	text  []byte
	tmpl  bool
	attrs []c03Attr
}

// c03Lex runs the real lexer through the real TokenBuffer and groups attribute / start-tag-close tokens under
// their start tag.  lexErr: the stream ended with an error other than EOF.
func c03Lex(in []byte) (toks []c03Tok, lexErr bool) {
	z := parse.NewInputBytes(parse.Copy(in))
	defer z.Restore()
	l := phtml.NewTemplateLexer(z, [2]string{})
	tb := mhtml.NewTokenBuffer(z, l)
	for {
		t := *tb.Shift()
		switch t.TokenType {
		case phtml.ErrorToken:
			return toks, l.Err() != io.EOF
		case phtml.TextToken:
			toks = append(toks, c03Tok{kind: 'T', data: parse.Copy(t.Data), tmpl: t.HasTemplate})
		case phtml.StartTagToken:
			toks = append(toks, c03Tok{kind: 'S', data: parse.Copy(t.Data), text: parse.Copy(t.Text)})
		case phtml.AttributeToken:
			if n := len(toks); n > 0 && toks[n-1].kind == 'S' {
				toks[n-1].attrs = append(toks[n-1].attrs, c03Attr{parse.Copy(t.Text), parse.Copy(t.AttrVal), parse.Copy(t.Data), t.HasTemplate})
			}
		case phtml.StartTagCloseToken, phtml.StartTagVoidToken:
		case phtml.EndTagToken:
			toks = append(toks, c03Tok{kind: 'E', data: parse.Copy(t.Data), text: parse.Copy(t.Text)})
		case phtml.CommentToken:
			toks = append(toks, c03Tok{kind: 'C', data: parse.Copy(t.Data), text: parse.Copy(t.Text)})
		case phtml.DoctypeToken:
			toks = append(toks, c03Tok{kind: 'D'})
		case phtml.SvgToken:
			toks = append(toks, c03Tok{kind: 'V', data: parse.Copy(t.Data)})
		case phtml.MathToken:
			toks = append(toks, c03Tok{kind: 'M', data: parse.Copy(t.Data)})
		case phtml.TemplateToken:
			toks = append(toks, c03Tok{kind: 'P', data: parse.Copy(t.Data)})
		}
	}
}

func c03EncodeToks(toks []c03Tok) string {
	gs := make([][][]byte, len(toks))
	b := func(x bool) []byte {
		if x {
			return []byte("1")
		}
		return []byte("0")
	}
	for i, t := range toks {
		switch t.kind {
		case 'T':
			gs[i] = [][]byte{{'T'}, t.data, b(t.tmpl)}
		case 'S':
			g := [][]byte{{'S'}, t.text}
			for _, a := range t.attrs {
				g = append(g, a.name, a.val, a.data, b(a.tmpl))
			}
			gs[i] = g
		case 'E':
			gs[i] = [][]byte{{'E'}, t.text, t.data}
		case 'C':
			gs[i] = [][]byte{{'C'}, t.data, t.text}
		case 'D':
			gs[i] = [][]byte{{'D'}}
		default:
			gs[i] = [][]byte{{t.kind}, t.data}
		}
	}
	return h.Groups(gs)
}

// ---------- ext: results of functions of other properties on the values at hand ----------

func c03EqualFold(b []byte, target string) bool { return strings.EqualFold(string(b), target) }

// viewport number shortening exactly as html.go does it, with the real parse.Number / minify.Number
func c03Viewport(v []byte) []byte {
	v = parse.Copy(v)
	for i := 0; i < len(v); i++ {
		if v[i] == '=' && i+2 < len(v) {
			i++
			if n := parse.Number(v[i:]); 0 < n {
				minNum := minify.Number(parse.Copy(v[i:i+n]), -1)
				if len(minNum) < n {
					copy(v[i:i+len(minNum)], minNum)
					copy(v[i+len(minNum):], v[i+n:])
					v = v[:len(v)+len(minNum)-n]
				}
				i += len(minNum)
			}
			i--
		}
	}
	return v
}

// space removal of html.go's viewport branch (spaces are separators: only those next to `,` `;` `=` or a space go)
func c03ViewportSpaces(in []byte) []byte {
	v := parse.Copy(in)
	j := 0
	for i, c := range v {
		if c == ' ' && (i == 0 || i+1 == len(v) || bytes.IndexByte([]byte(",;= "), v[i+1]) != -1 || 0 < j && bytes.IndexByte([]byte(",;="), v[j-1]) != -1) {
			continue
		}
		v[j] = c
		j++
	}
	return v[:j]
}

func c03Ext(toks []c03Tok, o c03Opts, stub bool) string {
	if stub {
		return c03ExtMode(toks, o, 1)
	}
	return c03ExtMode(toks, o, 0)
}

func c03ExtMode(toks []c03Tok, o c03Opts, mode int) string {
	type key struct{ k, in string }
	seen := map[key]bool{}
	var gs [][][]byte
	add := func(kind string, in, out []byte) {
		k := key{kind, string(in)}
		if seen[k] {
			return
		}
		seen[k] = true
		gs = append(gs, [][]byte{[]byte(kind), parse.Copy(in), parse.Copy(out)})
	}
	m := c03RegistryMode(mode)
	for _, t := range toks {
		switch t.kind {
		case 'S':
			var content, name []byte
			hasContent := false
			for _, a := range t.attrs {
				va := parse.TrimWhitespace(parse.ReplaceMultipleWhitespaceAndEntities(parse.Copy(a.val), mhtml.EntitiesMap, mhtml.AttrRevEntitiesMap))
				vb := parse.ReplaceEntities(parse.Copy(a.val), mhtml.EntitiesMap, mhtml.AttrRevEntitiesMap)
				vc := parse.Copy(a.val) // values with reference glue keep their references
				vd := parse.TrimWhitespace(parse.ReplaceMultipleWhitespace(parse.Copy(a.val)))
				for _, v := range [][]byte{va, vb, vc, vd} {
					add("mediatype", v, minify.Mediatype(parse.Copy(v)))
					tv := parse.TrimWhitespace(v)
					if 5 < len(tv) && c03EqualFold(tv[:5], "data:") {
						add("datauri", tv, minify.DataURI(m, parse.Copy(tv)))
					}
				}
				if string(a.name) == "content" {
					content, hasContent = a.val, true
				}
				if string(a.name) == "name" {
					name = a.val
				}
			}
			if string(t.text) == "meta" && hasContent {
				add("mediatype", content, minify.Mediatype(parse.Copy(content)))
				if c03EqualFold(parse.TrimWhitespace(parse.Copy(name)), "viewport") {
					v := c03ViewportSpaces(content)
					add("viewport", v, c03Viewport(v))
				}
			}
		case 'C':
			if o.KeepSpecialComments && !o.KeepComments && bytes.HasPrefix(t.data, []byte("<!--[if ")) && bytes.HasSuffix(t.data, []byte("<![endif]-->")) {
				begin := bytes.IndexByte(t.data, '>') + 1
				end := len(t.data) - len("<![endif]-->")
				if begin < end {
					inner := t.data[begin:end]
					var w bytes.Buffer
					if o.minifier().Minify(m, &w, buffer.NewReader(parse.Copy(inner)), nil) == nil {
						add("html", inner, w.Bytes())
					}
				}
			}
		}
	}
	return h.Groups(gs)
}

// ---------- document generator ----------

type c03Gen struct {
	r      *h.RNG
	sb     *strings.Builder
	inForm bool
	// feature switches: constructs under an open known finding can be avoided to exercise the rest
	rich bool
}

var c03Words = []string{"a", "b", "foo", "bar", "x1", "lorem", "é", "w", "1", "&amp;", "&lt;", "&#233;", "&copy;", "&AElig;", "&quot;", "&gt;", "&#x3C;", "&apos;", "&hellip;", "&nbsp;", "a&amp;b", "&", "&x", "q&a;"}
var c03Spaces = []string{"", "", " ", " ", "\n", "\n  ", "\t", "  ", " \n "}

func (g *c03Gen) ws() {
	g.sb.WriteString(g.r.Pick(c03Spaces))
}
func (g *c03Gen) text() {
	n := 1 + g.r.Intn(3)
	if g.r.Chance(35) {
		g.ws()
	}
	for i := 0; i < n; i++ {
		if i > 0 {
			g.sb.WriteString(g.r.Pick([]string{" ", " ", "  ", "\n", " \t"}))
		}
		if g.r.Chance(4) {
			// no raw `<` in text (it would start a tag or be a parse error)
			g.sb.WriteString(strings.ReplaceAll(string(c03GenRefText(g.r, false)), "<", "&lt;"))
		} else {
			g.sb.WriteString(g.r.Pick(c03Words))
		}
	}
	if g.r.Chance(35) {
		g.ws()
	}
}
func (g *c03Gen) comment() {
	if g.r.Chance(8) {
		g.sb.WriteString(g.r.Pick([]string{"<!-- c -->", "<!---->", "<!-- a -- b -->", "<!--[if IE]><p>x</p><![endif]-->", "<!--#include x -->", "<!--[if !IE]>--><!--<![endif]-->", "<!--[if IE]><a title=\"--&gt;\">x</a><![endif]-->", "<!--[if IE]><a title=\"--!&gt;\">x</a> <![endif]-->", "<!--[if IE]><a title=\"-&gt;\">x</a>  <b>y</b><![endif]-->"}))
	}
}

var c03GlobalAttrs = []string{"class", "id", "title", "lang", "dir", "style", "hidden", "tabindex", "data-x", "onclick", "itemscope", "itemprop", "translate", "accesskey", "draggable", "contenteditable", "is", "slot", "about", "property", "content", "role", "aria-label"}
var c03TagAttrs = map[string][]string{
	"a": {"href", "name", "id", "target", "rel", "type", "hreflang", "download", "ping"}, "img": {"src", "alt", "width", "height", "ismap", "usemap", "srcset", "loading", "decoding"},
	"input":  {"type", "value", "name", "checked", "disabled", "required", "readonly", "placeholder", "maxlength", "size", "pattern", "autofocus", "multiple", "min", "max", "step", "list", "form", "accept"},
	"button": {"type", "disabled", "name", "value", "formaction", "formmethod", "formenctype", "formnovalidate"}, "form": {"action", "method", "enctype", "novalidate", "name", "target", "accept-charset", "autocomplete"},
	"script": {"type", "src", "async", "defer", "charset", "nomodule", "crossorigin", "language"}, "style": {"type", "media", "amp-boilerplate"}, "link": {"rel", "href", "type", "media", "as", "crossorigin"},
	"meta": {"name", "content", "http-equiv", "charset"}, "td": {"colspan", "rowspan", "headers"}, "th": {"colspan", "rowspan", "scope", "headers"}, "col": {"span"}, "colgroup": {"span"},
	"select": {"multiple", "name", "size", "disabled", "required"}, "option": {"value", "selected", "disabled", "label"}, "optgroup": {"label", "disabled"}, "textarea": {"rows", "cols", "name", "wrap", "readonly", "placeholder"},
	"iframe": {"src", "width", "height", "allowfullscreen", "sandbox", "name", "loading"}, "video": {"src", "controls", "autoplay", "loop", "muted", "poster", "preload", "playsinline"}, "audio": {"src", "controls", "autoplay", "loop", "muted"},
	"object": {"data", "type", "width"}, "embed": {"src", "type"}, "source": {"src", "type", "media", "srcset"}, "track": {"src", "kind", "default", "srclang"}, "area": {"shape", "coords", "href"}, "ol": {"reversed", "start", "type"},
	"details": {"open"}, "dialog": {"open"}, "label": {"for"}, "html": {"lang", "xmlns"}, "body": {"class", "onload"}, "time": {"datetime"}, "blockquote": {"cite"}, "q": {"cite"}, "ins": {"cite", "datetime"}, "del": {"cite"}, "meter": {"value", "min", "max", "low", "high", "optimum"}, "progress": {"value", "max"}, "base": {"href", "target"},
}
var c03AttrVals = map[string][]string{
	"type":   {"text", "TEXT", "text/javascript", "text/css", "submit", "radio", "checkbox", "module", "text/html", "application/ld+json", " text/javascript ", "Text/JavaScript; charset=utf-8", "application/javascript", "button", "image/png", "text/template"},
	"method": {"get", "GET", "post", " get "}, "enctype": {"application/x-www-form-urlencoded", "multipart/form-data", "Text/Plain"}, "formenctype": {"application/x-www-form-urlencoded", "multipart/form-data"}, "accept": {"image/*", "image/png, image/jpeg", ".pdf,.doc", "Text/HTML"}, "shape": {"rect", "RECT", "circle"}, "media": {"all", "ALL", "screen", "print and (x)"},
	"colspan": {"1", "2", "one"}, "rowspan": {"1", "3", "one"}, "span": {"1", "2", "one"}, "value": {"", "on", "ON", "x", "a b", "1"}, "charset": {"utf-8", "UTF-8"}, "http-equiv": {"content-type", " Content-Type ", "refresh"},
	"content": {"text/html; charset=utf-8", "Text/HTML; Charset=UTF-8", "a, b, c", "width=device-width, initial-scale=1.0", "width=device-width,initial-scale=1.50,maximum-scale=01", "x", ""},
	"name":    {"keywords", "viewport", "Viewport", "description", "n", ""}, "href": {"http://x.y/z", "HTTP://X.Y", "https://a.b/?q=1&amp;r=2", "Https://x", " /p a th ", "#f", "data:text/plain;charset=us-ascii,a%20b", "data:,x", "javascript:void(0)", "httpx", "http:/", "mailto:a@b"},
	"src": {"a.png", " b.js ", "http://x/y.js", "data:image/png;base64,AAAA", "DATA:text/css,a%7Bb%7D", "//cdn/x"}, "action": {"", "/x", "http://x/", " "}, "style": {"", "color:red", " color : red ; ", "a:b;c:d"}, "onclick": {"f()", "javascript:f()", " JavaScript: g() ", "", "a=&quot;b&quot;"},
	"class": {"a", " a  b ", "", "a\nb", "x y z"}, "id": {"i", "", " j "}, "dir": {"ltr", ""}, "rel": {"stylesheet", " noopener  noreferrer "}, "target": {"_blank", " my  frame "}, "pattern": {"a  b", "[a-z]+"}, "language": {"javascript"},
}

func (g *c03Gen) attrValue(name string) string {
	if vs, ok := c03AttrVals[name]; ok && (g.r.Chance(75) || name == "type" || name == "enctype" || name == "formenctype" || name == "accept" || name == "content" || name == "http-equiv") {
		return g.r.Pick(vs) // media types: whitespace inside a type is not a valid value
	}
	if g.r.Chance(35) {
		return string(c03GenRefText(g.r, false))
	}
	return g.r.Pick([]string{"v", "a b", "x\"y", "it's", "a=b", "<x>", "a`b", "a&amp;b", "&lt;", "é", "1", "", " p ", "a\tb", "q'\"r", "a&b", "x>y", "&quot;q&quot;", "&#39;s&#39;"})
}

func (g *c03Gen) attrs(tag string) {
	n := []int{0, 0, 0, 1, 1, 2, 3}[g.r.Intn(7)]
	if _, ok := c03TagAttrs[tag]; ok && g.r.Chance(60) {
		n++
	}
	used := map[string]bool{}
	for i := 0; i < n; i++ {
		var name string
		if ta, ok := c03TagAttrs[tag]; ok && g.r.Chance(65) {
			name = g.r.Pick(ta)
		} else {
			name = g.r.Pick(c03GlobalAttrs)
		}
		if used[name] { // duplicate attributes are a parse error
			continue
		}
		if tag == "meta" && (name == "name" && used["http-equiv"] || name == "http-equiv" && used["name"]) {
			continue // a meta element is either a named or a pragma one
		}
		used[name] = true
		if g.r.Chance(5) {
			name = strings.ToUpper(name)
		}
		g.sb.WriteString(g.r.Pick([]string{" ", " ", "  ", "\n"}))
		g.sb.WriteString(name)
		if g.r.Chance(12) {
			continue // no value
		}
		v := g.attrValue(strings.ToLower(name))
		eq := g.r.Pick([]string{"=", "=", "=", " = "})
		switch q := g.r.Intn(10); {
		case q < 5 && !strings.Contains(v, `"`):
			g.sb.WriteString(eq + `"` + v + `"`)
		case q < 8 && !strings.Contains(v, `'`):
			g.sb.WriteString(eq + `'` + v + `'`)
		default:
			ok := v != ""
			for _, c := range []byte(v) {
				if strings.IndexByte(" \t\n\r\f\"'=<>`", c) >= 0 {
					ok = false
				}
			}
			if ok {
				g.sb.WriteString(eq + v)
			} else if !strings.Contains(v, `"`) {
				g.sb.WriteString(eq + `"` + v + `"`)
			} else {
				g.sb.WriteString(eq + `'` + strings.ReplaceAll(v, `'`, "&#39;") + `'`)
			}
		}
	}
}

func (g *c03Gen) open(tag string) {
	t := tag
	if g.r.Chance(4) {
		t = strings.ToUpper(tag)
	}
	g.sb.WriteString("<" + t)
	g.attrs(tag)
	g.sb.WriteString(g.r.Pick([]string{">", ">", ">", " >"}))
}
func (g *c03Gen) close(tag string) {
	g.sb.WriteString(g.r.Pick([]string{"</" + tag + ">", "</" + tag + ">", "</" + tag + " >", "</" + strings.ToUpper(tag) + ">"}))
}

var c03Phrasing = []string{"span", "b", "i", "em", "strong", "a", "code", "small", "label", "q", "cite", "abbr", "sub", "sup", "mark", "time", "u", "s", "var", "kbd", "samp", "bdi", "bdo", "data", "dfn", "output", "slot", "ins", "del", "font", "tt", "big"}
var c03Flow = []string{"div", "section", "article", "aside", "nav", "header", "footer", "main", "blockquote", "figure", "form", "fieldset", "details", "dialog", "address", "my-el", "x-foo", "center"}
var c03Void = []string{"br", "img", "input", "hr", "wbr", "embed"}
var c03Headings = []string{"h1", "h2", "h3", "h6"}

func (g *c03Gen) phrasing(d int) {
	n := 1 + g.r.Intn(3)
	for i := 0; i < n; i++ {
		g.comment()
		switch k := g.r.Intn(20); {
		case k < 9 || d <= 0:
			g.text()
		case k < 14:
			t := g.r.Pick(c03Phrasing)
			g.open(t)
			if g.r.Chance(85) {
				g.phrasing(d - 1)
			}
			g.close(t)
		case k < 16:
			t := g.r.Pick(c03Void)
			if t == "hr" {
				t = "br"
			}
			g.open(t)
		case k < 17:
			g.special(d)
		case k < 18:
			g.open("button")
			g.phrasing(0)
			g.close("button")
		default:
			g.ws()
		}
	}
}

// special: raw text, select, ruby, media, svg/math, template, noscript, textarea, iframe
func (g *c03Gen) special(d int) {
	switch g.r.Intn(14) {
	case 0:
		g.open("script")
		g.sb.WriteString(g.r.Pick([]string{"", "x()", " a < b && c ", "var s='<b>';", "/* &amp; */ f( )", "s='<\\/script>'", "s='<\\/SCRIPT >x'", "<!\\--<script>x", "<!--<script>\\</script>-->", "a<!--b<\\/script>c", "<!-->x<\\/script", "s='<\\/scriptx>'"}))
		g.close("script")
	case 1:
		g.open("style")
		g.sb.WriteString(g.r.Pick([]string{"", "a{b:c}", " p > q { x : y } ", "a:before{content:\"&amp;  x\"}", "a{b:\"<\\/style>\"}", "a{b:< \\/style >}", "a{b:<\\/STYLE}", "<!--a{b:<\\/styles>}-->"}))
		g.close("style")
	case 2:
		g.open("textarea")
		g.sb.WriteString(g.r.Pick([]string{"", " a  b\n", "\nx", "&amp; <b> "}))
		g.close("textarea")
	case 3:
		g.open("select")
		g.ws()
		for i := g.r.Intn(3); i >= 0; i-- {
			if g.r.Chance(30) {
				g.open("optgroup")
				g.ws()
				for j := g.r.Intn(2); j >= 0; j-- {
					g.open("option")
					g.text()
					g.close("option")
					g.ws()
				}
				g.close("optgroup")
			} else {
				g.open("option")
				g.text()
				g.close("option")
			}
			g.ws()
		}
		g.close("select")
	case 4:
		g.open("ruby")
		g.text()
		if g.r.Bool() {
			g.open("rp")
			g.sb.WriteString("(")
			g.close("rp")
		}
		g.open("rt")
		g.text()
		g.close("rt")
		if g.r.Bool() {
			g.open("rp")
			g.sb.WriteString(")")
			g.close("rp")
		}
		if g.rich && g.r.Chance(30) {
			g.text()
			g.open("rt")
			g.text()
			g.close("rt")
		}
		g.close("ruby")
	case 5:
		t := g.r.Pick([]string{"video", "audio"})
		g.open(t)
		if g.r.Bool() {
			g.open("source")
		}
		g.close(t)
	case 6:
		g.sb.WriteString(g.r.Pick([]string{"<svg><path d=\"M0 0\"/></svg>", "<svg viewBox='0 0 1 1'> <g> </g> </svg>", "<math><mi>x</mi></math>", "<SVG></SVG>"}))
	case 7:
		if g.rich {
			g.open("template")
			g.phrasing(0)
			g.close("template")
		} else {
			g.text()
		}
	case 8:
		if g.rich {
			g.open("noscript")
			g.phrasing(0)
			g.close("noscript")
		} else {
			g.text()
		}
	case 9:
		g.open("iframe")
		g.sb.WriteString(g.r.Pick([]string{"", " <p>x</p> ", "a  b", "<\\/iframe><p>x", "<\\/ifram>"}))
		g.close("iframe")
	case 10:
		g.open("canvas")
		g.close("canvas")
	case 11:
		g.open("object")
		g.phrasing(0)
		g.close("object")
	case 12:
		g.open("meter")
		g.close("meter")
	default:
		g.open("datalist")
		g.ws()
		g.open("option")
		g.close("option")
		g.ws()
		g.close("datalist")
	}
}

func (g *c03Gen) flow(d int) {
	n := 1 + g.r.Intn(3)
	for i := 0; i < n; i++ {
		g.comment()
		if g.r.Chance(50) {
			g.ws()
		}
		switch k := g.r.Intn(24); {
		case k < 5:
			g.open("p")
			g.phrasing(d - 1)
			if g.r.Chance(85) {
				g.close("p")
			}
		case k < 8 && d > 0:
			t := g.r.Pick(c03Flow)
			if t == "form" && g.inForm {
				t = "div" // a form inside a form is not conforming (the parser ignores the inner start tag)
			}
			was := g.inForm
			g.inForm = g.inForm || t == "form"
			g.open(t)
			g.flow(d - 1)
			g.close(t)
			g.inForm = was
		case k < 10:
			t := g.r.Pick(c03Headings)
			g.open(t)
			g.phrasing(d - 1)
			g.close(t)
		case k < 12 && d > 0:
			t := g.r.Pick([]string{"ul", "ol", "menu"})
			g.open(t)
			g.ws()
			for j := g.r.Intn(3); j >= 0; j-- {
				g.open("li")
				if g.r.Bool() {
					g.phrasing(d - 1)
				} else {
					g.flow(d - 1)
				}
				if g.r.Chance(85) {
					g.close("li")
				}
				g.ws()
				if g.rich && g.r.Chance(8) {
					g.sb.WriteString("<script>x()</script>")
				}
				g.comment()
			}
			g.close(t)
		case k < 14 && d > 0:
			g.open("dl")
			g.ws()
			for j := g.r.Intn(2); j >= 0; j-- {
				g.open("dt")
				g.phrasing(d - 1)
				if g.r.Chance(85) {
					g.close("dt")
				}
				g.ws()
				g.open("dd")
				g.phrasing(d - 1)
				if g.r.Chance(85) {
					g.close("dd")
				}
				g.ws()
			}
			g.close("dl")
		case k < 17 && d > 0:
			g.table(d - 1)
		case k < 18:
			g.open("pre")
			g.sb.WriteString(g.r.Pick([]string{"", "\n a  b \n", " x ", "a\n\n b&amp;c  "}))
			if g.r.Chance(40) {
				g.phrasing(0)
			}
			g.close("pre")
		case k < 19:
			g.open("hr")
		case k < 22:
			g.phrasing(d - 1)
		default:
			g.special(d)
		}
		if g.r.Chance(50) {
			g.ws()
		}
	}
}

func (g *c03Gen) table(d int) {
	g.open("table")
	g.ws()
	if g.r.Chance(25) {
		g.open("caption")
		g.phrasing(0)
		g.close("caption")
		g.ws()
	}
	if g.rich && g.r.Chance(25) {
		for j := g.r.Intn(2); j >= 0; j-- {
			g.open("colgroup")
			for i := g.r.Intn(3); i > 0; i-- {
				g.ws()
				g.open("col")
			}
			g.ws()
			g.close("colgroup")
			g.ws()
		}
	}
	rows := func() {
		for j := g.r.Intn(2); j >= 0; j-- {
			g.open("tr")
			g.ws()
			for i := g.r.Intn(3); i >= 0; i-- {
				t := g.r.Pick([]string{"td", "td", "th"})
				g.open(t)
				if g.r.Chance(70) {
					g.phrasing(d)
				} else {
					g.flow(d)
				}
				if g.r.Chance(85) {
					g.close(t)
				}
				g.ws()
			}
			if g.r.Chance(85) {
				g.close("tr")
			}
			g.ws()
			g.comment()
		}
	}
	if g.r.Chance(40) {
		g.open("thead")
		g.ws()
		rows()
		g.close("thead")
		g.ws()
	}
	if g.r.Chance(60) {
		g.open("tbody")
		g.ws()
		rows()
		if g.r.Chance(85) {
			g.close("tbody")
		}
		g.ws()
	} else {
		rows()
	}
	if g.r.Chance(25) {
		g.open("tfoot")
		g.ws()
		rows()
		g.close("tfoot")
		g.ws()
	}
	g.close("table")
}

// c03GenDoc: a mostly conforming document or fragment.  rich=false avoids the constructs that fall under open
// known findings about optional tags (script/template between list items, extra ruby text, colgroup, noscript …).
func c03GenDoc(r *h.RNG, rich bool) []byte {
	g := &c03Gen{r: r, sb: &strings.Builder{}, rich: rich}
	full := r.Chance(45)
	if full {
		if r.Chance(80) {
			g.sb.WriteString(r.Pick([]string{"<!DOCTYPE html>", "<!doctype html>", "<!DOCTYPE html >\n", "<!DOCTYPE html PUBLIC \"-//W3C//DTD HTML 4.01//EN\" \"http://www.w3.org/TR/html4/strict.dtd\">", "<!DOCTYPE html SYSTEM \"about:legacy-compat\">"}))
		}
		g.ws()
		g.open("html")
		g.ws()
		g.open("head")
		g.ws()
		for i := r.Intn(4); i > 0; i-- {
			switch r.Intn(6) {
			case 0:
				g.open("title")
				g.text()
				g.close("title")
			case 1, 2:
				g.open("meta")
			case 3:
				g.open("link")
			case 4:
				g.open("script")
				g.sb.WriteString(r.Pick([]string{"", "x()", "{\"a\": 1}"}))
				g.close("script")
			default:
				g.open("style")
				g.sb.WriteString(r.Pick([]string{"", "a{b:c}"}))
				g.close("style")
			}
			g.ws()
		}
		g.close("head")
		g.ws()
		g.open("body")
		g.flow(2 + r.Intn(2))
		g.close("body")
		g.ws()
		g.close("html")
		g.ws()
	} else {
		g.flow(2 + r.Intn(2))
	}
	return []byte(g.sb.String())
}

// ---------- fixed corpus ----------

func c03CorpusFiles(repo string) (names []string, docs [][]byte) {
	for _, pat := range []string{"tests/html/corpus/*", "_benchmarks/*.html"} {
		ms, _ := filepath.Glob(filepath.Join(repo, pat))
		sort.Strings(ms)
		for _, p := range ms {
			b, err := os.ReadFile(p)
			if err == nil && len(b) > 0 {
				names = append(names, p)
				docs = append(docs, b)
			}
		}
	}
	return
}

// ---------- stage: tokens → bytes, model vs html.Minify ----------

type c03DocCase struct {
	name string
	doc  []byte
	mask int
	stub int // 0 no sub-minifier, 1 recording stubs, 2 stubs that drop backslashes
	out  []byte
}

func c03StageLoop(c *Ctx, docs [][]byte, names []string) error {
	st := c.R.StartStage("loop", "documents (generated mostly-conforming documents/fragments over every element with optional tags, lists, tables, select, ruby, raw-text elements, svg/math, comments incl. conditional, attributes over the full value alphabet; /repo/tests/html/corpus; /repo/_benchmarks/*.html; inputs of html_test.go) lexed by the REAL lexer through the real TokenBuffer; html.Minifier.Minify bytes (registry without sub-minifiers, and with recording stubs for every media type) vs model.c03.minify on the token stream, for random Keep* masks (all 128 combinations occur); non-trivial = output differs from input")
	var cases []c03DocCase
	var lines []string
	lexErrs, errs := 0, 0
	for i, doc := range docs {
		r := c.Rng.Fork()
		toks, lexErr := c03Lex(doc)
		if lexErr {
			lexErrs++
			continue
		}
		enc := c03EncodeToks(toks)
		nm := 2
		if len(doc) > 20000 {
			nm = 1
		}
		allOpts := strings.HasPrefix(names[i], "c03-regress3:")
		if allOpts {
			nm = 16
		}
		for k := 0; k < nm; k++ {
			mask := r.Intn(128)
			if k == 0 && r.Chance(30) {
				mask = 0
			}
			if allOpts {
				mask = k<<2 | mask&0x43
			}
			sm := 0
			if r.Chance(35) {
				sm = 1
				if r.Chance(40) {
					sm = 2 // stubs whose results can end the raw text element early / leave it open
				}
			}
			o := c03OptsOf(mask)
			out, err, crash := c03RunRealMode(doc, o, sm)
			if crash != "" {
				c.R.Add(h.Finding{Stage: st.Name, Kind: "crash", What: crash, Input: h.Q(doc), Hex: h.Hex(doc), Config: o.String()})
				continue
			}
			if err != nil {
				errs++
				continue
			}
			cases = append(cases, c03DocCase{names[i], doc, mask, sm, out})
			lines = append(lines, "model.c03.minify "+h.Int(int64(mask))+" "+h.Int(int64(sm))+" "+c03ExtMode(toks, o, sm)+" "+enc)
		}
	}
	rep, err := h.Eval(lines)
	if err != nil {
		return err
	}
	outDomain, nDiff := 0, 0
	for i, cs := range cases {
		o := c03OptsOf(cs.mask)
		key := fmt.Sprintf("%s [%s stub=%v]", cs.name, o, cs.stub)
		st.Count(key, !bytes.Equal(cs.doc, cs.out))
		st.Tag(fmt.Sprintf("stub=%v", cs.stub))
		got, ok, msg := h.DecodeReply(rep[i])
		if !ok {
			if strings.HasPrefix(msg, "ext missing") {
				outDomain++
				st.Tag("out-of-domain=" + msg)
				continue
			}
			c.R.Add(h.Finding{Stage: st.Name, Kind: "diff", What: "model error: " + msg, Input: key, Hex: h.Hex(cs.doc), Config: o.String()})
			continue
		}
		if !bytes.Equal(got, cs.out) {
			nDiff++
			if nDiff > 8 { // keep room in the report for failing inputs found by the property oracle
				continue
			}
			in := h.Q(cs.doc)
			if len(in) > 600 {
				in = cs.name
			}
			c.R.Add(h.Finding{Stage: st.Name, Kind: "diff", What: "model.c03.minify", Input: in, Hex: h.Hex(c03Clip(cs.doc)), Config: fmt.Sprintf("%s stub=%v", o, cs.stub), Impl: c03DiffAt(cs.out, got), Model: c03DiffAt(got, cs.out)})
		}
	}
	c.R.Note("loop: %d documents skipped (lexer error other than EOF), %d runs returned an error, %d runs outside the modelled domain (ext table), %d model/implementation differences", lexErrs, errs, outDomain, nDiff)
	st.End()
	return nil
}

func c03Clip(b []byte) []byte {
	if len(b) > 4000 {
		return b[:4000]
	}
	return b
}

// c03DiffAt shows a around the first position where a and b differ
func c03DiffAt(a, b []byte) string {
	i := 0
	for i < len(a) && i < len(b) && a[i] == b[i] {
		i++
	}
	lo, hi := i-40, i+60
	if lo < 0 {
		lo = 0
	}
	if hi > len(a) {
		hi = len(a)
	}
	return fmt.Sprintf("@%d …%s…", i, h.Q(a[lo:hi]))
}

// ---------- stage: DOM oracle on the real output ----------

// which oracle signatures a document-level trigger can explain
var c03TrigSigs = map[string]string{
	"crlf": "attr-value text-words text-space", "hexoverflow": "text-words attr-value",
	"colgroup": "*", "textjoin": "text-words", // a changed tree shifts every later comparison
	"rawstyle": "raw-text text-space text-words element-structure",
}

func c03Explains(trigs []string, sig string) string {
	for _, t := range trigs {
		for _, s := range strings.Fields(c03TrigSigs[t]) {
			if s == sig || s == "*" {
				return t
			}
		}
	}
	return ""
}

var c03KnownOfTrig = map[string]string{"hexoverflow": "K-C03-3", "colgroup": "K-C03-6", "textjoin": "K-C03-8", "rawstyle": "K-C03-11",
	"crlf": "K-C03-13"}

func c03StageDom(c *Ctx, docs [][]byte, names []string, allMasks bool) error {
	st := c.R.StartStage("dom", "PROPERTY ORACLE independent of the model: input and real html.Minify output (registry without sub-minifiers) parsed by golang.org/x/net/html and compared modulo the documented changes (comments; whitespace that cannot render, judged with the HTML standard's display classes; droppable default/empty attributes; attribute value normalisations) on generated conforming documents, the fixed snippet corpus (all 32 Keep* combinations), /repo/tests/html/corpus and /repo/_benchmarks; a difference is a failing input unless the document falls under the trigger of an open known finding that explains the difference class; non-trivial = output differs from input")
	open := map[string]bool{}
	for _, k := range h.Known("C03") {
		if k.Status == "open" {
			open[k.ID] = true
		}
	}
	type item struct {
		name string
		doc  []byte
		mask int
		res  string
	}
	var items []item
	var lines []string
	for i, doc := range docs {
		r := c.Rng.Fork()
		masks := []int{(r.Intn(32) << 2), 0}
		if allMasks {
			masks = nil
			for m := 0; m < 32; m++ {
				masks = append(masks, m<<2)
			}
		} else if len(doc) > 20000 {
			masks = masks[:1]
		}
		toks, lexErr := c03Lex(doc)
		if lexErr {
			continue
		}
		anyDiff := false
		for _, mask := range masks {
			o := c03OptsOf(mask)
			out, err, crash := c03RunReal(doc, o, false)
			if crash != "" {
				c.R.Add(h.Finding{Stage: st.Name, Kind: "crash", What: crash, Input: h.Q(doc), Hex: h.Hex(c03Clip(doc)), Config: o.String()})
				continue
			}
			if err != nil {
				continue
			}
			res := c03oCompare(doc, out, o.oracle())
			st.Count(fmt.Sprintf("%s [%s]", names[i], o), !bytes.Equal(doc, out))
			if res != "" {
				items = append(items, item{names[i], doc, mask, res})
				anyDiff = true
			}
		}
		if anyDiff {
			lines = append(lines, "trig.c03.doc "+c03EncodeToks(toks))
		}
	}
	rep, err := h.Eval(lines)
	if err != nil {
		return err
	}
	k := -1
	var last []byte
	var trigs []string
	for _, it := range items {
		if !bytes.Equal(it.doc, last) || k < 0 {
			k++
			last = it.doc
			b, ok, _ := h.DecodeReply(rep[k])
			trigs = nil
			if ok && string(b) != "none" {
				trigs = strings.Split(string(b), ",")
			}
		}
		sig := it.res
		if j := strings.Index(sig, ":"); j > 0 {
			sig = sig[:j]
		}
		o := c03OptsOf(it.mask)
		if t := c03Explains(trigs, sig); t != "" && open[c03KnownOfTrig[t]] {
			c.R.ExcludedKnown++
			st.Tag("known=" + c03KnownOfTrig[t])
			continue
		}
		in := h.Q(it.doc)
		if len(in) > 1500 {
			in = it.name
		}
		c.R.Add(h.Finding{Stage: st.Name, Kind: "fail", What: "parsed document changed (" + sig + ")", Input: in, Hex: h.Hex(c03Clip(it.doc)), Config: o.String(), Impl: it.res, Model: "triggers: " + strings.Join(trigs, ",")})
	}
	st.End()
	return nil
}

// ---------- known findings: replay ----------

func c03ReplayKnown(c *Ctx) error {
	for _, k := range h.Known("C03") {
		if k.Status == "fixed" && k.ReplayStr("kind") == "dom" {
			// regression: the input of a fixed finding must parse back to the same document
			in := []byte(k.ReplayStr("input"))
			for mask := 0; mask < 128; mask += 2 { // every combination except KeepComments
				o := c03OptsOf(mask)
				out, err, crash := c03RunReal(in, o, false)
				if crash != "" || err != nil {
					c.R.Add(h.Finding{Stage: "known", Kind: "crash", What: "fixed finding " + k.ID + ": " + crash, Input: h.Q(in), Hex: h.Hex(in), Config: o.String()})
					break
				}
				if res := c03oCompare(in, out, o.oracle()); res != "" {
					c.R.Add(h.Finding{Stage: "known", Kind: "fail", What: "fixed finding " + k.ID + " fails again", Input: h.Q(in), Hex: h.Hex(in), Config: o.String(), Impl: h.Q(out) + " — " + res})
					break
				}
			}
			continue
		}
		if k.Status != "open" {
			continue
		}
		in := []byte(k.ReplayStr("input"))
		switch k.ReplayStr("kind") {
		case "dom":
			mask := 0
			if v, ok := k.Replay["mask"].(float64); ok {
				mask = int(v)
			}
			o := c03OptsOf(mask)
			out, err, crash := c03RunReal(in, o, false)
			if crash != "" || err != nil {
				c.R.AddKnown(k.ID, true, k.What, "crash/err: "+crash)
				continue
			}
			res := c03oCompare(in, out, o.oracle())
			sig := res
			if j := strings.Index(sig, ":"); j > 0 {
				sig = sig[:j]
			}
			still := res != "" && strings.Contains(","+k.ReplayStr("signature")+",", ","+sig+",")
			if res != "" && !still {
				c.R.Add(h.Finding{Stage: "known", Kind: "fail", What: "known finding " + k.ID + " fails with a different signature: " + sig, Input: h.Q(in), Hex: h.Hex(in), Impl: res})
			}
			c.R.AddKnown(k.ID, still, k.What, h.Q(out)+" — "+res)
		case "domjs": // html with the REAL js minifier registered (the dom stage itself runs without sub-minifiers)
			m := minify.New()
			m.AddFunc("application/javascript", mjs.Minify)
			var w bytes.Buffer
			var err error
			crash := h.Safely(20e9, func() {
				err = c03OptsOf(0).minifier().Minify(m, &w, bytes.NewReader(parse.Copy(in)), nil)
			})
			if crash != "" || err != nil {
				c.R.AddKnown(k.ID, true, k.What, "crash/err: "+crash)
				continue
			}
			res := c03oCompare(in, w.Bytes(), c03OptsOf(0).oracle())
			c.R.AddKnown(k.ID, res != "", k.What, h.Q(w.Bytes())+" — "+res)
		case "refs":
			mode := 0
			if v, ok := k.Replay["mode"].(float64); ok {
				mode = int(v)
			}
			out := c03RealRepl(mode, in)
			attr := mode == 1 || mode == 3
			rep, err := h.Eval([]string{"spec.c03.decode " + h.Bool(attr) + " " + h.Hex(in), "spec.c03.decode " + h.Bool(attr) + " " + h.Hex(out)})
			if err != nil {
				return err
			}
			a, _, _ := h.DecodeReply(rep[0])
			b, _, _ := h.DecodeReply(rep[1])
			c.R.AddKnown(k.ID, !bytes.Equal(a, b), k.What, fmt.Sprintf("%s decodes to %s, input decodes to %s", h.Q(out), h.Q(b), h.Q(a)))
		}
	}
	return nil
}

// ---------- inputs of /repo/html/html_test.go (first string of every {"…", "…"} pair) ----------

func c03TestInputs(repo string) (names []string, docs [][]byte) {
	fset := token.NewFileSet()
	f, err := goparser.ParseFile(fset, filepath.Join(repo, "html", "html_test.go"), nil, 0)
	if err != nil {
		return
	}
	seen := map[string]bool{}
	ast.Inspect(f, func(n ast.Node) bool {
		fd, ok := n.(*ast.FuncDecl)
		if ok && (strings.Contains(fd.Name.Name, "Template") || strings.Contains(fd.Name.Name, "Error")) {
			return false
		}
		cl, ok := n.(*ast.CompositeLit)
		if !ok || cl.Type != nil || len(cl.Elts) != 2 {
			return true
		}
		a, ok1 := cl.Elts[0].(*ast.BasicLit)
		b, ok2 := cl.Elts[1].(*ast.BasicLit)
		if !ok1 || !ok2 || a.Kind != token.STRING || b.Kind != token.STRING {
			return true
		}
		s, err := strconv.Unquote(a.Value)
		if err != nil || seen[s] || s == "" {
			return true
		}
		seen[s] = true
		names = append(names, "html_test.go:"+strconv.Itoa(fset.Position(a.Pos()).Line)+" "+h.Q([]byte(s)))
		docs = append(docs, []byte(s))
		return true
	})
	return
}

// ---------- systematic contexts: every optional-tag element before every kind of next token; every known
// attribute on a spread of tags ----------

var c03HashNameRe = regexp.MustCompile(`(?m)^\s+\w+\s+Hash = 0x[0-9a-f]+\s+// (\S+)$`)

func c03HashNames(repo string) []string {
	b, err := os.ReadFile(filepath.Join(repo, "html", "hash.go"))
	if err != nil {
		return nil
	}
	var out []string
	for _, m := range c03HashNameRe.FindAllSubmatch(b, -1) {
		out = append(out, string(m[1]))
	}
	sort.Strings(out)
	return out
}

func c03ContextDocs(c *Ctx) (names []string, docs [][]byte) {
	all := append(c03HashNames(c.Repo), "my-el", "foo", "x-y")
	elems := []string{"p", "li", "dt", "dd", "rb", "rt", "rtc", "rp", "optgroup", "option", "thead", "tbody", "tfoot", "tr", "td", "th", "colgroup", "caption", "html", "head", "body", "pre", "template", "select", "script", "style"}
	add := func(s string) {
		docs = append(docs, []byte(s))
		names = append(names, h.Q([]byte(s)))
	}
	for _, e := range elems {
		for _, n := range all {
			for _, sp := range []string{"", " "} {
				if !c.Thorough() && c.Rng.Intn(6) != 0 {
					continue
				}
				add("<" + e + ">x</" + e + ">" + sp + "<" + n + ">y")
				add("<" + n + "><" + e + ">x </" + e + ">" + sp + "</" + n + "> z")
				add("a <" + n + "> b </" + n + "> c<" + e + ">" + sp + "<" + n + "></" + n + "></" + e + ">")
			}
		}
		for _, nx := range []string{"", " ", "text", " text", "<!-- c -->", "<!-- c --><" + e + ">", " <!-- c --> <option>", "<svg></svg>", "<math></math>"} {
			add("<" + e + ">x</" + e + ">" + nx)
			add("<div><" + e + " id=i>x </" + e + ">" + nx + "</div>")
		}
	}
	// attributes: every name known to ToHash on a spread of tags with a spread of values
	tags := []string{"a", "div", "input", "script", "style", "link", "form", "button", "td", "col", "area", "meta", "my-el", "img", "iframe", "object", "embed", "source"}
	vals := []string{"", "x", " x ", "a  b", "text/javascript", "TEXT/CSS", "get", "one", "rect", "all", "submit", "text", "http://A/b", "HTTPS://x", "data:,x", "on", "radio", "application/x-www-form-urlencoded", "it's \"q\"", "a&amp;b", "&lt;", "javascript:f()"}
	for _, a := range all {
		for _, t := range tags {
			if !c.Thorough() && c.Rng.Intn(8) != 0 {
				continue
			}
			v := vals[c.Rng.Intn(len(vals))]
			add("<" + t + " " + a + "=\"" + strings.ReplaceAll(v, "\"", "&quot;") + "\">")
			add("<" + t + " " + a + "='" + strings.ReplaceAll(v, "'", "&#39;") + "' " + a + ">x</" + t + ">")
		}
	}
	return
}

// ---------- rawlex: html.go's rawTextEndsAtEnd (through the real Minify) vs the model of the lexer's raw text scan ----------

// c03RawAccepted: does the real html minifier use the sub-minifier result b as content of <name>?
func c03RawAccepted(name string, b []byte) (accepted bool, crash string) {
	m := minify.New()
	m.AddFuncRegexp(regexp.MustCompile(`.*`), minify.MinifierFunc(func(_ *minify.M, w io.Writer, r io.Reader, _ map[string]string) error {
		io.ReadAll(r)
		_, err := w.Write(b)
		return err
	}))
	in := []byte("<" + name + ">@</" + name + ">")
	var w bytes.Buffer
	crash = h.Safely(5e9, func() {
		if err := c03OptsOf(0).minifier().Minify(m, &w, bytes.NewReader(parse.Copy(in)), nil); err != nil {
			panic(err)
		}
	})
	if crash != "" {
		return
	}
	if bytes.Equal(w.Bytes(), in) {
		return false, ""
	}
	if bytes.Equal(w.Bytes(), []byte("<"+name+">"+string(b)+"</"+name+">")) {
		return true, ""
	}
	return false, "unexpected output " + h.Q(w.Bytes())
}

func c03StageRawLex(c *Ctx) error {
	st := c.R.StartStage("rawlex", "sub-minifier results b (pieces: < / ! - > script SCRIPT scrip style STYLE iframe x 1 space newline <!-- --> </script <script, up to 7 pieces, exhaustive up to 3) offered for the content of <script>, <style>, <iframe> through the REAL html.Minify: written or rejected (rawTextEndsAtEnd on the real lexer) vs model rawTextEndsAtEnd (model of shiftRawText); for style/iframe additionally: accepted implies the standard's RAWTEXT tokenisation reads b back (Spec.HtmlRawText); non-trivial = rejected")
	r := h.NewRNG(c.Seed ^ 0x5a17)
	pieces := []string{"<", "/", "!", "-", ">", "script", "SCRIPT", "scrip", "style", "STYLE", "iframe", "x", "1", " ", "\n", "<!--", "-->", "</script", "<script", "</", "--"}
	names := []string{"script", "style", "iframe"}
	var bs [][]byte
	var rec func(cur []byte, d int)
	rec = func(cur []byte, d int) {
		bs = append(bs, parse.Copy(cur))
		if d == 0 {
			return
		}
		for _, p := range pieces {
			rec(append(parse.Copy(cur), p...), d-1)
		}
	}
	rec(nil, c.N(2, 3))
	n := c.N(6000, 200000)
	for i := 0; i < n; i++ {
		var b []byte
		for k := 1 + r.Intn(7); k > 0; k-- {
			b = append(b, r.Pick(pieces)...)
		}
		bs = append(bs, b)
	}
	type item struct {
		name string
		b    []byte
		acc  bool
	}
	var items []item
	var lines []string
	for _, b := range bs {
		for _, nm := range names {
			acc, crash := c03RawAccepted(nm, b)
			if crash != "" {
				c.R.Add(h.Finding{Stage: st.Name, Kind: "crash", What: crash, Input: nm + " " + h.Q(b), Hex: h.Hex(b)})
				continue
			}
			items = append(items, item{nm, b, acc})
			lines = append(lines, "model.c03.rawok "+h.Hex([]byte(nm))+" "+h.Hex(b))
		}
	}
	rep, err := h.Eval(lines)
	if err != nil {
		return err
	}
	nDiff := 0
	for i, it := range items {
		st.Count(it.name+" "+string(it.b), !it.acc)
		got, ok, msg := h.DecodeReply(rep[i])
		if !ok || len(got) != 2 {
			c.R.Add(h.Finding{Stage: st.Name, Kind: "diff", What: "model error: " + msg, Input: it.name + " " + h.Q(it.b), Hex: h.Hex(it.b)})
			continue
		}
		if (got[0] == '1') != it.acc {
			if nDiff++; nDiff > 8 { // keep room in the report for failing inputs found by the property oracles
				continue
			}
			c.R.Add(h.Finding{Stage: st.Name, Kind: "diff", What: "model.c03.rawok", Input: it.name + " " + h.Q(it.b), Hex: h.Hex(it.b), Impl: fmt.Sprint(it.acc), Model: string(got[:1])})
			continue
		}
		if it.name != "script" {
			if it.acc && got[1] != '1' {
				c.R.Add(h.Finding{Stage: st.Name, Kind: "fail", What: "accepted raw text is not read back by the standard's RAWTEXT tokenisation", Input: it.name + " " + h.Q(it.b), Hex: h.Hex(it.b)})
			} else if !it.acc && got[1] == '1' {
				st.Tag("rejected-but-standard-would-read-it-back")
			}
		}
	}
	if nDiff > 0 {
		c.R.Note("rawlex: %d model/implementation differences", nDiff)
	}
	st.End()
	return nil
}

// ---------- domsub: the DOM oracle on documents whose script/style content goes through a sub-minifier ----------

// c03DropStub: a sub-minifier that removes /* */ comments (not /*! */), // comments and backslashes
func c03DropStub(_ *minify.M, w io.Writer, r io.Reader, _ map[string]string) error {
	b, err := io.ReadAll(r)
	if err != nil {
		return err
	}
	var out []byte
	for i := 0; i < len(b); {
		switch {
		case bytes.HasPrefix(b[i:], []byte("/*")) && !bytes.HasPrefix(b[i:], []byte("/*!")):
			j := bytes.Index(b[i+2:], []byte("*/"))
			if j < 0 {
				i = len(b)
			} else {
				i += 2 + j + 2
			}
		case bytes.HasPrefix(b[i:], []byte("//")):
			j := bytes.IndexByte(b[i:], '\n')
			if j < 0 {
				i = len(b)
			} else {
				i += j
			}
		case b[i] == '\\':
			i++
		default:
			out = append(out, b[i])
			i++
		}
	}
	_, err = w.Write(out)
	return err
}

var c03SubPieces = []string{
	"var re=/<!--<script>/", "/* </script> */", "/*! <!--<script> */", "var s=\"</script>\"", "f()", "var t=`<!--<script>`",
	"/* <!-- */", "var u='-->'", "// </script>\ng()", "var re2=/<!--<SCRIPT /", "/* </SCRIPT> */", "/*! </script > */", "var re3=/<!--<Script>x/i",
	"var v='<\\/script>'", "/* --> */", "/*! --> */", "var w=\"<!--\"", "var re4=/<script>/", "h(a<b)", "var q=`</script>`", "/* <script> */",
	"var re5=/<\\!--<script>/", "x=1",
}

var c03SubScripts = []string{
	"var re=/<!--<script>/;/* </script> */ f()",
	"var re=/<!--<SCRIPT>/;/* </SCRIPT> */ f()",
	"var re=/<!--<script /;/* </script > */ f()",
	"/*! <!--<script> */ f(); /* </script> */ g()",
	"/*! <!--<Script> */ f(); // </script>\ng()",
	"var t=`<!--<script>`;/* </script> */f()",
	"var r=/<!--<script>/;var s=\"</script>\";alert(1)",
	"var r=/<!--<script>/;var s='</SCRIPT>';alert(1)",
	"var r=/<!--<script>/;var s=`</script>`;alert(1)",
	"<!\\--<script>x()", "a()/* </script> */;b=/<!--<script>/", "/* </script> */<!\\--<script>", "x()", "if(a<b)c()", "var s=\"<\\/script>\"",
	"/* <!--<script> */f()", "var re=/<!--<script>/;f()</script><script>g()", "", " ",
}

var c03SubStyles = []string{"a{b:c}", "a{b:\"<\\/style>\"}", "/* </style> */a{b:c}", "a{b:< \\/style >}", "a:before{content:\"<!--<script>\"}", ""}

var c03SubContexts = []string{
	"<p>a</p><script>%s</script><p>x</p>",
	"<!doctype html><html><head><title>t</title><script>%s</script></head><body><p>x</p><script>y()</script><div>z</div></body></html>",
	"<div><SCRIPT type=\"text/javascript\">%s</SCRIPT> <b>x</b> y</div>",
	"<script type=module>%s</script><p>x",
	"<ul><li>a<script>%s</script><li>b</ul><style>p{c:d}</style><p>x</p>",
}

// c03ScriptScan follows the standard's script data states (§13.2.5.4, .15-.31) over b, the bytes behind a script start
// tag: end = offset of the `<` of the end tag that ends the element (len(b) if none).  oracleUnsafe: the scan went
// through "script data escaped less-than sign state, anything else" (`<!`, `<\`, `<1` … in the escaped state), where
// x/net/html continues in the script data state instead of the escaped state -- the DOM oracle cannot be used then.
func c03ScriptScan(b []byte) (end int, oracleUnsafe bool) {
	alpha := func(c byte) bool { return 'a' <= c && c <= 'z' || 'A' <= c && c <= 'Z' }
	delim := func(c byte) bool { return c == ' ' || c == '\n' || c == '\t' || c == '\f' || c == '/' || c == '>' }
	word := func(k int) (j int, isScript bool) { // letters from k; isScript: they spell script and a delimiter follows
		j = k
		for j < len(b) && alpha(b[j]) {
			j++
		}
		return j, j < len(b) && delim(b[j]) && strings.EqualFold(string(b[k:j]), "script")
	}
	const (
		data = iota
		lt
		escStart
		escStartDash
		esc
		escDash
		escDashDash
		escLt
		dbl
		dblDash
		dblDashDash
		dblLt
	)
	st := data
	for i := 0; i < len(b); {
		c := b[i]
		switch st {
		case data:
			if c == '<' {
				st = lt
			}
			i++
		case lt:
			switch {
			case c == '/':
				if _, ok := word(i + 1); ok {
					return i - 1, oracleUnsafe
				}
				st = data
				i++
			case c == '!':
				st = escStart
				i++
			default:
				st = data
			}
		case escStart:
			if c == '-' {
				st = escStartDash
				i++
			} else {
				st = data
			}
		case escStartDash:
			if c == '-' {
				st = escDashDash
				i++
			} else {
				st = data
			}
		case esc, escDash, escDashDash:
			switch {
			case c == '-' && st == esc:
				st = escDash
			case c == '-':
				st = escDashDash
			case c == '<':
				st = escLt
			case c == '>' && st == escDashDash:
				st = data
			default:
				st = esc
			}
			i++
		case escLt:
			switch {
			case c == '/':
				if _, ok := word(i + 1); ok {
					return i - 1, oracleUnsafe
				}
				st = esc
				i++
			case alpha(c):
				j, ok := word(i)
				if ok {
					st = dbl
					i = j + 1
				} else {
					st = esc
					i = j
				}
			default:
				oracleUnsafe = true
				st = esc
			}
		case dbl, dblDash, dblDashDash:
			switch {
			case c == '-' && st == dbl:
				st = dblDash
			case c == '-':
				st = dblDashDash
			case c == '<':
				st = dblLt
			case c == '>' && st == dblDashDash:
				st = data
			default:
				st = dbl
			}
			i++
		case dblLt:
			if c == '/' {
				j, ok := word(i + 1)
				if ok {
					st = esc
					i = j + 1
				} else {
					st = dbl
					i = j
				}
			} else {
				st = dbl
			}
		}
	}
	return len(b), oracleUnsafe
}

var c03ScriptStartRe = regexp.MustCompile(`(?i)<script[^>]*>`)

// c03OracleUnsafe: some script element of doc takes the path on which x/net/html deviates from the standard
func c03OracleUnsafe(doc []byte) bool {
	for _, loc := range c03ScriptStartRe.FindAllIndex(doc, -1) {
		if _, unsafe := c03ScriptScan(doc[loc[1]:]); unsafe {
			return true
		}
	}
	return false
}

func c03StageDomSub(c *Ctx) error {
	st := c.R.StartStage("domsub", "documents with script (and style) elements whose source contains `<!--`, `<script` (regular expression literal, kept /*! */ comment, template literal; upper/lower case) and a balancing `</script` only in a comment or string, over several contexts; html.Minify with (a) a sub-minifier that drops comments and backslashes, (b) the REAL js and css minifiers; x/net/html DOM of input vs output (text inside script/style not compared: where the elements end and everything outside is); a run in which the sub-minifier reports an error is skipped; non-trivial = output differs from input")
	r := h.NewRNG(c.Seed ^ 0x5ab5)
	scripts := append([]string{}, c03SubScripts...)
	for i := c.N(400, 20000); i > 0; i-- {
		var parts []string
		for k := 2 + r.Intn(4); k > 0; k-- {
			parts = append(parts, r.Pick(c03SubPieces))
		}
		scripts = append(scripts, strings.Join(parts, ";"))
	}
	var docs []string
	for _, sc := range scripts {
		for _, cx := range c03SubContexts {
			docs = append(docs, strings.Replace(cx, "%s", sc, 1))
		}
	}
	for _, sy := range c03SubStyles {
		docs = append(docs, "<p>a</p><style>"+sy+"</style><p>x</p>", "<head><STYLE media=print>"+sy+"</STYLE><script>var re=/<!--<script>/;/* </script> */ f()</script></head><p>x")
	}
	regs := []struct {
		name string
		m    *minify.M
	}{{"drop-stub", minify.New()}, {"real-js-css", minify.New()}}
	regs[0].m.AddFuncRegexp(regexp.MustCompile(`.*`), minify.MinifierFunc(c03DropStub))
	regs[1].m.AddFunc("application/javascript", mjs.Minify)
	regs[1].m.AddFunc("text/javascript", mjs.Minify)
	regs[1].m.AddFunc("module", mjs.Minify)
	regs[1].m.AddFunc("text/css", mcss.Minify)
	subErrs, nFail, oracleSkips := 0, 0, 0
	for _, d := range docs {
		in := []byte(d)
		for ri, rg := range regs {
			mask := 0
			if r.Chance(40) {
				mask = r.Intn(32) << 2 // not KeepComments/KeepSpecialComments (no comments in these documents anyway)
			}
			o := c03OptsOf(mask)
			var w bytes.Buffer
			var err error
			crash := h.Safely(20e9, func() {
				err = o.minifier().Minify(rg.m, &w, bytes.NewReader(parse.Copy(in)), nil)
			})
			if crash != "" {
				c.R.Add(h.Finding{Stage: st.Name, Kind: "crash", What: crash, Input: h.Q(in), Hex: h.Hex(in), Config: o.String() + " " + rg.name})
				continue
			}
			if err != nil {
				subErrs++
				continue
			}
			out := parse.Copy(w.Bytes())
			if c03OracleUnsafe(in) || c03OracleUnsafe(out) {
				oracleSkips++
				continue
			}
			st.Count(fmt.Sprintf("%d %d %s", ri, mask, d), !bytes.Equal(in, out))
			st.Tag(rg.name)
			if res := c03oCompareSub(in, out, o.oracle()); res != "" {
				nFail++
				if nFail > 12 {
					continue
				}
				sig := res
				if j := strings.Index(sig, ":"); j > 0 {
					sig = sig[:j]
				}
				c.R.Add(h.Finding{Stage: st.Name, Kind: "fail", What: "parsed document changed (" + sig + ") with sub-minifier " + rg.name, Input: h.Q(in), Hex: h.Hex(in), Config: o.String() + " " + rg.name, Impl: h.Q(out) + " — " + res})
			}
		}
	}
	c.R.Note("domsub: %d runs skipped (sub-minifier error), %d runs skipped (x/net/html deviates from the standard: `<` + other than `/` or letter in the script data escaped state), %d failing", subErrs, oracleSkips, nFail)
	st.End()
	return nil
}

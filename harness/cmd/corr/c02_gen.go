package main

// C02 — generator of JS programs for the renamer checks.
//
// Every generated program is self-checking under execution: `R(site, values…)` is a recording global that
// returns its last argument; every binding is initialised with a unique number, so the trace shows which
// declaration every executed identifier occurrence read.  Free globals (`c02Globals`) are named like the
// first names the renamer hands out in either alphabet.

import (
	"fmt"
	"strings"

	"verifharness/h"
)

// names that collide with generated names (both alphabets), keywords-to-be and ordinary names
var c02Short = []string{"e", "t", "n", "s", "o", "i", "a", "r", "c", "l", "d", "u", "h", "m", "f", "p", "g", "v", "b", "j", "y", "_", "w", "x", "k", "z", "$", "O", "C"}
var c02Long = []string{"ee", "te", "ne", "aa", "ba", "ab", "foo", "bar", "value", "item", "idx", "acc", "tmp", "self", "key", "res", "e1", "t_", "$e", "of", "as", "get", "set", "async_", "static_", "let_", "do_"}

// free globals defined by the execution context (values 9000+i)
var c02Globals = []string{"e", "t", "n", "a", "b", "s", "o", "i", "r", "c", "ee", "te", "aa", "ba", "G"}

type c02Env struct {
	parent *c02Env
	fn     *c02Env  // enclosing function environment (for var)
	names  []string // declared here, usable now
	consts map[string]bool
	kinds  map[string]string // "num" | "fn" | "obj"
	used   map[string]bool   // names mentioned in this env or below while not declared here (they resolve further out)
	vars   map[string]bool   // function env: names declared with var
	lex    map[string]bool   // function env: names declared lexically in some block of the function
}

func (e *c02Env) has(n string) bool {
	for _, x := range e.names {
		if x == n {
			return true
		}
	}
	return false
}

func (e *c02Env) visible() []string { // innermost first, duplicates removed
	seen := map[string]bool{}
	var out []string
	for s := e; s != nil; s = s.parent {
		for i := len(s.names) - 1; i >= 0; i-- {
			if !seen[s.names[i]] {
				seen[s.names[i]] = true
				out = append(out, s.names[i])
			}
		}
	}
	return out
}

// mention records that n is referenced from e: every env up to the declaring one must not declare n later
// (a later lexical declaration would turn the earlier reference into a TDZ error or a different variable).
func (e *c02Env) mention(n string) {
	for s := e; s != nil && !s.has(n); s = s.parent {
		s.used[n] = true
	}
}

func (e *c02Env) kindOf(n string) string {
	for s := e; s != nil; s = s.parent {
		if s.has(n) {
			return s.kinds[n]
		}
	}
	return "global"
}

func (e *c02Env) isConst(n string) bool {
	for s := e; s != nil; s = s.parent {
		if s.has(n) {
			return s.consts[n]
		}
	}
	return true // globals are not assigned
}

type c02Opt struct {
	with      bool // allow `with` in depth-1 functions (safe placement: no enclosing renamed scope)
	classes   bool
	topDecls  bool // declarations at top level (kept names)
	trigger   string
	maxDepth  int
	stmtsTop  int
	varsOK    bool
}

type c02Gen struct {
	r      *h.RNG
	site   int
	val    int
	label  int
	opt    c02Opt
	usedW  bool // program contains `with` (forces sloppy mode, no classes around it)
	feat   map[string]int
	fdepth int // function nesting depth
	inWithFn bool
	classDepth int
	exclude  map[string]bool // names a parameter initialiser must not mention (later parameters of the same function)
}

func newC02Env(parent *c02Env, isFunc bool) *c02Env {
	e := &c02Env{parent: parent, consts: map[string]bool{}, kinds: map[string]string{}, used: map[string]bool{}}
	if isFunc || parent == nil {
		e.fn = e
		e.vars, e.lex = map[string]bool{}, map[string]bool{}
	} else {
		e.fn = parent.fn
	}
	return e
}

func (g *c02Gen) nextSite() int { g.site++; return g.site }

// excluding runs f while the given names may not be mentioned by generated expressions (names about to be declared)
func (g *c02Gen) excluding(names []string, f func() string) string {
	saved := g.exclude
	g.exclude = map[string]bool{}
	for k := range saved {
		g.exclude[k] = true
	}
	for _, n := range names {
		g.exclude[n] = true
	}
	defer func() { g.exclude = saved }()
	return f()
}
func (g *c02Gen) nextVal() int  { g.val++; return 1000 + g.val }

func (g *c02Gen) pickName(env *c02Env, avoidLocal bool) string {
	for tries := 0; tries < 50; tries++ {
		var n string
		switch {
		case g.r.Chance(55):
			// the renamer's own output alphabet in its frequency order: original names collide with generated ones
			n = g.r.Pick(c02Short)
			if g.r.Bool() {
				n = c02Short[g.r.Intn(8)]
			}
		case g.r.Chance(60):
			n = g.r.Pick(c02Long)
		default:
			n = fmt.Sprintf("v%d", g.r.Intn(400))
		}
		if n == "R" || (avoidLocal && env.has(n)) {
			continue
		}
		return n
	}
	g.val++
	return fmt.Sprintf("w%d", g.val)
}

// freshName: not declared in this env nor in the enclosing function env (keeps var/let conflicts away)
func (g *c02Gen) freshName(env *c02Env) string {
	for tries := 0; tries < 80; tries++ {
		n := g.pickName(env, true)
		conflict := false
		for s := env; s != nil; s = s.parent {
			if s.has(n) && (s == env || s == env.fn) {
				conflict = true
			}
			if s == env.fn {
				break
			}
		}
		if env.fn.vars[n] && (env == env.fn || g.r.Bool()) { // a block may shadow a var of the function (hoisting, fixed K-C02-5)
			conflict = true
		}
		if env.used[n] { // mentioned earlier as an outer variable
			conflict = true
		}
		if env.parent == nil { // top level: do not redeclare context globals
			for _, gname := range c02Globals {
				if gname == n {
					conflict = true
				}
			}
		}
		if !conflict {
			return n
		}
	}
	g.val++
	return fmt.Sprintf("w%d", g.val)
}

func (g *c02Gen) declare(env *c02Env, n, kind string, isConst bool) {
	if env != env.fn {
		env.fn.lex[n] = true
	}
	env.names = append(env.names, n)
	env.kinds[n] = kind
	env.consts[n] = isConst
}

// numeric expression over visible numeric variables and free globals
func (g *c02Gen) numExpr(env *c02Env, depth int) string {
	var cands []string
	for _, n := range env.visible() {
		if env.kindOf(n) == "num" {
			cands = append(cands, n)
		}
	}
	if g.exclude != nil {
		kept := cands[:0:0]
		for _, n := range cands {
			if !g.exclude[n] {
				kept = append(kept, n)
			}
		}
		cands = kept
	}
	var pickVar0 func() string
	pickVar := func() string {
		n := pickVar0()
		if isIdent(n) {
			env.mention(n)
		}
		return n
	}
	pickVar0 = func() string {
		if len(cands) > 0 && g.r.Chance(75) {
			// prefer close names but reach outwards as well
			k := g.r.Intn(len(cands))
			if g.r.Chance(50) {
				k = g.r.Intn(1 + len(cands)/3)
			}
			return cands[k]
		}
		// free global, unless shadowed by something visible that is not numeric
		for tries := 0; tries < 5; tries++ {
			n := g.r.Pick(c02Globals)
			k := env.kindOf(n)
			if (k == "global" || k == "num") && !g.exclude[n] {
				return n
			}
		}
		return fmt.Sprint(g.nextVal())
	}
	if depth <= 0 || g.r.Chance(50) {
		if g.r.Chance(20) {
			return fmt.Sprint(g.nextVal())
		}
		return pickVar()
	}
	switch g.r.Intn(5) {
	case 0:
		return g.numExpr(env, depth-1) + "+" + g.numExpr(env, depth-1)
	case 1:
		return "(" + g.numExpr(env, depth-1) + ")*2"
	case 2: // property named like a variable
		p := g.pickName(env, false)
		g.feat["prop"]++
		return fmt.Sprintf("({%s:%s}).%s", p, g.numExpr(env, depth-1), p)
	case 3: // shorthand property
		v := pickVar()
		if isIdent(v) {
			g.feat["shorthand"]++
			return fmt.Sprintf("({%s}).%s", v, v)
		}
		return v
	default:
		return pickVar()
	}
}

func c02IsGlobal(n string) bool {
	for _, g := range c02Globals {
		if g == n {
			return true
		}
	}
	return false
}

func isIdent(s string) bool {
	if s == "" || (s[0] >= '0' && s[0] <= '9') {
		return false
	}
	for _, c := range []byte(s) {
		if !(c == '_' || c == '$' || (c >= 'a' && c <= 'z') || (c >= 'A' && c <= 'Z') || (c >= '0' && c <= '9')) {
			return false
		}
	}
	return true
}

func (g *c02Gen) use(env *c02Env) string {
	n := 1 + g.r.Intn(3)
	args := make([]string, n)
	for i := range args {
		args[i] = g.numExpr(env, 2)
	}
	return fmt.Sprintf("R(%d,%s);", g.nextSite(), strings.Join(args, ","))
}

func (g *c02Gen) params(env *c02Env) string { return g.paramsK(env, false) }

// paramsK: arrow = true avoids initialised patterns (the dependency parser rejects `([a]=[1])=>…` and
// `({a}={a:1})=>…`).  All parameter names are chosen first: an initialiser mentions outer names and earlier
// parameters only, never a later parameter (that would be a TDZ error in JS, which the dependency's scope
// analysis deliberately resolves to the outer variable).
func (g *c02Gen) paramsK(env *c02Env, arrow bool) string {
	n := g.r.Intn(4)
	type par struct {
		kind  int
		names []string
	}
	var pars []par
	all := map[string]bool{}
	local := newC02Env(env.parent, true) // scratch env to keep the names distinct
	pick := func() string {
		x := g.freshName(local)
		g.declare(local, x, "num", false)
		all[x] = true
		return x
	}
	for i := 0; i < n; i++ {
		switch {
		case g.r.Chance(60):
			pars = append(pars, par{0, []string{pick()}})
		case arrow || g.r.Chance(50):
			pars = append(pars, par{1, []string{pick(), pick()}})
		default:
			pars = append(pars, par{2, []string{pick()}})
		}
	}
	rest := ""
	if g.r.Chance(10) {
		rest = pick()
	}
	var ps []string
	saved := g.exclude
	defer func() { g.exclude = saved }()
	for _, p := range pars {
		// names still to come (including the parameter's own) are excluded from the initialiser
		g.exclude = map[string]bool{}
		for k := range saved {
			g.exclude[k] = true
		}
		for x := range all {
			if !env.has(x) {
				g.exclude[x] = true
			}
		}
		switch p.kind {
		case 0:
			if g.r.Chance(25) {
				g.feat["paramDefault"]++
				ps = append(ps, fmt.Sprintf("%s=%s", p.names[0], g.numExpr(env, 1)))
			} else {
				ps = append(ps, p.names[0])
			}
			g.declare(env, p.names[0], "num", false)
		case 1:
			key := g.pickName(env, false)
			g.feat["paramPattern"]++
			if arrow {
				ps = append(ps, fmt.Sprintf("{%s,%s:%s}={}", p.names[0], key, p.names[1]))
			} else {
				ps = append(ps, fmt.Sprintf("{%s,%s:[%s=%d]}={%s:%d,%s:[]}", p.names[0], key, p.names[1], g.nextVal(), p.names[0], g.nextVal(), key))
			}
			g.declare(env, p.names[0], "num", false)
			g.declare(env, p.names[1], "num", false)
		default:
			g.feat["paramPattern"]++
			ps = append(ps, fmt.Sprintf("[%s]=[%d]", p.names[0], g.nextVal()))
			g.declare(env, p.names[0], "num", false)
		}
	}
	if rest != "" {
		g.declare(env, rest, "obj", false)
		ps = append(ps, "..."+rest)
	}
	return strings.Join(ps, ",")
}

func (g *c02Gen) callArgs() string {
	n := g.r.Intn(3)
	var as []string
	for i := 0; i < n; i++ {
		as = append(as, fmt.Sprint(g.nextVal()))
	}
	return strings.Join(as, ",")
}

// function body statements in a new function env (params already declared in fenv)
func (g *c02Gen) funcBody(fenv *c02Env, depth int) string {
	g.fdepth++
	defer func() { g.fdepth-- }()
	return g.stmts(fenv, depth, 1+g.r.Intn(5), true)
}

func (g *c02Gen) stmts(env *c02Env, depth, n int, fnTop bool) string {
	var sb strings.Builder
	for i := 0; i < n; i++ {
		sb.WriteString(g.stmt(env, depth, fnTop))
	}
	if g.r.Chance(70) {
		sb.WriteString(g.use(env))
	}
	return sb.String()
}

func (g *c02Gen) stmt(env *c02Env, depth int, fnTop bool) string {
	top := env.parent == nil
	k := g.r.Intn(100)
	if depth <= 0 && k >= 45 {
		k = g.r.Intn(45)
	}
	switch {
	case k < 16: // let / const
		if top && !g.opt.topDecls {
			return g.use(env)
		}
		n := g.freshName(env)
		isConst := g.r.Chance(30)
		kw := "let"
		if isConst {
			kw = "const"
		}
		s := fmt.Sprintf("%s %s=%s;", kw, n, g.excluding([]string{n}, func() string { return g.initExpr(env) }))
		g.declare(env, n, "num", isConst)
		g.feat[kw]++
		return s
	case k < 22: // var (function scoped)
		if !g.opt.varsOK || (top && !g.opt.topDecls) {
			return g.use(env)
		}
		n := g.r.Pick(c02Short) // single letter: hoisting decisions do not depend on KeepVarNames
		if (env.fn.lex[n] && g.r.Bool()) || env.fn.used[n] || env.used[n] {
			return g.use(env)
		}
		for s := env; s != nil; s = s.parent {
			if s.has(n) {
				return g.use(env)
			}
			if s == env.fn {
				break
			}
		}
		if top {
			for _, gn := range c02Globals {
				if gn == n {
					return g.use(env)
				}
			}
		}
		s := fmt.Sprintf("var %s=%s;", n, g.excluding([]string{n}, func() string { return g.initExpr(env) }))
		g.declare(env.fn, n, "num", false)
		env.fn.vars[n] = true
		g.feat["var"]++
		return s
	case k < 34:
		return g.use(env)
	case k < 40: // assignment
		for _, n := range env.visible() {
			if env.kindOf(n) == "num" && !env.isConst(n) && g.r.Chance(40) {
				env.mention(n)
				return fmt.Sprintf("%s=%s;", n, g.initExpr(env))
			}
		}
		return g.use(env)
	case k < 45: // destructuring declaration
		if top && !g.opt.topDecls {
			return g.use(env)
		}
		a, b, c := g.freshName(env), "", ""
		g.declare(env, a, "num", false)
		b = g.freshName(env)
		g.declare(env, b, "num", false)
		c = g.freshName(env)
		g.declare(env, c, "num", false)
		key := g.pickName(env, false)
		g.feat["destructure"]++
		if g.r.Bool() {
			return fmt.Sprintf("let {%s,%s:%s,...%s}={%s:%d,%s:%d,zz:%d};%s=%s.zz;", a, key, b, c, a, g.nextVal(), key, g.nextVal(), g.nextVal(), c, c)
		}
		return fmt.Sprintf("let [%s,[%s,%s=%d]]=[%d,[%d]];", a, b, c, g.nextVal(), g.nextVal(), g.nextVal())
	case k < 52: // block
		inner := newC02Env(env, false)
		g.feat["block"]++
		if g.r.Chance(15) { // declarations only, a later initialiser mentions an earlier name (fixed K-C02-7)
			g.feat["letOnlyBlock"]++
			a, b := g.freshName(inner), ""
			g.declare(inner, a, "num", false)
			b = g.freshName(inner)
			return fmt.Sprintf("{let %s=%d;let %s=R(%d,%s)}", a, g.nextVal(), b, g.nextSite(), a)
		}
		return "{" + g.stmts(inner, depth-1, 1+g.r.Intn(4), false) + g.use(inner) + "}"
	case k < 58: // if / else
		g.feat["if"]++
		if g.fdepth > 0 && g.r.Chance(30) {
			// consequent ends in return, the else block declares lexically: in function bodies, blocks, try/catch/finally
			// and switch clauses alike (every scope whose statement list is optimised before it is renamed)
			return g.flowElse(env, fmt.Sprintf("return %d", g.nextVal()))
		}
		a := "{" + g.use(newC02Env(env, false)) + g.nestedBlockOrUse(env, depth-1) + "}"
		b := "{" + g.use(newC02Env(env, false)) + g.nestedBlockOrUse(env, depth-1) + "}"
		if g.r.Chance(30) {
			return fmt.Sprintf("if(R(%d,%d))%s", g.nextSite(), g.r.Intn(2), a)
		}
		return fmt.Sprintf("if(R(%d,%d))%selse%s", g.nextSite(), g.r.Intn(2), a, b)
	case k < 66: // for loops, closures capturing the loop variable
		inner := newC02Env(env, false)
		arr := g.freshName(env)
		v := g.freshName(inner)
		for v == arr {
			v = g.freshName(inner)
		}
		g.feat["for"]++
		switch g.r.Intn(4) {
		case 3: // while (turned into for(;;) by the parser option WhileToFor)
			blk := newC02Env(env, false)
			k := g.freshName(blk)
			g.declare(blk, k, "num", false)
			inner = newC02Env(blk, false)
			inner.mention(k) // the body must not redeclare the counter
			body := g.stmts(inner, depth-1, 1+g.r.Intn(2), false) + g.loopFlow(inner)
			g.feat["while"]++
			return fmt.Sprintf("{let %s=0;while(%s<2){%s++;%s}}", k, k, k, body)
		case 0:
			g.declare(inner, v, "num", false)
			if top && !g.opt.topDecls {
				body := g.stmts(inner, depth-1, 1+g.r.Intn(3), false) + g.loopFlow(inner)
				return fmt.Sprintf("for(let %s=0;%s<2;%s++){%s}", v, v, v, body)
			}
			g.declare(env, arr, "obj", true) // before the body: the body must not mention the array by a global's name
			body := g.stmts(inner, depth-1, 1+g.r.Intn(3), false)
			g.feat["closureLoop"]++
			return fmt.Sprintf("const %s=[];for(let %s=0;%s<2;%s++){%s%s.push(()=>R(%d,%s))}%s.forEach(%s=>%s());", arr, v, v, v, body, arr, g.nextSite(), v, arr, v, v)
		case 1:
			g.declare(inner, v, "num", true)
			body := g.stmts(inner, depth-1, 1+g.r.Intn(3), false) + g.loopFlow(inner)
			return fmt.Sprintf("for(const %s of [%d,%d]){%s}", v, g.nextVal(), g.nextVal(), body)
		default:
			g.declare(inner, v, "str", true)
			body := g.stmts(inner, depth-1, 1+g.r.Intn(2), false) + g.loopFlow(inner)
			p, q := g.pickName(env, false), g.pickName(env, false)
			return fmt.Sprintf("for(const %s in {%s:1,%s_:2}){R(%d,%s);%s}", v, p, q, g.nextSite(), v, body)
		}
	case k < 70: // switch
		inner := newC02Env(env, false)
		g.feat["switch"]++
		var sb strings.Builder
		fmt.Fprintf(&sb, "switch(R(%d,%d)){", g.nextSite(), g.r.Intn(3))
		for c := 0; c < 2; c++ {
			n := g.freshName(inner)
			fmt.Fprintf(&sb, "case %d:{let %s=%d;R(%d,%s);%s}%sbreak;", c, n, g.nextVal(), g.nextSite(), n, g.use(inner), g.use(inner))
		}
		n := g.freshName(inner)
		fmt.Fprintf(&sb, "default:let %s=%d;", n, g.nextVal())
		g.declare(inner, n, "num", false)
		sb.WriteString(g.stmts(inner, depth-1, 1+g.r.Intn(2), false))
		sb.WriteString("}")
		return sb.String()
	case k < 75: // try / catch / finally
		g.feat["try"]++
		tryEnv := newC02Env(env, false)
		catchEnv := newC02Env(env, false)
		finEnv := newC02Env(env, false)
		tb := g.stmts(tryEnv, depth-1, 1+g.r.Intn(2), false)
		var binding string
		switch g.r.Intn(4) {
		case 0:
			binding = ""
		case 1:
			a := g.freshName(catchEnv)
			g.declare(catchEnv, a, "num", false)
			binding = "({" + a + "})"
			g.feat["catchPattern"]++
		default:
			a := g.freshName(catchEnv)
			g.declare(catchEnv, a, "obj", false)
			binding = "(" + a + ")"
		}
		cb := g.stmts(catchEnv, depth-1, 1+g.r.Intn(2), false)
		s := fmt.Sprintf("try{%sthrow {%s:%d}}catch%s{%s}", tb, g.pickName(env, false), g.nextVal(), binding, cb)
		if g.r.Chance(40) {
			s += "finally{" + g.stmts(finEnv, depth-1, 1, false) + "}"
		}
		return s
	case k < 88: // functions
		return g.function(env, depth, fnTop)
	case k < 92: // class
		if !g.opt.classes || (top && !g.opt.topDecls) {
			return g.use(env)
		}
		return g.class(env, depth)
	case k < 95: // label named like a variable
		g.feat["label"]++
		l := g.pickName(env, false)
		inner := newC02Env(env, false)
		v := g.freshName(inner)
		g.declare(inner, v, "num", false)
		return fmt.Sprintf("%s:for(let %s=0;%s<2;%s++){if(R(%d,%s))continue %s;%s}", l, v, v, v, g.nextSite(), v, l, g.use(inner))
	case k < 98: // with (only where every enclosing scope keeps its names)
		if !g.opt.with || g.fdepth < 1 || !g.inWithFn || g.classDepth > 0 {
			return g.use(env)
		}
		g.feat["with"]++
		g.usedW = true
		p := g.pickName(env, false)
		return fmt.Sprintf("with({%s:%d}){R(%d,%s);%s}", p, g.nextVal(), g.nextSite(), p, g.use(env))
	default: // object literal with method + shorthand, object pattern from it
		if top && !g.opt.topDecls {
			return g.use(env)
		}
		g.feat["object"]++
		o := g.freshName(env)
		var short []string
		for _, n := range env.visible() {
			if env.kindOf(n) == "num" && isIdent(n) && len(short) < 2 && g.r.Chance(50) {
				env.mention(n)
				short = append(short, n)
			}
		}
		menv := newC02Env(env, true)
		var ps, body string
		mname := g.pickName(env, false)
		g.excluding([]string{o}, func() string {
			ps = g.params(menv)
			body = g.funcBody(menv, depth-1)
			return ""
		})
		fields := append([]string{}, short...)
		fields = append(fields, fmt.Sprintf("%s(%s){%s}", mname, ps, body))
		s := fmt.Sprintf("const %s={%s};%s.%s(%s);", o, strings.Join(fields, ","), o, mname, g.callArgs())
		g.declare(env, o, "obj", true)
		if len(short) > 0 {
			inner := newC02Env(env, false)
			s += fmt.Sprintf("{let {%s}=%s;R(%d,%s)}", strings.Join(short, ","), o, g.nextSite(), strings.Join(short, ","))
			_ = inner
			g.feat["objPattern"]++
		}
		return s
	}
}

// flowElse: `if(c){…;continue|break|return}else{let N=…;…}` — the else block is merged into the surrounding statement
// list by optimizeStmtList and its lexical bindings move into the surrounding scope (Scope.Unscope), which must happen
// before that scope is renamed; N is drawn from the generated names so that a binding left un-renamed captures.
func (g *c02Gen) flowElse(env *c02Env, flow string) string {
	g.feat["flowElse:"+strings.Fields(flow)[0]]++
	inner := newC02Env(env, false)
	kw := "let"
	if g.r.Chance(30) {
		kw = "const"
	}
	n := g.freshName(inner)
	init := g.excluding([]string{n}, func() string { return g.initExpr(inner) })
	g.declare(inner, n, "num", kw == "const")
	body := fmt.Sprintf("%s %s=%s;%s%s", kw, n, init, g.use(inner), g.use(inner))
	if g.r.Chance(25) { // a second binding and a closure over the first
		m := g.freshName(inner)
		g.declare(inner, m, "num", false)
		body += fmt.Sprintf("let %s=(()=>%s)();%s", m, n, g.use(inner))
	}
	if g.r.Chance(70) {
		return fmt.Sprintf("if(R(%d,0)){%s%s}else{%s}%s", g.nextSite(), g.use(env), flow, body, g.use(env))
	}
	return fmt.Sprintf("if(!R(%d,1)){%s}else{%s%s}%s", g.nextSite(), body, g.use(env), flow, g.use(env))
}

func (g *c02Gen) loopFlow(env *c02Env) string {
	if g.r.Chance(55) {
		return g.flowElse(env, g.r.Pick([]string{"continue", "continue", "break"}))
	}
	return ""
}

func (g *c02Gen) nestedBlockOrUse(env *c02Env, depth int) string {
	if depth > 0 && g.r.Chance(40) {
		inner := newC02Env(env, false)
		// two statements at least so that the block is not unwrapped into the branch
		return "{" + g.use(inner) + g.stmts(inner, depth-1, 1+g.r.Intn(2), false) + "}" + g.use(env)
	}
	return g.use(env)
}

func (g *c02Gen) initExpr(env *c02Env) string {
	if g.r.Chance(70) {
		return fmt.Sprint(g.nextVal())
	}
	return fmt.Sprintf("%d+%s", g.nextVal(), g.numExpr(env, 1))
}

func (g *c02Gen) function(env *c02Env, depth int, fnTop bool) string {
	top := env.parent == nil
	fenv := newC02Env(env, true)
	wasWith := g.inWithFn
	defer func() { g.inWithFn = wasWith }()
	if g.fdepth == 0 {
		g.inWithFn = g.opt.with && g.r.Chance(50)
	} else if g.classDepth == 0 {
		// since fix f7bc618 a `with` may stand in a nested function: the enclosing functions keep their names
		g.inWithFn = g.opt.with && g.r.Chance(30)
	}
	switch kind := g.r.Intn(5); {
	case kind == 0 && fnTop && (!top || g.opt.topDecls): // declaration (function top level only)
		name := g.freshName(env)
		for tries := 0; tries < 20 && (env.kindOf(name) != "global" || c02IsGlobal(name)); tries++ {
			name = g.freshName(env)
		}
		if env.kindOf(name) != "global" || c02IsGlobal(name) {
			g.val++
			name = fmt.Sprintf("fn%d", g.val)
		}
		g.declare(env, name, "fn", false)
		ps := g.params(fenv)
		body := g.funcBody(fenv, depth-1)
		g.feat["funcDecl"]++
		return fmt.Sprintf("function %s(%s){%s}%s(%s);", name, ps, body, name, g.callArgs())
	case kind == 1: // named function expression, name visible inside only
		inner := g.pickName(env, false)
		g.declare(fenv, inner, "fn", true)
		ps := g.params(fenv)
		body := g.funcBody(fenv, depth-1)
		g.feat["funcExpr"]++
		return fmt.Sprintf("(function %s(%s){%s})(%s);", inner, ps, body, g.callArgs())
	case kind == 2: // arrow with expression body
		ps := g.paramsK(fenv, true)
		g.fdepth++
		e := g.numExpr(fenv, 2)
		g.fdepth--
		g.feat["arrowExpr"]++
		return fmt.Sprintf("R(%d,((%s)=>%s)(%s));", g.nextSite(), ps, e, g.callArgs())
	case kind == 3 && (!top || g.opt.topDecls): // arrow with block body bound to a const
		name := g.freshName(env)
		var ps, body, ret string
		g.excluding([]string{name}, func() string {
			ps = g.paramsK(fenv, true)
			body = g.funcBody(fenv, depth-1)
			ret = g.numExpr(fenv, 1)
			return ""
		})
		g.declare(env, name, "fn", true)
		g.feat["arrowBlock"]++
		return fmt.Sprintf("const %s=(%s)=>{%sreturn %s};R(%d,%s(%s));", name, ps, body, ret, g.nextSite(), name, g.callArgs())
	default: // immediately invoked anonymous function
		ps := g.params(fenv)
		body := g.funcBody(fenv, depth-1)
		g.feat["iife"]++
		return fmt.Sprintf("(function(%s){%s})(%s);", ps, body, g.callArgs())
	}
}

func (g *c02Gen) class(env *c02Env, depth int) string {
	g.feat["class"]++
	g.classDepth++
	defer func() { g.classDepth-- }()
	name := g.freshName(env)
	g.declare(env, name, "fn", false)
	var sb strings.Builder
	fmt.Fprintf(&sb, "class %s{", name)
	cenv := newC02Env(env, true)
	ps := g.params(cenv)
	fmt.Fprintf(&sb, "constructor(%s){%s}", ps, g.funcBody(cenv, depth-1))
	m := g.pickName(env, false)
	menv := newC02Env(env, true)
	mps := g.params(menv)
	fmt.Fprintf(&sb, "%s(%s){%s}", m, mps, g.funcBody(menv, depth-1))
	sm := g.pickName(env, false)
	senv := newC02Env(env, true)
	fmt.Fprintf(&sb, "static %s_(%s){%s}", sm, g.params(senv), g.funcBody(senv, depth-1))
	genv := newC02Env(env, true)
	gp := g.pickName(env, false)
	fmt.Fprintf(&sb, "get %s$(){%sreturn %d}", gp, g.funcBody(genv, depth-1), g.nextVal())
	sb.WriteString("}")
	fmt.Fprintf(&sb, "R(%d,new %s(%s).%s(%s),%s.%s_(),new %s().%s$);", g.nextSite(), name, g.callArgs(), m, g.callArgs(), name, sm, name, gp)
	return sb.String()
}

// c02Program generates one program.
func c02Program(r *h.RNG, opt c02Opt) (src string, feat map[string]int) {
	g := &c02Gen{r: r, opt: opt, feat: map[string]int{}}
	env := newC02Env(nil, true)
	n := opt.stmtsTop
	if n == 0 {
		n = 2 + r.Intn(5)
	}
	src = g.stmts(env, opt.maxDepth, n, true)
	return src, g.feat
}

// c02BigScope: one function with n bindings (parameters, let, const, var, nested block lets), every binding used,
// some free globals named like generated names, optional inner closure referring to the late bindings.
func c02BigScope(r *h.RNG, n int, kind int) string {
	var sb strings.Builder
	sb.WriteString("function big(")
	np := 0
	if kind%2 == 1 {
		np = 3
		sb.WriteString("p0,p1=5,{p2}={p2:6}")
	}
	sb.WriteString("){")
	site := 0
	for i := 0; i < n; i++ {
		kw := "let"
		if kind >= 2 && i%7 == 3 {
			kw = "const"
		}
		fmt.Fprintf(&sb, "%s q%d=%d;", kw, i, 2000+i)
	}
	// uses: some bindings more often than others so that the sort has classes and ties
	sb.WriteString("let sum=0;")
	for i := 0; i < n; i++ {
		reps := 1
		if i%5 == 0 {
			reps = 1 + r.Intn(3)
		}
		for k := 0; k < reps; k++ {
			fmt.Fprintf(&sb, "sum+=q%d;", i)
		}
	}
	site++
	fmt.Fprintf(&sb, "R(%d,sum,e,t,n,a,b);", site)
	if np > 0 {
		site++
		fmt.Fprintf(&sb, "R(%d,p0,p1,p2);", site)
	}
	// inner scopes see the late (long / keyword-adjacent) names and the free globals
	site++
	fmt.Fprintf(&sb, "{let z0=1;R(%d,z0,q%d,q%d,ee,te)}", site, n-1, n/2)
	site++
	fmt.Fprintf(&sb, "return function(x){let y=x+q%d;return R(%d,y,q0,s,o)}", n-2, site)
	sb.WriteString("}")
	fmt.Fprintf(&sb, "R(%d,big(1)(2));", site+1)
	return sb.String()
}

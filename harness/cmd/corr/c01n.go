package main

// C01N — growth item of C01: numeric literal rewriting of /repo/js (decimalNumber, binaryNumber, octalNumber,
// hexadecimalNumber, minify.Number at precision 0, the `..` guard of DotExpr/IndexExpr, `!<number>`, truthiness
// of a numeric literal).
//
// Stages
//   spec      the Lean recogniser/value (Spec/JsNumberSem) against node, exhaustively over short strings
//   number    the private copy JsNumberDec.number against the real minify.Number(·,0), exhaustive + random
//   literal   js.Minify (public API) on x=<lit>, x=<lit> .toString(), x=<lit>["a"], x=(<lit>).toString(),
//             x=(<lit>)["a"], x=!<lit>, x=<lit>?1:2 for EVERY literal over a 17 character alphabet up to a length
//             bound: (i) output = model, (ii) the property on the real output: node evaluates the input and the
//             output expression (identical results), Lean `spec.c01n.value` / `spec.c01n.lexat` on the output
//   random    the same for seeded long literals (64 bit and beyond, separators, large exponents, cut-offs)

import (
	"bytes"
	"encoding/json"
	"fmt"
	"os/exec"
	"path/filepath"
	"sort"
	"strconv"
	"strings"
	"time"

	"github.com/tdewolff/minify/v2"
	"github.com/tdewolff/minify/v2/js"
	pjs "github.com/tdewolff/parse/v2/js"

	"verifharness/h"
)

const c01nAlphabet = "0178 9afxobeE._n+-" // the space is skipped, see c01nEnum

// c01nNode evaluates the expression sources in one node process (tools/jsnum.mjs).
func c01nNode(exprs []string) ([]string, error) {
	if len(exprs) == 0 {
		return nil, nil
	}
	out := make([]string, 0, len(exprs))
	const chunk = 200000
	for lo := 0; lo < len(exprs); lo += chunk {
		hi := lo + chunk
		if hi > len(exprs) {
			hi = len(exprs)
		}
		in, _ := json.Marshal(exprs[lo:hi])
		cmd := exec.Command("node", filepath.Join(h.Root(), "tools", "jsnum.mjs"))
		cmd.Stdin = bytes.NewReader(in)
		var so, se bytes.Buffer
		cmd.Stdout, cmd.Stderr = &so, &se
		if err := cmd.Run(); err != nil {
			return nil, fmt.Errorf("node jsnum.mjs: %v: %s", err, se.String())
		}
		var res []string
		if err := json.Unmarshal(so.Bytes(), &res); err != nil || len(res) != hi-lo {
			return nil, fmt.Errorf("node jsnum.mjs: bad reply (%v)", err)
		}
		out = append(out, res...)
	}
	return out, nil
}

// c01nEnum enumerates all strings over the alphabet with 1..maxLen characters; with prune only those whose
// first character is a digit or `.` and whose last character is not one of x o _ + - (every NumericLiteral
// satisfies both; the unpruned enumeration of the spec stage confirms it).
func c01nEnum(maxLen int, prune bool, f func(s string)) {
	al := []byte(strings.ReplaceAll(c01nAlphabet, " ", ""))
	buf := make([]byte, 0, maxLen)
	var rec func()
	rec = func() {
		if n := len(buf); n > 0 {
			last := buf[n-1]
			if !prune || !(last == 'x' || last == 'o' || last == '_' || last == '+' || last == '-') {
				f(string(buf))
			}
		}
		if len(buf) == maxLen {
			return
		}
		for _, c := range al {
			if prune && len(buf) == 0 && !(c >= '0' && c <= '9' || c == '.') {
				continue
			}
			buf = append(buf, c)
			rec()
			buf = buf[:len(buf)-1]
		}
	}
	rec()
}

type c01nInfo struct {
	isLit, legacy, big, falsy, trigBig bool
	norm                               string // "<m>e<e>"
}

func c01nInfos(ss []string) ([]c01nInfo, error) {
	lines := make([]string, len(ss))
	for i, s := range ss {
		lines[i] = "spec.c01n.info " + h.HexS(s)
	}
	rep, err := h.Eval(lines)
	if err != nil {
		return nil, err
	}
	out := make([]c01nInfo, len(ss))
	for i := range ss {
		b, ok, msg := h.DecodeReply(rep[i])
		if !ok {
			return nil, fmt.Errorf("spec.c01n.info %q: %s", ss[i], msg)
		}
		f := h.DecodeListReply(b)
		if len(f) != 6 {
			return nil, fmt.Errorf("spec.c01n.info %q: bad reply", ss[i])
		}
		t := func(k int) bool { return string(f[k]) == "1" }
		out[i] = c01nInfo{t(0), t(1), t(2), t(3), t(4), string(f[5])}
	}
	return out, nil
}

// the programs built around one literal; `expr` is what follows `x=`
type c01nShape struct {
	name string
	mk   func(s string) string
	tail string // what must follow the literal in the output (member shapes), "" otherwise
}

var c01nShapes = []c01nShape{
	{"lit", func(s string) string { return s }, ""},
	{"dot", func(s string) string { return s + " .toString()" }, ".toString()"},
	{"index", func(s string) string { return s + `["a"]` }, ".a"},
	{"groupdot", func(s string) string { return "(" + s + ").toString()" }, ".toString()"},
	{"groupindex", func(s string) string { return "(" + s + `)["a"]` }, ".a"},
	{"not", func(s string) string { return "!" + s }, ""},
	{"cond", func(s string) string { return s + "?1:2" }, ""},
}

type c01nCfg struct {
	name string
	o    js.Minifier
}

var c01nCfgs = []c01nCfg{
	{"Version=0", js.Minifier{}},
	{"Version=5,KeepVarNames", js.Minifier{Version: 5, KeepVarNames: true}},
}

func c01nMinify(o *js.Minifier, src string) (out string, errText string, crash string) {
	crash = h.Safely(10*time.Second, func() {
		m := minify.New()
		oo := *o
		m.Add("application/javascript", &oo)
		b, err := m.Bytes("application/javascript", []byte(src))
		if err != nil {
			errText = err.Error()
			return
		}
		out = string(b)
	})
	return
}

// model answers for one literal: per shape (ok, expected expression after `x=`)
type c01nModel struct {
	ok   [7]bool
	text [7]string
	tok  string
}

func c01nModels(lits []string) ([]c01nModel, error) {
	lines := make([]string, 0, 3*len(lits))
	for _, s := range lits {
		lines = append(lines, "model.c01n.all "+h.HexS(s)+" "+h.HexS("toString"), "model.c01n.all "+h.HexS(s)+" "+h.HexS("a"), "model.c01n.lit "+h.HexS(s))
	}
	rep, err := h.Eval(lines)
	if err != nil {
		return nil, err
	}
	dec := func(r string) ([][]byte, error) {
		b, ok, msg := h.DecodeReply(r)
		if !ok {
			return nil, fmt.Errorf("model error: %s", msg)
		}
		return h.DecodeListReply(b), nil
	}
	out := make([]c01nModel, len(lits))
	for i := range lits {
		a, e1 := dec(rep[3*i])
		b, e2 := dec(rep[3*i+1])
		l, e3 := dec(rep[3*i+2])
		if e1 != nil || e2 != nil || e3 != nil || len(a) != 9 || len(b) != 9 || len(l) != 3 {
			return nil, fmt.Errorf("model.c01n.all %q: bad reply", lits[i])
		}
		var m c01nModel
		set := func(k int, f [][]byte, j int, suffix string) {
			m.ok[k] = string(f[j]) == "1"
			m.text[k] = string(f[j+1]) + suffix
		}
		set(0, a, 0, "")
		set(1, a, 2, "()") // lit .toString()
		set(2, b, 2, "")   // lit["a"]
		set(3, a, 4, "()") // (lit).toString()
		set(4, b, 2, "")   // (lit)["a"] takes the general path
		set(5, a, 6, "")
		m.ok[6] = m.ok[0]
		if string(a[8]) == "1" {
			m.text[6] = "2"
		} else {
			m.text[6] = "1"
		}
		m.tok = string(l[2])
		out[i] = m
	}
	return out, nil
}

// c01nStats counts findings by class (kind, shape, trigger) — reported as a note, also when the list of
// findings is capped
var c01nStats = map[string]int{}
var c01nFirst = map[string]string{}

func c01nStat(class, input string) {
	c01nStats[class]++
	if _, ok := c01nFirst[class]; !ok {
		c01nFirst[class] = input
	}
}

type c01nKnownSet struct {
	open map[string]bool
}

func (k c01nKnownSet) has(id string) bool { return k.open[id] }

// classification of a literal under the narrow triggers of the open known findings, per program shape
func c01nTrigger(s string, inf c01nInfo, tok string, shape string) string {
	hasSep := strings.Contains(s, "_")
	m, e, _ := strings.Cut(inf.norm, "e")
	underflow := false
	if !inf.big && m != "0" {
		if f, err := strconv.ParseFloat(inf.norm, 64); err == nil && f == 0 {
			underflow = true
		}
	}
	switch shape {
	case "lit", "dot", "index", "groupdot", "groupindex":
		if inf.trigBig {
			return "K-C01N-1" // trigBigRadix
		}
	}
	switch shape {
	case "groupdot":
		if tok == "integer" && inf.big {
			return "K-C01N-2" // trigGroupBigInt
		}
		if tok == "decimal" && (hasSep || !strings.HasPrefix(e, "-")) {
			return "K-C01N-3" // trigGroupDecimal: integer value, or separators
		}
	case "not":
		if (tok == "decimal" || tok == "integer") && hasSep {
			return "K-C01N-4" // trigNotSep
		}
		if underflow {
			return "K-C01N-6"
		}
	case "cond":
		if hasSep || tok == "hex" && strings.ContainsAny(s[2:], "bBeE") {
			return "K-C01N-5" // trigTruthyScan
		}
		if underflow {
			return "K-C01N-6"
		}
	}
	return ""
}

func c01nRunLiterals(c *Ctx, st *h.Stage, lits []string, infos []c01nInfo, known c01nKnownSet) error {
	models, err := c01nModels(lits)
	if err != nil {
		return err
	}
	type obs struct {
		li, si, ci int
		in, out    string
	}
	var observed []obs
	exprIdx := map[string]int{}
	var exprs []string
	need := func(e string) {
		if _, ok := exprIdx[e]; !ok {
			exprIdx[e] = len(exprs)
			exprs = append(exprs, e)
		}
	}
	for li, s := range lits {
		mo := models[li]
		for si, sh := range c01nShapes {
			in := sh.mk(s)
			for ci := range c01nCfgs {
				cfg := &c01nCfgs[ci]
				key := "x=" + in + " [" + cfg.name + "]"
				out, errText, crash := c01nMinify(&cfg.o, "x="+in)
				if crash != "" {
					c.R.Add(h.Finding{Stage: st.Name, Kind: "crash", What: crash, Input: key, Hex: h.HexS("x=" + in), Config: cfg.name})
					continue
				}
				got := ""
				accepted := errText == ""
				if accepted {
					if !strings.HasPrefix(out, "x=") {
						c.R.Add(h.Finding{Stage: st.Name, Kind: "diff", What: "output does not start with x=", Input: key, Config: cfg.name, Impl: out})
						continue
					}
					got = out[2:]
				}
				st.Count(key, accepted && got != in)
				st.Tag("tok=" + mo.tok)
				if !accepted {
					st.Tag("rejected")
				}
				if accepted != mo.ok[si] || (accepted && got != mo.text[si]) {
					impl := got
					if !accepted {
						impl = "error: " + strings.SplitN(errText, "\n", 2)[0]
					}
					model := mo.text[si]
					if !mo.ok[si] {
						model = "(rejected)"
					}
					c01nStat("diff/"+sh.name, key)
					c.R.Add(h.Finding{Stage: st.Name, Kind: "diff", What: "js.Minify output differs from model (" + sh.name + ")", Input: key, Hex: h.HexS("x=" + in), Config: cfg.name, Impl: impl, Model: model})
				}
				if accepted && sh.name == "lit" && len(got) > len(s) {
					c01nStat("longer/lit", key) // not a violation of C01; reported as a note (not_longer is checked, not proved)
				}
				if accepted {
					observed = append(observed, obs{li, si, ci, in, got})
					need(in)
					need(got)
				}
			}
		}
	}
	res, err := c01nNode(exprs)
	if err != nil {
		return err
	}
	// Lean spec side on the real outputs
	var slines []string
	for _, o := range observed {
		sh := c01nShapes[o.si]
		switch {
		case sh.name == "lit":
			slines = append(slines, "spec.c01n.value "+h.HexS(lits[o.li])+" "+h.HexS(o.out))
		case sh.tail != "":
			slines = append(slines, "spec.c01n.lexat "+h.HexS(o.out))
		default:
			slines = append(slines, "echo -")
		}
	}
	srep, err := h.Eval(slines)
	if err != nil {
		return err
	}
	var vlines []string // second round: value of the literal found by lexat
	vidx := map[int]int{}
	lexLit := map[int]string{}
	lexRest := map[int]string{}
	for i, o := range observed {
		if c01nShapes[o.si].tail == "" {
			continue
		}
		b, ok, _ := h.DecodeReply(srep[i])
		f := h.DecodeListReply(b)
		if !ok || len(f) != 3 || string(f[0]) != "1" {
			lexLit[i] = "\x00"
			continue
		}
		lexLit[i], lexRest[i] = string(f[1]), string(f[2])
		vidx[i] = len(vlines)
		vlines = append(vlines, "spec.c01n.value "+h.HexS(lits[o.li])+" "+h.HexS(string(f[1])))
	}
	vrep, err := h.Eval(vlines)
	if err != nil {
		return err
	}
	valueOK := func(r string) (bool, string) {
		b, ok, msg := h.DecodeReply(r)
		f := h.DecodeListReply(b)
		if !ok || len(f) != 3 {
			return false, "spec error " + msg
		}
		if string(f[1]) != "1" {
			return false, "output is not a numeric literal"
		}
		if string(f[2]) != "1" {
			return false, "mathematical value or Number/BigInt type changed"
		}
		return true, ""
	}
	for i, o := range observed {
		sh := c01nShapes[o.si]
		s := lits[o.li]
		cfg := c01nCfgs[o.ci]
		key := "x=" + o.in + " [" + cfg.name + "]"
		trig := c01nTrigger(s, infos[o.li], models[o.li].tok, sh.name)
		rin, rout := res[exprIdx[o.in]], res[exprIdx[o.out]]
		var whats []string
		if strings.HasPrefix(rin, "error:") {
			c.R.Add(h.Finding{Stage: st.Name, Kind: "diff", What: "node rejects an input the Lean recogniser accepts: " + rin, Input: key})
			continue
		}
		if rin != rout {
			whats = append(whats, fmt.Sprintf("node: input evaluates to %s, output to %s", rin, rout))
		}
		switch {
		case sh.name == "lit":
			if ok, why := valueOK(srep[i]); !ok {
				whats = append(whats, "spec.c01n.value: "+why)
			}
		case sh.tail != "":
			if lexLit[i] == "\x00" {
				whats = append(whats, "spec.c01n.lexat: output does not start with a numeric literal that may be followed by the rest")
			} else {
				if lexRest[i] != sh.tail {
					whats = append(whats, fmt.Sprintf("spec.c01n.lexat: after the literal %q comes %q, want %q", lexLit[i], lexRest[i], sh.tail))
				}
				if ok, why := valueOK(vrep[vidx[i]]); !ok {
					whats = append(whats, "spec.c01n.value: "+why)
				}
			}
		}
		if len(whats) == 0 {
			continue
		}
		f := h.Finding{Stage: st.Name, Kind: "fail", What: sh.name + ": " + strings.Join(whats, "; "), Input: key, Hex: h.HexS("x=" + o.in), Config: cfg.name, Impl: "x=" + o.out}
		if trig != "" && known.has(trig) {
			c01nStat("known/"+trig+"/"+sh.name, key)
			c.R.ExcludedKnown++
			continue
		}
		c01nStat("fail/"+sh.name+"/trigger="+trig, key)
		c.R.Add(f)
	}
	return nil
}

// ---------- generators ----------

func c01nDigits(r *h.RNG, al string, n int, sep bool) string {
	var sb strings.Builder
	for i := 0; i < n; i++ {
		sb.WriteByte(al[r.Intn(len(al))])
		if sep && i+1 < n && r.Chance(12) {
			sb.WriteByte('_')
		}
	}
	return sb.String()
}

func c01nRandomLit(r *h.RNG) string {
	sep := r.Chance(30)
	big := r.Chance(25)
	lens := []int{1, 2, 3, 5, 8, 9, 10, 11, 12, 15, 16, 17, 20, 21, 22, 23, 30, 40, 62, 63, 64, 65, 66, 70}
	n := lens[r.Intn(len(lens))]
	s := ""
	switch r.Intn(6) {
	case 0: // hex
		al := "0123456789abcdefABCDEF"
		if r.Chance(30) {
			al = "0fFeEdD9"
		}
		if n > 24 {
			n = 8 + r.Intn(8)
		}
		s = "0" + r.Pick([]string{"x", "X"}) + c01nDigits(r, al, n, sep)
	case 1: // octal
		if n > 30 {
			n = 18 + r.Intn(8)
		}
		s = "0" + r.Pick([]string{"o", "O"}) + c01nDigits(r, "01234567", n, sep)
		if r.Chance(30) {
			s = s[:2] + r.Pick([]string{"7", "1", "0"}) + s[3:]
		}
	case 2: // binary
		s = "0" + r.Pick([]string{"b", "B"}) + c01nDigits(r, "01", n, sep)
		if r.Chance(50) && len(s) > 2 {
			s = s[:2] + "1" + s[3:]
		}
	case 3: // decimal integer
		d := c01nDigits(r, "0123456789", n, sep)
		d = strings.TrimLeft(d, "0_")
		if d == "" {
			d = "0"
		}
		if d != "0" && r.Chance(40) {
			d = strings.TrimRight(d, "_") + strings.Repeat("0", r.Intn(25))
		}
		s = d
	default: // decimal with fraction / exponent
		big = false
		ip := strings.TrimLeft(c01nDigits(r, "0123456789", r.Intn(n)+1, sep), "0_")
		if ip == "" && r.Chance(50) {
			ip = "0"
		}
		fp := ""
		if r.Chance(70) || ip == "" {
			fl := r.Intn(n) + 1
			if ip != "" && r.Chance(10) {
				fl = 0
			}
			fp = "." + c01nDigits(r, "0000123456789", fl, sep)
		}
		ex := ""
		if r.Chance(60) {
			es := []string{"", "+", "-"}[r.Intn(3)]
			var ev string
			switch r.Intn(5) {
			case 0:
				ev = fmt.Sprint(r.Intn(10))
			case 1:
				ev = fmt.Sprint(r.Intn(40))
			case 2:
				ev = fmt.Sprint(280 + r.Intn(60))
			case 3:
				ev = strings.Repeat("0", r.Intn(3)) + fmt.Sprint(r.Intn(1000))
			default:
				ev = r.Pick([]string{"9223372036854775807", "9223372036854775808", "9223372036854775806", "99999999999999999999", "2147483647", "2147483648", "4294967296", "1_0", "2_1"})
			}
			ex = r.Pick([]string{"e", "E"}) + es + ev
		}
		s = ip + fp + ex
	}
	if big {
		s += "n"
	}
	return s
}

// unsigned lexemes of the number grammar for the copy of minify.Number
func c01nNumberGrammar(maxLen int, f func(s string)) {
	ds := []byte("0159")
	var mant func(prefix []byte, state int)
	// state 0: start, 1: in integer digits, 2: just after dot with int digits, 3: in fraction digits, 4: after dot without int digits
	var exps func(prefix []byte)
	exps = func(prefix []byte) {
		f(string(prefix))
		for _, e := range []string{"e", "E", "e+", "e-"} {
			p := append(append([]byte{}, prefix...), e...)
			var digs func(p []byte, k int)
			digs = func(p []byte, k int) {
				if len(p) > maxLen {
					return
				}
				if k > 0 {
					f(string(p))
				}
				for _, d := range ds {
					digs(append(append([]byte{}, p...), d), k+1)
				}
			}
			digs(p, 0)
		}
	}
	mant = func(prefix []byte, state int) {
		if len(prefix) > maxLen {
			return
		}
		if state == 1 || state == 2 || state == 3 {
			exps(prefix)
		}
		if len(prefix) == maxLen {
			return
		}
		switch state {
		case 0:
			for _, d := range ds {
				mant(append(append([]byte{}, prefix...), d), 1)
			}
			mant(append(append([]byte{}, prefix...), '.'), 4)
		case 1:
			for _, d := range ds {
				mant(append(append([]byte{}, prefix...), d), 1)
			}
			mant(append(append([]byte{}, prefix...), '.'), 2)
		case 2, 3, 4:
			for _, d := range ds {
				mant(append(append([]byte{}, prefix...), d), 3)
			}
		}
	}
	mant(nil, 0)
}

func c01nRealNumber(s string) (out string, crash string) {
	crash = h.Safely(5*time.Second, func() {
		// a fresh copy inside a larger array with canaries on both sides
		buf := make([]byte, len(s)+16)
		for i := range buf {
			buf[i] = 0xAA
		}
		copy(buf[8:], s)
		res := minify.Number(buf[8:8+len(s):8+len(s)], 0)
		out = string(res)
		for i := 0; i < 8; i++ {
			if buf[i] != 0xAA || buf[8+len(s)+i] != 0xAA {
				out = "(wrote outside the slice) " + out
			}
		}
	})
	return
}

func init() {
	register("C01N", func(c *Ctx) error {
		known := c01nKnownSet{open: map[string]bool{}}
		for _, k := range h.Known("C01N") {
			if k.Status == "open" {
				known.open[k.ID] = true
			}
		}

		// ---- stage spec: Lean recogniser and value against node ----
		{
			maxLen := c.N(4, 5)
			st := c.R.StartStage("spec", fmt.Sprintf("every string over {%s} with 1..%d characters: Lean isNumericLiteral against node (a string without + and - is a literal iff node evaluates it to a number/bigint; with +/-: literal => evaluates), and for literals the Lean mathematical value m*10^e against node's value of the lexeme; non-trivial = the string is a literal", strings.ReplaceAll(c01nAlphabet, " ", ""), maxLen))
			st.Exhaustive = true
			var all []string
			c01nEnum(maxLen, false, func(s string) { all = append(all, s) })
			infos, err := c01nInfos(all)
			if err != nil {
				return err
			}
			exprs := make([]string, 0, 2*len(all))
			for i, s := range all {
				exprs = append(exprs, s)
				m, e, _ := strings.Cut(infos[i].norm, "e")
				if infos[i].big {
					exprs = append(exprs, m+"n*10n**"+e+"n")
				} else {
					exprs = append(exprs, `Number("`+m+"e"+e+`")`)
				}
			}
			res, err := c01nNode(exprs)
			if err != nil {
				return err
			}
			for i, s := range all {
				inf := infos[i]
				st.Count(s, inf.isLit)
				r := res[2*i]
				isNum := strings.HasPrefix(r, "number:") || strings.HasPrefix(r, "bigint:")
				plain := !strings.ContainsAny(s, "+-")
				if inf.isLit {
					first := s[0]
					last := s[len(s)-1]
					if !(first >= '0' && first <= '9' || first == '.') || last == 'x' || last == 'o' || last == '_' || last == '+' || last == '-' {
						c.R.Add(h.Finding{Stage: st.Name, Kind: "diff", What: "pruning rule of the enumeration is unsound", Input: s})
					}
				}
				if inf.isLit && !isNum {
					c.R.Add(h.Finding{Stage: st.Name, Kind: "diff", What: "Lean accepts, node does not evaluate it to a number: " + r, Input: s})
				} else if !inf.isLit && plain && isNum {
					c.R.Add(h.Finding{Stage: st.Name, Kind: "diff", What: "node evaluates it to " + r + ", Lean isNumericLiteral rejects", Input: s})
				} else if inf.isLit && r != res[2*i+1] {
					c.R.Add(h.Finding{Stage: st.Name, Kind: "diff", What: "Lean value " + infos[i].norm + " gives " + res[2*i+1] + ", node evaluates the lexeme to " + r, Input: s})
				}
				if inf.isLit && strings.HasPrefix(r, "bigint:") != inf.big {
					c.R.Add(h.Finding{Stage: st.Name, Kind: "diff", What: "isBigIntLit disagrees with node: " + r, Input: s})
				}
				if inf.isLit {
					wantFalsy := r == "number:0" || r == "bigint:0"
					if wantFalsy != inf.falsy {
						c.R.Add(h.Finding{Stage: st.Name, Kind: "diff", What: "isFalsyLit disagrees with node: " + r, Input: s})
					}
				}
			}
			st.End()
		}

		// ---- stage number: the private copy of minify.Number ----
		{
			maxLen := c.N(7, 8)
			nr := c.N(20000, 400000)
			st := c.R.StartStage("number", fmt.Sprintf("JsNumberDec.number against the real minify.Number(s,0) (fresh copy between canaries): every unsigned lexeme d*[.d*][(e|E)[+-]d+] over digits 0,1,5,9 up to %d bytes, plus %d seeded long lexemes; non-trivial = result differs from the input", maxLen, nr))
			var cases []h.Case
			add := func(s string) {
				out, crash := c01nRealNumber(s)
				if crash != "" {
					c.R.Add(h.Finding{Stage: st.Name, Kind: "crash", What: "minify.Number: " + crash, Input: s, Hex: h.HexS(s)})
					return
				}
				cases = append(cases, h.Case{Line: "model.c01n.number " + h.HexS(s), Want: []byte(out), Key: s, InHex: h.HexS(s), Nontrivial: out != s})
			}
			c01nNumberGrammar(maxLen, add)
			r := c.Rng.Fork()
			for i := 0; i < nr; i++ {
				s := c01nRandomLit(r)
				s = strings.ReplaceAll(strings.TrimSuffix(s, "n"), "_", "")
				if len(s) > 1 && s[0] == '0' && (s[1] == 'x' || s[1] == 'X' || s[1] == 'o' || s[1] == 'O' || s[1] == 'b' || s[1] == 'B') {
					s = s[2:]
					s = strings.Map(func(r rune) rune {
						if r >= '0' && r <= '9' {
							return r
						}
						return '0' + (r-'A')%10
					}, s)
				}
				add(s)
			}
			if err := h.CompareAll(c.R, st, "minify.Number(s,0) differs from the private model copy", cases); err != nil {
				return err
			}
			st.End()
		}

		// ---- stage corpus: literals of the fixed findings K-C01N-1..6 and cut-off boundaries ----
		{
			st := c.R.StartStage("corpus", "fixed regression literals (former failing inputs of K-C01N-1..6, cut-off boundaries of the radix conversions, IEEE underflow boundary) x 7 shapes x 2 configurations; same comparisons as stage literal")
			lits := []string{"5.0", "5.", "1e2", "1e0", "10.0", "1n", "0n", "1_0n", "1e1_0", "1_0.5", "0xb", "0xB0", "0xe0", "0x0e1", "0xE", "0.0_0", "0b0_0", "0x0_0", "0e1_0",
				"1e-400", "2e-324", "3e-324", "5e-324", "2.4703282292062327e-324", "2.4703282292062328e-324", "0.0000000000000000000000000000000000000001e-290",
				"0xFFFFFFFFFFFFFn", "0xFFFFFFFFFFFFF", "0xDFFFFFFFFF", "0xDFFFFFFFFFn", "0xE000000000", "0xE000000000n", "0xe000000000n", "0Xd_fffffffffn", "0xFFFFFFFFFF", "0x00000000001",
				"0b" + strings.Repeat("1", 63), "0b" + strings.Repeat("1", 63) + "n", "0b" + strings.Repeat("1", 64), "0b" + strings.Repeat("1", 64) + "n", "0B1" + strings.Repeat("0", 70) + "n",
				"0o" + strings.Repeat("7", 21), "0o" + strings.Repeat("7", 21) + "n", "0o1" + strings.Repeat("7", 21), "0o1" + strings.Repeat("7", 21) + "n", "0O7_" + strings.Repeat("7", 21) + "n",
				"9007199254740993", "9007199254740993n", "123456789012345678901234567890", "1e21", "1e-7", "0.0000001", "1000000", ".5e-9", "1.5e-20", "100e-10"}
			infos, err := c01nInfos(lits)
			if err != nil {
				return err
			}
			for i, x := range infos {
				if !x.isLit {
					c.R.Add(h.Finding{Stage: st.Name, Kind: "diff", What: "corpus literal rejected by the Lean recogniser", Input: lits[i]})
				}
			}
			if err := c01nRunLiterals(c, st, lits, infos, known); err != nil {
				return err
			}
			st.End()
		}

		// ---- stage literal: exhaustive over short literals, public API ----
		{
			maxLen := c.N(5, 6)
			st := c.R.StartStage("literal", fmt.Sprintf("EVERY numeric literal (Lean isNumericLiteral) over {%s} with 1..%d characters x 7 program shapes (x=L, x=L .toString(), x=L[\"a\"], x=(L).toString(), x=(L)[\"a\"], x=!L, x=L?1:2) x 2 configurations through js.Minify: output = model; node evaluates input and output expression to the same typeof:value; Lean spec.c01n.value / spec.c01n.lexat on the real output; non-trivial = accepted and the expression text changed", strings.ReplaceAll(c01nAlphabet, " ", ""), maxLen))
			st.Exhaustive = true
			var cand []string
			c01nEnum(maxLen, true, func(s string) { cand = append(cand, s) })
			var lits []string
			var infos []c01nInfo
			const chunk = 2000000
			for lo := 0; lo < len(cand); lo += chunk {
				hi := lo + chunk
				if hi > len(cand) {
					hi = len(cand)
				}
				inf, err := c01nInfos(cand[lo:hi])
				if err != nil {
					return err
				}
				for i, x := range inf {
					if x.isLit {
						lits = append(lits, cand[lo+i])
						infos = append(infos, x)
					}
				}
			}
			cand = nil
			c.R.Note("literal stage: %d numeric literals up to length %d", len(lits), maxLen)
			const lchunk = 20000
			for lo := 0; lo < len(lits); lo += lchunk {
				hi := lo + lchunk
				if hi > len(lits) {
					hi = len(lits)
				}
				if err := c01nRunLiterals(c, st, lits[lo:hi], infos[lo:hi], known); err != nil {
					return err
				}
			}
			st.End()
		}

		// ---- stage random: long literals ----
		{
			n := c.N(4000, 150000)
			if c.Search {
				n *= 4
			}
			st := c.R.StartStage("random", fmt.Sprintf("%d seeded long literals (hex to 24 digits, octal to 30, binary to 70, decimal integers to 70 digits with trailing zeros, fractions, exponents up to the int64 range, separators, BigInt suffix; lengths cluster around the cut-offs 10/11 hex, 21/22 octal, 63/64 binary digits) x the same 7 shapes x 2 configurations; same comparisons as stage literal", n))
			r := c.Rng.Fork()
			seen := map[string]bool{}
			var cand []string
			for len(cand) < n {
				s := c01nRandomLit(r)
				if !seen[s] {
					seen[s] = true
					cand = append(cand, s)
				}
			}
			inf, err := c01nInfos(cand)
			if err != nil {
				return err
			}
			var lits []string
			var infos []c01nInfo
			for i, x := range inf {
				if x.isLit {
					lits = append(lits, cand[i])
					infos = append(infos, x)
				} else {
					c.R.Add(h.Finding{Stage: st.Name, Kind: "diff", What: "generator produced a string the Lean recogniser rejects", Input: cand[i]})
				}
			}
			const lchunk = 20000
			for lo := 0; lo < len(lits); lo += lchunk {
				hi := lo + lchunk
				if hi > len(lits) {
					hi = len(lits)
				}
				if err := c01nRunLiterals(c, st, lits[lo:hi], infos[lo:hi], known); err != nil {
					return err
				}
			}
			st.End()
		}

		// ---- stage keys: string property keys that look like numbers (outside the Lean model: node only) ----
		{
			maxLen := c.N(5, 6)
			st := c.R.StartStage("keys", fmt.Sprintf("property key strings K over {0,1,5,9,.} with 1..%d characters plus long integers around 2^53 and 10^21: node evaluates x=new Proxy({},{get:(t,k)=>k})[\"K\"] and x=Object.keys({\"K\":1})[0] before and after js.Minify (the key must stay the same string); non-trivial = the program text changed", maxLen))
			st.Exhaustive = true
			var keys []string
			var rec func(p string)
			rec = func(p string) {
				if p != "" {
					keys = append(keys, p)
				}
				if len(p) == maxLen {
					return
				}
				for _, ch := range "0159." {
					rec(p + string(ch))
				}
			}
			rec("")
			keys = append(keys, "9007199254740991", "9007199254740992", "9007199254740993", "999999999999999", "1000000000000000", "9999999999999999",
				"100000000000000000000", "1000000000000000000000", "123456789012345678901234567890", "1000000", "1.5000", "4294967295", "4294967296")
			type kobs struct {
				key, shape, in, out string
			}
			var obs []kobs
			var exprs []string
			for _, k := range keys {
				for _, sh := range []struct{ name, expr string }{
					{"index", `new Proxy({},{get:(t,k)=>k})["` + k + `"]`},
					{"name", `Object.keys({"` + k + `":1})[0]`},
				} {
					out, errText, crash := c01nMinify(&js.Minifier{}, "x="+sh.expr)
					if crash != "" {
						c.R.Add(h.Finding{Stage: st.Name, Kind: "crash", What: crash, Input: "x=" + sh.expr})
						continue
					}
					if errText != "" || !strings.HasPrefix(out, "x=") {
						c.R.Add(h.Finding{Stage: st.Name, Kind: "diff", What: "js.Minify rejects the program: " + errText, Input: "x=" + sh.expr})
						continue
					}
					st.Count("x="+sh.expr, out[2:] != sh.expr)
					obs = append(obs, kobs{k, sh.name, sh.expr, out[2:]})
					exprs = append(exprs, sh.expr, out[2:])
				}
			}
			res, err := c01nNode(exprs)
			if err != nil {
				return err
			}
			canonical := func(k string) bool {
				if len(k) == 0 || len(k) > 15 || (k[0] == '0' && len(k) > 1) {
					return false
				}
				return strings.Trim(k, "0123456789") == ""
			}
			for i, o := range obs {
				rin, rout := res[2*i], res[2*i+1]
				if rin != "string:"+o.key {
					c.R.Add(h.Finding{Stage: st.Name, Kind: "diff", What: "oracle program does not return the key: " + rin, Input: "x=" + o.in})
					continue
				}
				if rin == rout {
					continue
				}
				trig := ""
				if pjs.AsDecimalLiteral([]byte(o.key)) && !canonical(o.key) {
					// trigNumericKey: the key passes parse/v2/js.AsDecimalLiteral and is not a canonical integer below 10^15
					if o.shape == "index" {
						trig = "K-C01N-7"
					} else {
						trig = "K-C01N-8"
					}
				}
				if trig != "" && known.has(trig) {
					c01nStat("known/"+trig+"/"+o.shape, "x="+o.in)
					c.R.ExcludedKnown++
					continue
				}
				c01nStat("fail/key-"+o.shape, "x="+o.in)
				c.R.Add(h.Finding{Stage: st.Name, Kind: "fail", What: fmt.Sprintf("key-%s: the property key %q becomes %s", o.shape, o.key, rout), Input: "x=" + o.in, Hex: h.HexS("x=" + o.in), Config: "Version=0", Impl: "x=" + o.out})
			}
			st.End()
		}

		{
			var ks []string
			for k := range c01nStats {
				ks = append(ks, k)
			}
			sort.Strings(ks)
			for _, k := range ks {
				c.R.Note("class %s: %d cases, first %s", k, c01nStats[k], c01nFirst[k])
			}
		}

		// ---- known findings: exact replays ----
		for _, k := range h.Known("C01N") {
			if k.Status != "open" {
				continue
			}
			src := k.ReplayStr("input")
			want := k.ReplayStr("observed")
			out, errText, crash := c01nMinify(&js.Minifier{}, src)
			obsd := out
			if errText != "" {
				obsd = "error: " + errText
			}
			if crash != "" {
				obsd = crash
			}
			c.R.AddKnown(k.ID, obsd == want, k.What, obsd)
		}
		// fixed findings: regression corpus
		for _, k := range h.Known("C01N") {
			if k.Status != "fixed" {
				continue
			}
			src := k.ReplayStr("input")
			out, _, _ := c01nMinify(&js.Minifier{}, src)
			if exp := k.ReplayStr("expected"); exp != "" && out != exp {
				c.R.Add(h.Finding{Stage: "corpus", Kind: "fail", What: "fixed finding " + k.ID + " reproduces again", Input: src, Impl: out, Model: exp})
			}
		}
		return nil
	})
}

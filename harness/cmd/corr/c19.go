package main

// C19 — the CLI writes the library's output to the right place and never harms inputs.
//
//  paths   Go's path/filepath (Clean, Dir, Base, Ext, Join, Rel) vs the model's lexical path algebra;
//  concat  the REAL cmd/minify/io.go concatFileReader (built with `go build -overlay`: main.go replaced by a
//          small driver, io.go untouched) vs the model's reader state machine, read call by read call, for
//          random buffer-size / short-read schedules;
//  cli     the built command in generated scratch trees for generated invocations: exit status, stdout and the
//          resulting tree vs `Model.Cli.effects` (library results from the real library in-process), and an
//          independent Go oracle: every selected file's destination holds the library output for its type,
//          unselected files are copied verbatim in sync mode, nothing else changes.

import (
	"bufio"
	"bytes"
	"encoding/hex"
	"encoding/json"
	"fmt"
	"os"
	"os/exec"
	"path/filepath"
	"regexp"
	"sort"
	"strings"

	"verifharness/h"
)

// ---------- concat reader: the real io.go behind a driver ----------

const c19ConcatDriver = `package main

import (
	"bufio"
	"encoding/hex"
	"fmt"
	"io"
	"os"
	"strconv"
	"strings"
)

type memFile struct {
	data []byte
	k    *int
}

func (m *memFile) Read(p []byte) (int, error) {
	if len(p) == 0 {
		return 0, nil
	}
	if len(m.data) == 0 {
		return 0, io.EOF
	}
	n := *m.k
	if n < 1 {
		n = 1
	}
	if n > len(p) {
		n = len(p)
	}
	if n > len(m.data) {
		n = len(m.data)
	}
	copy(p, m.data[:n])
	m.data = m.data[n:]
	return n, nil
}
func (m *memFile) Close() error { return nil }

func unhex(s string) []byte {
	if s == "-" || s == "_" {
		return nil
	}
	b, _ := hex.DecodeString(s)
	return b
}

func main() {
	sc := bufio.NewScanner(os.Stdin)
	sc.Buffer(make([]byte, 1<<20), 1<<26)
	w := bufio.NewWriter(os.Stdout)
	defer w.Flush()
	for sc.Scan() {
		f := strings.Fields(sc.Text())
		if len(f) != 3 {
			fmt.Fprintln(w, "!bad")
			continue
		}
		var files [][]byte
		var names []string
		if f[0] != "-" {
			for i, x := range strings.Split(f[0], ",") {
				files = append(files, unhex(x))
				names = append(names, strconv.Itoa(i))
			}
		}
		sep := unhex(f[1])
		k := 1
		opener := func(name string) (io.ReadCloser, error) {
			i, _ := strconv.Atoi(name)
			return &memFile{data: append([]byte{}, files[i]...), k: &k}, nil
		}
		r, err := newConcatFileReader(names, opener, sep)
		if err != nil {
			fmt.Fprintln(w, "!open")
			continue
		}
		var out []string
		eof := "0"
		if f[2] != "-" {
			for _, nk := range strings.Split(f[2], ",") {
				p := strings.SplitN(nk, ":", 2)
				n, _ := strconv.Atoi(p[0])
				k, _ = strconv.Atoi(p[1])
				buf := make([]byte, n)
				m, err := r.Read(buf)
				if m == 0 {
					out = append(out, "_")
				} else {
					out = append(out, hex.EncodeToString(buf[:m]))
				}
				if err == io.EOF {
					eof = "1"
					break
				} else if err != nil {
					eof = "!" + err.Error()
					break
				}
			}
		}
		fmt.Fprintln(w, eof+" "+strings.Join(out, ","))
	}
}
`

// c19BuildConcat builds cmd/minify with main.go replaced by the driver and every other file except io.go removed.
func c19BuildConcat(repo, dir string) (string, error) {
	pkg := filepath.Join(repo, "cmd", "minify")
	ents, err := os.ReadDir(pkg)
	if err != nil {
		return "", err
	}
	drv := filepath.Join(dir, "concat_driver.go")
	if err := os.WriteFile(drv, []byte(c19ConcatDriver), 0o644); err != nil {
		return "", err
	}
	repl := map[string]string{}
	haveIO := false
	for _, e := range ents {
		n := e.Name()
		if !strings.HasSuffix(n, ".go") {
			continue
		}
		switch {
		case n == "io.go":
			haveIO = true
		case n == "main.go":
			repl[filepath.Join(pkg, n)] = drv
		default:
			repl[filepath.Join(pkg, n)] = ""
		}
	}
	if !haveIO {
		return "", fmt.Errorf("cmd/minify/io.go not found")
	}
	ov, _ := json.Marshal(map[string]any{"Replace": repl})
	ovf := filepath.Join(dir, "overlay.json")
	if err := os.WriteFile(ovf, ov, 0o644); err != nil {
		return "", err
	}
	bin := filepath.Join(dir, "concat")
	cmd := exec.Command("go", "build", "-overlay", ovf, "-o", bin, "./cmd/minify")
	cmd.Dir = repo
	cmd.Env = append(os.Environ(), "CGO_ENABLED=0")
	if out, e := cmd.CombinedOutput(); e != nil {
		return "", fmt.Errorf("go build -overlay (concat driver): %v\n%s", e, out)
	}
	return bin, nil
}

// ---------- glob patterns ----------

// c19CompileReal is a literal copy of main.go compilePattern: it supplies the model's pattern-match oracle bits
// (a change of the real function shows up as a model/implementation difference in the cli stage).
func c19CompileReal(pattern string) (*regexp.Regexp, error) {
	if len(pattern) == 0 || pattern[0] != '~' {
		if strings.HasPrefix(pattern, `\~`) {
			pattern = pattern[1:]
		}
		pattern = regexp.QuoteMeta(pattern)
		pattern = strings.ReplaceAll(pattern, `\*\*`, `.*`)
		pattern = strings.ReplaceAll(pattern, `\*`, fmt.Sprintf(`[^%c]*`, filepath.Separator))
		pattern = strings.ReplaceAll(pattern, `\?`, fmt.Sprintf(`[^%c]?`, filepath.Separator))
		pattern = "^" + pattern + "$"
	} else {
		pattern = pattern[1:] // regular expression
	}
	return regexp.Compile(pattern)
}

// c19Compile is the documented meaning (README: glob, or a regular expression when prefixed with `~`); used by the
// Go oracle only.
func c19Compile(pattern string) (*regexp.Regexp, error) {
	if len(pattern) == 0 || pattern[0] != '~' {
		if strings.HasPrefix(pattern, `\~`) {
			pattern = pattern[1:]
		}
		pattern = regexp.QuoteMeta(pattern)
		pattern = strings.ReplaceAll(pattern, `\*\*`, `.*`)
		pattern = strings.ReplaceAll(pattern, `\*`, `[^/]*`)
		pattern = strings.ReplaceAll(pattern, `\?`, `[^/]?`)
		pattern = "^" + pattern + "$"
	} else {
		pattern = pattern[1:]
	}
	return regexp.Compile(pattern)
}

// ---------- invocations ----------

type c19Filter struct {
	Include bool
	Pat     string
}

type c19Inv struct {
	Shape     string
	Inputs    []string
	Output    string
	Recursive bool
	Hidden    bool
	Sync      bool
	Bundle    bool
	Type      string
	Match     []string
	Filters   []c19Filter
	Stdin     []byte
	UseStdin  bool
}

func (v *c19Inv) args() []string {
	// the list-valued options (--match, --include, --exclude) swallow every following argument that does not
	// start with "-": they come first and "-q" closes them
	var a []string
	if v.Recursive {
		a = append(a, "-r")
	}
	if v.Hidden {
		a = append(a, "-a")
	}
	if v.Sync {
		a = append(a, "--sync")
	}
	if v.Bundle {
		a = append(a, "-b")
	}
	if v.Type != "" {
		a = append(a, "--type="+v.Type)
	}
	for _, m := range v.Match {
		a = append(a, "--match="+m)
	}
	for _, f := range v.Filters {
		if f.Include {
			a = append(a, "--include="+f.Pat)
		} else {
			a = append(a, "--exclude="+f.Pat)
		}
	}
	a = append(a, "-q")
	if v.Output != "" {
		a = append(a, "-o", v.Output)
	}
	a = append(a, v.Inputs...)
	return a
}

// ---------- the Go oracle: an independent statement of what the command should leave behind ----------

type c19Fate struct {
	Srcs []string
	Mime string // "" = copy verbatim
	Sep  string
}

func c19Hidden(rel string) bool {
	for _, c := range strings.Split(rel, "/") {
		if strings.HasPrefix(c, ".") && c != "." && c != ".." {
			return true
		}
	}
	return false
}

// c19Oracle returns destination → fate for the invocation shapes it understands (ok=false: no statement).
// It is written against the documented behaviour, with Go's own filepath/regexp, not against the Lean model.
func c19Oracle(v *c19Inv, tree cliTree, dirs map[string]bool) (fates map[string]c19Fate, wantErr bool, ok bool) {
	fates = map[string]c19Fate{}
	if v.UseStdin || v.Output == "" {
		return nil, false, false
	}
	mimeOf := func(p string) string {
		if v.Type != "" {
			if strings.Contains(v.Type, "/") {
				return v.Type
			}
			return cliExtMap[v.Type]
		}
		return cliMime(p)
	}
	var ms, fs []*regexp.Regexp
	for _, m := range v.Match {
		re, err := c19Compile(m)
		if err != nil {
			return nil, false, false
		}
		ms = append(ms, re)
	}
	for _, f := range v.Filters {
		re, err := c19Compile(f.Pat)
		if err != nil {
			return nil, false, false
		}
		fs = append(fs, re)
	}
	passes := func(p string) bool {
		if len(ms) > 0 {
			hit := false
			for _, re := range ms {
				if re.MatchString(filepath.Base(p)) {
					hit = true
				}
			}
			if !hit {
				return false
			}
		}
		sel := true
		for i, re := range fs {
			if re.MatchString(p) {
				sel = v.Filters[i].Include
			}
		}
		return sel
	}
	dirs["."] = true
	dirOut := strings.HasSuffix(v.Output, "/") || (!v.Bundle && len(v.Inputs) > 1)
	if !v.Bundle && len(v.Inputs) == 1 && dirs[filepath.Clean(v.Inputs[0])] {
		dirOut = true
	}
	type sel struct {
		src, root string
		minify    bool
	}
	var sels []sel
	for _, in := range v.Inputs {
		root := filepath.Dir(in)
		if strings.HasSuffix(in, "/") {
			root = filepath.Clean(in)
		}
		ci := filepath.Clean(in)
		if _, isFile := tree[ci]; isFile {
			okf := passes(ci)
			if okf && mimeOf(ci) == "" {
				return nil, true, true // cannot infer the type of an explicitly named file
			}
			if okf || v.Sync {
				sels = append(sels, sel{ci, root, okf})
			}
			continue
		}
		if !dirs[ci] {
			return nil, true, true // missing input
		}
		if !v.Recursive {
			continue
		}
		if !v.Hidden && c19Hidden(filepath.Base(ci)) {
			continue
		}
		var below []string
		for p := range tree {
			if ci == "." || strings.HasPrefix(p, ci+"/") {
				rel, _ := filepath.Rel(ci, p)
				if !v.Hidden && c19Hidden(rel) {
					continue
				}
				below = append(below, p)
			}
		}
		sort.Strings(below)
		for _, p := range below {
			okf := passes(p) && mimeOf(p) != ""
			if okf || v.Sync {
				sels = append(sels, sel{p, root, okf})
			}
		}
	}
	if v.Bundle {
		if dirOut {
			return nil, true, true
		}
		if len(sels) == 0 {
			return fates, false, true
		}
		var srcs []string
		mt := ""
		for _, s := range sels {
			srcs = append(srcs, s.src)
			m := mimeOf(s.src)
			if mt != "" && m != mt {
				return nil, false, false // mixed types: the bundle is refused; leave it to the model comparison
			}
			mt = m
		}
		sep := ""
		if mt == "application/javascript" && len(srcs) > 1 {
			sep = ";\n"
		}
		dst := filepath.Clean(v.Output)
		if v.Output == "." {
			r, _ := filepath.Rel(sels[0].root, sels[0].src)
			dst = filepath.Join(".", r)
		}
		fates[dst] = c19Fate{Srcs: srcs, Mime: mt, Sep: sep}
		return fates, false, true
	}
	for _, s := range sels {
		dst := filepath.Clean(v.Output)
		if dirOut || v.Output == "." {
			r, err := filepath.Rel(s.root, s.src)
			if err != nil {
				return nil, false, false
			}
			dst = filepath.Join(v.Output, r)
		}
		if _, dup := fates[dst]; dup {
			return nil, true, true // two sources for one destination: rejected (regression of K-C19-2)
		}
		if s.minify {
			fates[dst] = c19Fate{Srcs: []string{s.src}, Mime: mimeOf(s.src)}
		} else {
			fates[dst] = c19Fate{Srcs: []string{s.src}}
		}
	}
	return fates, false, true
}

// ---------- generator ----------

// c19LateFail builds a document whose minification fails only after a prefix that the lexers/minifiers rewrite in
// place (upper-case tags and attributes, collapsible whitespace, entities, shortenable numbers): the error sits at
// 30–90 % of the file. On such a file the command must fall back to the ORIGINAL bytes.
func c19LateFail(rng *h.RNG, ext string) []byte {
	var head, tail []string
	n1, n2 := 2+rng.Intn(5), 1+rng.Intn(3)
	var bad string
	switch ext {
	case "html", "htm":
		for i := 0; i < n1; i++ {
			head = append(head, fmt.Sprintf("<P CLASS=\"C%d\" >Hello   &amp;   World  %d</P>\n<DIV  TITLE = 'x'>a    b</DIV>", i, rng.Intn(100)))
		}
		bad = []string{"<script>var = ;</script>", "<script type=\"module\">import { a from 'x'</script>", "<a onclick=\"var = ;\">x</a>",
			"<script type=\"application/json\">{ \"a\" : }</script>", "<SCRIPT>if ( ) { }</SCRIPT>"}[rng.Intn(5)]
		for i := 0; i < n2; i++ {
			tail = append(tail, fmt.Sprintf("<P>Tail   %d</P>", i))
		}
		return []byte("<!DOCTYPE HTML><HTML><BODY>\n" + strings.Join(head, "\n") + bad + strings.Join(tail, "\n") + "</BODY></HTML>\n")
	case "xml", "svg":
		open, close := "<root>", "</root>"
		if ext == "svg" {
			open, close = "<svg xmlns=\"http://www.w3.org/2000/svg\">", "</svg>"
		}
		for i := 0; i < n1; i++ {
			head = append(head, fmt.Sprintf("  <text  id = \"%d\" >  some   text &amp;  more   %d  </text>", i, rng.Intn(100)))
		}
		for i := 0; i < n2; i++ {
			tail = append(tail, fmt.Sprintf("  <g>  %d  </g>", i))
		}
		return []byte(open + "\n" + strings.Join(head, "\n") + "\x00" + strings.Join(tail, "\n") + close + "\n")
	case "json":
		for i := 0; i < n1; i++ {
			head = append(head, fmt.Sprintf(" { \"k\\u0041%d\" : [ %d.50 , 1.0e+2 ] }", i, rng.Intn(100)))
		}
		bad = []string{"nul", "{ \"a\" : }", "[ 1 , ]x"}[rng.Intn(3)]
		for i := 0; i < n2; i++ {
			tail = append(tail, fmt.Sprintf(" %d", i))
		}
		return []byte("[\n" + strings.Join(append(append(head, bad), tail...), " ,\n") + "\n]\n")
	case "js", "mjs":
		for i := 0; i < n1; i++ {
			head = append(head, fmt.Sprintf("if ( x%d ) { g( %d.50 , 'it\\'s' , 0x10 ) ; }", i, rng.Intn(100)))
		}
		bad = []string{"var = ;", "if ( ) { }", "let x = `a${ ;"}[rng.Intn(3)]
		for i := 0; i < n2; i++ {
			tail = append(tail, fmt.Sprintf("h( %d ) ;", i))
		}
		return []byte(strings.Join(head, "\n") + "\n" + bad + "\n" + strings.Join(tail, "\n") + "\n")
	}
	return nil
}

// c19MutatesOnFail measures whether the library, when it reads the document through a bytes.Buffer (the caller's slice),
// fails AND has rewritten the slice by then — the situation in which handing the caller's slice to the minifier is visible.
func c19MutatesOnFail(mimetype string, b []byte) bool {
	buf := append([]byte{}, b...)
	var w bytes.Buffer
	var err error
	crash := h.Safely(30e9, func() { err = cliMinifier().Minify(mimetype, &w, bytes.NewBuffer(buf)) })
	return crash == "" && err != nil && !bytes.Equal(buf[:len(b)], b)
}

var c19Exts = []string{"css", "js", "html", "json", "svg", "xml", "txt", "md"}

func c19GenTree(rng *h.RNG) cliTree {
	t := cliTree{}
	dirs := []string{"in", "in/sub", "in/sub/deep", "in/.hid", "lib", "in/a.d"}
	names := []string{"a", "b", "c", "x", ".h", "a.b", "index"}
	n := 2 + rng.Intn(8)
	for i := 0; i < n; i++ {
		d := dirs[rng.Intn(len(dirs))]
		if rng.Chance(15) {
			d = ""
		}
		ext := c19Exts[rng.Intn(len(c19Exts))]
		name := names[rng.Intn(len(names))] + "." + ext
		if rng.Chance(4) {
			name = names[rng.Intn(len(names))] // no extension
		}
		p := filepath.Join(d, name)
		var content []byte
		switch {
		case rng.Chance(12) && c19LateFail(rng, ext) != nil:
			content = c19LateFail(rng, ext) // minifier error after a rewritable prefix
		case rng.Chance(6) && ext == "js":
			content = []byte("var = ;\n") // minifier error
		case rng.Chance(5):
			content = []byte{}
		default:
			content = c20Content(rng, ext, 20+rng.Intn(300))
		}
		// a path cannot be both a file and a directory
		clash := false
		for q := range t {
			if strings.HasPrefix(q, p+"/") || strings.HasPrefix(p, q+"/") {
				clash = true
			}
		}
		for _, dd := range dirs {
			if dd == p {
				clash = true
			}
		}
		if !clash {
			t[p] = content
			if rng.Chance(12) {
				t[p+".bak"] = c20Content(rng, ext, 10+rng.Intn(80)) // an unrelated file that has the backup's name
			}
		}
	}
	return t
}

func c19Pick(rng *h.RNG, t cliTree, pred func(string) bool) string {
	var c []string
	for _, p := range t.paths() {
		if pred == nil || pred(p) {
			c = append(c, p)
		}
	}
	if len(c) == 0 {
		return ""
	}
	return c[rng.Intn(len(c))]
}

func c19GenInv(rng *h.RNG, t cliTree) *c19Inv {
	known := func(p string) bool { return cliMime(p) != "" }
	file := c19Pick(rng, t, known)
	anyFile := c19Pick(rng, t, nil)
	inDir := []string{"in", "in/", "in/sub", "in/sub/", "lib/", ".", "in/.hid/"}[rng.Intn(7)]
	slash := func(s string) string {
		if rng.Bool() {
			return s + "/"
		}
		return s
	}
	pats := []string{"*.css", "*.js", "*.html", "a*", "**/sub/**", "in/*", "**", "*", "in/sub/*.js", "~\\.css$", "~^in/a", "?.css", "**/*.json"}
	switch rng.Intn(21) {
	case 0:
		return &c19Inv{Shape: "file-to-stdout", Inputs: []string{file}}
	case 1:
		return &c19Inv{Shape: "file-to-file", Inputs: []string{file}, Output: []string{"out" + filepath.Ext(file), "n/m/out" + filepath.Ext(file), "lib/x" + filepath.Ext(file)}[rng.Intn(3)]}
	case 2:
		return &c19Inv{Shape: "file-in-place", Inputs: []string{file}, Output: file}
	case 3:
		return &c19Inv{Shape: "file-to-dir", Inputs: []string{file}, Output: []string{"out/", "lib/", "o/p/", "./"}[rng.Intn(4)]}
	case 4:
		f2 := c19Pick(rng, t, known)
		return &c19Inv{Shape: "files-to-dir", Inputs: []string{file, f2}, Output: slash("out")}
	case 5:
		return &c19Inv{Shape: "dir-recursive", Inputs: []string{inDir}, Output: slash("out"), Recursive: true, Hidden: rng.Chance(30)}
	case 6:
		return &c19Inv{Shape: "dir-not-recursive", Inputs: []string{inDir}, Output: "out/"}
	case 7:
		return &c19Inv{Shape: "dir-in-place", Inputs: []string{"in/"}, Output: "in/", Recursive: true, Sync: rng.Bool(), Hidden: rng.Chance(30)}
	case 8:
		return &c19Inv{Shape: "sync", Inputs: []string{inDir}, Output: slash("out"), Recursive: true, Sync: true, Hidden: rng.Chance(30)}
	case 9, 16, 17:
		// filters: a broad first pattern and narrower later ones, so that the order of the patterns matters
		broad := []string{"**", "in/**", "**/*", "*", "in/*"}
		narrow := []string{"**/*.css", "**/*.js", "**/*.html", "in/sub/**", "**/sub/**", "in/*.css", "in/sub/*.js", "**/a*", "**/deep/*", "~\\.css$", "?.css", "**/*.json", "lib/**"}
		v := &c19Inv{Shape: "filters", Inputs: []string{inDir}, Output: "out/", Recursive: true, Sync: rng.Chance(30)}
		if rng.Chance(35) {
			v.Match = append(v.Match, pats[rng.Intn(len(pats))])
			if rng.Chance(30) {
				v.Match = append(v.Match, pats[rng.Intn(len(pats))])
			}
		}
		first := rng.Bool()
		v.Filters = append(v.Filters, c19Filter{Include: first, Pat: broad[rng.Intn(len(broad))]})
		for i := rng.Intn(3); i >= 0; i-- {
			inc := !first
			if rng.Chance(30) {
				inc = first
			}
			pat := narrow[rng.Intn(len(narrow))]
			if rng.Chance(15) {
				pat = broad[rng.Intn(len(broad))]
			}
			v.Filters = append(v.Filters, c19Filter{Include: inc, Pat: pat})
		}
		return v
	case 10:
		ext := filepath.Ext(file)
		same := func(p string) bool { return filepath.Ext(p) == ext }
		srcs := []string{file}
		for i := rng.Intn(3); i > 0; i-- {
			if f := c19Pick(rng, t, same); f != "" {
				dup := false
				for _, x := range srcs {
					if x == f {
						dup = true
					}
				}
				if !dup {
					srcs = append(srcs, f)
				}
			}
		}
		out := "bundle" + ext
		if rng.Chance(35) {
			out = srcs[rng.Intn(len(srcs))]
		}
		return &c19Inv{Shape: "bundle", Inputs: srcs, Output: out, Bundle: true}
	case 11:
		return &c19Inv{Shape: "bundle-dir-to-stdout", Inputs: []string{inDir}, Recursive: true, Bundle: true, Match: []string{"*" + []string{".css", ".js", ".json"}[rng.Intn(3)]}}
	case 12:
		ty := []string{"css", "js", "text/css", "html", "application/json", "nosuchtype"}[rng.Intn(6)]
		return &c19Inv{Shape: "type-override", Inputs: []string{anyFile}, Output: "out.min", Type: ty}
	case 13:
		ext := []string{"css", "js", "json"}[rng.Intn(3)]
		out := ""
		if rng.Bool() {
			out = "out." + ext
		}
		return &c19Inv{Shape: "stdin", UseStdin: true, Type: ext, Output: out, Stdin: c20Content(rng, ext, 30+rng.Intn(200))}
	case 14:
		// rejected invocations
		switch rng.Intn(6) {
		case 0:
			return &c19Inv{Shape: "reject-missing-input", Inputs: []string{"nosuch.css"}, Output: "out.css"}
		case 1:
			return &c19Inv{Shape: "reject-many-to-stdout", Inputs: []string{file, anyFile}}
		case 2:
			return &c19Inv{Shape: "reject-sync-stdout", Inputs: []string{"in/"}, Recursive: true, Sync: true}
		case 3:
			return &c19Inv{Shape: "reject-bundle-dir", Inputs: []string{file}, Output: "out/", Bundle: true}
		case 4:
			return &c19Inv{Shape: "reject-unknown-ext", Inputs: []string{c19Pick(rng, t, func(p string) bool { return !known(p) })}, Output: "out.x"}
		default:
			return &c19Inv{Shape: "reject-recursive-stdout", Inputs: []string{"in/"}, Recursive: true}
		}
	case 15:
		return &c19Inv{Shape: "type-on-dir", Inputs: []string{inDir}, Output: "out/", Recursive: true, Type: []string{"css", "js"}[rng.Intn(2)], Hidden: rng.Chance(20)}
	case 19, 20:
		// regressions of K-C20-1 / K-C19-1: an input spelled <dst>.bak, or an existing <dst>.bak next to an in-place run
		bakOf := c19Pick(rng, t, func(p string) bool { _, ok := t[p+".bak"]; return ok && known(p) })
		if bakOf == "" {
			return &c19Inv{Shape: "file-in-place", Inputs: []string{file}, Output: file}
		}
		if rng.Bool() {
			return &c19Inv{Shape: "bak-input", Inputs: []string{bakOf + ".bak"}, Output: bakOf, Type: strings.TrimPrefix(filepath.Ext(bakOf), ".")}
		}
		return &c19Inv{Shape: "bak-exists-in-place", Inputs: []string{bakOf}, Output: bakOf}
	case 18:
		return &c19Inv{Shape: "dot-output", Inputs: []string{file}, Output: "."}
	}
	return &c19Inv{Shape: "file-to-stdout", Inputs: []string{file}}
}

// ---------- runner ----------

func init() {
	register("C19", func(c *Ctx) error {
		bin, bdir, err := cliBuild(c.Repo)
		if err != nil {
			return err
		}
		defer os.RemoveAll(bdir)
		thorough := c.Thorough() || c.Search

		// ---- paths ----
		st := c.R.StartStage("paths", "path/filepath Clean/Dir/Base/Ext/Join/Rel vs the model's lexical path algebra on random slash paths; non-trivial = the function changes its argument")
		{
			comps := []string{"a", "b", "in", "sub", ".", "..", "", "x.css", ".h", "a.b.c"}
			gen := func() string {
				n := c.Rng.Intn(5)
				var parts []string
				for i := 0; i < n; i++ {
					parts = append(parts, comps[c.Rng.Intn(len(comps))])
				}
				s := strings.Join(parts, "/")
				if c.Rng.Chance(20) {
					s = "/" + s
				}
				if c.Rng.Chance(20) {
					s += "/"
				}
				return s
			}
			var cases []h.Case
			N := c.N(4000, 60000)
			for i := 0; i < N; i++ {
				a, b := gen(), gen()
				for _, fn := range []string{"clean", "dir", "base", "ext", "join", "rel"} {
					var want string
					switch fn {
					case "clean":
						want = filepath.Clean(a)
					case "dir":
						want = filepath.Dir(a)
					case "base":
						want = filepath.Base(a)
					case "ext":
						want = filepath.Ext(a)
					case "join":
						want = filepath.Join(a, b)
					case "rel":
						r, err := filepath.Rel(a, b)
						if err != nil {
							want = "!error"
						} else {
							want = filepath.Clean(r) // Rel may return the unclean "../."
						}
					}
					line := "model.c19.path " + h.HexS(fn) + " " + h.HexS(a)
					if fn == "join" || fn == "rel" {
						line += " " + h.HexS(b)
					}
					cases = append(cases, h.Case{Line: line, Want: []byte(want), Key: fn + "(" + a + "," + b + ")", Nontrivial: want != a})
				}
			}
			if err := h.CompareAll(c.R, st, "path function", cases); err != nil {
				return err
			}
		}
		st.End()

		// ---- concat reader ----
		st = c.R.StartStage("concat", "the real io.go concatFileReader (go build -overlay, driver main) vs Model.Cli.readChunks: bytes delivered by every Read call and the EOF flag, random files/separators/buffer sizes/short reads; non-trivial = at least two files")
		{
			cbin, err := c19BuildConcat(c.Repo, bdir)
			if err != nil {
				return err
			}
			N := c.N(3000, 60000)
			var in bytes.Buffer
			var lines []string
			var keys []string
			var nont []bool
			for i := 0; i < N; i++ {
				nf := c.Rng.Intn(5)
				var files [][]byte
				for j := 0; j < nf; j++ {
					l := []int{0, 0, 1, 2, 3, 5, 9}[c.Rng.Intn(7)]
					b := make([]byte, l)
					for x := range b {
						b[x] = byte('a' + c.Rng.Intn(6))
					}
					files = append(files, b)
				}
				sep := [][]byte{nil, []byte(";"), []byte(";\n"), []byte("SEP")}[c.Rng.Intn(4)]
				ns := 1 + c.Rng.Intn(30)
				var sch, schM []string
				for j := 0; j < ns; j++ {
					n := []int{0, 1, 1, 2, 3, 4, 8, 64}[c.Rng.Intn(8)]
					k := []int{0, 1, 1, 2, 3, 100}[c.Rng.Intn(6)]
					sch = append(sch, fmt.Sprintf("%d:%d", n, k))
					schM = append(schM, fmt.Sprint(n), fmt.Sprint(k))
				}
				fl := "-"
				if len(files) > 0 {
					var hs []string
					for _, f := range files {
						if len(f) == 0 {
							hs = append(hs, "_")
						} else {
							hs = append(hs, hex.EncodeToString(f))
						}
					}
					fl = strings.Join(hs, ",")
				}
				fmt.Fprintf(&in, "%s %s %s\n", fl, h.Hex(sep), strings.Join(sch, ","))
				lines = append(lines, "model.c19.readall "+h.List(files)+" "+h.Hex(sep)+" "+h.ListS(schM))
				keys = append(keys, fmt.Sprintf("files=%q sep=%q schedule=%v", files, sep, sch))
				nont = append(nont, nf >= 2)
			}
			cmd := exec.Command(cbin)
			cmd.Stdin = &in
			out, err := cmd.Output()
			if err != nil {
				return fmt.Errorf("concat driver: %v", err)
			}
			var impl []string
			sc := bufio.NewScanner(bytes.NewReader(out))
			sc.Buffer(make([]byte, 1<<20), 1<<26)
			for sc.Scan() {
				impl = append(impl, sc.Text())
			}
			if len(impl) != len(lines) {
				return fmt.Errorf("concat driver: %d replies for %d cases", len(impl), len(lines))
			}
			rep, err := h.Eval(lines)
			if err != nil {
				return err
			}
			for i := range lines {
				st.Count(keys[i], nont[i])
				b, ok, msg := h.DecodeReply(rep[i])
				if !ok {
					c.R.Add(h.Finding{Stage: st.Name, Kind: "diff", What: "concat reader: model error " + msg, Input: keys[i]})
					continue
				}
				items := h.DecodeListReply(b)
				model := "?"
				if len(items) > 0 {
					var hs []string
					for _, it := range items[1:] {
						if len(it) == 0 {
							hs = append(hs, "_")
						} else {
							hs = append(hs, hex.EncodeToString(it))
						}
					}
					model = string(items[0]) + " " + strings.Join(hs, ",")
				}
				if strings.TrimSpace(model) != strings.TrimSpace(impl[i]) {
					c.R.Add(h.Finding{Stage: st.Name, Kind: "diff", What: "concatFileReader: bytes per Read call / EOF", Input: keys[i], Impl: impl[i], Model: model})
				}
				// the property itself on the implementation: when EOF was reached, everything delivered = join
				f := strings.Fields(impl[i])
				if len(f) >= 1 && f[0] == "1" {
					var got []byte
					if len(f) > 1 {
						for _, x := range strings.Split(f[1], ",") {
							if x != "_" {
								d, _ := hex.DecodeString(x)
								got = append(got, d...)
							}
						}
					}
					// recover files/sep from the key is awkward: recompute from the request line
					parts := strings.Fields(lines[i])
					var files [][]byte
					if parts[1] != "-" {
						for _, x := range strings.Split(parts[1], ",") {
							if x == "_" {
								files = append(files, nil)
							} else {
								d, _ := hex.DecodeString(x)
								files = append(files, d)
							}
						}
					}
					var sep []byte
					if parts[2] != "-" {
						sep, _ = hex.DecodeString(parts[2])
					}
					if want := bytes.Join(files, sep); !bytes.Equal(got, want) {
						c.R.Add(h.Finding{Stage: st.Name, Kind: "fail", What: "concatFileReader reached EOF but did not deliver the files joined by the separator", Input: keys[i], Impl: h.Q(got), Model: h.Q(want)})
					}
				}
			}
		}
		st.End()

		// ---- the command ----
		st = c.R.StartStage("cli", "built command in generated scratch trees × generated invocations (17 shapes): exit status, stdout, resulting tree vs Model.Cli.effects with the real library in-process; Go oracle: destinations hold the library output, sync copies verbatim, nothing else changed; non-trivial = the command changed the tree or wrote to stdout")
		type cliCase struct {
			tree  cliTree
			inv   *c19Inv
			run   *cliRun
			err   error
			key   string
			dirs  []string
			table [][2]string
		}
		N := c.N(1000, 8000)
		cases := make([]*cliCase, N)
		for i := range cases {
			rng := c.Rng.Fork()
			t := c19GenTree(rng)
			var inv *c19Inv
			for tries := 0; tries < 20; tries++ {
				inv = c19GenInv(rng, t)
				okInv := true
				for _, in := range inv.Inputs {
					if in == "" {
						okInv = false
					}
				}
				if okInv {
					break
				}
				inv = nil
			}
			if inv == nil {
				inv = &c19Inv{Shape: "reject-missing-input", Inputs: []string{"nosuch.css"}, Output: "out.css"}
			}
			cases[i] = &cliCase{tree: t, inv: inv}
		}
		// every media type × every way of writing, on documents that fail late (after in-place rewritable content)
		for rep := 0; rep < c.N(1, 6); rep++ {
			for _, ext := range []string{"html", "xml", "svg", "json", "js"} {
				rng := c.Rng.Fork()
				x, z := "in/x."+ext, "lib/z."+ext
				t := cliTree{x: c19LateFail(rng, ext), "in/y." + ext: c20Content(rng, ext, 60+rng.Intn(100)), z: c19LateFail(rng, ext)}
				for _, inv := range []*c19Inv{
					{Shape: "late-fail/file-to-stdout", Inputs: []string{x}},
					{Shape: "late-fail/file-to-file", Inputs: []string{x}, Output: "out/o." + ext},
					{Shape: "late-fail/file-to-dir", Inputs: []string{x}, Output: "out/"},
					{Shape: "late-fail/in-place", Inputs: []string{z}, Output: z},
					{Shape: "late-fail/dir-in-place", Inputs: []string{"in/"}, Output: "in/", Recursive: true},
					{Shape: "late-fail/dir-to-dir", Inputs: []string{"in", "lib/"}, Output: "out", Recursive: true},
					{Shape: "late-fail/stdin-to-stdout", UseStdin: true, Type: ext, Stdin: t[x]},
					{Shape: "late-fail/stdin-to-file", UseStdin: true, Type: ext, Output: "o." + ext, Stdin: t[z]},
					{Shape: "late-fail/bundle", Inputs: []string{"in/y." + ext, x}, Output: "b." + ext, Bundle: true},
					{Shape: "late-fail/bundle-onto-input", Inputs: []string{"in/y." + ext, z}, Output: z, Bundle: true},
				} {
					cases = append(cases, &cliCase{tree: t, inv: inv})
				}
			}
		}
		extraDirs := []string{"in", "in/sub", "in/sub/deep", "in/.hid", "lib", "in/a.d"}
		parallelDo(len(cases), 12, func(i int) {
			cs := cases[i]
			cs.run, cs.err = runCLI(bin, cs.tree, extraDirs, nil, cs.inv.args(), cs.inv.Stdin, nil, false)
		})
		var lines []string
		for _, cs := range cases {
			if cs.err != nil {
				return cs.err
			}
			v := cs.inv
			cs.key = fmt.Sprintf("minify %s   in tree {%s}", strings.Join(v.args(), " "), treeStr(cs.tree))
			dirSet := map[string]bool{}
			for _, d := range cs.tree.dirs() {
				dirSet[d] = true
			}
			for _, d := range extraDirs {
				dirSet[d] = true
			}
			for d := range dirSet {
				cs.dirs = append(cs.dirs, d)
			}
			sort.Strings(cs.dirs)
			// pattern oracle table: every path and base name in sight
			cand := map[string]bool{}
			for p := range cs.tree {
				cand[p] = true
				cand[filepath.Base(p)] = true
			}
			var pats []string
			pats = append(pats, v.Match...)
			var signs [][]byte
			for _, f := range v.Filters {
				pats = append(pats, f.Pat)
				if f.Include {
					signs = append(signs, []byte("+"))
				} else {
					signs = append(signs, []byte("-"))
				}
			}
			var table [][][]byte
			for _, p := range pats {
				re, err := c19CompileReal(p)
				var hits [][]byte
				if err == nil {
					for s := range cand {
						if re.MatchString(s) {
							hits = append(hits, []byte(s))
						}
					}
				}
				sort.Slice(hits, func(a, b int) bool { return string(hits[a]) < string(hits[b]) })
				table = append(table, hits)
			}
			// library table: every file with every mimetype it can be given, plus same-type bundles in argument / walk order
			mimeFor := func(p string) string {
				if v.Type != "" {
					if strings.Contains(v.Type, "/") {
						return v.Type
					}
					return cliExtMap[v.Type]
				}
				return cliMime(p)
			}
			var lib [][][]byte
			addLib := func(mt string, in []byte) {
				out, ok := cliLib(mt, in)
				row := [][]byte{[]byte(mt), in, []byte("1"), out}
				if !ok {
					row = [][]byte{[]byte(mt), in, []byte("0"), nil}
				}
				lib = append(lib, row)
			}
			for _, p := range cs.tree.paths() {
				if mt := mimeFor(p); mt != "" {
					addLib(mt, cs.tree[p])
				}
			}
			if v.UseStdin {
				addLib(mimeFor("x."+v.Type), v.Stdin)
			}
			if v.Bundle {
				// the sources in the order the command will read them
				var srcs []string
				for _, in := range v.Inputs {
					ci := filepath.Clean(in)
					if _, ok := cs.tree[ci]; ok {
						srcs = append(srcs, ci)
						continue
					}
					var below []string
					for p := range cs.tree {
						if strings.HasPrefix(p, ci+"/") || ci == "." {
							below = append(below, p)
						}
					}
					sort.Slice(below, func(a, b int) bool {
						return c19WalkLess(below[a], below[b])
					})
					srcs = append(srcs, below...)
				}
				// all subsets are too many: offer the join of the sources that pass the filters and are not hidden
				fates, _, ok := c19Oracle(v, cs.tree, dirSet)
				if ok {
					for _, f := range fates {
						var parts [][]byte
						for _, s := range f.Srcs {
							parts = append(parts, cs.tree[s])
						}
						addLib(f.Mime, bytes.Join(parts, []byte(f.Sep)))
					}
				}
				_ = srcs
				if v.Shape == "bundle-dir-to-stdout" {
					// stdout bundles: join of the walk-ordered selected files
					var sel []string
					re, _ := c19Compile(v.Match[0])
					for _, p := range srcs {
						ci := filepath.Clean(v.Inputs[0])
						rel, _ := filepath.Rel(ci, p)
						if (!v.Hidden && (c19Hidden(rel) || c19Hidden(filepath.Base(ci)))) || !re.MatchString(filepath.Base(p)) || cliMime(p) == "" {
							continue
						}
						sel = append(sel, p)
					}
					if len(sel) > 0 {
						mt := cliMime(sel[0])
						sep := ""
						if mt == "application/javascript" && len(sel) > 1 {
							sep = ";\n"
						}
						var parts [][]byte
						for _, s := range sel {
							parts = append(parts, cs.tree[s])
						}
						addLib(mt, bytes.Join(parts, []byte(sep)))
					}
				}
			}
			inputs := v.Inputs
			fl := flag01(v.Recursive, v.Hidden, v.Sync, v.Bundle)
			lines = append(lines, strings.Join([]string{"model.c19.effects", hexFiles(cs.tree), h.ListS(cs.dirs), h.ListS(inputs), h.HexS(v.Output),
				fl, h.HexS(v.Type), h.Int(int64(len(v.Match))), h.List(signs), h.Groups(table), h.Hex(v.Stdin), h.Groups(lib)}, " "))
		}
		rep, err := evalSharded(lines)
		if err != nil {
			return err
		}
		nDiff := map[string]int{}
		for i, cs := range cases {
			v := cs.inv
			changed, _ := treeEq(cs.tree, cs.run.Tree)
			st.Count(cs.key, !changed || len(cs.run.Stdout) > 0)
			st.Tag("shape=" + v.Shape)
			st.Tag(fmt.Sprintf("exit=%d", cs.run.Exit))
			if strings.HasPrefix(v.Shape, "late-fail/") {
				probe := v.Stdin
				if !v.UseStdin {
					probe = cs.tree[filepath.Clean(v.Inputs[len(v.Inputs)-1])]
					if probe == nil {
						probe = cs.tree["in/x"+filepath.Ext(cs.tree.paths()[0])]
					}
				}
				mt := cliExtMap[strings.TrimPrefix(filepath.Ext(cs.tree.paths()[0]), ".")]
				if c19MutatesOnFail(mt, probe) {
					st.Tag("late-fail: library rewrites the caller's slice before failing")
				}
			}
			addDiff := func(f h.Finding) {
				nDiff[f.What[:min(len(f.What), 30)]]++
				if nDiff[f.What[:min(len(f.What), 30)]] <= 3 {
					c.R.Add(f)
				}
			}
			// --- model ---
			b, ok, msg := h.DecodeReply(rep[i])
			if !ok {
				addDiff(h.Finding{Stage: st.Name, Kind: "diff", What: "model error: " + msg, Input: cs.key})
				continue
			}
			items := h.DecodeListReply(b)
			if len(items) < 3 {
				addDiff(h.Finding{Stage: st.Name, Kind: "diff", What: "bad effects reply", Input: cs.key})
				continue
			}
			nt := 0
			fmt.Sscan(string(items[2]), &nt)
			var tasks []string
			for _, it := range items[3 : 3+nt] {
				tasks = append(tasks, string(it))
			}
			mtree := decodeTree(bytes.Join(func() [][]byte {
				var o [][]byte
				for _, it := range items[3+nt:] {
					if len(it) == 0 {
						o = append(o, []byte("_"))
					} else {
						o = append(o, []byte(hex.EncodeToString(it)))
					}
				}
				return o
			}(), []byte(",")))
			cfg := "model tasks: " + strings.Join(tasks, " ; ")
			if string(items[0]) != fmt.Sprint(cs.run.Exit) {
				addDiff(h.Finding{Stage: st.Name, Kind: "diff", What: "exit status", Input: cs.key, Config: cfg, Impl: fmt.Sprintf("%d stderr=%q", cs.run.Exit, cs.run.Stderr), Model: string(items[0])})
			}
			if !bytes.Equal(items[1], cs.run.Stdout) {
				addDiff(h.Finding{Stage: st.Name, Kind: "diff", What: "stdout", Input: cs.key, Config: cfg, Impl: h.Q(c20clip(cs.run.Stdout)), Model: h.Q(c20clip(items[1]))})
			}
			if ok, why := treeEq(cs.run.Tree, mtree); !ok {
				addDiff(h.Finding{Stage: st.Name, Kind: "diff", What: "resulting tree: " + why, Input: cs.key, Config: cfg, Impl: treeStr(cs.run.Tree), Model: treeStr(mtree)})
			}
			// --- oracle (independent of the model) ---
			dirSet := map[string]bool{}
			for _, d := range cs.dirs {
				dirSet[d] = true
			}
			fates, wantErr, known := c19Oracle(v, cs.tree, dirSet)
			if !known {
				st.Tag("oracle=no-statement")
				continue
			}
			st.Tag("oracle=checked")
			if wantErr {
				if cs.run.Exit == 0 {
					c.R.Add(h.Finding{Stage: st.Name, Kind: "fail", What: "an invocation that must be rejected exits 0", Input: cs.key})
				}
				if ok, why := treeEq(cs.tree, cs.run.Tree); !ok {
					c.R.Add(h.Finding{Stage: st.Name, Kind: "fail", What: "a rejected invocation changed the tree: " + why, Input: cs.key, Impl: treeStr(cs.run.Tree)})
				}
				continue
			}
			want := cs.tree.clone()
			anyFail := false
			for dst, f := range fates {
				refused := false
				if _, bakThere := cs.tree[dst+".bak"]; bakThere && f.Mime != "" { // (a sync copy of a file onto itself is a no-op)
					for _, s := range f.Srcs {
						refused = refused || s == dst
					}
				}
				if refused {
					anyFail = true // regression of K-C19-1 / K-C20-2: nothing is touched, the task fails
					continue
				}
				var parts [][]byte
				for _, s := range f.Srcs {
					parts = append(parts, cs.tree[s])
				}
				in := bytes.Join(parts, []byte(f.Sep))
				if f.Mime == "" {
					want[dst] = in
					continue
				}
				out, ok := cliLib(f.Mime, in)
				if !ok {
					anyFail = true
				}
				want[dst] = out
			}
			if ok, why := treeEq(want, cs.run.Tree); !ok {
				c.R.Add(h.Finding{Stage: st.Name, Kind: "fail", What: "oracle: not (every selected file's destination holds the library output / the original on a minifier error, sync copies verbatim, nothing else changed): " + why,
					Input: cs.key, Impl: treeStr(cs.run.Tree), Model: "oracle: " + treeStr(want)})
			}
			if (cs.run.Exit != 0) != anyFail {
				c.R.Add(h.Finding{Stage: st.Name, Kind: "fail", What: fmt.Sprintf("oracle: exit status %d but minifier failure = %v", cs.run.Exit, anyFail), Input: cs.key, Impl: string(cs.run.Stderr)})
			}
		}
		st.End()

		// ---- the same file under two names ----
		st = c.R.StartStage("alias", "source and destination are the same file under different names (hard link, symlink in either direction, symlinked parent directory, differently spelled path): the destination must hold exactly the library output for the ORIGINAL bytes (the original on a minifier error), every other name keeps its bytes, no *.bak is left; Go oracle only (outside the lexical model); non-trivial = always")
		{
			type aliasCase struct {
				name string
				tree cliTree
				prep func(dir string) error
				args []string
				src  string // the name whose original bytes are minified
				want func(orig, out []byte) cliTree
			}
			reps := c.N(3, 25)
			var acs []aliasCase
			for rep := 0; rep < reps; rep++ {
				for _, ext := range []string{"css", "js", "json", "html"} {
					rng := c.Rng.Fork()
					body := c20Content(rng, ext, 30+rng.Intn(3000))
					if ext == "js" && rep%3 == 2 {
						body = []byte("var = ;\n") // minifier error: the destination must get the original bytes
					}
					a, b := "a."+ext, "b."+ext
					acs = append(acs,
						aliasCase{"hardlink: -o b a (b is a hard link of a)", cliTree{a: body},
							func(d string) error { return os.Link(filepath.Join(d, a), filepath.Join(d, b)) },
							[]string{"-q", "-o", b, a}, a,
							func(o, out []byte) cliTree { return cliTree{a: o, b: out} }},
						aliasCase{"hardlink-reverse: -o a b (b is a hard link of a)", cliTree{a: body},
							func(d string) error { return os.Link(filepath.Join(d, a), filepath.Join(d, b)) },
							[]string{"-q", "-o", a, b}, a,
							func(o, out []byte) cliTree { return cliTree{a: out, b: o} }},
						aliasCase{"symlink-source: -o real link (link -> real)", cliTree{a: body},
							func(d string) error { return os.Symlink(a, filepath.Join(d, b)) },
							[]string{"-q", "-o", a, b}, a,
							func(o, out []byte) cliTree { return cliTree{a: out, b: out} }},
						aliasCase{"symlink-destination: -o link real (link -> real)", cliTree{a: body},
							func(d string) error { return os.Symlink(a, filepath.Join(d, b)) },
							[]string{"-q", "-o", b, a}, a,
							func(o, out []byte) cliTree { return cliTree{a: o, b: out} }},
						aliasCase{"symlinked-parent: -o e/a d/a (e -> d)", cliTree{"d/" + a: body},
							func(d string) error { return os.Symlink("d", filepath.Join(d, "e")) },
							[]string{"-q", "-o", "e/" + a, "d/" + a}, "d/" + a,
							func(o, out []byte) cliTree { return cliTree{"d/" + a: out} }},
						aliasCase{"symlinked-parent-reverse: -o d/a e/a (e -> d)", cliTree{"d/" + a: body},
							func(d string) error { return os.Symlink("d", filepath.Join(d, "e")) },
							[]string{"-q", "-o", "d/" + a, "e/" + a}, "d/" + a,
							func(o, out []byte) cliTree { return cliTree{"d/" + a: out} }},
						aliasCase{"absolute-destination: -o $PWD/a a", cliTree{a: body}, nil,
							[]string{"-q", "-o", "$PWD/" + a, a}, a,
							func(o, out []byte) cliTree { return cliTree{a: out} }},
						aliasCase{"dotdot-destination: -o ../w/a a", cliTree{a: body}, nil,
							[]string{"-q", "-o", "../w/" + a, a}, a,
							func(o, out []byte) cliTree { return cliTree{a: out} }},
						aliasCase{"bundle-onto-hardlink: -b -o b a c (b is a hard link of a)", cliTree{a: body, "c." + ext: c20Content(rng, ext, 60)},
							func(d string) error { return os.Link(filepath.Join(d, a), filepath.Join(d, b)) },
							[]string{"-q", "-b", "-o", b, a, "c." + ext}, "",
							nil},
					)
				}
			}
			aliasSeen := map[string]int{}
			runs := make([]*cliRun, len(acs))
			errs := make([]error, len(acs))
			parallelDo(len(acs), 8, func(i int) {
				runs[i], errs[i] = runCLI(bin, acs[i].tree, nil, acs[i].prep, acs[i].args, nil, nil, false)
			})
			for i, ac := range acs {
				if errs[i] != nil {
					return errs[i]
				}
				run := runs[i]
				key := ac.name + ": minify " + strings.Join(ac.args, " ") + "   in tree {" + treeStr(ac.tree) + "}"
				st.Count(key, true)
				st.Tag("alias=" + strings.SplitN(ac.name, ":", 2)[0])
				var want cliTree
				okLib := true
				if ac.want != nil {
					orig := ac.tree[ac.src]
					out, ok := cliLib(cliMime(ac.src), orig)
					okLib = ok
					want = ac.want(orig, out)
				} else {
					// bundle a + c onto b (= a): b holds lib(a ; c), a keeps its bytes, c unchanged
					var names []string
					for p := range ac.tree {
						names = append(names, p)
					}
					sort.Strings(names)
					ext := filepath.Ext(names[0])
					sep := ""
					if cliMime(names[0]) == "application/javascript" {
						sep = ";\n"
					}
					in := append(append(append([]byte{}, ac.tree["a"+ext]...), sep...), ac.tree["c"+ext]...)
					out, ok := cliLib(cliMime(names[0]), in)
					okLib = ok
					want = cliTree{"a" + ext: ac.tree["a"+ext], "b" + ext: out, "c" + ext: ac.tree["c"+ext]}
				}
				wantExit := 0
				if !okLib {
					wantExit = 1
				}
				kind := strings.SplitN(ac.name, ":", 2)[0]
				if ok, why := treeEq(want, run.Tree); (!ok || run.Exit != wantExit) && aliasSeen[kind] < 2 {
					aliasSeen[kind]++
					c.R.Add(h.Finding{Stage: st.Name, Kind: "fail", What: "same file under two names: " + strings.SplitN(ac.name, ":", 2)[0] + ": " + why, Input: key,
						Impl: fmt.Sprintf("exit %d, tree after: %s", run.Exit, treeStr(run.Tree)), Model: fmt.Sprintf("expected exit %d, tree: %s", wantExit, treeStr(want))})
				}
			}
		}
		st.End()

		// ---- regression corpus: the commands of the fixed findings (K-C20-1/2, K-C19-1..4, write-error exit status) ----
		st = c.R.StartStage("regress", "the formerly failing commands of the fixed findings must give the corrected result (exit status and tree); non-trivial = always")
		for _, g := range c19Regress {
			run, err := runCLI(bin, g.tree, nil, nil, g.args, nil, nil, false)
			if err != nil {
				return err
			}
			key := g.id + ": minify " + strings.Join(g.args, " ") + "   in tree {" + treeStr(g.tree) + "}"
			st.Count(key, true)
			want := g.tree.clone()
			for p, v := range g.after {
				if v == "\x00absent" {
					delete(want, p)
				} else {
					want[p] = []byte(v)
				}
			}
			if ok, why := treeEq(want, run.Tree); !ok || run.Exit != g.exit {
				c.R.Add(h.Finding{Stage: st.Name, Kind: "fail", What: "regression of " + g.id + ": " + why, Input: key,
					Impl: fmt.Sprintf("exit %d, tree after: %s", run.Exit, treeStr(run.Tree)), Model: fmt.Sprintf("expected exit %d, tree: %s", g.exit, treeStr(want))})
			}
		}
		st.End()

		// ---- known findings ----
		for _, k := range h.Known("C19") {
			if k.Status != "open" {
				continue
			}
			args := strings.Fields(k.ReplayStr("args"))
			tree := cliTree{}
			if m, ok := k.Replay["tree"].(map[string]any); ok {
				for p, v := range m {
					tree[p] = []byte(fmt.Sprint(v))
				}
			}
			run, err := runCLI(bin, tree, nil, nil, args, nil, nil, false)
			if err != nil {
				return err
			}
			still := false
			switch k.ReplayStr("check") {
			case "lost":
				_, there := run.Tree[k.ReplayStr("path")]
				still = !there
			case "leftover":
				_, there := run.Tree[k.ReplayStr("path")]
				still = there
			case "content":
				still = string(run.Tree[k.ReplayStr("path")]) != k.ReplayStr("want")
			case "exit0":
				still = run.Exit == 0
			case "count":
				n := 0
				for p := range run.Tree {
					if strings.HasPrefix(p, k.ReplayStr("path")) {
						n++
					}
				}
				still = fmt.Sprint(n) != k.ReplayStr("want")
			}
			c.R.AddKnown(k.ID, still, k.What, fmt.Sprintf("exit %d, tree after: %s", run.Exit, treeStr(run.Tree)))
		}
		_ = thorough
		return nil
	})
}

type c19Reg struct {
	id    string
	args  []string
	tree  cliTree
	exit  int
	after map[string]string // path → content after the run ("\x00absent": must not exist); other files unchanged
}

var c19Regress = []c19Reg{
	{"K-C20-1", []string{"-q", "--type=css", "-o", "a.css", "a.css.bak"}, cliTree{"a.css.bak": []byte("b { color : blue ; }\n")}, 0,
		map[string]string{"a.css": "b{color:blue}"}},
	{"K-C20-1 (stdout)", []string{"-q", "--type=css", ".bak"}, cliTree{".bak": []byte("b { }")}, 0, nil},
	{"K-C20-2", []string{"-q", "--type=css", "-b", "-o", "a.css", "a.css", "a.css.bak"}, cliTree{"a.css": []byte("a{color:red}"), "a.css.bak": []byte("b{color:blue}")}, 1, nil},
	{"K-C19-1", []string{"-q", "-o", "a.css", "a.css"}, cliTree{"a.css": []byte("a { color : red ; }\n"), "a.css.bak": []byte("PRECIOUS\n")}, 1, nil},
	{"K-C19-2", []string{"-q", "-o", "out/", "a/x.css", "b/x.css"}, cliTree{"a/x.css": []byte("a { color : red ; }\n"), "b/x.css": []byte("b { color : blue ; }\n")}, 1, nil},
	{"K-C19-3", []string{"-r", "--exclude=~\\.js$", "-q", "-o", "out/", "in/"}, cliTree{"in/a.css": []byte("a { color : red ; }\n"), "in/b.js": []byte("var x = 1 ;\n")}, 0,
		map[string]string{"out/a.css": "a{color:red}"}},
	{"K-C19-4", []string{"-q", "-o", "$PWD/a.css", "a.css"}, cliTree{"a.css": []byte("a { color : red ; }\n")}, 0,
		map[string]string{"a.css": "a{color:red}"}},
	{"K-C19-5", []string{"-b", "--sync", "--exclude=a.txt", "-q", "-o", "b.css", "a.txt", "b.css"}, cliTree{"a.txt": []byte("hello\n"), "b.css": []byte("b { color : blue ; }\n")}, 1, nil},
	{"write-error-exit", []string{"-q", "-o", "/dev/full", "a.css"}, cliTree{"a.css": []byte("a { color : red ; }\n")}, 1, nil},
}

// c19WalkLess orders paths like fs.WalkDir visits them (component-wise byte order).
func c19WalkLess(a, b string) bool {
	as, bs := strings.Split(a, "/"), strings.Split(b, "/")
	for i := 0; i < len(as) && i < len(bs); i++ {
		if as[i] != bs[i] {
			return as[i] < bs[i]
		}
	}
	return len(as) < len(bs)
}

package main

// C03 — HTML minification preserves the parsed document.
//
// Stages (all against the real code; the model only through vdrv):
//   refs      parse.ReplaceEntities / ReplaceMultipleWhitespaceAndEntities with html.EntitiesMap  vs model
//             + the property itself on the real output: spec decoding of output == spec decoding of input
//   escape    html.EscapeAttrVal vs model + spec: tokenise the real output, decode, compare with the input value
//   specval   validation of the hand-written spec (Spec/HtmlAttr.lean) against Go's html.UnescapeString (text
//             context) and the x/net/html tokenizer (attribute context)
//   (later stages: tokens→bytes of html.Minify vs model; DOM oracle with x/net/html)

import (
	"bytes"
	"fmt"
	stdhtml "html"
	"sort"
	"strings"

	mhtml "github.com/tdewolff/minify/v2/html"
	"github.com/tdewolff/parse/v2"
	phtml "github.com/tdewolff/parse/v2/html"
	xhtml "golang.org/x/net/html"

	"verifharness/h"
)

// ---------- generators ----------

var c03EntNames []string // keys of html.EntitiesMap, sorted
var c03LegacyNames = []string{"amp", "lt", "gt", "quot", "nbsp", "copy", "reg", "not", "para", "sect", "AMP", "LT", "GT", "QUOT", "eacute", "times", "shy", "deg", "micro", "yen"}
var c03OtherNames = []string{"Acy", "Afr", "nbsp", "NotEqualTilde", "acE", "bne", "CounterClockwiseContourIntegral", "notin", "notit", "ampx", "ltx", "foo", "x", "a1", "amp1", "copy2"}

func c03Init() {
	if c03EntNames != nil {
		return
	}
	for k := range mhtml.EntitiesMap {
		c03EntNames = append(c03EntNames, k)
	}
	sort.Strings(c03EntNames)
}

var c03Lits = []string{"a", "b", "x", "X", "t", "l", "1", "0", "9", " ", " ", "\t", "\n", "\r", "\f", "\"", "'", "=", "<", ">", "`", "&", "#", ";", "/", "-", ".", "é", "\xa0", "z", "A", "F", "g"}
var c03NumVals = []uint64{0, 9, 10, 12, 13, 32, 34, 35, 38, 39, 48, 59, 60, 61, 62, 65, 96, 97, 108, 116, 120, 127, 128, 129, 150, 159, 160, 233, 255, 256, 999, 1000, 4095, 4096, 9999, 10000, 65533, 0xD800, 0xDFFF, 0x10FFFF, 0x110000, 8364}

// c03GenRef produces one reference-like piece.  wild: allow forms on which the Go oracles deviate from the standard.
func c03GenRef(r *h.RNG, wild bool) string {
	c03Init()
	semi := ";"
	if r.Chance(15) {
		semi = ""
	}
	switch r.Intn(10) {
	case 0, 1, 2:
		return "&" + c03EntNames[r.Intn(len(c03EntNames))] + semi
	case 3:
		return "&" + r.Pick(c03LegacyNames) + semi
	case 4:
		return "&" + r.Pick(c03OtherNames) + semi
	case 5, 6:
		v := c03NumVals[r.Intn(len(c03NumVals))]
		if r.Chance(20) {
			v = uint64(r.Intn(200))
		}
		z := strings.Repeat("0", []int{0, 0, 0, 1, 3}[r.Intn(5)])
		return fmt.Sprintf("&#%s%d%s", z, v, semi)
	case 7, 8:
		v := c03NumVals[r.Intn(len(c03NumVals))]
		if r.Chance(20) {
			v = uint64(r.Intn(200))
		}
		z := strings.Repeat("0", []int{0, 0, 0, 1, 3}[r.Intn(5)])
		x := "x"
		if r.Chance(10) {
			x = "X"
		}
		f := "%x"
		if r.Bool() {
			f = "%X"
		}
		return fmt.Sprintf("&#%s%s"+f+"%s", x, z, v, semi)
	default:
		if wild {
			return r.Pick([]string{"&#x8000000000000041;", "&#x10000000000000041;", "&#xFFFFFFFFFFFFFFFF;", "&#x7FFFFFFFFFFFFFFF;", "&#99999999999999999999;", "&#x100000041;", "&#", "&#x", "&#;", "&#x;", "&;", "&#x0000000000000000000041;"})
		}
		return r.Pick([]string{"&#", "&#x", "&#;", "&#x;", "&;", "&"})
	}
}

// c03GenRefText: text / attribute value made of literal bytes and references, with the glue patterns that matter
func c03GenRefText(r *h.RNG, wild bool) []byte {
	var sb strings.Builder
	n := 1 + r.Intn(7)
	for i := 0; i < n; i++ {
		switch {
		case r.Chance(45):
			sb.WriteString(c03GenRef(r, wild))
		case r.Chance(8):
			// glue: an ampersand (reference) directly followed by something that may complete a reference
			sb.WriteString(r.Pick([]string{"&amp;", "&#38;", "&AMP;", "&", "&#x26;", "&lt", "&l", "&#6", "&#x3", "&amp"}))
			sb.WriteString(r.Pick([]string{"&#108;t;", "&#35;60;", "lt;", "#60;", "&#59;", "&#61;", "&num;60;", "&semi;", "&equals;", "&#116;;", "&#48;;", "amp;", "&amp;", "=", ";"}))
		default:
			k := 1 + r.Intn(3)
			for j := 0; j < k; j++ {
				sb.WriteString(c03Lits[r.Intn(len(c03Lits))])
			}
		}
	}
	return []byte(sb.String())
}

// ---------- helpers ----------

func c03ModeName(m int) string {
	return []string{"ReplaceEntities(text)", "ReplaceEntities(attr)", "ReplaceMultipleWhitespaceAndEntities(text)", "ReplaceMultipleWhitespaceAndEntities(attr)"}[m]
}

func c03RealRepl(mode int, raw []byte) []byte {
	b := parse.Copy(raw)
	switch mode {
	case 0:
		return parse.ReplaceEntities(b, mhtml.EntitiesMap, mhtml.TextRevEntitiesMap)
	case 1:
		return parse.ReplaceEntities(b, mhtml.EntitiesMap, mhtml.AttrRevEntitiesMap)
	case 2:
		return parse.ReplaceMultipleWhitespaceAndEntities(b, mhtml.EntitiesMap, mhtml.TextRevEntitiesMap)
	default:
		return parse.ReplaceMultipleWhitespaceAndEntities(b, mhtml.EntitiesMap, mhtml.AttrRevEntitiesMap)
	}
}

// collapse whitespace runs to a single space (for comparing decoded text under whitespace collapsing)
func c03CollapseWs(b []byte) []byte {
	var out []byte
	in := false
	for _, c := range b {
		if c == ' ' || c == '\n' || c == '\r' || c == '\t' || c == '\f' {
			if !in {
				out = append(out, ' ')
			}
			in = true
		} else {
			out = append(out, c)
			in = false
		}
	}
	return out
}

func c03NormNl(b []byte) []byte {
	b = bytes.ReplaceAll(b, []byte("\r\n"), []byte("\n"))
	return bytes.ReplaceAll(b, []byte("\r"), []byte("\n"))
}

// ---------- stage: references ----------

func c03StageRefs(c *Ctx) error {
	st := c.R.StartStage("refs", "generated texts/attribute values over literals (quotes, =, <, >, backtick, whitespace incl. CR/FF, &, #, ;, non-ASCII) and references (every key of html.EntitiesMap, legacy names without ';', unknown names, decimal/hex numeric with leading zeros, control/boundary values, missing ';') incl. glue patterns; real parse.ReplaceEntities / ReplaceMultipleWhitespaceAndEntities (text and attribute maps) vs model, and spec decoding of real output vs input; non-trivial = the real function changed the bytes")
	n := c.N(40000, 1500000)
	type item struct {
		mode int
		raw  []byte
		out  []byte
	}
	var items []item
	var lines []string
	add := func(mode int, raw []byte) {
		var out []byte
		if crash := h.Safely(5e9, func() { out = c03RealRepl(mode, raw) }); crash != "" {
			c.R.Add(h.Finding{Stage: st.Name, Kind: "crash", What: crash, Input: h.Q(raw), Hex: h.Hex(raw), Config: c03ModeName(mode)})
			return
		}
		items = append(items, item{mode, raw, out})
		attr := mode == 1 || mode == 3
		lines = append(lines,
			"model.c03.replent "+h.Int(int64(mode))+" "+h.Hex(raw),
			"spec.c03.decode "+h.Bool(attr)+" "+h.Hex(raw),
			"spec.c03.decode "+h.Bool(attr)+" "+h.Hex(out),
			"trig.c03.refs "+h.Bool(attr)+" "+h.Hex(raw))
	}
	// fixed corpus first
	for _, s := range []string{"&amp;&#108;t;", "&amp;&#35;60;", "a&#0;b", "a&#13;b", "&lt;", "&#60;", "&LT;", "&amp;amp;", "&amp;#60;", "&amp; b", "&quot;x&apos;", "&#x8000000000000041;", "&lt&#59;", "&lt&#61;", "&&#35;60;", "&l&#116;;", "a &amp; b&quot;", "&amp", "&#38", "&nbsp;&NotEqualTilde;&acE;", "  a  \n b&#32; ", "&#x80;&#128;&#xFFF;&#x270F;&#x2710;"} {
		for m := 0; m < 4; m++ {
			add(m, []byte(s))
		}
	}
	// every row of the live html.EntitiesMap, in text and attribute context, alone and followed by text
	c03Init()
	for _, name := range c03EntNames {
		for m := 0; m < 2; m++ {
			add(m, []byte("&"+name+";"))
			add(m, []byte("a&"+name+";b=1"))
		}
	}
	if c.Search { // a proof or the translator is broken: widen the sweep
		n *= 5
	}
	for i := 0; i < n; i++ {
		r := c.Rng.Fork()
		raw := c03GenRefText(r, r.Chance(10))
		add(r.Intn(4), raw)
	}
	rep, err := h.Eval(lines)
	if err != nil {
		return err
	}
	nDiff := 0
	for i, it := range items {
		key := fmt.Sprintf("%s %s", c03ModeName(it.mode), h.Q(it.raw))
		st.Count(key, !bytes.Equal(it.raw, it.out))
		mod, ok, msg := h.DecodeReply(rep[4*i])
		din, ok1, _ := h.DecodeReply(rep[4*i+1])
		dout, ok2, _ := h.DecodeReply(rep[4*i+2])
		trig, ok3, _ := h.DecodeReply(rep[4*i+3])
		if !ok || !ok1 || !ok2 || !ok3 {
			c.R.Add(h.Finding{Stage: st.Name, Kind: "diff", What: "model error: " + msg, Input: key, Hex: h.Hex(it.raw)})
			continue
		}
		if !bytes.Equal(mod, it.out) {
			nDiff++
		}
		if !bytes.Equal(mod, it.out) && nDiff <= 6 {
			c.R.Add(h.Finding{Stage: st.Name, Kind: "diff", What: "model.c03.replent", Input: key, Hex: h.Hex(it.raw), Impl: h.Q(it.out), Model: h.Q(mod)})
		}
		// the property on the real output
		a, b := din, dout
		if it.mode >= 2 {
			a, b = c03CollapseWs(din), c03CollapseWs(dout)
		}
		tr := string(trig)
		st.Tag("trigger=" + tr)
		if !bytes.Equal(a, b) {
			if tr != "none" {
				c.R.ExcludedKnown++
				continue
			}
			c.R.Add(h.Finding{Stage: st.Name, Kind: "fail", What: "character references: output decodes to a different value than the input", Input: key, Hex: h.Hex(it.raw), Impl: h.Q(it.out) + " decodes to " + h.Q(dout), Model: "input decodes to " + h.Q(din)})
		}
	}
	st.End()
	return nil
}

// ---------- stage: EscapeAttrVal ----------

func c03StageEscape(c *Ctx) error {
	st := c.R.StartStage("escape", "attribute values over the full alphabet (quotes, =, <, >, backtick, all whitespace, &, references) x origQuote in {0,',\"} x mustQuote; real html.EscapeAttrVal vs model; spec: `=`+output+(` x>`|`>`) tokenises back to the raw value with the expected rest, and decodes (attribute context) to the same units as the input value; non-trivial = quotes were added or escaped")
	n := c.N(40000, 1000000)
	type item struct {
		val  []byte
		q    byte
		must bool
		out  []byte
		rest string
	}
	var items []item
	var lines []string
	add := func(val []byte, q byte, must bool, rest string) {
		var out []byte
		buf := make([]byte, 0, 8)
		if crash := h.Safely(5e9, func() { out = parse.Copy(phtml.EscapeAttrVal(&buf, parse.Copy(val), q, must)) }); crash != "" {
			c.R.Add(h.Finding{Stage: st.Name, Kind: "crash", What: crash, Input: h.Q(val), Hex: h.Hex(val)})
			return
		}
		items = append(items, item{val, q, must, out, rest})
		lines = append(lines,
			"model.c03.escape "+h.Hex(val)+" "+h.Int(int64(q))+" "+h.Bool(must),
			"spec.c03.tokattr "+h.Hex(append(parse.Copy(out), rest...)),
			"spec.c03.decode "+h.Bool(true)+" "+h.Hex(val))
	}
	qs := []byte{0, '\'', '"'}
	// exhaustive over short values of a small alphabet
	alpha := []byte("a\"'= &;#")
	var rec func(cur []byte, d int)
	rec = func(cur []byte, d int) {
		if len(cur) > 0 {
			for _, q := range qs {
				for _, must := range []bool{false, true} {
					add(parse.Copy(cur), q, must, ">")
				}
			}
		}
		if d == 0 {
			return
		}
		for _, ch := range alpha {
			rec(append(cur, ch), d-1)
		}
	}
	rec(nil, c.N(3, 4))
	for i := 0; i < n; i++ {
		r := c.Rng.Fork()
		val := c03GenRefText(r, false)
		if r.Chance(40) { // values that can stay unquoted
			val = bytes.Map(func(x rune) rune {
				if strings.ContainsRune(" \t\n\r\f\"'<=>`", x) {
					return 'a'
				}
				return x
			}, val)
		}
		if len(val) == 0 {
			continue
		}
		add(val, qs[r.Intn(3)], r.Bool(), r.Pick([]string{">", " x>", " x=y>"}))
	}
	rep, err := h.Eval(lines)
	if err != nil {
		return err
	}
	// second round: decode the raw values the spec tokeniser found
	var lines2 []string
	raws := make([][]byte, len(items))
	for i, it := range items {
		key := fmt.Sprintf("EscapeAttrVal(%s,%q,%v)", h.Q(it.val), string(rune(it.q)), it.must)
		st.Count(key, !bytes.Equal(it.val, it.out))
		mod, ok, msg := h.DecodeReply(rep[3*i])
		tk, ok1, _ := h.DecodeReply(rep[3*i+1])
		if !ok || !ok1 {
			c.R.Add(h.Finding{Stage: st.Name, Kind: "diff", What: "model error: " + msg, Input: key, Hex: h.Hex(it.val)})
			continue
		}
		if !bytes.Equal(mod, it.out) {
			c.R.Add(h.Finding{Stage: st.Name, Kind: "diff", What: "model.c03.escape", Input: key, Hex: h.Hex(it.val), Impl: h.Q(it.out), Model: h.Q(mod)})
		}
		parts := h.DecodeListReply(tk)
		switch {
		case len(it.out) > 0 && (it.out[0] == '"' || it.out[0] == '\''):
			st.Tag("form=quoted" + string(it.out[0]))
		default:
			st.Tag("form=unquoted")
		}
		if len(parts) != 3 || string(parts[0]) != "ok" {
			c.R.Add(h.Finding{Stage: st.Name, Kind: "fail", What: "EscapeAttrVal output is not a conforming attribute value (HTML tokenizer)", Input: key, Hex: h.Hex(it.val), Impl: h.Q(it.out)})
			continue
		}
		if string(parts[2]) != it.rest {
			c.R.Add(h.Finding{Stage: st.Name, Kind: "fail", What: "EscapeAttrVal output does not end where the tag continues", Input: key, Hex: h.Hex(it.val), Impl: h.Q(it.out), Model: "rest " + h.Q(parts[2])})
			continue
		}
		raws[i] = parts[1]
		lines2 = append(lines2, "spec.c03.decode "+h.Bool(true)+" "+h.Hex(parts[1]))
	}
	rep2, err := h.Eval(lines2)
	if err != nil {
		return err
	}
	k := 0
	for i, it := range items {
		if raws[i] == nil {
			continue
		}
		dout, _, _ := h.DecodeReply(rep2[k])
		k++
		din, _, _ := h.DecodeReply(rep[3*i+2])
		if !bytes.Equal(din, dout) {
			c.R.Add(h.Finding{Stage: st.Name, Kind: "fail", What: "EscapeAttrVal output decodes to a different attribute value", Input: fmt.Sprintf("EscapeAttrVal(%s,%q,%v)", h.Q(it.val), string(rune(it.q)), it.must), Hex: h.Hex(it.val), Impl: h.Q(it.out) + " decodes to " + h.Q(dout), Model: "value decodes to " + h.Q(din)})
		}
	}
	st.End()
	return nil
}

// ---------- stage: validation of the spec against independent Go decoders ----------

// c03OracleSafe: inputs on which Go's decoders are known to deviate from the standard are skipped:
// numeric references with more than 7 digits (int32 overflow in Go), `&#d` / `&#xd` with fewer than
// four bytes left at the very end (Go requires "&#." plus one more byte), `&#x` without a digit (Go: U+FFFD)
// and a single decimal digit without `;` (Go: not a reference).
func c03OracleSafe(raw []byte) bool {
	for i := 0; i+1 < len(raw); i++ {
		if raw[i] == '&' && raw[i+1] == '#' {
			if len(raw)-i <= 3 {
				return false
			}
			j := i + 2
			hex := false
			if j < len(raw) && (raw[j] == 'x' || raw[j] == 'X') {
				j++
				hex = true
			}
			d := 0
			for j < len(raw) && (raw[j] >= '0' && raw[j] <= '9' || hex && (raw[j] >= 'a' && raw[j] <= 'f' || raw[j] >= 'A' && raw[j] <= 'F')) {
				j++
				d++
			}
			if d > 7 || hex && d == 0 || !hex && d == 1 && (j >= len(raw) || raw[j] != ';') {
				return false
			}
		}
	}
	return true
}

func c03XnetAttr(raw []byte) (string, bool) {
	doc := append(append([]byte(`<a t="`), raw...), `">`...)
	z := xhtml.NewTokenizer(bytes.NewReader(doc))
	if z.Next() != xhtml.StartTagToken {
		return "", false
	}
	t := z.Token()
	if len(t.Attr) != 1 || t.Attr[0].Key != "t" {
		return "", false
	}
	return t.Attr[0].Val, true
}

func c03StageSpecVal(c *Ctx) error {
	st := c.R.StartStage("specval", "Spec/HtmlAttr.lean decodeRefs vs Go html.UnescapeString (text context) and the x/net/html tokenizer (attribute context, CR/CRLF normalised first as the tokenizer does) on generated texts (inputs on which the Go decoders deviate from the standard — numeric references of more than 7 digits, `&#d` at end of input — are skipped and counted); non-trivial = decoding changes the bytes")
	n := c.N(30000, 600000)
	type item struct {
		attr bool
		raw  []byte
		want []byte
	}
	var items []item
	var lines []string
	skipped := 0
	for i := 0; i < n; i++ {
		r := c.Rng.Fork()
		raw := c03GenRefText(r, false)
		if bytes.IndexByte(raw, 0) >= 0 {
			continue
		}
		if !c03OracleSafe(raw) {
			skipped++
			continue
		}
		attr := r.Bool()
		var want []byte
		if attr {
			if bytes.IndexByte(raw, '"') >= 0 {
				continue
			}
			raw = c03NormNl(raw)
			v, ok := c03XnetAttr(raw)
			if !ok {
				continue
			}
			want = []byte(v)
		} else {
			want = []byte(stdhtml.UnescapeString(string(raw)))
		}
		items = append(items, item{attr, raw, want})
		lines = append(lines, "spec.c03.decode "+h.Bool(attr)+" "+h.Hex(raw))
	}
	rep, err := h.Eval(lines)
	if err != nil {
		return err
	}
	for i, it := range items {
		key := fmt.Sprintf("attr=%v %s", it.attr, h.Q(it.raw))
		st.Count(key, !bytes.Equal(it.raw, it.want))
		got, ok, msg := h.DecodeReply(rep[i])
		if !ok {
			c.R.Add(h.Finding{Stage: st.Name, Kind: "diff", What: "spec error: " + msg, Input: key})
			continue
		}
		if !bytes.Equal(got, it.want) {
			c.R.Add(h.Finding{Stage: st.Name, Kind: "diff", What: "spec.c03.decode differs from the Go reference decoder", Input: key, Hex: h.Hex(it.raw), Impl: h.Q(it.want), Model: h.Q(got)})
		}
	}
	c.R.Note("specval: %d generated inputs skipped because the Go oracle decoders deviate from the standard there", skipped)
	st.End()
	return nil
}

func init() {
	register("C03", func(c *Ctx) error {
		if err := c03StageRefs(c); err != nil {
			return err
		}
		if err := c03StageEscape(c); err != nil {
			return err
		}
		if err := c03StageSpecVal(c); err != nil {
			return err
		}
		var docs [][]byte
		var names []string
		n := c.N(1500, 40000)
		if c.Search {
			n *= 4
		}
		for i := 0; i < n; i++ {
			r := c.Rng.Fork()
			d := c03GenDoc(r, r.Chance(50))
			docs = append(docs, d)
			names = append(names, h.Q(d))
		}
		cn, cd := c03CorpusFiles(c.Repo)
		docs = append(docs, cd...)
		names = append(names, cn...)
		tn, td := c03TestInputs(c.Repo)
		xn, xd := c03ContextDocs(c)
		for _, s := range c03Regressions3 {
			xd = append(xd, []byte(s))
			xn = append(xn, "c03-regress3:"+h.Q([]byte(s)))
		}
		if err := c03StageLoop(c, append(append(append([][]byte{}, docs...), td...), xd...), append(append(append([]string{}, names...), tn...), xn...)); err != nil {
			return err
		}
		if err := c03StageDomSub(c); err != nil {
			return err
		}
		if err := c03StageRawLex(c); err != nil {
			return err
		}
		if err := c03ReplayKnown(c); err != nil {
			return err
		}
		// DOM oracle: fixed snippet corpus under all Keep* combinations, then generated + corpus documents
		var sd [][]byte
		var sn []string
		for _, s := range c03Snippets {
			sd = append(sd, []byte(s))
			sn = append(sn, h.Q([]byte(s)))
		}
		if err := c03StageDom(c, sd, sn, true); err != nil {
			return err
		}
		nd := c.N(1200, 30000)
		if nd > len(docs) {
			nd = len(docs)
		}
		dd := append(append([][]byte{}, docs[:nd]...), cd...)
		dn := append(append([]string{}, names[:nd]...), cn...)
		if err := c03StageDom(c, dd, dn, false); err != nil {
			return err
		}
		return nil
	})
}

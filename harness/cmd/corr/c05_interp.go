package main

// C05 — independent Go interpreter of SVG 1.1 path data (lexer, parser, absolute segments) with a
// float-tolerance comparison.  Written from the SVG 1.1 grammar/§8.3 only; shares nothing with the
// Lean spec or with /repo.  Used as oracle on general decimals, where /repo's float64 arithmetic
// rounds, and as a second opinion on the exact domain.

import (
	"fmt"
	"math"
	"strconv"
)

type c05Seg struct {
	t byte      // 'M','L','C','Q','A','Z'
	p []float64 // points (from, controls…, to); for 'A': from(2), rx, ry, rot, large, sweep, to(2)
}

type c05Tok struct {
	cmd  byte
	num  float64
	isNm bool
}

func c05IsCmd(c byte) bool {
	switch c {
	case 'M', 'm', 'L', 'l', 'H', 'h', 'V', 'v', 'C', 'c', 'S', 's', 'Q', 'q', 'T', 't', 'A', 'a', 'Z', 'z':
		return true
	}
	return false
}

func c05Dig(c byte) bool { return '0' <= c && c <= '9' }

// c05NumLen: longest prefix matching sign? (digit+ ("." digit*)? | "." digit+) ((e|E) sign? digit+)?
func c05NumLen(s string) int {
	i := 0
	if i < len(s) && (s[i] == '+' || s[i] == '-') {
		i++
	}
	nd := 0
	for i < len(s) && c05Dig(s[i]) {
		i++
		nd++
	}
	if i < len(s) && s[i] == '.' {
		j := i + 1
		nf := 0
		for j < len(s) && c05Dig(s[j]) {
			j++
			nf++
		}
		if nd == 0 && nf == 0 {
			return 0
		}
		i = j
	} else if nd == 0 {
		return 0
	}
	if i < len(s) && (s[i] == 'e' || s[i] == 'E') {
		j := i + 1
		if j < len(s) && (s[j] == '+' || s[j] == '-') {
			j++
		}
		k := j
		for k < len(s) && c05Dig(s[k]) {
			k++
		}
		if k > j {
			i = k
		}
	}
	return i
}

func c05Arity(c byte) int {
	switch c | 0x20 {
	case 'm', 'l', 't':
		return 2
	case 'h', 'v':
		return 1
	case 'c':
		return 6
	case 's', 'q':
		return 4
	case 'a':
		return 7
	}
	return 0
}

// c05Interp returns the absolute segments of a path data string, or an error if it is not valid path data.
func c05Interp(d string) ([]c05Seg, error) {
	// lex
	var toks []c05Tok
	cur := byte(0)
	k := 0
	for i := 0; i < len(d); {
		c := d[i]
		if c == ' ' || c == '\t' || c == '\n' || c == '\r' || c == ',' {
			i++
			continue
		}
		if c05IsCmd(c) {
			toks = append(toks, c05Tok{cmd: c})
			cur, k = c, 0
			i++
			continue
		}
		if (cur == 'A' || cur == 'a') && (k%7 == 3 || k%7 == 4) {
			if c != '0' && c != '1' {
				return nil, fmt.Errorf("bad arc flag %q at %d", c, i)
			}
			toks = append(toks, c05Tok{num: float64(c - '0'), isNm: true})
			k++
			i++
			continue
		}
		n := c05NumLen(d[i:])
		if n == 0 {
			return nil, fmt.Errorf("unexpected %q at %d", c, i)
		}
		lx := d[i : i+n]
		if lx[len(lx)-1] == '.' {
			lx = lx[:len(lx)-1]
		}
		f, err := strconv.ParseFloat(lx, 64)
		if err != nil && !math.IsInf(f, 0) && f != 0 {
			return nil, fmt.Errorf("number %q: %v", lx, err)
		}
		toks = append(toks, c05Tok{num: f, isNm: true})
		k++
		i += n
	}
	// parse + interpret
	var segs []c05Seg
	var x, y, x0, y0 float64
	var lcx, lcy, lqx, lqy float64
	hasC, hasQ := false, false
	implicit := byte(0)
	first := true
	for i := 0; i < len(toks); {
		var cmd byte
		if toks[i].isNm {
			if implicit == 0 {
				return nil, fmt.Errorf("arguments without command")
			}
			cmd = implicit
		} else {
			cmd = toks[i].cmd
			i++
		}
		if first && cmd != 'M' && cmd != 'm' {
			return nil, fmt.Errorf("path does not start with moveto")
		}
		first = false
		ar := c05Arity(cmd)
		if i+ar > len(toks) {
			return nil, fmt.Errorf("too few arguments for %c", cmd)
		}
		a := make([]float64, ar)
		for j := 0; j < ar; j++ {
			if !toks[i+j].isNm {
				return nil, fmt.Errorf("too few arguments for %c", cmd)
			}
			a[j] = toks[i+j].num
		}
		i += ar
		rel := cmd >= 'a'
		ox, oy := 0.0, 0.0
		if rel {
			ox, oy = x, y
		}
		newC, newQ := false, false
		switch cmd | 0x20 {
		case 'm':
			x, y = a[0]+ox, a[1]+oy
			x0, y0 = x, y
			segs = append(segs, c05Seg{'M', []float64{x, y}})
			implicit = 'L'
			if rel {
				implicit = 'l'
			}
		case 'l':
			nx, ny := a[0]+ox, a[1]+oy
			segs = append(segs, c05Seg{'L', []float64{x, y, nx, ny}})
			x, y = nx, ny
			implicit = cmd
		case 'h':
			nx := a[0] + ox
			segs = append(segs, c05Seg{'L', []float64{x, y, nx, y}})
			x = nx
			implicit = cmd
		case 'v':
			ny := a[0] + oy
			segs = append(segs, c05Seg{'L', []float64{x, y, x, ny}})
			y = ny
			implicit = cmd
		case 'c':
			nx, ny := a[4]+ox, a[5]+oy
			segs = append(segs, c05Seg{'C', []float64{x, y, a[0] + ox, a[1] + oy, a[2] + ox, a[3] + oy, nx, ny}})
			lcx, lcy, newC = a[2]+ox, a[3]+oy, true
			x, y = nx, ny
			implicit = cmd
		case 's':
			c1x, c1y := x, y
			if hasC {
				c1x, c1y = 2*x-lcx, 2*y-lcy
			}
			nx, ny := a[2]+ox, a[3]+oy
			segs = append(segs, c05Seg{'C', []float64{x, y, c1x, c1y, a[0] + ox, a[1] + oy, nx, ny}})
			lcx, lcy, newC = a[0]+ox, a[1]+oy, true
			x, y = nx, ny
			implicit = cmd
		case 'q':
			nx, ny := a[2]+ox, a[3]+oy
			segs = append(segs, c05Seg{'Q', []float64{x, y, a[0] + ox, a[1] + oy, nx, ny}})
			lqx, lqy, newQ = a[0]+ox, a[1]+oy, true
			x, y = nx, ny
			implicit = cmd
		case 't':
			c1x, c1y := x, y
			if hasQ {
				c1x, c1y = 2*x-lqx, 2*y-lqy
			}
			nx, ny := a[0]+ox, a[1]+oy
			segs = append(segs, c05Seg{'Q', []float64{x, y, c1x, c1y, nx, ny}})
			lqx, lqy, newQ = c1x, c1y, true
			x, y = nx, ny
			implicit = cmd
		case 'a':
			nx, ny := a[5]+ox, a[6]+oy
			segs = append(segs, c05Seg{'A', []float64{x, y, a[0], a[1], a[2], a[3], a[4], nx, ny}})
			x, y = nx, ny
			implicit = cmd
		case 'z':
			segs = append(segs, c05Seg{'Z', []float64{x, y, x0, y0}})
			x, y = x0, y0
			implicit = 0
		}
		hasC, hasQ = newC, newQ
	}
	return segs, nil
}

func c05Scale(ss ...[]c05Seg) float64 {
	m := 1.0
	for _, s := range ss {
		for _, g := range s {
			for _, v := range g.p {
				if a := math.Abs(v); a > m && !math.IsInf(a, 0) {
					m = a
				}
			}
		}
	}
	return m
}

// c05Norm drops zero-length lines (within eps), a closepath directly after a closepath, and turns
// degenerate curves (all control points within eps of the start or the end point) into lines.
func c05Norm(s []c05Seg, eps float64) []c05Seg {
	near := func(ax, ay, bx, by float64) bool { return math.Abs(ax-bx) <= eps && math.Abs(ay-by) <= eps }
	var out []c05Seg
	prevClose := false
	for _, g := range s {
		p := g.p
		switch g.t {
		case 'L':
			if near(p[0], p[1], p[2], p[3]) {
				continue
			}
		case 'C':
			c1 := near(p[2], p[3], p[0], p[1]) || near(p[2], p[3], p[6], p[7])
			c2 := near(p[4], p[5], p[0], p[1]) || near(p[4], p[5], p[6], p[7])
			if c1 && c2 {
				if near(p[0], p[1], p[6], p[7]) {
					continue
				}
				g = c05Seg{'L', []float64{p[0], p[1], p[6], p[7]}}
			}
		case 'Q':
			if near(p[2], p[3], p[0], p[1]) || near(p[2], p[3], p[4], p[5]) {
				if near(p[0], p[1], p[4], p[5]) {
					continue
				}
				g = c05Seg{'L', []float64{p[0], p[1], p[4], p[5]}}
			}
		case 'Z':
			if prevClose {
				continue
			}
		}
		prevClose = g.t == 'Z'
		out = append(out, g)
	}
	return out
}

// c05Close compares two paths geometrically with relative tolerance tol (relative to the largest coordinate).
func c05Close(in, out string, tol float64) (ok bool, why string) {
	si, err := c05Interp(in)
	if err != nil {
		return false, "input not valid path data: " + err.Error()
	}
	so, err := c05Interp(out)
	if err != nil {
		return false, "output is not valid path data: " + err.Error()
	}
	eps := tol * c05Scale(si, so)
	ni, no := c05Norm(si, eps), c05Norm(so, eps)
	if len(ni) != len(no) {
		return false, fmt.Sprintf("segment count differs: %d vs %d", len(ni), len(no))
	}
	for i := range ni {
		a, b := ni[i], no[i]
		if a.t != b.t {
			return false, fmt.Sprintf("segment %d: kind %c vs %c", i, a.t, b.t)
		}
		for j := range a.p {
			if math.Abs(a.p[j]-b.p[j]) > eps*4 && !(math.IsInf(a.p[j], 0) && a.p[j] == b.p[j]) {
				return false, fmt.Sprintf("segment %d (%c): coordinate %d differs: %.17g vs %.17g", i, a.t, j, a.p[j], b.p[j])
			}
		}
	}
	return true, ""
}
